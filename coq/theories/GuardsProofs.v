(* GuardsProofs.v — proofs about Guards.v (C20). *)
From Coq Require Import List String Ascii Bool Arith Lia.
From PV Require Import Guards.
Import ListNotations.
Open Scope string_scope.

(* =====================================================================================================
   Part 1 — the finite matrix: exhaustive sweeps (the bound is the whole domain)
   ===================================================================================================== *)
Lemma all_configs_complete : forall c, In c all_configs.
Proof.
  intros [b s v d sp ip e]. unfold all_configs.
  apply in_flat_map; exists b; split; [destruct b; cbn; tauto|].
  apply in_flat_map; exists s; split; [destruct s; cbn; tauto|].
  apply in_flat_map; exists v; split; [destruct v; cbn; tauto|].
  apply in_flat_map; exists d; split; [destruct d; cbn; tauto|].
  apply in_flat_map; exists sp; split; [destruct sp; cbn; tauto|].
  apply in_flat_map; exists ip; split; [destruct ip; cbn; tauto|].
  apply in_map_iff; exists e; split; [reflexivity|destruct e; cbn; tauto].
Qed.

Lemma sweep : forall f : config -> bool, forallb f all_configs = true -> forall c, f c = true.
Proof. intros f H c. exact (proj1 (forallb_forall f all_configs) H c (all_configs_complete c)). Qed.

Lemma all_configs_count : List.length all_configs = 1920.
Proof. vm_compute. reflexivity. Qed.

Lemma backend_eqb_eq : forall a b, backend_eqb a b = true <-> a = b.
Proof. destruct a, b; cbn; split; intros H; try reflexivity; discriminate. Qed.
Lemma solver_eqb_eq : forall a b, solver_eqb a b = true <-> a = b.
Proof. destruct a, b; cbn; split; intros H; try reflexivity; discriminate. Qed.
Lemma delay_eqb_eq : forall a b, delay_eqb a b = true <-> a = b.
Proof. destruct a, b; cbn; split; intros H; try reflexivity; discriminate. Qed.
Lemma entry_eqb_eq : forall a b, entry_eqb a b = true <-> a = b.
Proof. destruct a, b; cbn; split; intros H; try reflexivity; discriminate. Qed.
Lemma implementedb_iff : forall b s, implementedb b s = true <-> implemented b s.
Proof. destruct b, s; cbn; split; intros H; try reflexivity; try exact I; try discriminate; try contradiction. Qed.

Lemma implb_iff : forall a b, implb a b = true <-> (a = true -> b = true).
Proof.
  destruct a, b; cbn; split; intros H; try reflexivity; try discriminate; try (apply H; reflexivity);
    intros X; try discriminate; assumption.
Qed.

Lemma supportedb_iff : forall c, supportedb c = true <-> Supported c.
Proof.
  intros c. unfold supportedb, Supported, mutable_arrays, fixed_step.
  rewrite !andb_true_iff, !implb_iff. rewrite !andb_true_iff, !orb_true_iff, !negb_true_iff.
  rewrite !entry_eqb_eq, !delay_eqb_eq, !solver_eqb_eq, implementedb_iff.
  split.
  - intros [[[H1 H2] H3] H4]. repeat split.
    + exact H1.
    + intros Hv E. apply H2 in Hv. apply backend_eqb_eq in E. congruence.
    + intros Hd Hs E. assert (X : backend_eqb (be c) BJax = false) by (apply H3; tauto).
      apply backend_eqb_eq in E. congruence.
    + intros He Hs E. assert (X : backend_eqb (be c) BJax = false) by (apply H4; tauto).
      apply backend_eqb_eq in E. congruence.
  - intros [H1 [H2 [H3 H4]]]. repeat split.
    + exact H1.
    + intros Hv. destruct (backend_eqb (be c) BFortran) eqn:E; [|reflexivity].
      apply backend_eqb_eq in E. exfalso. exact (H2 Hv E).
    + intros [Hd Hs]. destruct (backend_eqb (be c) BJax) eqn:E; [|reflexivity].
      apply backend_eqb_eq in E. exfalso. exact (H3 Hd Hs E).
    + intros [He Hs]. destruct (backend_eqb (be c) BJax) eqn:E; [|reflexivity].
      apply backend_eqb_eq in E. exfalso. exact (H4 He Hs E).
Qed.

Lemma is_ok_iff : forall r, is_ok r = true <-> r = Ok.
Proof. destruct r; cbn; split; intros H; try reflexivity; discriminate. Qed.

(* the sweeps run over all 1920 configurations AND both values of the switch fixed_F6 *)
Lemma sweep2 : forall P : bool -> config -> bool,
  forallb (fun f => forallb (P f) all_configs) [false; true] = true -> forall f c, P f c = true.
Proof.
  intros P H f c.
  change (forallb (P false) all_configs && (forallb (P true) all_configs && true) = true) in H.
  rewrite !andb_true_iff in H. destruct H as [H0 [H1 _]].
  destruct f; [exact (sweep _ H1 c) | exact (sweep _ H0 c)].
Qed.
(* every accepted configuration is supported, and nothing supported is refused *)
Lemma accepts_sweep : forallb (fun f => forallb (fun c =>
  implb (g6 f c) (Bool.eqb (is_ok (accepts_gen f c)) (supportedb c))) all_configs) [false; true] = true.
Proof. vm_compute. reflexivity. Qed.
Lemma supported_accepted_sweep : forallb (fun f => forallb (fun c =>
  implb (supportedb c) (is_ok (accepts_gen f c))) all_configs) [false; true] = true.
Proof. vm_compute. reflexivity. Qed.
Lemma outcome_sweep : forallb (fun f => forallb (fun c =>
  implb (is_ok (outcome_gen f c)) (is_ok (accepts_gen f c))) all_configs) [false; true] = true.
Proof. vm_compute. reflexivity. Qed.
Lemma outcome_class_sweep : forallb (fun f => forallb (fun c =>
  match accepts_gen f c with Ok => true | r => crash_gen c || result_eqb (outcome_gen f c) r end) all_configs) [false; true] = true.
Proof. vm_compute. reflexivity. Qed.
Lemma nowarn_sweep : forallb (fun f => forallb (fun c =>
  negb (result_eqb (outcome_gen f c) Warn) && negb (result_eqb (accepts_gen f c) Warn)) all_configs) [false; true] = true.
Proof. vm_compute. reflexivity. Qed.
Lemma dispatch_sweep : forallb (fun f => forallb (fun c =>
  implb (is_ok (accepts_gen f c) && entry_eqb (en c) ERun)
        (match named_method (so c) with
         | Some m => match m, solve_dispatch (be c) (so c) with
                     | MEuler, MEuler | MHeun, MHeun | MScipy, MScipy | MDiffrax, MDiffrax => true
                     | _, _ => false end
         | None => false end)) all_configs) [false; true] = true.
Proof. vm_compute. reflexivity. Qed.

Theorem accepts_gen_iff_supported : forall f c, g6 f c = true -> (accepts_gen f c = Ok <-> Supported c).
Proof.
  intros f c G. rewrite <- supportedb_iff, <- is_ok_iff.
  pose proof (sweep2 _ accepts_sweep f c) as H. cbn beta in H. rewrite G in H. cbn in H.
  apply eqb_prop in H. rewrite H. tauto.
Qed.
(* the guards of the code selected by the switch fixed_F6 accept exactly the supported configurations, for every
   configuration whose solver is validated at its entry point (run), or all of them once F6 is repaired *)
Theorem accepts_iff_supported : forall c, g6 fixed_F6 c = true -> (accepts c = Ok <-> Supported c).
Proof. intros c. apply accepts_gen_iff_supported. Qed.
(* nothing supported is refused (no guard needed) *)
Theorem supported_is_accepted : forall c, Supported c -> accepts c = Ok.
Proof.
  intros c H. apply supportedb_iff in H. pose proof (sweep2 _ supported_accepted_sweep fixed_F6 c) as S.
  cbn beta in S. rewrite H in S. apply is_ok_iff. exact S.
Qed.

Theorem outcome_ok_accepts : forall c, outcome c = Ok -> accepts c = Ok.
Proof.
  intros c H. pose proof (sweep2 _ outcome_sweep fixed_F6 c) as S. cbn beta in S.
  unfold outcome in H. rewrite H in S. cbn in S. apply is_ok_iff. exact S.
Qed.

Theorem outcome_ok_supported : forall c, g6 fixed_F6 c = true -> outcome c = Ok -> Supported c.
Proof. intros c G H. apply (accepts_iff_supported c G), outcome_ok_accepts, H. Qed.

(* a guard that fires is what the caller sees (same exception class), unless code generation itself crashed first
   (Fortran: f2py fails before `_solve` validates the solver) *)
Theorem guard_error_surfaces : forall c e, accepts c = Err e -> crash_gen c = false -> outcome c = Err e.
Proof.
  intros c e H NC. pose proof (sweep2 _ outcome_class_sweep fixed_F6 c) as S. cbn beta in S.
  unfold accepts in H. unfold outcome. rewrite H, NC in S.
  destruct (outcome_gen fixed_F6 c) as [| |e']; cbn in S; try discriminate.
  destruct e, e'; cbn in S; try discriminate; reflexivity.
Qed.

Lemma outcome_not_warn : forall c, outcome c <> Warn.
Proof.
  intros c H. pose proof (sweep2 _ nowarn_sweep fixed_F6 c) as S. cbn beta in S.
  unfold outcome in H. rewrite H in S. discriminate.
Qed.
Lemma accepts_not_warn : forall c, accepts c <> Warn.
Proof.
  intros c H. pose proof (sweep2 _ nowarn_sweep fixed_F6 c) as S. cbn beta in S.
  unfold accepts in H. rewrite H, andb_false_r in S. discriminate.
Qed.

(* a validated solver name never falls through the if-chain of _solve *)
Theorem validated_solver_dispatch : forall c, accepts c = Ok -> en c = ERun ->
  named_method (so c) = Some (solve_dispatch (be c) (so c)).
Proof.
  intros c H E. pose proof (sweep2 _ dispatch_sweep fixed_F6 c) as S. cbn beta in S.
  unfold accepts in H. rewrite H, E in S. cbn in S.
  destruct (named_method (so c)) as [m|]; [|discriminate].
  destruct m, (solve_dispatch (be c) (so c)); try discriminate; reflexivity.
Qed.
(* ... and without the validation it does (what the guard is for) *)
Theorem unvalidated_solver_falls_through :
  solve_dispatch BDefault SOther = MScipy /\ solve_dispatch BDefault SDiffrax = MScipy /\
  solve_dispatch BJax SOther = MHeun /\ solve_dispatch BTorch SHeun = MHeun.
Proof. repeat split. Qed.

(* =====================================================================================================
   Part 2 — names
   ===================================================================================================== *)
Lemma prefixb_spec : forall p s, prefixb p s = true <-> exists suf, s = p ++ suf.
Proof.
  induction p as [|a p IH]; intros s; cbn.
  - split; [intros _; exists s; reflexivity | reflexivity].
  - destruct s as [|b s'].
    + split; [discriminate | intros [suf H]; discriminate].
    + rewrite andb_true_iff, Ascii.eqb_eq, IH. split.
      * intros [-> [suf ->]]. exists suf. reflexivity.
      * intros [suf H]. injection H as -> ->. split; [reflexivity | exists suf; reflexivity].
Qed.

Lemma containsb_spec : forall p s, containsb p s = true <-> exists pre suf, s = pre ++ p ++ suf.
Proof.
  intros p. induction s as [|a s IH].
  - cbn. rewrite orb_false_r, prefixb_spec. split.
    + intros [suf H]. exists "", suf. exact H.
    + intros [pre [suf H]]. destruct pre; cbn in H; [exists suf; exact H | discriminate].
  - cbn [containsb]. rewrite orb_true_iff, prefixb_spec, IH. split.
    + intros [[suf H] | [pre [suf H]]].
      * exists "", suf. exact H.
      * exists (String a pre), suf. cbn. rewrite H. reflexivity.
    + intros [pre [suf H]]. destruct pre as [|b pre].
      * left. exists suf. exact H.
      * right. cbn in H. injection H as _ H. exists pre, suf. exact H.
Qed.

Lemma mem_In : forall x l, mem x l = true <-> In x l.
Proof.
  intros x l. unfold mem. rewrite existsb_exists. split.
  - intros [y [Hy E]]. apply String.eqb_eq in E. subst. exact Hy.
  - intros H. exists x. split; [exact H | apply String.eqb_refl].
Qed.
Lemma mem_false : forall x l, mem x l = false <-> ~ In x l.
Proof.
  intros x l. rewrite <- mem_In. destruct (mem x l); split; intros H; try reflexivity; try discriminate.
  exfalso. apply H. reflexivity.
Qed.

Lemma parts_spec : forall v, existsb (fun p => containsb p v) disallowed_name_parts = true <->
  exists p pre suf, In p disallowed_name_parts /\ v = pre ++ p ++ suf.
Proof.
  intros v. rewrite existsb_exists. split.
  - intros [p [Hp C]]. apply containsb_spec in C. destruct C as [pre [suf E]]. exists p, pre, suf. tauto.
  - intros [p [pre [suf [Hp E]]]]. exists p. split; [exact Hp|]. apply containsb_spec. exists pre, suf. exact E.
Qed.

(* for EVERY string: rejected exactly when it is a reserved name or contains a reserved part *)
Theorem check_vname_rejects_iff : forall v, check_vname v = Err EPyRates <-> Reserved v.
Proof.
  intros v. unfold check_vname, Reserved.
  destruct (mem v disallowed_names) eqn:M.
  - split; [intros _; left; apply mem_In; exact M | reflexivity].
  - destruct (existsb (fun p => containsb p v) disallowed_name_parts) eqn:P.
    + split; [intros _; right; apply parts_spec; exact P | reflexivity].
    + split; [discriminate|]. intros [H | H].
      * apply mem_In in H. congruence.
      * apply parts_spec in H. congruence.
Qed.
Lemma check_vname_cases : forall v, check_vname v = Ok \/ check_vname v = Err EPyRates.
Proof.
  intros v. unfold check_vname. destruct (mem v disallowed_names); [right; reflexivity|].
  destruct (existsb _ _); [right | left]; reflexivity.
Qed.
Theorem check_vname_ok_iff : forall v, check_vname v = Ok <-> ~ Reserved v.
Proof.
  intros v. rewrite <- check_vname_rejects_iff. destruct (check_vname_cases v) as [H | H]; rewrite H; split; intros X;
    try reflexivity; try discriminate. exfalso. apply X. reflexivity.
Qed.

(* ---- declarations of an operator ---- *)
Lemma count_outputs_cons : forall d r, count_outputs (d :: r) = (if is_output d then 1 else 0) + count_outputs r.
Proof. intros d r. unfold count_outputs. cbn [filter]. destruct (is_output d); reflexivity. Qed.

Lemma scan_vars_gen : forall vars h, scan_vars vars h = Ok <->
  (forall n t, In (n, t) vars -> ~ Reserved n) /\ count_outputs vars + (if h then 1 else 0) <= 1.
Proof.
  induction vars as [|[n t] r IH]; intros h.
  - cbn. split; [intros _; split; [intros ? ? []| destruct h; cbn; lia] | reflexivity].
  - cbn [scan_vars]. rewrite count_outputs_cons. unfold is_output. cbn [snd].
    destruct (check_vname_cases n) as [C | C]; rewrite C.
    + assert (NR : ~ Reserved n) by (apply check_vname_ok_iff; exact C).
      assert (A : forall P : Prop, ((forall n0 t0, In (n0, t0) ((n, t) :: r) -> ~ Reserved n0) /\ P) <->
                                   ((forall n0 t0, In (n0, t0) r -> ~ Reserved n0) /\ P)).
      { intros P. split; intros [H1 H2]; split; try exact H2.
        - intros n0 t0 Hin. apply (H1 n0 t0). right. exact Hin.
        - intros n0 t0 [E | Hin]; [injection E as <- <-; exact NR | apply (H1 n0 t0 Hin)]. }
      rewrite A. destruct t.
      * rewrite IH. cbn. tauto.
      * destruct h.
        -- split; [discriminate | intros [_ H]; cbn in H; lia].
        -- rewrite IH. cbn. split; intros [H1 H2]; split; try exact H1; lia.
      * rewrite IH. cbn. tauto.
    + split; [discriminate|]. intros [H _]. exfalso. apply (H n t); [left; reflexivity|].
      apply check_vname_rejects_iff. exact C.
Qed.

Theorem scan_vars_ok_iff : forall vars, scan_vars vars false = Ok <->
  (forall n t, In (n, t) vars -> ~ Reserved n) /\ count_outputs vars <= 1.
Proof. intros vars. rewrite scan_vars_gen. cbn. rewrite Nat.add_0_r. tauto. Qed.

(* more than one `output` in an operator => PyRatesException (for any number of declarations, in any order) *)
Lemma scan_vars_err_class : forall vars h, scan_vars vars h = Ok \/ scan_vars vars h = Err EPyRates.
Proof.
  induction vars as [|[n t] r IH]; intros h; cbn; [left; reflexivity|].
  destruct (check_vname_cases n) as [C | C]; rewrite C; [|right; reflexivity].
  destruct t; try apply IH. destruct h; [right; reflexivity | apply IH].
Qed.
Theorem two_outputs_rejected : forall vars, 2 <= count_outputs vars -> scan_vars vars false = Err EPyRates.
Proof.
  intros vars H. destruct (scan_vars_err_class vars false) as [X | X]; [|exact X].
  apply scan_vars_ok_iff in X. lia.
Qed.
Theorem reserved_declaration_rejected : forall vars n t, In (n, t) vars -> Reserved n ->
  scan_vars vars false = Err EPyRates.
Proof.
  intros vars n t Hin R. destruct (scan_vars_err_class vars false) as [X | X]; [|exact X].
  apply scan_vars_ok_iff in X. exfalso. exact (proj1 X n t Hin R).
Qed.

Theorem check_equation_ok_iff : forall d u, check_equation d u = Ok <-> forall x, In x u -> In x d.
Proof.
  intros d u. unfold check_equation. destruct (forallb (fun x => mem x d) u) eqn:F.
  - split; [|reflexivity]. intros _ x Hx. apply mem_In. exact (proj1 (forallb_forall _ _) F x Hx).
  - split; [discriminate|]. intros H. exfalso.
    assert (forallb (fun x => mem x d) u = true) by (apply forallb_forall; intros x Hx; apply mem_In, H, Hx). congruence.
Qed.
Theorem undeclared_variable_rejected : forall d u x, In x u -> ~ In x d -> check_equation d u = Err EOther.
Proof.
  intros d u x Hu Hd. unfold check_equation. destruct (forallb (fun x => mem x d) u) eqn:F; [|reflexivity].
  exfalso. apply Hd, mem_In. exact (proj1 (forallb_forall _ _) F x Hu).
Qed.

Lemma leftovers_nil_iff : forall ns us, leftovers ns us = [] <-> forall o v, In (o, v) us -> In o ns.
Proof.
  intros ns us. unfold leftovers. induction us as [|[o v] r IH]; cbn.
  - split; [intros _ ? ? [] | reflexivity].
  - destruct (mem o ns) eqn:M; cbn.
    + rewrite IH. split.
      * intros H o' v' [E | Hin]; [injection E as <- <-; apply mem_In, M | exact (H o' v' Hin)].
      * intros H o' v' Hin. apply (H o' v'). right. exact Hin.
    + split; [discriminate|]. intros H. exfalso. apply mem_false in M. apply M, (H o v). left. reflexivity.
Qed.
Theorem node_apply_ok_iff : forall ns us, node_apply ns us = Ok <-> forall o v, In (o, v) us -> In o ns.
Proof.
  intros ns us. rewrite <- leftovers_nil_iff. unfold node_apply. destruct (leftovers ns us); split; intros H;
    try reflexivity; discriminate.
Qed.
(* a node-level value for an operator the node does not have => PyRatesException *)
Theorem leftover_value_rejected : forall ns us o v, In (o, v) us -> ~ In o ns -> node_apply ns us = Err EPyRates.
Proof.
  intros ns us o v Hin Hno. unfold node_apply. destruct (leftovers ns us) eqn:L; [|reflexivity].
  exfalso. apply Hno. exact (proj1 (leftovers_nil_iff ns us) L o v Hin).
Qed.

(* =====================================================================================================
   Part 3 — networks and paths
   ===================================================================================================== *)
Local Open Scope list_scope.
Lemma lookup_In : forall A (l : list (string * A)) k a, NoDup (map fst l) -> (lookup k l = Some a <-> In (k, a) l).
Proof.
  intros A. induction l as [|[k' a'] r IH]; intros k a ND; cbn.
  - split; [discriminate | intros []].
  - cbn in ND. inversion ND as [|? ? Hnot ND']; subst.
    destruct (String.eqb k k') eqn:E.
    + apply String.eqb_eq in E. subst k'. split.
      * intros H. injection H as ->. left. reflexivity.
      * intros [H | H]; [injection H as ->; reflexivity|]. exfalso. apply Hnot. apply in_map_iff. exists (k, a). tauto.
    + apply String.eqb_neq in E. rewrite (IH k a ND'). split.
      * intros H. right. exact H.
      * intros [H | H]; [injection H as -> _; congruence | exact H].
Qed.
Lemma lookup_some_In : forall A (l : list (string * A)) k a, lookup k l = Some a -> In (k, a) l.
Proof.
  intros A. induction l as [|[k' a'] r IH]; intros k a; cbn; [discriminate|].
  destruct (String.eqb k k') eqn:E.
  - apply String.eqb_eq in E. subst. intros H. injection H as ->. left. reflexivity.
  - intros H. right. apply IH, H.
Qed.

Lemma nodupb_NoDup : forall l, nodupb l = true -> NoDup l.
Proof.
  induction l as [|x r IH]; cbn; intros H; [constructor|].
  apply andb_true_iff in H. destruct H as [H1 H2]. apply negb_true_iff, mem_false in H1.
  constructor; [exact H1 | apply IH, H2].
Qed.
Lemma wf_netb_WF : forall net, wf_netb net = true -> WFnet net.
Proof.
  intros net H. unfold wf_netb in H. apply andb_true_iff in H. destruct H as [H1 H2]. split.
  - apply nodupb_NoDup, H1.
  - intros n ops Hin. apply nodupb_NoDup. exact (proj1 (forallb_forall _ _) H2 (n, ops) Hin).
Qed.

Lemma presentb_iff : forall net p, WFnet net -> (presentb net p = true <-> Present net p).
Proof.
  intros net p [ND NDops]. destruct p as [|n [|o [|v [|x r]]]]; cbn.
  - split; [discriminate | intros []].
  - destruct (lookup n net) as [ops|] eqn:L.
    + split; [intros _; exists ops; apply lookup_some_In, L | reflexivity].
    + split; [discriminate|]. intros [ops H]. apply (lookup_In _ _ _ _ ND) in H. congruence.
  - destruct (lookup n net) as [ops|] eqn:L.
    + pose proof (NDops n ops (lookup_some_In _ _ _ _ L)) as NDo.
      destruct (lookup o ops) as [vars|] eqn:L2.
      * split; [intros _; exists ops, vars; split; apply lookup_some_In; assumption | reflexivity].
      * split; [discriminate|]. intros [ops' [vars [H1 H2]]].
        apply (lookup_In _ _ _ _ ND) in H1. rewrite L in H1. injection H1 as <-.
        apply (lookup_In _ _ _ _ NDo) in H2. congruence.
    + split; [discriminate|]. intros [ops [vars [H _]]]. apply (lookup_In _ _ _ _ ND) in H. congruence.
  - destruct (lookup n net) as [ops|] eqn:L.
    + pose proof (NDops n ops (lookup_some_In _ _ _ _ L)) as NDo.
      destruct (lookup o ops) as [vars|] eqn:L2.
      * rewrite mem_In. split.
        -- intros H. exists ops, vars. repeat split; try (apply lookup_some_In; assumption). exact H.
        -- intros [ops' [vars' [H1 [H2 H3]]]].
           apply (lookup_In _ _ _ _ ND) in H1. rewrite L in H1. injection H1 as <-.
           apply (lookup_In _ _ _ _ NDo) in H2. rewrite L2 in H2. injection H2 as <-. exact H3.
      * split; [discriminate|]. intros [ops' [vars [H1 [H2 _]]]].
        apply (lookup_In _ _ _ _ ND) in H1. rewrite L in H1. injection H1 as <-.
        apply (lookup_In _ _ _ _ NDo) in H2. congruence.
    + split; [discriminate|]. intros [ops [vars [H _]]]. apply (lookup_In _ _ _ _ ND) in H. congruence.
  - split; [discriminate | intros []].
Qed.

Lemma path3b_iff : forall net p, WFnet net -> (path3b net p = true <-> Path3 net p).
Proof.
  intros net p W. unfold path3b, Path3. rewrite andb_true_iff, (presentb_iff net p W), Nat.eqb_eq. tauto.
Qed.

(* _verify_path: for any network and any path none of whose components is an attribute name of the circuit
   object, the path is accepted iff it names a node / operator / variable that is present *)
Lemma key_fallback_guarded : forall fixed attrs k, fixed || negb (mem k attrs) = true ->
  key_fallback fixed attrs k = Err EPyRates.
Proof.
  intros fixed attrs k H. unfold key_fallback. destruct fixed; [reflexivity|]. cbn in *.
  apply negb_true_iff in H. rewrite H. reflexivity.
Qed.

Lemma verify_path_presentb : forall fixed attrs net p, fixed || forallb (fun k => negb (mem k attrs)) p = true ->
  (verify_path_gen fixed attrs net p = Ok <-> presentb net p = true).
Proof.
  intros fixed attrs net p G.
  assert (GF : forall k, In k p -> key_fallback fixed attrs k = Err EPyRates).
  { intros k Hk. apply key_fallback_guarded. destruct fixed; [reflexivity|]. cbn in *.
    exact (proj1 (forallb_forall _ _) G k Hk). }
  destruct p as [|n [|o [|v [|x r]]]]; cbn.
  - split; discriminate.
  - destruct (lookup n net); [tauto|]. rewrite GF by (cbn; tauto). split; discriminate.
  - destruct (lookup n net) as [ops|]; [|rewrite GF by (cbn; tauto); split; discriminate].
    destruct (lookup o ops); [tauto|]. rewrite GF by (cbn; tauto). split; discriminate.
  - destruct (lookup n net) as [ops|]; [|rewrite GF by (cbn; tauto); split; discriminate].
    destruct (lookup o ops) as [vars|]; [|rewrite GF by (cbn; tauto); split; discriminate].
    destruct (mem v vars); [tauto|]. rewrite GF by (cbn; tauto). split; discriminate.
  - destruct (lookup n net) as [ops|]; [|rewrite GF by (cbn; tauto); split; discriminate].
    destruct (lookup o ops) as [vars|]; [|rewrite GF by (cbn; tauto); split; discriminate].
    destruct (mem v vars); [split; discriminate|]. rewrite GF by (cbn; tauto). split; discriminate.
Qed.

Theorem verify_path_gen_partial : forall fixed attrs net p, WFnet net ->
  fixed || forallb (fun k => negb (mem k attrs)) p = true ->
  (verify_path_gen fixed attrs net p = Ok <-> Present net p).
Proof. intros fixed attrs net p W G. rewrite (verify_path_presentb fixed attrs net p G). apply presentb_iff, W. Qed.

(* the model of the code selected by the switch fixed_F3 *)
Theorem verify_path_partial : forall attrs net p, WFnet net ->
  fixed_F3 || forallb (fun k => negb (mem k attrs)) p = true ->
  (verify_path attrs net p = Ok <-> Present net p).
Proof. intros attrs net p. apply verify_path_gen_partial. Qed.

(* with the proposed repair the statement holds without any guard *)
Theorem verify_path_repaired_full : forall attrs net p, WFnet net ->
  (verify_path_gen true attrs net p = Ok <-> Present net p).
Proof. intros attrs net p W. apply verify_path_gen_partial; [exact W | reflexivity]. Qed.

(* the code as it is (attribute fallback) *)
Definition verify_path_full_statement : Prop :=
  forall attrs net p, WFnet net -> (verify_path_gen false attrs net p = Ok <-> Present net p).
(* witness: the misspelt variable `vx` of an operator that happens to be called `label` *)
Definition F3_net : network := [("a", [("label", ["v"])])].
Definition F3_path : path := ["a"; "label"; "vx"].
Theorem verify_path_refuted : ~ verify_path_full_statement.
Proof.
  intros H. specialize (H ["label"] F3_net F3_path).
  assert (W : WFnet F3_net) by (apply wf_netb_WF; vm_compute; reflexivity).
  destruct (H W) as [H1 _]. assert (X : verify_path_gen false ["label"] F3_net F3_path = Ok) by (vm_compute; reflexivity).
  specialize (H1 X). cbn in H1. destruct H1 as [ops [vars [Ha [Ho Hv]]]].
  destruct Ha as [Ha | []]. injection Ha as <-. destruct Ho as [Ho | []]. injection Ho as <-.
  destruct Hv as [Hv | []]. discriminate.
Qed.

(* ---- frontend resolution of edge endpoints, inputs, parameter updates, outputs, node-level values ---- *)
Theorem edge_endpoint_ok_iff : forall net p, WFnet net -> (edge_endpoint net p = Ok <-> Path3 net p).
Proof.
  intros net p W. rewrite <- (path3b_iff net p W). unfold edge_endpoint, path3b.
  destruct (presentb net p && Nat.eqb (List.length p) 3); split; intros H; try reflexivity; discriminate.
Qed.
Theorem add_input_ok_iff : forall net p, WFnet net -> (add_input net p = Ok <-> Path3 net p).
Proof.
  intros net p W. rewrite <- (path3b_iff net p W). unfold add_input, path3b.
  destruct (presentb net p && Nat.eqb (List.length p) 3); split; intros H; try reflexivity; discriminate.
Qed.
Theorem add_input_missing_warns : forall net p, WFnet net -> ~ Path3 net p -> add_input net p = Warn.
Proof.
  intros net p W H. rewrite <- (path3b_iff net p W) in H. unfold add_input. fold (path3b net p).
  destruct (path3b net p); [exfalso; apply H; reflexivity | reflexivity].
Qed.
Theorem update_var_missing_warns : forall net p, WFnet net -> ~ Path3 net p -> update_var net p = Warn.
Proof. exact add_input_missing_warns. Qed.
(* what fix D13 repaired *)
Theorem add_input_before_D13_silent : exists net p, WFnet net /\ ~ Path3 net p /\ add_input_before_D13 net p = Ok.
Proof.
  exists [], ["a"; "o"; "v"]. split; [apply wf_netb_WF; reflexivity|]. split; [|reflexivity].
  intros [[ops [vars [[] _]]] _].
Qed.

Lemma filter_nil_iff : forall A (f : A -> bool) l, filter f l = [] <-> forall x, In x l -> f x = false.
Proof.
  intros A f. induction l as [|a r IH]; cbn.
  - split; [intros _ ? [] | reflexivity].
  - destruct (f a) eqn:E.
    + split; [discriminate|]. intros H. specialize (H a (or_introl eq_refl)). congruence.
    + rewrite IH. split.
      * intros H x [<- | Hx]; [exact E | apply H, Hx].
      * intros H x Hx. apply H. right. exact Hx.
Qed.

Theorem resolve_outputs_ok_iff : forall net outs, WFnet net ->
  (resolve_outputs net outs = Ok <-> forall o, In o outs -> Path3 net o).
Proof.
  intros net outs W. unfold resolve_outputs. fold (path3b net).
  destruct (forallb (path3b net) outs) eqn:F.
  - split; [|reflexivity]. intros _ o Ho. apply (path3b_iff net o W). exact (proj1 (forallb_forall _ _) F o Ho).
  - split; [discriminate|]. intros H. exfalso.
    assert (X : forallb (path3b net) outs = true).
    { apply forallb_forall. intros o Ho. apply (path3b_iff net o W), H, Ho. }
    congruence.
Qed.
Theorem missing_output_raises : forall net outs o, WFnet net -> In o outs -> ~ Path3 net o ->
  resolve_outputs net outs = Err EPyRates.
Proof.
  intros net outs o W Ho N. unfold resolve_outputs. fold (path3b net).
  destruct (forallb (path3b net) outs) eqn:F; [|reflexivity].
  exfalso. apply N, (path3b_iff net o W). exact (proj1 (forallb_forall _ _) F o Ho).
Qed.
(* what fix D48 repaired: one of two requested outputs misspelt, dropped silently *)
Definition F1_net : network := [("p1", [("oa", ["r"])]); ("p2", [("oa", ["r"])])].
Theorem outputs_before_D48_silent : exists net outs o, WFnet net /\ In o outs /\ ~ Path3 net o /\
  resolve_outputs_before_D48 net outs = Ok.
Proof.
  exists F1_net, [["p1x"; "oa"; "r"]; ["p2"; "oa"; "r"]], ["p1x"; "oa"; "r"].
  assert (W : WFnet F1_net) by (apply wf_netb_WF; vm_compute; reflexivity).
  split; [exact W|]. split; [left; reflexivity|]. split; [|vm_compute; reflexivity].
  intros H. apply (path3b_iff _ _ W) in H. vm_compute in H. discriminate.
Qed.

Lemma first_failure_ok : forall rs, first_failure rs = Ok <-> forall r, In r rs -> r = Ok.
Proof.
  induction rs as [|r rest IH]; cbn.
  - split; [intros _ ? [] | reflexivity].
  - destruct r; cbn.
    + rewrite IH. split; [intros H r [<- | Hr]; [reflexivity | apply H, Hr] | intros H r Hr; apply H; right; exact Hr].
    + split; [discriminate | intros H; apply H; left; reflexivity].
    + split; [discriminate | intros H; apply H; left; reflexivity].
Qed.
Lemma first_failure_not_warn : forall rs, (forall r, In r rs -> r <> Warn) -> first_failure rs <> Warn.
Proof.
  induction rs as [|r rest IH]; cbn; intros H; [discriminate|].
  destruct r; cbn.
  - apply IH. intros r Hr. apply H. right. exact Hr.
  - exfalso. apply (H Warn); [left; reflexivity | reflexivity].
  - discriminate.
Qed.
Lemma node_value_on_not_warn : forall o v ops, node_value_on o v ops <> Warn.
Proof. intros o v ops. unfold node_value_on. destruct (lookup o ops); [destruct (mem v l)|]; discriminate. Qed.
Lemma node_value_on_ok : forall o v (ops : list opd), node_value_on o v ops = Ok ->
  exists vars, In (o, vars) ops /\ In v vars.
Proof.
  intros o v ops H. unfold node_value_on in H. destruct (lookup o ops) as [vars|] eqn:L; [|discriminate].
  destruct (mem v vars) eqn:M; [|discriminate]. exists vars. split; [apply lookup_some_In, L | apply mem_In, M].
Qed.

Theorem node_value_ok_target : forall net p, node_value net p = Ok -> NodeValueTarget net p.
Proof.
  intros net p H. destruct p as [|n [|o [|v [|x r]]]]; try discriminate.
  unfold node_value in H. unfold NodeValueTarget. unfold node_targets in H.
  destruct (String.eqb n "all").
  - destruct net as [|[m ops] net']; [discriminate|]. cbn [map snd] in H.
    apply first_failure_ok with (r := node_value_on o v ops) in H; [|left; reflexivity].
    destruct (node_value_on_ok o v ops H) as [vars [Ho Hv]].
    exists m. split; [|reflexivity]. exists ops, vars. split; [left; reflexivity | tauto].
  - destruct (lookup n net) as [ops|] eqn:L; [|discriminate]. cbn in H.
    destruct (node_value_on o v ops) eqn:E; try discriminate.
    destruct (node_value_on_ok o v ops E) as [vars [Ho Hv]].
    split; [|reflexivity]. exists ops, vars. split; [apply lookup_some_In, L | tauto].
Qed.
Lemma node_value_warn_suffices : forall net p, node_value net p = Warn -> warn_suffices (PNodeValue net p) = true.
Proof.
  intros net p H. destruct p as [|n [|o [|v [|x r]]]]; try discriminate.
  cbn. unfold node_value in H. destruct (node_targets net n) as [|t ts] eqn:T; [reflexivity|].
  exfalso. revert H. apply first_failure_not_warn. intros r Hr. apply in_map_iff in Hr.
  destruct Hr as [ops [<- _]]. apply node_value_on_not_warn.
Qed.
(* an operator that does not exist on the addressed node => PyRatesException *)
Theorem node_value_missing_operator : forall (net : network) n o v (ops : list opd), String.eqb n "all" = false ->
  lookup n net = Some ops -> lookup o ops = None -> node_value net [n; o; v] = Err EPyRates.
Proof.
  intros net n o v ops NA H1 H2. unfold node_value, node_targets. rewrite NA, H1. cbn.
  unfold node_value_on. rewrite H2. reflexivity.
Qed.
(* a broadcast whose operator no node has => PyRatesException (first node) *)
Theorem node_value_broadcast_missing_operator : forall (net : network) m ops rest o v,
  net = (m, ops) :: rest -> lookup o ops = None -> node_value net ["all"; o; v] = Err EPyRates.
Proof.
  intros net m ops rest o v -> H. unfold node_value, node_targets. cbn.
  unfold node_value_on at 1. rewrite H. reflexivity.
Qed.
(* a node that does not exist => warning (fix D49); before the fix: silence *)
Theorem node_value_unknown_node_warns : forall (net : network) n o v, String.eqb n "all" = false ->
  lookup n net = None -> node_value net [n; o; v] = Warn /\ node_value_before_D49 net [n; o; v] = Ok.
Proof.
  intros net n o v NA H. unfold node_value, node_value_before_D49, node_targets. rewrite NA, H. split; reflexivity.
Qed.

Lemma node_value_targetb_iff : forall net p, WFnet net -> (node_value_targetb net p = true <-> NodeValueTarget net p).
Proof.
  intros net p W. destruct p as [|n [|o [|v [|x r]]]]; cbn; try (split; [discriminate | intros []]).
  destruct (String.eqb n "all").
  - rewrite existsb_exists. split.
    + intros [[m ops] [Hin H]]. exists m. apply (path3b_iff net _ W). exact H.
    + intros [m H]. pose proof H as [[ops [vars [Hin _]]] _].
      exists (m, ops). split; [exact Hin|]. apply (path3b_iff net _ W). exact H.
  - apply (path3b_iff net [n; o; v] W).
Qed.

(* =====================================================================================================
   Part 4 — operator graph: elimination order, cycles
   ===================================================================================================== *)
Lemma in_remove_incl : forall (l : list string) v x, In x (remove string_dec v l) -> In x l.
Proof. intros l v x H. apply in_remove in H. tauto. Qed.

(* the order respects the dependencies: when an operator is emitted, each of its predecessors has been emitted *)
Lemma kahn_order : forall nodes edges fuel rem l emitted,
  kahn fuel edges rem = Some l ->
  (forall x, In x nodes -> In x rem \/ In x emitted) ->
  forall pre v post, l = pre ++ v :: post -> forall u, In (u, v) edges -> In u nodes -> In u (emitted ++ pre).
Proof.
  intros nodes edges. induction fuel as [|f IH]; intros rem l emitted K Cover pre v post E u Hu Hn.
  - destruct rem; cbn in K; [|discriminate]. injection K as <-. destruct pre; discriminate.
  - destruct rem as [|r0 rem0]; [cbn in K; injection K as <-; destruct pre; discriminate|].
    cbn [kahn] in K. set (rem := r0 :: rem0) in *.
    destruct (find (ready edges rem) rem) as [w|] eqn:F; [|discriminate].
    destruct (kahn f edges (remove string_dec w rem)) as [l'|] eqn:K'; [|discriminate].
    cbn in K. injection K as <-.
    apply find_some in F. destruct F as [Hw Rw].
    assert (Cover' : forall x, In x nodes -> In x (remove string_dec w rem) \/ In x (emitted ++ [w])).
    { intros x Hx. destruct (string_dec x w) as [-> | Ne].
      - right. apply in_or_app. right. left. reflexivity.
      - destruct (Cover x Hx) as [H | H]; [left; apply in_in_remove; assumption | right; apply in_or_app; left; exact H]. }
    destruct pre as [|p0 pre'].
    + cbn in E. injection E as <- _. rewrite app_nil_r.
      destruct (Cover u Hn) as [H | H]; [|exact H]. exfalso.
      unfold ready in Rw. apply negb_true_iff in Rw.
      assert (X : existsb (fun e => String.eqb (snd e) w && mem (fst e) rem) edges = true).
      { apply existsb_exists. exists (u, w). split; [exact Hu|]. cbn [fst snd]. rewrite String.eqb_refl. cbn [andb]. apply mem_In, H. }
      congruence.
    + cbn in E. injection E as <- E.
      pose proof (IH _ _ _ K' Cover' pre' v post E u Hu Hn) as R.
      rewrite <- app_assoc in R. exact R.
Qed.

Theorem toposort_respects_dependencies : forall nodes edges l, toposort nodes edges = Some l ->
  forall pre v post, l = pre ++ v :: post -> forall u, In (u, v) edges -> In u nodes -> In u pre.
Proof.
  intros nodes edges l K pre v post E u Hu Hn.
  apply (kahn_order nodes edges _ _ _ [] K (fun x Hx => or_introl Hx) pre v post E u Hu Hn).
Qed.

(* a cyclic set is never eliminated: cyclic operator graph => no order => PyRatesException *)
Lemma kahn_cyclic_none : forall edges S, S <> [] -> (forall s, In s S -> exists u, In u S /\ In (u, s) edges) ->
  forall fuel rem, incl S rem -> kahn fuel edges rem = None.
Proof.
  intros edges S NE Cyc. induction fuel as [|f IH]; intros rem Inc.
  - destruct rem as [|r0 rem0]; [|reflexivity]. destruct S as [|s S']; [congruence|]. destruct (Inc s (or_introl eq_refl)).
  - destruct rem as [|r0 rem0]; [destruct S as [|s S']; [congruence | destruct (Inc s (or_introl eq_refl))]|].
    cbn [kahn]. set (rem := r0 :: rem0) in *.
    destruct (find (ready edges rem) rem) as [w|] eqn:F; [|reflexivity].
    apply find_some in F. destruct F as [Hw Rw].
    assert (NotS : ~ In w S).
    { intros HwS. destruct (Cyc w HwS) as [u [HuS Hedge]].
      unfold ready in Rw. apply negb_true_iff in Rw.
      assert (X : existsb (fun e => String.eqb (snd e) w && mem (fst e) rem) edges = true).
      { apply existsb_exists. exists (u, w). split; [exact Hedge|]. cbn [fst snd]. rewrite String.eqb_refl. cbn [andb].
        apply mem_In, Inc, HuS. }
      congruence. }
    rewrite IH; [reflexivity|]. intros s Hs. apply in_in_remove; [|apply Inc, Hs]. intros ->. exact (NotS Hs).
Qed.

Theorem cycle_rejected : forall nodes edges S, CyclicSet nodes edges S -> toposort nodes edges = None.
Proof. intros nodes edges S [NE [Inc Cyc]]. apply (kahn_cyclic_none edges S NE Cyc), Inc. Qed.

(* and the elimination only fails on a cyclic set (no false alarm) *)
Lemma kahn_none_cyclic : forall edges fuel rem, List.length rem <= fuel -> kahn fuel edges rem = None ->
  exists S, S <> [] /\ incl S rem /\ forall s, In s S -> exists u, In u S /\ In (u, s) edges.
Proof.
  intros edges. induction fuel as [|f IH]; intros rem Len K.
  - destruct rem; [discriminate | cbn in Len; lia].
  - destruct rem as [|r0 rem0]; [discriminate|]. cbn [kahn] in K. set (rem := r0 :: rem0) in *.
    destruct (find (ready edges rem) rem) as [w|] eqn:F.
    + destruct (kahn f edges (remove string_dec w rem)) as [l'|] eqn:K'; [discriminate|].
      apply find_some in F. destruct F as [Hw _].
      pose proof (remove_length_lt string_dec rem w Hw) as Lt.
      destruct (IH (remove string_dec w rem)) as [S [NE [Inc Cyc]]]; [lia | exact K' |].
      exists S. repeat split; try assumption. intros s Hs. apply (in_remove_incl rem w), Inc, Hs.
    + exists rem. split; [discriminate|]. split; [apply incl_refl|].
      intros s Hs. pose proof (find_none _ _ F s Hs) as R. unfold ready in R. apply negb_false_iff in R.
      apply existsb_exists in R. destruct R as [[u s'] [He X]]. cbn in X. apply andb_true_iff in X.
      destruct X as [X1 X2]. apply String.eqb_eq in X1. subst s'. exists u. split; [apply mem_In, X2 | exact He].
Qed.

Theorem toposort_none_iff : forall nodes edges, toposort nodes edges = None <-> exists S, CyclicSet nodes edges S.
Proof.
  intros nodes edges. split.
  - intros K. destruct (kahn_none_cyclic edges _ nodes (le_n _) K) as [S H]. exists S. exact H.
  - intros [S H]. apply (cycle_rejected nodes edges S H).
Qed.

Theorem cyclic_op_graph_rejected : forall ops S, CyclicSet (map oname ops) (op_edges ops) S ->
  check_op_graph ops = Err EPyRates.
Proof. intros ops S H. unfold check_op_graph. rewrite (cycle_rejected _ _ S H). reflexivity. Qed.

(* the edges of the operator graph: p -> q iff the output of p is an input of q *)
Lemma op_edges_spec : forall ops a b, In (a, b) (op_edges ops) <->
  exists p q, In p ops /\ In q ops /\ oname p = a /\ oname q = b /\ In (ooutput p) (oinputs q).
Proof.
  intros ops a b. unfold op_edges. rewrite in_flat_map. split.
  - intros [p [Hp H]]. apply in_map_iff in H. destruct H as [q [E Hq]]. apply filter_In in Hq.
    destruct Hq as [Hq F]. injection E as <- <-. exists p, q. repeat split; try assumption. apply mem_In, F.
  - intros [p [q [Hp [Hq [<- [<- F]]]]]]. exists p. split; [exact Hp|]. apply in_map_iff. exists q.
    split; [reflexivity|]. apply filter_In. split; [exact Hq | apply mem_In, F].
Qed.

(* two operators that feed each other (the mutant of the correspondence run) *)
Theorem mutual_feed_rejected : forall ops p q, In p ops -> In q ops ->
  In (ooutput p) (oinputs q) -> In (ooutput q) (oinputs p) -> check_op_graph ops = Err EPyRates.
Proof.
  intros ops p q Hp Hq Fpq Fqp. apply (cyclic_op_graph_rejected ops [oname p; oname q]).
  split; [discriminate|]. split.
  - intros x [<- | [<- | []]]; apply in_map; assumption.
  - intros s [<- | [<- | []]].
    + exists (oname q). split; [right; left; reflexivity|]. apply op_edges_spec. exists q, p. tauto.
    + exists (oname p). split; [left; reflexivity|]. apply op_edges_spec. exists p, q. tauto.
Qed.

(* =====================================================================================================
   Part 5 — the property over all probes
   ===================================================================================================== *)
Lemma wfprobeb_WF : forall p, wfprobeb p = true -> WFprobe p.
Proof. destruct p; cbn; intros H; try exact I; apply wf_netb_WF, H. Qed.

Lemma mixed_ok_supported : forall b s v fp e, g6 fixed_F6 (mixed_config b s v e) = true ->
  mixed_outcome b s v fp e = Ok -> Supported (mixed_config b s v e).
Proof. intros b s v fp e G H. apply (outcome_ok_supported _ G), H. Qed.
(* the flag is independent of the order of the projections (what makes `mixed_outcome` / `pop_outcome` ignore
   `first_plain`), the seeded assignment is not *)
From Coq Require Import Permutation.
Theorem flag_sticky_order_independent : forall ks ks', Permutation ks ks' -> flag_sticky ks = flag_sticky ks'.
Proof.
  intros ks ks' P. unfold flag_sticky. induction P; cbn.
  - reflexivity.
  - rewrite IHP. reflexivity.
  - destruct (needs_ring x), (needs_ring y); reflexivity.
  - congruence.
Qed.
Theorem flag_sticky_mixed : forall fp, flag_sticky (mixed_kinds fp) = true.
Proof. destruct fp; reflexivity. Qed.
Theorem flag_assigned_order_dependent :
  flag_assigned (mixed_kinds true) = false /\ flag_assigned (mixed_kinds false) = true /\ Permutation (mixed_kinds true) (mixed_kinds false).
Proof. repeat split. apply perm_swap. Qed.
Theorem mixed_order_independent : forall b s v e, mixed_outcome b s v true e = mixed_outcome b s v false e.
Proof. reflexivity. Qed.
Theorem pop_order_independent : forall b s v e, pop_outcome b s v true e = pop_outcome b s v false e.
Proof. reflexivity. Qed.
Lemma pop_ok_supported : forall b s v fp e, g6 fixed_F6 (pop_config b s v e) = true ->
  pop_outcome b s v fp e = Ok -> Supported (pop_config b s v e).
Proof.
  intros b s v fp e G H. unfold pop_outcome in H.
  destruct (validate_backend_args (pop_config b s v e)); cbn in H; try discriminate.
  destruct (backend_eqb b BFortran); [|apply (accepts_iff_supported _ G), H].
  destruct (entry_solver_check fixed_F6 (pop_config b s v e)); discriminate.
Qed.
Lemma pop_not_warn : forall b s v fp e, pop_outcome b s v fp e <> Warn.
Proof.
  intros b s v fp e H. unfold pop_outcome in H.
  unfold validate_backend_args in H. destruct (vec _ && _); cbn in H; [discriminate|].
  destruct (backend_eqb b BFortran); [|exact (accepts_not_warn _ H)].
  unfold entry_solver_check, validate_solver in H. destruct (fixed_F6 && _); cbn in H; [|discriminate].
  destruct (existsb _ _); discriminate.
Qed.
Lemma mixed_not_warn : forall b s v fp e, mixed_outcome b s v fp e <> Warn.
Proof. intros b s v fp e H. exact (outcome_not_warn _ H). Qed.

Lemma flat_probe_ok : forall k depth net p, WFnet net -> flat_probe_result k depth net p = Ok ->
  match k with HNodeValue => NodeValueTarget net p | _ => Path3 net p end.
Proof.
  intros k depth net p W H. destruct k; cbn [flat_probe_result] in H.
  - apply (edge_endpoint_ok_iff net p W), H.
  - apply (add_input_ok_iff net p W), H.
  - apply (add_input_ok_iff net p W), H.
  - apply node_value_ok_target, H.
  - apply (proj1 (resolve_outputs_ok_iff net [p] W) H p). left. reflexivity.
Qed.
Lemma WFnet_nil : WFnet [].
Proof. split; [constructor | intros n ops []]. Qed.
Lemma flat_probe_nowhere : forall k depth, flat_probe_result k depth [] nowhere <> Ok.
Proof.
  intros k depth H. pose proof (flat_probe_ok k depth [] nowhere WFnet_nil H) as X.
  destruct k; cbn in X; try (destruct X as [[ops [vars [[] _]]] _]).
Qed.
Lemma hier_gen_ok_wellformed : forall fixed4 k depth hnet p, WFnet (subnet hnet (firstn depth p)) ->
  match k with HNodeValue => fixed4 || negb (too_short depth p && names_circuit hnet (node_part p)) = true | _ => True end ->
  hier_result_gen fixed4 k depth hnet p = Ok -> WellFormed (PHier k depth hnet p).
Proof.
  intros fixed4 k depth hnet p W G H. unfold hier_result_gen in H. cbn [WellFormed].
  destruct (too_short depth p) eqn:TS.
  - exfalso. destruct (names_circuit hnet (node_part p) && is_node_value k && negb fixed4) eqn:NC.
    + rewrite !andb_true_iff in NC. destruct NC as [[NC K] F]. destruct k; try discriminate.
      rewrite NC in G. destruct fixed4; discriminate.
    + exact (flat_probe_nowhere k depth H).
  - split; [reflexivity|]. pose proof (flat_probe_ok k depth _ _ W H) as X. destruct k; exact X.
Qed.
Lemma hier_ok_wellformed : forall k depth hnet p, WFnet (subnet hnet (firstn depth p)) ->
  guard_node_value_not_circuit (PHier k depth hnet p) = true ->
  hier_result k depth hnet p = Ok -> WellFormed (PHier k depth hnet p).
Proof.
  intros k depth hnet p W G H. apply (hier_gen_ok_wellformed fixed_F4); try assumption.
  destruct k; try exact I. exact G.
Qed.
Lemma flat_probe_warn : forall k depth net p, flat_probe_result k depth net p = Warn ->
  match k with
  | HInput | HUpdate => True
  | HNodeValue => warn_suffices (PNodeValue net p) = true
  | _ => False end.
Proof.
  intros k depth net p H. destruct k; cbn [flat_probe_result] in H; try exact I.
  - unfold edge_endpoint in H. destruct (_ && _); discriminate.
  - apply node_value_warn_suffices, H.
  - unfold resolve_outputs in H. destruct (forallb _ _); discriminate.
Qed.
Lemma hier_warn : forall k depth hnet p, hier_result k depth hnet p = Warn -> warn_suffices (PHier k depth hnet p) = true.
Proof.
  intros k depth hnet p H. unfold hier_result, hier_result_gen in H.
  destruct (too_short depth p) eqn:TS.
  - destruct (names_circuit hnet (node_part p) && is_node_value k && negb fixed_F4); [discriminate|].
    pose proof (flat_probe_warn _ _ _ _ H) as X. destruct k; cbn [warn_suffices]; try reflexivity.
    + destruct X.
    + rewrite TS. reflexivity.
    + destruct X.
  - pose proof (flat_probe_warn _ _ _ _ H) as X. destruct k; cbn [warn_suffices].
    + destruct X.
    + reflexivity.
    + reflexivity.
    + rewrite TS. cbn [orb]. cbn [warn_suffices] in X. destruct (skipn depth p); [discriminate | exact X].
    + destruct X.
Qed.

(* ---- option values as strings ---- *)
Lemma str_is_eq : forall v s, str_is v s = true <-> v = Some s.
Proof.
  intros [x|] s; cbn; [rewrite String.eqb_eq|]; split; intros H; try discriminate; congruence.
Qed.
(* the theorem the guard on solver names is for: for EVERY string (and None), a validated solver runs the routine it
   names, on every backend; validation and dispatch are the same relation (==) on strings *)
Theorem validated_dispatch_str : forall b v, validate_solver_str b v = true ->
  requested_method v = Some (solve_dispatch_str b v) /\ method_implemented b (solve_dispatch_str b v) = true.
Proof.
  intros b [s|] H; [|discriminate]. cbn in H. apply mem_In in H.
  destruct b; cbn in H;
    repeat (destruct H as [<- | H]; [split; reflexivity|]); destruct H.
Qed.
Theorem validated_adaptive_str : forall b v, validate_solver_str b v = true ->
  is_integration_adaptive_str v = match solve_dispatch_str b v with MEuler | MHeun => false | _ => true end.
Proof.
  intros b [s|] H; [|discriminate]. cbn in H. apply mem_In in H.
  destruct b; cbn in H; repeat (destruct H as [<- | H]; [reflexivity|]); destruct H.
Qed.
(* ... and a string that is not validated is not one the backend implements *)
Theorem unvalidated_not_requested : forall b v, validate_solver_str b v = false ->
  match requested_method v with Some m => method_implemented b m = false | None => True end.
Proof.
  intros b [s|] H; [|exact I]. unfold requested_method, str_is. cbn in H.
  destruct (String.eqb s "euler") eqn:E1; [apply String.eqb_eq in E1; subst; destruct b; discriminate|].
  destruct (String.eqb s "heun") eqn:E2; [apply String.eqb_eq in E2; subst; destruct b; try discriminate; reflexivity|].
  destruct (String.eqb s "scipy") eqn:E3; [apply String.eqb_eq in E3; subst; destruct b; discriminate|].
  destruct (String.eqb s "diffrax") eqn:E4; [apply String.eqb_eq in E4; subst; destruct b; try discriminate; reflexivity|].
  exact I.
Qed.
(* the string level agrees with the enumeration used by the matrix *)
Theorem validate_solver_str_enum : forall b s,
  validate_solver_str b (Some s) = existsb (solver_eqb (solver_of_string s)) (SUPPORTED_SOLVERS b).
Proof.
  intros b s. unfold validate_solver_str, solver_of_string, mem.
  destruct (String.eqb s "euler") eqn:E1; [apply String.eqb_eq in E1; subst; destruct b; reflexivity|].
  destruct (String.eqb s "heun") eqn:E2; [apply String.eqb_eq in E2; subst; destruct b; reflexivity|].
  destruct (String.eqb s "scipy") eqn:E3; [apply String.eqb_eq in E3; subst; destruct b; reflexivity|].
  destruct (String.eqb s "diffrax") eqn:E4; [apply String.eqb_eq in E4; subst; destruct b; reflexivity|].
  destruct b; cbn; rewrite ?E1, ?E2, ?E3, ?E4; reflexivity.
Qed.

Lemma documented_select : forall v c, documented_backend v = Some c -> select_backend v = c.
Proof.
  intros [s|] c; cbn; [|congruence].
  destruct (String.eqb s "torch"); [congruence|]. destruct (String.eqb s "jax"); [congruence|].
  destruct (String.eqb s "fortran"); [congruence|]. destruct (String.eqb s "julia"); [congruence|].
  destruct (String.eqb s "matlab"); [congruence|]. destruct (_ || _); [congruence | discriminate].
Qed.
Lemma undocumented_select : forall v, documented_backend v = None -> select_backend v = CBase.
Proof.
  intros [s|]; cbn; [|discriminate].
  destruct (String.eqb s "torch"); [discriminate|]. destruct (String.eqb s "jax"); [discriminate|].
  destruct (String.eqb s "fortran"); [discriminate|]. destruct (String.eqb s "julia"); [discriminate|].
  destruct (String.eqb s "matlab"); [discriminate|]. reflexivity.
Qed.
Lemma option_gen_ok_wellformed : forall fixed5 k v,
  match k with OBackend => fixed5 || match documented_backend v with Some _ => true | None => false end = true | _ => True end ->
  option_result_gen fixed5 k v = Ok -> WellFormed (POption k v).
Proof.
  intros fixed5 k v G H. cbn [WellFormed]. destruct k; cbn [option_result_gen option_requested option_effect] in *.
  - destruct (validate_solver_str b v) eqn:V; [|discriminate].
    destruct (validated_dispatch_str b v V) as [R M]. rewrite R, M. split; [discriminate | reflexivity].
  - destruct (documented_backend v) as [c|] eqn:D.
    + rewrite (documented_select v c D). cbn. split; [discriminate | reflexivity].
    + exfalso. unfold backend_result in H. rewrite (undocumented_select v D), D in H.
      rewrite orb_false_r in G. subst fixed5. discriminate.
  - destruct (dtype_of v); [split; [discriminate | reflexivity] | discriminate].
  - destruct (scipy_method_of v); [split; [discriminate | reflexivity] | discriminate].
Qed.
Lemma option_not_warn : forall k v, option_result k v <> Warn.
Proof.
  intros k v H. unfold option_result, option_result_gen in H. destruct k.
  - destruct (validate_solver_str b v); discriminate.
  - unfold backend_result in H. destruct (select_backend v); try discriminate.
    destruct (documented_backend v); [discriminate|]. destruct fixed_F5; discriminate.
  - destruct (dtype_of v); discriminate.
  - destruct (scipy_method_of v); discriminate.
Qed.

(* C20: whatever returns quietly was a well-formed / supported request *)
Theorem impl_ok_wellformed : forall p, WFprobe p -> guard p = true -> impl p = Ok -> WellFormed p.
Proof.
  intros p W G H. unfold guard in G. apply andb_true_iff in G. destruct G as [G G6].
  apply andb_true_iff in G. destruct G as [G G5].
  apply andb_true_iff in G. destruct G as [G G4].
  destruct p; cbn [impl WellFormed WFprobe] in *.
  - apply (outcome_ok_supported c G6), H.
  - apply (mixed_ok_supported b s v first_plain e G6), H.
  - apply (pop_ok_supported b s v first_plain e G6), H.
  - apply check_vname_ok_iff, H.
  - apply scan_vars_ok_iff, H.
  - apply check_equation_ok_iff, H.
  - apply node_apply_ok_iff, H.
  - apply (verify_path_partial attrs net p W G), H.
  - apply (edge_endpoint_ok_iff net p W), H.
  - apply (add_input_ok_iff net p W), H.
  - apply (add_input_ok_iff net p W), H.
  - apply (resolve_outputs_ok_iff net outs W), H.
  - apply node_value_ok_target, H.
  - intros [S C]. unfold check_op_graph in H. rewrite (cycle_rejected _ _ S C) in H. discriminate.
  - apply hier_ok_wellformed; assumption.
  - apply (option_gen_ok_wellformed fixed_F5); [|exact H]. destruct k; try exact I. exact G5.
  - unfold check_edge_template, check_op_graph in H.
    destruct (toposort (map oname ops) (op_edges ops)) eqn:T; [|discriminate].
    destruct (Nat.eqb (count_sinks ops) 1) eqn:C; [|discriminate]. split; [|apply Nat.eqb_eq, C].
    intros [S Cy]. rewrite (cycle_rejected _ _ S Cy) in T. discriminate.
Qed.

Lemma impl_warn : forall p, impl p = Warn -> warn_suffices p = true.
Proof.
  intros p H. destruct p; cbn [impl] in *; try reflexivity.
  - exfalso. exact (outcome_not_warn c H).
  - exfalso. exact (mixed_not_warn _ _ _ _ _ H).
  - exfalso. exact (pop_not_warn _ _ _ _ _ H).
  - destruct (check_vname_cases v) as [X | X]; congruence.
  - destruct (scan_vars_err_class vars false) as [X | X]; congruence.
  - unfold check_equation in H. destruct (forallb _ _); discriminate.
  - unfold node_apply in H. destruct (leftovers _ _); discriminate.
  - unfold verify_path, verify_path_gen, key_fallback in H.
    repeat match type of H with
           | context [match ?x with _ => _ end] => destruct x; try discriminate
           end.
  - unfold edge_endpoint in H. destruct (_ && _); discriminate.
  - unfold resolve_outputs in H. destruct (forallb _ _); discriminate.
  - apply node_value_warn_suffices, H.
  - unfold check_op_graph in H. destruct (toposort _ _); discriminate.
  - apply hier_warn, H.
  - exfalso. exact (option_not_warn _ _ H).
  - unfold check_edge_template, check_op_graph in H. destruct (toposort _ _); [|discriminate].
    destruct (Nat.eqb _ _); discriminate.
Qed.

Theorem malformed_is_loud : forall p, WFprobe p -> guard p = true -> ~ WellFormed p -> loud_enough p (impl p).
Proof.
  intros p W G NW. destruct (impl p) eqn:Hi; cbn.
  - apply NW, (impl_ok_wellformed p W G Hi).
  - apply impl_warn, Hi.
  - exact I.
Qed.

(* the decidable form of the specification used by the correspondence run *)
Lemma forallb_iff : forall A (f : A -> bool) (P : A -> Prop) l, (forall x, In x l -> (f x = true <-> P x)) ->
  (forallb f l = true <-> forall x, In x l -> P x).
Proof.
  intros A f P l H. rewrite forallb_forall. split; intros X x Hx; apply (H x Hx), X, Hx.
Qed.

Theorem wellformedb_iff : forall p, WFprobe p -> (wellformedb p = true <-> WellFormed p).
Proof.
  intros p W. destruct p; cbn [wellformedb WellFormed WFprobe] in *.
  - apply supportedb_iff.
  - apply supportedb_iff.
  - apply supportedb_iff.
  - rewrite is_ok_iff. apply check_vname_ok_iff.
  - rewrite andb_true_iff, Nat.leb_le.
    rewrite (forallb_iff _ _ (fun d : vardecl => ~ Reserved (fst d))).
    + split; intros [H1 H2]; split; try exact H2.
      * intros n t Hin. exact (H1 (n, t) Hin).
      * intros [n t] Hin. exact (H1 n t Hin).
    + intros [n t] _. cbn. rewrite is_ok_iff. apply check_vname_ok_iff.
  - apply forallb_iff. intros x _. apply mem_In.
  - rewrite (forallb_iff _ _ (fun u : string * string => In (fst u) op_names)).
    + split; [intros H o v Hin; exact (H (o, v) Hin) | intros H [o v] Hin; exact (H o v Hin)].
    + intros u _. apply mem_In.
  - apply presentb_iff, W.
  - apply path3b_iff, W.
  - apply path3b_iff, W.
  - apply path3b_iff, W.
  - apply forallb_iff. intros o _. apply path3b_iff, W.
  - apply node_value_targetb_iff, W.
  - destruct (toposort (map oname ops) (op_edges ops)) eqn:T.
    + split; [|reflexivity]. intros _ [S C]. rewrite (cycle_rejected _ _ S C) in T. discriminate.
    + split; [discriminate|]. intros H. exfalso. apply H. apply toposort_none_iff, T.
  - rewrite andb_true_iff, negb_true_iff. destruct k.
    + rewrite (path3b_iff _ _ W). tauto.
    + rewrite (path3b_iff _ _ W). tauto.
    + rewrite (path3b_iff _ _ W). tauto.
    + rewrite (node_value_targetb_iff _ _ W). tauto.
    + rewrite (path3b_iff _ _ W). tauto.
  - destruct (option_requested k v) as [r|], (option_effect k v) as [e|].
    + rewrite String.eqb_eq. split; [intros ->; split; [discriminate | reflexivity] | intros [_ E]; congruence].
    + split; [discriminate | intros [_ E]; discriminate].
    + split; [discriminate | intros [E _]; congruence].
    + split; [discriminate | intros [E _]; congruence].
  - destruct (toposort (map oname ops) (op_edges ops)) eqn:T.
    + rewrite Nat.eqb_eq. split; [intros C; split; [|exact C] | intros [_ C]; exact C].
      intros [S Cy]. rewrite (cycle_rejected _ _ S Cy) in T. discriminate.
    + split; [discriminate|]. intros [H _]. exfalso. apply H, toposort_none_iff, T.
Qed.

(* the test applied to an observed outcome is the property *)
Theorem meets_spec_iff : forall p r, WFprobe p -> (meets_spec p r = true <-> (WellFormed p \/ loud_enough p r)).
Proof.
  intros p r W. destruct r; cbn.
  - rewrite (wellformedb_iff p W). tauto.
  - rewrite orb_true_iff, (wellformedb_iff p W). tauto.
  - tauto.
Qed.

(* ---- the full-strength statement and its refutation (F1 and F2 were repaired by D48 / D49) ---- *)
Definition C20_full_statement : Prop := forall p, WFprobe p -> impl p = Ok -> WellFormed p.

(* an edge template with two output operators (or a cycle) => PyRatesException *)
Theorem edge_template_sinks : forall ops, check_edge_template ops = Ok -> count_sinks ops = 1.
Proof.
  intros ops H. unfold check_edge_template in H. destruct (check_op_graph ops); try discriminate.
  destruct (Nat.eqb (count_sinks ops) 1) eqn:C; [apply Nat.eqb_eq, C | discriminate].
Qed.
Theorem edge_template_two_outputs_rejected : forall ops, 2 <= count_sinks ops -> check_edge_template ops = Err EPyRates.
Proof.
  intros ops H. unfold check_edge_template, check_op_graph. destruct (toposort _ _); [|reflexivity].
  destruct (Nat.eqb (count_sinks ops) 1) eqn:C; [apply Nat.eqb_eq in C; lia | reflexivity].
Qed.
Lemma refute_by : forall p, wfprobeb p = true -> impl p = Ok -> wellformedb p = false -> ~ C20_full_statement.
Proof.
  intros p W Hi NW H. pose proof (wfprobeb_WF p W) as W'.
  apply (wellformedb_iff p W') in H; [congruence | exact W' | exact Hi].
Qed.
Definition F3_probe : probe := PVerifyPath ["label"] F3_net F3_path.

(* the code as it is: refuted *)
Theorem C20_refuted_verify_path : fixed_F3 = false -> ~ C20_full_statement /\ guard_path_not_attr F3_probe = false.
Proof.
  intros E. split.
  - apply (refute_by F3_probe); [vm_compute; reflexivity | | vm_compute; reflexivity].
    unfold F3_probe, impl, verify_path. rewrite E. vm_compute. reflexivity.
  - unfold F3_probe, guard_path_not_attr. rewrite E. vm_compute. reflexivity.
Qed.
(* the refutations with the switch given explicitly (hold whatever the switches of Guards.v say) *)
Theorem verify_path_before_D76 : verify_path_gen false ["label"] F3_net F3_path = Ok /\ presentb F3_net F3_path = false /\
  verify_path_gen true ["label"] F3_net F3_path = Err EPyRates.
Proof. repeat split. Qed.
Definition F4_hnet0 : hnetwork := [(["c1"; "a"], [("o1", ["g"])]); (["c1"; "b"], [("o1", ["g"])])].
Theorem short_node_value_before_D79 :
  hier_result_gen false HNodeValue 1 F4_hnet0 ["c1"; "o1"; "g"] = Ok /\
  wellformedb (PHier HNodeValue 1 F4_hnet0 ["c1"; "o1"; "g"]) = false /\
  hier_result_gen true HNodeValue 1 F4_hnet0 ["c1"; "o1"; "g"] = Warn.
Proof. repeat split. Qed.
Theorem backend_name_before_D109 :
  backend_result false (Some "JAX") = Ok /\ documented_backend (Some "JAX") = None /\ backend_result true (Some "JAX") = Err EPyRates.
Proof. repeat split. Qed.
Theorem solver_in_get_run_func_before_D113 :
  let c := mkc BDefault SOther true DNone false true EFunc in
  outcome_gen false c = Ok /\ accepts_gen false c = Ok /\ supportedb c = false /\ outcome_gen true c = Err EPyRates.
Proof. repeat split. Qed.
Lemma guard3_when_fixed : fixed_F3 = true -> forall p, guard_path_not_attr p = true.
Proof. intros E p. unfold guard_path_not_attr. destruct p; try reflexivity; rewrite E; reflexivity. Qed.
Lemma guard4_when_fixed : fixed_F4 = true -> forall p, guard_node_value_not_circuit p = true.
Proof.
  intros E p. unfold guard_node_value_not_circuit. destruct p; try reflexivity.
  destruct k; try reflexivity; rewrite E; reflexivity.
Qed.
Lemma guard5_when_fixed : fixed_F5 = true -> forall p, guard_backend_documented p = true.
Proof.
  intros E p. unfold guard_backend_documented. destruct p; try reflexivity.
  destruct k; try reflexivity; rewrite E; reflexivity.
Qed.
Lemma guard6_when_fixed : fixed_F6 = true -> forall p, guard_solver_checked_at_entry p = true.
Proof.
  intros E p. unfold guard_solver_checked_at_entry, g6. destruct p; try reflexivity; rewrite E; reflexivity.
Qed.
Lemma guard_true_when_fixed : fixed_F3 = true -> fixed_F4 = true -> fixed_F5 = true -> fixed_F6 = true ->
  forall p, guard p = true.
Proof.
  intros E3 E4 E5 E6 p. unfold guard.
  rewrite (guard3_when_fixed E3), (guard4_when_fixed E4), (guard5_when_fixed E5), (guard6_when_fixed E6). reflexivity.
Qed.
(* after D76, D79 and D109 (fixed_F3 = fixed_F4 = fixed_F5 = true) the only guard left is the one of F6 *)
Theorem C20_full_modulo_F6_when_others_fixed : fixed_F3 = true -> fixed_F4 = true -> fixed_F5 = true ->
  forall p, WFprobe p -> guard_solver_checked_at_entry p = true -> impl p = Ok -> WellFormed p.
Proof.
  intros E3 E4 E5 p W G Hi. apply (impl_ok_wellformed p W); [|exact Hi].
  unfold guard. rewrite (guard3_when_fixed E3), (guard4_when_fixed E4), (guard5_when_fixed E5), G. reflexivity.
Qed.
(* with all repairs: the full statement is a theorem *)
Theorem C20_full_when_fixed : fixed_F3 = true -> fixed_F4 = true -> fixed_F5 = true -> fixed_F6 = true -> C20_full_statement.
Proof.
  intros E3 E4 E5 E6 p W Hi. apply (impl_ok_wellformed p W); [|exact Hi]. apply (guard_true_when_fixed E3 E4 E5 E6).
Qed.
Theorem malformed_is_loud_when_fixed : fixed_F3 = true -> fixed_F4 = true -> fixed_F5 = true -> fixed_F6 = true ->
  forall p, WFprobe p -> ~ WellFormed p -> loud_enough p (impl p).
Proof. intros E3 E4 E5 E6 p W. apply (malformed_is_loud p W), (guard_true_when_fixed E3 E4 E5 E6). Qed.
(* the code as it is: get_run_func hands out a function for a solver the backend does not have (finding F6) *)
Definition F6_probe : probe := PConfig (mkc BDefault SOther true DNone false true EFunc).
Theorem C20_refuted_solver_in_get_run_func : fixed_F6 = false ->
  ~ C20_full_statement /\ guard_solver_checked_at_entry F6_probe = false.
Proof.
  intros E. split.
  - apply (refute_by F6_probe); [vm_compute; reflexivity | | vm_compute; reflexivity].
    unfold F6_probe, impl, outcome. rewrite E. vm_compute. reflexivity.
  - unfold F6_probe, guard_solver_checked_at_entry, g6. rewrite E. vm_compute. reflexivity.
Qed.
Theorem solver_in_get_run_func_repaired : forall c, accepts_gen true c = Ok <-> Supported c.
Proof. intros c. apply accepts_gen_iff_supported. reflexivity. Qed.
(* the code as it is: an undocumented backend name silently selects the numpy backend (finding F5) *)
Definition F5_probe : probe := POption OBackend (Some "JAX").
Theorem C20_refuted_backend_name : fixed_F5 = false -> ~ C20_full_statement /\ guard_backend_documented F5_probe = false.
Proof.
  intros E. split.
  - apply (refute_by F5_probe); [vm_compute; reflexivity | | vm_compute; reflexivity].
    unfold F5_probe, impl, option_result. rewrite E. vm_compute. reflexivity.
  - unfold F5_probe, guard_backend_documented. rewrite E. vm_compute. reflexivity.
Qed.
Theorem backend_name_repaired : forall v, documented_backend v = None -> backend_result true v = Err EPyRates.
Proof.
  intros v D. unfold backend_result. rewrite (undocumented_select v D), D. reflexivity.
Qed.
(* the code as it was after D76 and before D79: refuted by a too-short node_values key that names a circuit (finding F4) *)
Definition F4_hnet : hnetwork := [(["c1"; "a"], [("o1", ["g"])]); (["c1"; "b"], [("o1", ["g"])])].
Definition F4_probe : probe := PHier HNodeValue 1 F4_hnet ["c1"; "o1"; "g"].
Theorem C20_refuted_short_node_value : fixed_F4 = false ->
  ~ C20_full_statement /\ guard_node_value_not_circuit F4_probe = false.
Proof.
  intros E. split.
  - apply (refute_by F4_probe); [vm_compute; reflexivity | | vm_compute; reflexivity].
    unfold F4_probe, impl, hier_result. rewrite E. vm_compute. reflexivity.
  - unfold F4_probe, guard_node_value_not_circuit. rewrite E. vm_compute. reflexivity.
Qed.
Theorem short_node_value_repaired : forall depth hnet p, too_short depth p = true ->
  names_circuit hnet (node_part p) = true -> hier_result_gen true HNodeValue depth hnet p = Warn.
Proof. intros depth hnet p T N. unfold hier_result_gen. rewrite T, N. reflexivity. Qed.
(* since D87 every kind of too-short key is treated like a node that does not exist *)
Theorem short_key_is_loud : forall k depth hnet p, too_short depth p = true ->
  hier_result_gen true k depth hnet p =
  match k with HEdge => Err EOther | HOutput => Err EPyRates | _ => Warn end.
Proof.
  intros k depth hnet p T. unfold hier_result_gen. rewrite T, andb_false_r. destruct k; reflexivity.
Qed.
