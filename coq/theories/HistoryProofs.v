(* HistoryProofs.v — the DDEHistory model refines the piecewise-linear specification. *)
From Coq Require Import List ZArith QArith Qcanon Lia Bool Arith.
From PV Require Import History.
Import ListNotations.
Open Scope Qc_scope.

(* ---------- comparisons ---------- *)
Lemma Qcleb_true a b : Qcleb a b = true <-> a <= b.
Proof. unfold Qcleb, Qcle. apply Qle_bool_iff. Qed.
Lemma Qcleb_false a b : Qcleb a b = false <-> b < a.
Proof.
  split; intro H.
  - destruct (Qclt_le_dec b a) as [Hlt|Hle]; [exact Hlt|]. apply Qcleb_true in Hle. congruence.
  - destruct (Qcleb a b) eqn:E; [|reflexivity]. apply Qcleb_true in E. exfalso. eapply Qclt_not_le; eauto.
Qed.
Lemma Qcltb_true a b : Qcltb a b = true <-> a < b.
Proof. unfold Qcltb. rewrite negb_true_iff. apply (Qcleb_false b a). Qed.
Lemma Qcltb_false a b : Qcltb a b = false <-> b <= a.
Proof. unfold Qcltb. rewrite negb_false_iff. apply (Qcleb_true b a). Qed.

Lemma incrb_incr l : incrb l = true <-> incr l.
Proof.
  induction l as [|x l IH]; cbn [incrb incr]; [tauto|].
  rewrite andb_true_iff, IH. destruct l as [|y l]; [tauto|]. now rewrite Qcltb_true.
Qed.

(* ---------- list helpers ---------- *)
Lemma set_nth_length {A} (l : list A) i x : (i < length l)%nat -> length (set_nth l i x) = length l.
Proof.
  intros H. unfold set_nth. rewrite app_length. cbn [length]. rewrite firstn_length, skipn_length. lia.
Qed.

Lemma firstn_set_nth {A} (l : list A) i x : (i < length l)%nat -> firstn (S i) (set_nth l i x) = firstn i l ++ [x].
Proof.
  revert i; induction l as [|a l IH]; intros i H; cbn [length] in H; [lia|].
  destruct i as [|i].
  - reflexivity.
  - unfold set_nth in *. cbn [firstn skipn app]. f_equal. apply IH. lia.
Qed.

Lemma fresh_rows_length junk len : length (fresh_rows junk len) = len.
Proof. unfold fresh_rows. rewrite firstn_length, app_length, repeat_length. lia. Qed.

Lemma last_is_nth {A} : forall (l : list A) d, last l d = nth (length l - 1) l d.
Proof.
  induction l as [|x [|y l] IH]; intros d; try reflexivity.
  change (last (x :: y :: l) d) with (last (y :: l) d). rewrite IH.
  cbn [length]. replace (S (S (length l)) - 1)%nat with (S (S (length l) - 1)) by lia. reflexivity.
Qed.

Lemma nth_firstn_lt {A} : forall (l : list A) k i d, (i < k)%nat -> nth i (firstn k l) d = nth i l d.
Proof.
  induction l as [|x l IH]; intros k i d H; [now rewrite firstn_nil|].
  destruct k as [|k]; [lia|]. destruct i as [|i]; [reflexivity|]. cbn [firstn nth]. apply IH. lia.
Qed.

Lemma combine_app {A B} : forall (a a' : list A) (b b' : list B), length a = length b ->
  combine (a ++ a') (b ++ b') = combine a b ++ combine a' b'.
Proof.
  induction a as [|x a IH]; intros a' b b' H; destruct b as [|y b]; cbn in H; try lia; [reflexivity|].
  cbn. f_equal. apply IH. lia.
Qed.

(* ---------- invariant ---------- *)
Definition recorded (h : hist) : list row := firstn (n h) (buf h).
Definition Inv (h : hist) : Prop := length (ts h) = n h /\ (n h <= length (buf h))%nat /\ (1 <= n h)%nat.

Lemma recorded_length h : Inv h -> length (recorded h) = n h.
Proof. intros (_ & H & _). unfold recorded. rewrite firstn_length. lia. Qed.

Lemma init_inv y0 t0 cap g junk :
  Inv (init y0 t0 cap g junk) /\ recorded (init y0 t0 cap g junk) = [y0] /\
  length (buf (init y0 t0 cap g junk)) = Nat.max cap 1.
Proof.
  unfold Inv, recorded, init; cbn [ts buf n].
  assert (L : length (fresh_rows junk (Nat.max cap 1)) = Nat.max cap 1) by apply fresh_rows_length.
  assert (P : (0 < length (fresh_rows junk (Nat.max cap 1)))%nat) by lia.
  rewrite set_nth_length by exact P. rewrite L.
  split; [|split].
  - repeat split; [lia|lia].
  - change 1%nat with (S 0). rewrite firstn_set_nth by exact P. reflexivity.
  - reflexivity.
Qed.

Lemma grow_inv h junk : Inv h ->
  Inv (grow h junk) /\ recorded (grow h junk) = recorded h /\
  (length (buf (grow h junk)) = grow_factor * length (buf h))%nat.
Proof.
  intros (Ht & Hn & H1). unfold grow, recorded, Inv; cbn [ts buf n].
  assert (Hl : length (firstn (n h) (buf h)) = n h) by (rewrite firstn_length; lia).
  pose proof (fresh_rows_length junk (grow_factor * length (buf h) - n h)) as Hj.
  unfold grow_factor in *.
  repeat split; try assumption.
  - rewrite app_length, Hl, Hj. lia.
  - rewrite firstn_app, Hl. replace (n h - n h)%nat with 0%nat by lia. cbn [firstn]. rewrite app_nil_r.
    rewrite firstn_firstn. f_equal. lia.
  - rewrite app_length, Hl, Hj. lia.
Qed.

Theorem update_inv h junk t y h' : Inv h -> update h junk t y = Some h' ->
  Inv h' /\ recorded h' = recorded h ++ [y] /\ ts h' = ts h ++ [t] /\ growable h' = growable h /\
  (growable h = false -> length (buf h') = length (buf h)).
Proof.
  intros HI. unfold update.
  destruct (length (buf h) <=? n h)%nat eqn:Ecap.
  - destruct (growable h) eqn:Eg; [|discriminate].
    destruct (grow_inv h junk HI) as ((Ht & Hn & H1) & Hrec & Hcap).
    assert (Hts : ts (grow h junk) = ts h) by reflexivity.
    assert (Hnn : n (grow h junk) = n h) by reflexivity.
    assert (Hgg : growable (grow h junk) = growable h) by reflexivity.
    destruct HI as (Ht0 & Hn0 & H10).
    assert (Hlt : (n (grow h junk) < length (buf (grow h junk)))%nat).
    { rewrite Hnn, Hcap. unfold grow_factor. apply Nat.leb_le in Ecap. lia. }
    remember (grow h junk) as h1. intros [= <-].
    unfold Inv, recorded; cbn [ts buf n growable]. repeat split.
    + rewrite app_length. cbn. lia.
    + rewrite set_nth_length; lia.
    + lia.
    + rewrite firstn_set_nth by exact Hlt. fold (recorded h1). now rewrite Hrec.
    + now rewrite Hts.
    + now rewrite Hgg.
    + congruence.
  - intros [= <-]. cbn [ts buf n growable]. apply Nat.leb_gt in Ecap.
    destruct HI as (Ht0 & Hn0 & H10). unfold Inv, recorded; cbn [ts buf n]. repeat split.
    + rewrite app_length. cbn. lia.
    + rewrite set_nth_length; lia.
    + lia.
    + now rewrite firstn_set_nth.
    + intros _. rewrite set_nth_length; lia.
Qed.

(* a bounded history refuses exactly when it is full, and a growable one never refuses *)
Lemma update_none_iff h junk t y :
  update h junk t y = None <-> (growable h = false /\ (length (buf h) <= n h)%nat).
Proof.
  unfold update. destruct (length (buf h) <=? n h)%nat eqn:E.
  - apply Nat.leb_le in E. destruct (growable h); split; intros H; try discriminate; try tauto.
    destruct H; discriminate.
  - apply Nat.leb_gt in E. split; [discriminate|]. intros [_ H]. lia.
Qed.

(* ---------- increasing lists ---------- *)
Lemma incr_tail x l : incr (x :: l) -> incr l.
Proof. cbn [incr]. tauto. Qed.

Lemma incr_head_lt x l y : incr (x :: l) -> In y l -> x < y.
Proof.
  revert x; induction l as [|z l IH]; intros x H Hin; [inversion Hin|].
  cbn [incr] in H. destruct H as [Hxz Hrest]. destruct Hin as [->|Hin]; [exact Hxz|].
  eapply Qclt_trans; [exact Hxz|]. apply IH; assumption.
Qed.

Lemma incr_nth_lt : forall l i j, incr l -> (i < j)%nat -> (j < length l)%nat -> nth i l 0 < nth j l 0.
Proof.
  induction l as [|x l IH]; intros i j Hinc Hij Hj; [cbn in Hj; lia|].
  destruct j as [|j]; [lia|]. cbn [length] in Hj. destruct i as [|i].
  - cbn [nth]. eapply incr_head_lt; [exact Hinc|]. apply nth_In. lia.
  - cbn [nth]. apply IH; [eapply incr_tail; eauto | lia | lia].
Qed.

Lemma incr_nth_le l i j : incr l -> (i <= j)%nat -> (j < length l)%nat -> nth i l 0 <= nth j l 0.
Proof.
  intros H Hij Hj. destruct (Nat.eq_dec i j) as [->|Hne]; [apply Qcle_refl|].
  apply Qclt_le_weak. apply incr_nth_lt; [assumption|lia|lia].
Qed.

Lemma incr_app_single l t : incr (l ++ [t]) -> incr l.
Proof.
  induction l as [|x l IH]; intros H; [exact I|].
  cbn [app incr] in *. destruct H as [Hh Ht]. split; [|now apply IH].
  destruct l as [|y l]; [exact I|exact Hh].
Qed.

Lemma incr_remove_mid : forall a x b, incr (a ++ x :: b) -> incr (a ++ b).
Proof.
  induction a as [|y a IH]; intros x b H.
  - cbn [app] in *. eapply incr_tail; eauto.
  - cbn [app] in *. destruct a as [|z a].
    + cbn [app] in *. destruct H as [Hyx Hrest]. destruct b as [|w b]; [cbn; tauto|].
      cbn [incr] in Hrest |- *. destruct Hrest as [Hxw Hb]. split; [|exact Hb].
      eapply Qclt_trans; eauto.
    + destruct H as [Hyz Hrest]. split; [exact Hyz|]. apply (IH x b). exact Hrest.
Qed.

Lemma incr_app_l : forall a b, incr (a ++ b) -> incr a.
Proof.
  induction a as [|x a IH]; intros b H; [exact I|].
  cbn [app] in H. destruct H as [Hh Ht]. split; [|eapply IH; eauto].
  destruct a as [|y a]; [exact I|exact Hh].
Qed.

(* position of t in an increasing list *)
Lemma locate : forall l t, incr l -> l <> [] -> hd 0 l <= t -> t < last l 0 ->
  exists i, (S i < length l)%nat /\ nth i l 0 <= t /\ t < nth (S i) l 0.
Proof.
  induction l as [|x l IH]; intros t Hinc Hne Hhd Hlast; [congruence|].
  destruct l as [|y l].
  - cbn in Hhd, Hlast. exfalso. eapply Qclt_not_le; eauto.
  - destruct (Qclt_le_dec t y) as [Hty|Hyt].
    + exists 0%nat. cbn [length nth]. repeat split; [lia|exact Hhd|exact Hty].
    + destruct (IH t) as (i & Hi & Hlo & Hhi).
      * eapply incr_tail; eauto.
      * discriminate.
      * exact Hyt.
      * exact Hlast.
      * exists (S i). cbn [length nth] in *. repeat split; [lia|exact Hlo|exact Hhi].
Qed.

Lemma bisect_spec : forall l i t, incr l -> (S i < length l)%nat ->
  nth i l 0 <= t -> t < nth (S i) l 0 -> bisect_right l t = S i.
Proof.
  induction l as [|x l IH]; intros i t Hinc Hlen Hlo Hhi; [cbn in Hlen; lia|].
  cbn [bisect_right].
  destruct i as [|i].
  - cbn [nth] in Hlo, Hhi. apply Qcleb_true in Hlo. rewrite Hlo. f_equal.
    destruct l as [|y l]; [cbn in Hlen; lia|]. cbn [nth] in Hhi. cbn [bisect_right].
    apply Qcleb_false in Hhi. now rewrite Hhi.
  - cbn [nth] in Hlo, Hhi. cbn [length] in Hlen.
    assert (Hx : x <= t).
    { apply Qclt_le_weak. eapply Qclt_le_trans; [|exact Hlo].
      eapply incr_head_lt; [exact Hinc|]. apply nth_In. lia. }
    apply Qcleb_true in Hx. rewrite Hx. f_equal.
    apply IH; try assumption; [|lia]. eapply incr_tail; eauto.
Qed.

(* ---------- the specification's interpolant, characterised ---------- *)
Lemma interp_from_between : forall tl yl ta ya i t, length tl = length yl -> incr (ta :: tl) ->
  (S i < length (ta :: tl))%nat -> nth i (ta :: tl) 0 <= t -> t < nth (S i) (ta :: tl) 0 ->
  interp_from ta ya (combine tl yl) t =
  lerp (nth i (ta :: tl) 0) (nth i (ya :: yl) []) (nth (S i) (ta :: tl) 0) (nth (S i) (ya :: yl) []) t.
Proof.
  induction tl as [|tb tl IH]; intros yl ta ya i t Hlen Hinc Hi Hlo Hhi; [cbn in Hi; lia|].
  destruct yl as [|yb yl]; [cbn in Hlen; lia|]. cbn [combine interp_from].
  destruct i as [|i].
  - cbn [nth] in *. apply Qcltb_true in Hhi. now rewrite Hhi.
  - assert (Hb : tb <= t).
    { eapply Qcle_trans; [|exact Hlo]. change tb with (nth 1 (ta :: tb :: tl) 0).
      apply incr_nth_le; [exact Hinc|lia|cbn [length] in *; lia]. }
    apply Qcltb_false in Hb. rewrite Hb.
    change (nth (S i) (ta :: tb :: tl) 0) with (nth i (tb :: tl) 0) in *.
    change (nth (S (S i)) (ta :: tb :: tl) 0) with (nth (S i) (tb :: tl) 0) in *.
    change (nth (S i) (ya :: yb :: yl) []) with (nth i (yb :: yl) []).
    change (nth (S (S i)) (ya :: yb :: yl) []) with (nth (S i) (yb :: yl) []).
    apply IH; try assumption.
    + cbn in Hlen. lia.
    + eapply incr_tail; eauto.
    + cbn [length] in *. lia.
Qed.

Lemma interp_from_after : forall tl yl ta ya t, length tl = length yl -> incr (ta :: tl) ->
  last (ta :: tl) 0 <= t -> interp_from ta ya (combine tl yl) t = last (ya :: yl) [].
Proof.
  induction tl as [|tb tl IH]; intros yl ta ya t Hlen Hinc Hlast.
  - destruct yl; [reflexivity|cbn in Hlen; lia].
  - destruct yl as [|yb yl]; [cbn in Hlen; lia|]. cbn [combine interp_from].
    assert (Hb : tb <= t).
    { eapply Qcle_trans; [|exact Hlast]. rewrite last_is_nth.
      change tb with (nth 1 (ta :: tb :: tl) 0). apply incr_nth_le; [exact Hinc|cbn [length]; lia|cbn [length]; lia]. }
    apply Qcltb_false in Hb. rewrite Hb.
    change (last (ya :: yb :: yl) []) with (last (yb :: yl) []).
    apply IH; [cbn in Hlen; lia|eapply incr_tail; eauto|exact Hlast].
Qed.

(* ---------- the concrete query equals the specification's interpolant ---------- *)
Theorem query_is_interp h t : Inv h -> incr (ts h) ->
  query h t = interp (combine (ts h) (recorded h)) t.
Proof.
  intros HI Hinc. pose proof (recorded_length h HI) as Hrl. destruct HI as (Hlen & Hcap & H1).
  destruct (ts h) as [|t0 tl] eqn:Ets; [cbn in Hlen; lia|].
  destruct (recorded h) as [|y0 yl] eqn:Erec; [cbn in Hrl; lia|].
  assert (Hy0 : nth 0 (buf h) [] = y0).
  { rewrite <- (nth_firstn_lt (buf h) (n h) 0 []) by lia. fold (recorded h). now rewrite Erec. }
  assert (Hnth : forall i, (i < n h)%nat -> nth i (buf h) [] = nth i (y0 :: yl) []).
  { intros i Hi. rewrite <- Erec. unfold recorded. now rewrite nth_firstn_lt. }
  assert (Hlen' : length tl = length yl) by (cbn in Hlen, Hrl; lia).
  unfold query. rewrite Ets. cbn [hd combine interp].
  destruct (Qcleb t t0) eqn:E0; [exact Hy0|].
  apply Qcleb_false in E0.
  destruct (Qcleb (last (t0 :: tl) 0) t) eqn:El.
  - apply Qcleb_true in El. rewrite (interp_from_after tl yl t0 y0 t Hlen' Hinc El).
    rewrite Hnth by lia. rewrite last_is_nth. cbn [length] in *. f_equal. lia.
  - apply Qcleb_false in El.
    destruct (locate (t0 :: tl) t Hinc ltac:(discriminate) (Qclt_le_weak _ _ E0) El) as (i & Hi & Hlo & Hhi).
    rewrite (bisect_spec (t0 :: tl) i t Hinc Hi Hlo Hhi).
    replace (S i - 1)%nat with i by lia.
    rewrite (interp_from_between tl yl t0 y0 i t Hlen' Hinc Hi Hlo Hhi).
    cbn [length] in *. rewrite !Hnth by lia. reflexivity.
Qed.

(* ---------- refinement ---------- *)
Definition abs (h : hist) : ahist :=
  {| recs := combine (ts h) (recorded h); bound := if growable h then None else Some (length (buf h)) |}.

Lemma abs_recs_length h : Inv h -> length (recs (abs h)) = n h.
Proof.
  intros HI. pose proof (recorded_length h HI). destruct HI as (Hl & _). cbn [abs recs].
  rewrite combine_length. lia.
Qed.

Lemma step_refines h o : Inv h -> incr (ts h) ->
  let '(h', r) := step h o in Inv h' /\ astep (abs h) o = (abs h', r).
Proof.
  intros HI Hinc. destruct o as [t y junk|t]; cbn [step astep].
  - destruct (update h junk t y) as [h'|] eqn:Eu.
    + destruct (update_inv h junk t y h' HI Eu) as (HI' & Hrec & Hts & Hg & Hcap).
      split; [exact HI'|].
      assert (Habs : abs h' = {| recs := recs (abs h) ++ [(t, y)]; bound := bound (abs h) |}).
      { unfold abs; cbn [recs bound]. rewrite Hrec, Hts, Hg. f_equal.
        - rewrite combine_app; [reflexivity|]. rewrite (recorded_length h HI). now destruct HI.
        - destruct (growable h); [reflexivity|]. now rewrite Hcap. }
      rewrite Habs. cbn [abs bound] in *. destruct (growable h) eqn:Eg; [reflexivity|].
      assert (Hnf : ~ (length (buf h) <= n h)%nat).
      { intros Hc. assert (update h junk t y = None) by (apply update_none_iff; tauto). congruence. }
      rewrite (abs_recs_length h HI).
      destruct (Nat.leb_spec (length (buf h)) (n h)); [lia|reflexivity].
    + split; [exact HI|]. apply update_none_iff in Eu as [Eg Hc]. cbn [abs bound]. rewrite Eg.
      change (combine (ts h) (recorded h)) with (recs (abs h)). rewrite (abs_recs_length h HI).
      destruct (Nat.leb_spec (length (buf h)) (n h)); [reflexivity|lia].
  - split; [exact HI|]. cbn [abs recs]. now rewrite query_is_interp.
Qed.

Lemma step_ts h o : Inv h ->
  ts (fst (step h o)) = ts h \/ (exists t y j, o = Update t y j /\ ts (fst (step h o)) = ts h ++ [t]).
Proof.
  intros HI. destruct o as [t y junk|t]; cbn [step]; [|left; reflexivity].
  destruct (update h junk t y) as [h'|] eqn:Eu; [|left; reflexivity].
  right. exists t, y, junk. split; [reflexivity|]. cbn [fst].
  now destruct (update_inv h junk t y h' HI Eu) as (_ & _ & Hts & _).
Qed.

Theorem run_refines : forall ops h, Inv h -> incr (ts h ++ update_times ops) ->
  snd (run h ops) = snd (arun (abs h) ops) /\ Inv (fst (run h ops)) /\
  fst (arun (abs h) ops) = abs (fst (run h ops)).
Proof.
  induction ops as [|o ops IH]; intros h HI Hinc; [cbn; auto|].
  cbn [run arun].
  assert (Hinc0 : incr (ts h)) by (eapply incr_app_l; eauto).
  pose proof (step_refines h o HI Hinc0) as Hs.
  pose proof (step_ts h o HI) as Hts.
  destruct (step h o) as [h1 r] eqn:Es. destruct Hs as [HI1 Ha]. rewrite Ha.
  assert (Hinc1 : incr (ts h1 ++ update_times ops)).
  { cbn [fst] in Hts. destruct Hts as [Hsame|(t & y & j & -> & Happ)].
    - rewrite Hsame. destruct o as [t y j|t]; cbn [update_times] in Hinc; [|exact Hinc].
      eapply incr_remove_mid; eauto.
    - rewrite Happ. cbn [update_times] in Hinc. rewrite <- app_assoc. exact Hinc. }
  destruct (IH h1 HI1 Hinc1) as (Hout & HIf & Habs).
  destruct (run h1 ops) as [h2 rs]. destruct (arun (abs h1) ops) as [a2 rs'].
  cbn [fst snd] in *. subst. auto.
Qed.

(* the headline: outputs of every script on the implementation model are those of the specification *)
Theorem history_refines y0 t0 cap g junk ops : incr (t0 :: update_times ops) ->
  snd (run (init y0 t0 cap g junk) ops) = snd (arun (ainit y0 t0 cap g) ops).
Proof.
  intros Hinc. destruct (init_inv y0 t0 cap g junk) as (HI & Hrec & Hcap).
  destruct (run_refines ops (init y0 t0 cap g junk) HI Hinc) as (H & _).
  rewrite H. f_equal. f_equal. unfold abs, ainit. rewrite Hrec, Hcap. reflexivity.
Qed.

(* ---------- what the specification's interpolant returns (the four cases of the property) ---------- *)
Definition times (rs : list (Qc * row)) := map fst rs.
Definition values (rs : list (Qc * row)) := map snd rs.

Lemma combine_times_values rs : combine (times rs) (values rs) = rs.
Proof. induction rs as [|[t y] rs IH]; [reflexivity|]. unfold times, values in *. cbn [map combine fst snd]. now rewrite IH. Qed.

Lemma times_values_length rs : length (times rs) = length (values rs).
Proof. unfold times, values. now rewrite !map_length. Qed.

Lemma interp_from_after' rs ta ya t : incr (ta :: times rs) -> last (ta :: times rs) 0 <= t ->
  interp_from ta ya rs t = last (ya :: values rs) [].
Proof.
  intros Hinc H. pose proof (interp_from_after (times rs) (values rs) ta ya t (times_values_length rs) Hinc H) as E.
  now rewrite combine_times_values in E.
Qed.

Lemma interp_from_between' rs ta ya i t : incr (ta :: times rs) ->
  (S i < length (ta :: times rs))%nat -> nth i (ta :: times rs) 0 <= t -> t < nth (S i) (ta :: times rs) 0 ->
  interp_from ta ya rs t =
  lerp (nth i (ta :: times rs) 0) (nth i (ya :: values rs) []) (nth (S i) (ta :: times rs) 0) (nth (S i) (ya :: values rs) []) t.
Proof.
  intros Hinc Hi Hlo Hhi.
  pose proof (interp_from_between (times rs) (values rs) ta ya i t (times_values_length rs) Hinc Hi Hlo Hhi) as E.
  now rewrite combine_times_values in E.
Qed.

Theorem interp_before rs t : rs <> [] -> t <= hd 0 (times rs) -> interp rs t = hd [] (values rs).
Proof.
  destruct rs as [|[t0 y0] rs]; [congruence|]. intros _ H. cbn in *. apply Qcleb_true in H. now rewrite H.
Qed.

Theorem interp_after rs t : rs <> [] -> incr (times rs) -> last (times rs) 0 <= t ->
  interp rs t = last (values rs) [].
Proof.
  destruct rs as [|[t0 y0] rs]; [congruence|]. intros _ Hinc H. cbn [interp].
  destruct (Qcleb t t0) eqn:E.
  - (* then t0 = last = t: a single record, or contradiction *)
    apply Qcleb_true in E. cbn [times map] in *. destruct rs as [|[t1 y1] rs]; [reflexivity|].
    exfalso. assert (t0 < last (t0 :: map fst ((t1, y1) :: rs)) 0).
    { rewrite last_is_nth. change t0 with (nth 0 (t0 :: map fst ((t1, y1) :: rs)) 0) at 1.
      apply incr_nth_lt; [exact Hinc|cbn [length map]; lia|cbn [length map]; lia]. }
    eapply Qclt_not_le; [eassumption|]. eapply Qcle_trans; eauto.
  - apply (interp_from_after' rs t0 y0 t); assumption.
Qed.

Theorem interp_between rs i t : incr (times rs) -> (S i < length rs)%nat ->
  nth i (times rs) 0 <= t -> t < nth (S i) (times rs) 0 -> hd 0 (times rs) < t ->
  interp rs t = lerp (nth i (times rs) 0) (nth i (values rs) []) (nth (S i) (times rs) 0) (nth (S i) (values rs) []) t.
Proof.
  destruct rs as [|[t0 y0] rs]; [cbn; lia|]. intros Hinc Hi Hlo Hhi Hfirst. cbn [interp].
  change (times ((t0, y0) :: rs)) with (t0 :: times rs) in *.
  change (values ((t0, y0) :: rs)) with (y0 :: values rs) in *.
  cbn [hd] in Hfirst. apply Qcleb_false in Hfirst. rewrite Hfirst.
  apply (interp_from_between' rs t0 y0 i t); try assumption.
  cbn [length] in *. unfold times. rewrite map_length. lia.
Qed.

Lemma lerp_at_left ta ya tb yb : length ya = length yb -> lerp ta ya tb yb ta = ya.
Proof.
  intros H. unfold lerp. replace (ta - ta) with 0 by ring. unfold Qcdiv. rewrite Qcmult_0_l.
  revert yb H. induction ya as [|a ya IH]; intros yb H; destruct yb as [|b yb]; cbn in H; try lia; [reflexivity|].
  cbn. f_equal; [ring|]. apply IH. lia.
Qed.

(* exactly y_i at t = t_i *)
Theorem interp_at_record rs i : incr (times rs) -> (i < length rs)%nat ->
  (forall j, (j < length rs)%nat -> length (nth j (values rs) []) = length (nth 0 (values rs) [])) ->
  interp rs (nth i (times rs) 0) = nth i (values rs) [].
Proof.
  intros Hinc Hi Hshape.
  assert (Hlt : length (times rs) = length rs) by (unfold times; now rewrite map_length).
  assert (Hlv : length (values rs) = length rs) by (unfold values; now rewrite map_length).
  destruct (Nat.eq_dec i 0) as [->|Hi0].
  - rewrite interp_before; [now destruct rs|destruct rs; [cbn in Hi; lia|discriminate]|].
    destruct rs; [cbn in Hi; lia|]. cbn. apply Qcle_refl.
  - destruct (Nat.eq_dec (S i) (length rs)) as [Hl|Hl].
    + rewrite interp_after.
      * rewrite last_is_nth, Hlv. f_equal. lia.
      * destruct rs; [cbn in Hi; lia|discriminate].
      * exact Hinc.
      * rewrite last_is_nth, Hlt. replace (length rs - 1)%nat with i by lia. apply Qcle_refl.
    + rewrite (interp_between rs i); try assumption.
      * apply lerp_at_left. rewrite (Hshape i) by lia. rewrite (Hshape (S i)) by lia. reflexivity.
      * lia.
      * apply Qcle_refl.
      * apply incr_nth_lt; [assumption|lia|lia].
      * destruct rs as [|[t0 y0] rs]; [cbn in Hi; lia|]. cbn [times map hd].
        change t0 with (nth 0 (t0 :: map fst rs) 0) at 1.
        apply incr_nth_lt; [exact Hinc|lia|cbn [length]; rewrite map_length; cbn [length] in Hi; lia].
Qed.

(* what the accepted records of a script are: the abstract machine only ever appends *)
Theorem astep_appends a o : exists suffix, recs (fst (astep a o)) = recs a ++ suffix /\ bound (fst (astep a o)) = bound a.
Proof.
  destruct o as [t y j|t]; cbn [astep].
  - destruct (bound a) as [b|] eqn:Eb.
    + destruct (b <=? length (recs a))%nat; cbn [fst recs bound].
      * exists []. now rewrite app_nil_r.
      * exists [(t, y)]. auto.
    + exists [(t, y)]. auto.
  - exists []. cbn. now rewrite app_nil_r.
Qed.

(* a bounded history never holds more than `bound` records and refuses instead of overwriting *)
Theorem bounded_never_exceeds : forall ops a b, bound a = Some b -> (length (recs a) <= b)%nat ->
  (length (recs (fst (arun a ops))) <= b)%nat /\
  firstn (length (recs a)) (recs (fst (arun a ops))) = recs a.
Proof.
  induction ops as [|o ops IH]; intros a b Hb Hl; cbn [arun].
  - cbn [fst]. split; [exact Hl|]. apply firstn_all.
  - destruct (astep a o) as [a1 r] eqn:Es.
    assert (H1 : bound a1 = Some b /\ (length (recs a1) <= b)%nat /\ exists s, recs a1 = recs a ++ s).
    { destruct o as [t y j|t]; cbn [astep] in Es.
      - rewrite Hb in Es. destruct (Nat.leb_spec b (length (recs a))); injection Es as <- <-; cbn [recs bound].
        + split; [auto|]. split; [assumption|]. exists []. now rewrite app_nil_r.
        + split; [auto|]. split; [rewrite app_length; cbn; lia|]. exists [(t, y)]. reflexivity.
      - injection Es as <- <-. split; [assumption|]. split; [assumption|]. exists []. now rewrite app_nil_r. }
    destruct H1 as (Hb1 & Hl1 & s & Hs).
    destruct (IH a1 b Hb1 Hl1) as (Hle & Hpre). destruct (arun a1 ops) as [a2 rs]. cbn [fst] in *.
    split; [exact Hle|].
    rewrite Hs in Hpre. rewrite app_length in Hpre.
    apply (f_equal (firstn (length (recs a)))) in Hpre.
    rewrite firstn_firstn in Hpre. rewrite Nat.min_l in Hpre by lia. rewrite Hpre.
    rewrite firstn_app, firstn_all, Nat.sub_diag. cbn. now rewrite app_nil_r.
Qed.
