(* GammaProofs.v — proofs about Gamma.v (C11). *)
From Coq Require Import List ZArith QArith Qcanon Qround Bool Arith Lia ZifyBool Field Permutation.
From PV Require Import Ring Gamma.
Import ListNotations.
Open Scope Qc_scope.

(* ---- unit steady-state gain: under a constant input u the only equilibrium of the chain is z_k = u for all k ---- *)
Lemma equilibrium_is_u a u : forall z, a <> 0 -> Forall (fun d => d = 0) (chain_rhs a u z) -> Forall (fun x => x = u) z.
Proof.
  intros z Ha. revert u. induction z as [|x z IH]; intros u H; [constructor|].
  unfold chain_rhs in H. cbn [combine map fst snd] in H. inversion H as [|? ? Hx Hrest]; subst.
  assert (x = u).
  { destruct (Qcmult_integral _ _ Hx) as [Ha0|Hd]; [contradiction|].
    apply (f_equal (fun q => q + x)) in Hd. ring_simplify in Hd. symmetry. exact Hd. }
  subst x. constructor; [reflexivity|]. apply IH. exact Hrest.
Qed.

Lemma equilibrium_exists a u n : Forall (fun d => d = 0) (chain_rhs a u (repeat u n)).
Proof.
  unfold chain_rhs. revert u. induction n as [|n IH]; intros u; cbn; [constructor|].
  constructor; [ring|]. apply IH.
Qed.

Theorem unit_gain a u z : a <> 0 -> Forall (fun d => d = 0) (chain_rhs a u z) -> chain_out u z = u.
Proof.
  intros Ha H. pose proof (equilibrium_is_u a u z Ha H) as F. unfold chain_out.
  clear H. induction z as [|x z IH]; [reflexivity|].
  inversion F; subst. destruct z as [|y z]; [reflexivity|]. cbn [last] in *. apply IH. assumption.
Qed.

(* ---- mean delay: with the ramp input u(t) = t, z_k(t) = t - k/a solves stage k: 1 = a (z_{k-1} - z_k);
        so the n-th stage lags the ramp by n/a, and with a = n/d that is exactly d ---- *)
Theorem ramp_lag a t (k : Qc) : a <> 0 -> a * ((t - k / a) - (t - (k + 1) / a)) = 1.
Proof. intros Ha. field. exact Ha. Qed.
Theorem lag_is_d (n : nat) d : d <> 0 -> of_nat n <> 0 -> of_nat n / (of_nat n / d) = d.
Proof. intros Hd Hn. field. split; assumption. Qed.

(* ---- grouping is a partition: the chains' member lists, concatenated, are a permutation of the slot indices ---- *)
Lemma bucket_add_perm {A} k (x : A) : forall bs,
  Permutation (concat (map snd (bucket_add k x bs))) (x :: concat (map snd bs)).
Proof.
  induction bs as [|[k' l] bs IH]; cbn.
  - apply Permutation_refl.
  - destruct (Nat.eqb k k'); cbn.
    + rewrite <- app_assoc. cbn. apply Permutation_sym, Permutation_middle.
    + eapply Permutation_trans; [apply Permutation_app_head, IH|]. apply Permutation_sym, Permutation_middle.
Qed.

Lemma bucket_perm {A} (key : A -> nat) (l : list A) : Permutation (concat (map snd (bucket key l))) l.
Proof.
  unfold bucket.
  assert (G : forall l bs, Permutation (concat (map snd (fold_left (fun bs x => bucket_add (key x) x bs) l bs)))
                                       (concat (map snd bs) ++ l)).
  { clear l. induction l as [|x l IH]; intros bs; cbn [fold_left].
    - rewrite app_nil_r. apply Permutation_refl.
    - eapply Permutation_trans; [apply IH|].
      eapply Permutation_trans; [apply Permutation_app_tail, bucket_add_perm|].
      cbn. apply Permutation_middle. }
  specialize (G l []). cbn in G. exact G.
Qed.

Theorem chains_partition keys : Permutation (concat (map snd (chains keys))) (seq 0 (length keys)).
Proof. unfold chains. apply bucket_perm. Qed.

(* every member of a chain has that chain's key *)
Lemma bucket_add_keys {A} (key : A -> nat) x : forall bs,
  (forall b y, In b bs -> In y (snd b) -> key y = fst b) ->
  forall b y, In b (bucket_add (key x) x bs) -> In y (snd b) -> key y = fst b.
Proof.
  induction bs as [|[k' l] bs IH]; intros H b y Hb Hy; cbn in Hb.
  - destruct Hb as [<-|[]]. cbn in *. destruct Hy as [<-|[]]. reflexivity.
  - destruct (Nat.eqb (key x) k') eqn:E; cbn in Hb.
    + destruct Hb as [<-|Hb]; [|apply (H b y (or_intror Hb) Hy)].
      cbn in *. apply in_app_iff in Hy. destruct Hy as [Hy|[<-|[]]].
      * apply (H (k', l) y (or_introl eq_refl) Hy).
      * apply Nat.eqb_eq, E.
    + destruct Hb as [<-|Hb]; [apply (H (k', l) y (or_introl eq_refl) Hy)|].
      apply (IH (fun b y Hb => H b y (or_intror Hb)) b y Hb Hy).
Qed.

Theorem chain_members_have_its_key keys ch j : In ch (chains keys) -> In j (snd ch) -> nth j keys O = fst ch.
Proof.
  unfold chains, bucket.
  assert (G : forall l bs, (forall b y, In b bs -> In y (snd b) -> nth y keys O = fst b) ->
              forall b y, In b (fold_left (fun bs x => bucket_add (nth x keys O) x bs) l bs) -> In y (snd b) -> nth y keys O = fst b).
  { induction l as [|x l IH]; intros bs H; cbn [fold_left]; [exact H|].
    apply IH. apply (bucket_add_keys (fun j => nth j keys O) x bs H). }
  intros Hc Hj. apply (G (seq 0 (length keys)) [] (fun b y Hb => match Hb with end) ch j Hc Hj).
Qed.

(* ---- under the guards the compiled parameters are the specified ones, hence the trajectories coincide ---- *)
Lemma Qceqb_eq a b : Qceqb a b = true -> a = b.
Proof. unfold Qceqb. intros H. apply Qc_is_canon. apply Qeq_bool_iff, H. Qed.

Lemma of_nat_pos_ne d : Qcpos d = true -> Qceqb d 0 = false.
Proof.
  unfold Qcpos, Qceqb. intros H. destruct (Qeq_bool (this d) (this 0)) eqn:E; [|reflexivity].
  apply Qeq_bool_iff in E. apply negb_true_iff in H. assert (Qle_bool (this d) 0 = true); [|congruence].
  apply Qle_bool_iff. rewrite E. apply Qle_refl.
Qed.

(* with Ring.fixed_D15 on, an edge without delay has m = 0, hence order 0: the kernel guard restricts nothing *)
Lemma kernel_guard_trivial c : g_no_undelayed_kernel c = true.
Proof.
  unfold g_no_undelayed_kernel. apply forallb_forall. intros e _. destruct (gd e) eqn:Ed; [reflexivity|].
  unfold slot_order, slot_m. rewrite Ed. reflexivity.
Qed.

Lemma zero_div x : (of_nat 0 / x = 0)%Qc.
Proof. unfold Qcdiv. replace (of_nat 0) with 0%Qc by (apply Qc_is_canon; reflexivity). apply Qcmult_0_l. Qed.

(* the strongest form that is true: every edge whose delay is implemented at all (its source has a delay above the step size)
   gets the specified (order, rate), provided round(rate, 12) does not merge two different rates *)
Theorem params_agree_scope c : gwf c = true -> g_above_step c = true -> g_rates_exact c = true -> impl_params c = spec_params c.
Proof.
  intros Hwf Habove Hrate. unfold impl_params, spec_params. apply map_ext_in. intros e He.
  pose proof (kernel_guard_trivial c) as Hker.
  unfold g_no_undelayed_kernel in Hker. rewrite forallb_forall in Hker. specialize (Hker e He).
  unfold g_above_step in Habove. rewrite forallb_forall in Habove. specialize (Habove e He).
  unfold g_rates_exact in Hrate. rewrite forallb_forall in Hrate. specialize (Hrate e He). apply Qceqb_eq in Hrate.
  unfold gwf in Hwf. apply andb_prop in Hwf. destruct Hwf as [_ Hwf]. rewrite forallb_forall in Hwf. specialize (Hwf e He).
  apply andb_prop in Hwf. destruct Hwf as [_ Hd].
  destruct (gd e) as [[d [s|]]|] eqn:Ed.
  - rewrite Habove, Hrate. unfold slot_rate, slot_order, slot_m. rewrite Ed.
    apply andb_prop in Hd. destruct Hd as [Hd _]. rewrite (of_nat_pos_ne d Hd).
    set (n := Z.to_nat (round_half_even (sq (d / s)))).
    assert (Hn : (if (gdde c <? n)%nat then n else gdde c) = Nat.max n (gdde c)).
    { destruct (Nat.ltb_spec (gdde c) n); lia. }
    rewrite Hn. reflexivity.
  - (* plain delay: kept continuous when dde_approx > 0; with dde_approx = 0 both sides are the order-0 pass-through *)
    destruct (continuous c) eqn:Hc.
    + cbn [negb orb] in Habove. rewrite Habove, Hrate. unfold slot_rate, slot_order, slot_m. rewrite Ed, Hc.
      rewrite (of_nat_pos_ne d Hd). reflexivity.
    + assert (H0 : gdde c = 0%nat).
      { unfold continuous, fixed_dde_steps in Hc. cbn in Hc. destruct (gdde c); [reflexivity|discriminate]. }
      destruct (gadd_delay c (gkey c (gsrc e))); [|rewrite H0, zero_div; reflexivity].
      rewrite Hrate. unfold slot_rate, slot_order, slot_m. rewrite Ed, Hc, H0.
      destruct (Qceqb (of_nat (steps_of d (gdt c))) 0); rewrite ?zero_div; reflexivity.
  - destruct (gadd_delay c (gkey c (gsrc e))) eqn:Ga; [|reflexivity].
    rewrite Hrate. rewrite orb_false_r in Hker. apply Nat.eqb_eq in Hker.
    unfold slot_rate. rewrite Hker. destruct (Qceqb (slot_m c e) 0); rewrite ?zero_div; reflexivity.
Qed.

Lemma steps_agree c : g_steps_exact c = true -> impl_steps c = spec_steps c.
Proof.
  intros H. unfold impl_steps, spec_steps. apply map_ext_in. intros e He.
  unfold g_steps_exact in H. rewrite forallb_forall in H. apply Nat.eqb_eq, H, He.
Qed.

(* what g_steps_exact means: outside D114 (no plain delay shares its (merged) source variable with a spread edge, or the repair is in)
   and inside the property's scope (plain delays of at least two steps) the compiled discrete delays are the specified ones *)
Lemma list_max_ge' l x : In x l -> (x <= list_max l)%nat.
Proof.
  intros H. pose proof (proj1 (list_max_le l (list_max l)) (Nat.le_refl _)) as F.
  rewrite Forall_forall in F. apply F, H.
Qed.

Lemma neglect_0 : neglect 0 = 0%nat.
Proof. unfold neglect. destruct (fixed_one_step_per_edge && _); reflexivity. Qed.
Lemma neglect_ge2 k : (2 <= k)%nat -> neglect k = k.
Proof. intros H. unfold neglect. destruct (Nat.leb_spec k 1); [lia|]. rewrite andb_false_r. reflexivity. Qed.

Theorem steps_exact_of_guards c :
  g_no_plain_in_spread_group c = true -> g_plain_ge2 c = true -> g_steps_exact c = true.
Proof.
  intros Hm Hs. unfold g_steps_exact. apply forallb_forall. intros e He. apply Nat.eqb_eq.
  unfold impl_step, spec_step, continuous, fixed_dde_steps. cbn [andb].
  unfold g_no_plain_in_spread_group in Hm. unfold g_plain_ge2 in Hs.
  destruct (Nat.ltb 0 (gdde c)) eqn:Hd; [reflexivity|]. rewrite orb_false_r in Hm. cbn [orb] in Hs.
  rewrite forallb_forall in Hs. specialize (Hs e He).
  assert (Hgs : forall d, gd e = Some (d, None) -> group_spread c (gkey c (gsrc e)) && negb fixed_mixed_kinds = false).
  { intros d Ed. destruct fixed_mixed_kinds; [apply andb_false_r|]. cbn [orb] in Hm.
    rewrite forallb_forall in Hm. specialize (Hm e He). rewrite Ed in Hm. apply negb_true_iff in Hm. rewrite Hm. reflexivity. }
  destruct (gd e) as [[d [s|]]|] eqn:Ed.
  - assert (P0 : plain_steps c e = 0%nat) by (unfold plain_steps; rewrite Ed; reflexivity).
    unfold impl_plain_steps at 2. rewrite P0, neglect_0.
    destruct (group_spread c (gkey c (gsrc e)) && negb fixed_mixed_kinds); [reflexivity|].
    destruct (Nat.ltb 1 _); reflexivity.
  - rewrite (Hgs d eq_refl). apply Nat.leb_le in Hs.
    assert (Hk : impl_plain_steps c e = plain_steps c e) by (unfold impl_plain_steps; apply neglect_ge2, Hs).
    assert (Hin : In (impl_plain_steps c e) (map (impl_plain_steps c) (filter (fun e' => negb (has_spread e')) (ggroup c (gkey c (gsrc e)))))).
    { apply in_map. apply filter_In. split.
      - unfold ggroup. apply filter_In. split; [exact He|apply Nat.eqb_refl].
      - unfold has_spread. rewrite Ed. reflexivity. }
    apply list_max_ge' in Hin. rewrite Hk in Hin.
    destruct (Nat.ltb_spec 1 (list_max (map (impl_plain_steps c) (filter (fun e' => negb (has_spread e')) (ggroup c (gkey c (gsrc e))))))); [exact Hk|lia].
  - assert (P0 : plain_steps c e = 0%nat) by (unfold plain_steps; rewrite Ed; reflexivity).
    unfold impl_plain_steps at 2. rewrite P0, neglect_0.
    destruct (group_spread c (gkey c (gsrc e)) && negb fixed_mixed_kinds); [reflexivity|].
    destruct (Nat.ltb 1 _); reflexivity.
Qed.

Theorem params_agree c : gwf c = true -> gguards c = true -> impl_params c = spec_params c.
Proof.
  intros Hwf Hg. unfold gguards in Hg. repeat (apply andb_prop in Hg; destruct Hg as [Hg ?]).
  apply params_agree_scope; assumption.
Qed.

Lemma gcrashes_never c : gcrashes c = false.
Proof. reflexivity. Qed.

Theorem gfull_scope c n : gwf c = true -> g_above_step c = true -> g_rates_exact c = true -> g_steps_exact c = true ->
  gimpl_run c n = Ok (gspec_run c n).
Proof.
  intros Hwf Ha Hr Hs. unfold gimpl_run, gspec_run. rewrite gcrashes_never, (params_agree_scope c Hwf Ha Hr), (steps_agree c Hs).
  change (impl_srcs c) with (spec_srcs c). reflexivity.
Qed.

(* with fixed_mixed_kinds on, the only thing g_steps_exact asks for is the property's own scope: plain delays of >= 2 steps *)
Theorem gfull_scope_only c n : gwf c = true -> g_above_step c = true -> g_rates_exact c = true -> g_plain_ge2 c = true ->
  gimpl_run c n = Ok (gspec_run c n).
Proof.
  intros Hwf Ha Hr Hp. apply gfull_scope; try assumption. apply steps_exact_of_guards; [reflexivity|exact Hp].
Qed.

Theorem gimpl_refines_spec c n : gwf c = true -> gguards c = true -> gimpl_run c n = Ok (gspec_run c n).
Proof.
  intros Hwf Hg. unfold gimpl_run, gspec_run. rewrite (params_agree c Hwf Hg).
  unfold gguards in Hg. apply andb_prop in Hg. destruct Hg as [Hg Hc]. apply andb_prop in Hg. destruct Hg as [_ Hs].
  rewrite (steps_agree c Hs). unfold g_no_scalar_shared_chain in Hc.
  change (impl_srcs c) with (spec_srcs c).
  destruct (gcrashes c); [discriminate|reflexivity].
Qed.

(* the Connectivity cascade has the specified order and rate whenever (d/s)^2 rounds to at least 1 *)
Theorem conn_refines_spec c n : g_conn c = true -> gconn_run c n = gspec_run c n.
Proof.
  intros H. unfold gconn_run, gspec_run. f_equal. unfold conn_params, spec_params. apply map_ext_in. intros e He.
  unfold g_conn in H. apply andb_prop in H. destruct H as [Hd H]. apply Nat.eqb_eq in Hd.
  rewrite forallb_forall in H. specialize (H e He). rewrite Hd.
  destruct (gd e) as [[d [s|]]|]; try discriminate; [|reflexivity]. apply Nat.leb_le in H.
  replace (Nat.max 1 (Z.to_nat (round_half_even (sq (d / s))))) with (Nat.max (Z.to_nat (round_half_even (sq (d / s)))) 0) by lia.
  reflexivity.
Qed.

(* ---- the order/rate formulas of the specification ---- *)
Theorem spec_order_rate c e d s : In e (gedges c) -> gd e = Some (d, Some s) ->
  In (Nat.max (Z.to_nat (round_half_even ((d / s) * (d / s)))) (gdde c),
      of_nat (Nat.max (Z.to_nat (round_half_even ((d / s) * (d / s)))) (gdde c)) / d) (spec_params c).
Proof.
  intros He Ed. unfold spec_params. apply in_map_iff. exists e. split; [|exact He]. rewrite Ed. reflexivity.
Qed.
