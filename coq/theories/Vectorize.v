(* Vectorize.v — executable unit-level model of what `vectorize=True` does to a circuit (C04).
   Definitions only; proofs are in VectorizeProofs.v.  Self-contained (own small node/edge abstraction).

   A circuit = classes (structurally identical nodes share one operator: optional algebraic output
   `m = g(x,k)`, state equation `x' = f(x,k,r)`, input variable r with a declared default), nodes in
   application order (class, per-node parameter k), edges (source node, target node, weight, source
   variable x or m).  State = one x per node.

   Impl mirrors, in this order (file:line of /repo/pyrates):
     ir/node.py:50-98 cache_func + 160-177 extend + ir/operator_graph.py:226-262 append_values
        -> `extend`, `cache_all`: vector nodes keyed by the structural hash, values appended in arrival
           order, returned range (old_len, new_len); `idx` = _vectorization_labels/_vectorization_indices
     frontend/template/circuit.py:1476-1518 _group_edges
        -> `group_edges`: fold appending (w, sidx, tidx) to three aligned lists per key
     ir/circuit.py:353-378 _collect_from_edges (keyed by (source node, source variable) since fix D59)
        -> `merged`
     ir/circuit.py:881-952 _generate_edge_equation
        -> `dot_edge` (branch condition), `contrib_dot` (weight matrix over sorted unique indices built
           with `+=`, i.e. after fix D02), `contrib_idx` (c[tidx[k]] := s[sidx[k]]*w[k]; Err when the
           source vector has one unit and there are several edges: D32), step 3 (`+` of zero-initialised
           buffers when there are several source vector nodes: D14; default kept otherwise)
     backend: ValueError when a vector node with > 1 units has a right-hand side that collapses to a
           constant (D21) -> `const_rhs`
   vectorize=False is the same pipeline with every node alone in its class (`keys`).
   Spec: the input of node u is the sum over THE EDGE LIST of w * value(source) for edges into u, or the
   declared default when there is no such edge; the derivative is f at that input. *)
From Coq Require Import List ZArith QArith Qcanon Bool Arith.
Import ListNotations.
Open Scope Qc_scope.

Definition mkq (num : Z) (den : positive) : Qc := Q2Qc (num # den).
Definition Qc_eqb (a b : Qc) : bool := Qeq_bool (this a) (this b).

(* ------------------------------------------------------------------------------------------ data *)
Record mono := Mono { mc : Qc; mx : nat; mk : nat; mr : nat }.
Definition poly := list mono.
(* a class stands for (equations, declarations of the variables): node types with equal equations whose variables are
   declared differently (k by an integer literal, x as `variable`) are different classes and never merged *)
Record cls := Cls { cf : poly; cg : option poly; crdef : Qc }.
Record node := Node { ncls : nat; nk : Qc }.
(* an edge may be written without a 'weight' entry (ewo = None): add_edge / _group_edges (fix D46:
   edge_dict.setdefault('weight', 1.)) then use the default weight 1 *)
Record edge := Edge { esrc : nat; etgt : nat; ewo : option Qc; esv : bool }.
Definition ew (e : edge) : Qc := match ewo e with Some w => w | None => 1 end.
Record circuit := Circ { ccls : list cls; cnodes : list node; cedges : list edge }.

Definition dcls : cls := Cls [] None 0.
Definition dnode : node := Node 0 0.

Fixpoint qpow (a : Qc) (n : nat) : Qc := match n with O => 1 | S n' => a * qpow a n' end.
Definition meval (m : mono) (x k r : Qc) : Qc := mc m * qpow x (mx m) * qpow k (mk m) * qpow r (mr m).
Fixpoint peval (p : poly) (x k r : Qc) : Qc :=
  match p with [] => 0 | m :: p' => meval m x k r + peval p' x k r end.

Fixpoint qsum (l : list Qc) : Qc := match l with [] => 0 | a :: l' => a + qsum l' end.

Definition node_cls (c : circuit) (n : nat) : cls := nth (ncls (nth n (cnodes c) dnode)) (ccls c) dcls.
Definition node_k (c : circuit) (n : nat) : Qc := nk (nth n (cnodes c) dnode).
Definition node_x (st : list Qc) (n : nat) : Qc := nth n st 0.

(* value of the source variable (x, or the algebraic m = g(x,k)) of frontend node n *)
Definition srcval (c : circuit) (st : list Qc) (n : nat) (sv : bool) : Qc :=
  if sv then match cg (node_cls c n) with
             | Some g => peval g (node_x st n) (node_k c n) 0
             | None => node_x st n
             end
  else node_x st n.

(* ------------------------------------------------------------------------------------------ Spec *)
Definition into (u : nat) (e : edge) : bool := etgt e =? u.
Definition edge_term (c : circuit) (st : list Qc) (e : edge) : Qc := ew e * srcval c st (esrc e) (esv e).

Definition spec_input (c : circuit) (st : list Qc) (u : nat) : Qc :=
  match filter (into u) (cedges c) with
  | [] => crdef (node_cls c u)
  | inc => qsum (map (edge_term c st) inc)
  end.

Definition deriv_at (c : circuit) (st : list Qc) (n : nat) (r : Qc) : Qc :=
  peval (cf (node_cls c n)) (node_x st n) (node_k c n) r.

Definition spec (c : circuit) (st : list Qc) : list Qc :=
  map (fun u => deriv_at c st u (spec_input c st u)) (seq 0 (length (cnodes c))).

(* ------------------------------------------------------------------------------------------ Impl *)
(* 1. cache_func / extend / append_values.  A vector node = (hash key, frontend nodes whose values were
      appended, in arrival order).  `extend` returns the position of the vector node and the range. *)
Definition vnode := (nat * list nat)%type.

Fixpoint extend (vn : list vnode) (key n j : nat) : list vnode * (nat * (nat * nat)) :=
  match vn with
  | [] => ([(key, [n])], (j, (0, 1)))%nat
  | (k, ms) :: rest =>
      if k =? key then ((k, ms ++ [n]) :: rest, (j, (length ms, S (length ms))))
      else let '(rest', r) := extend rest key n (S j) in ((k, ms) :: rest', r)
  end.

Fixpoint cache_all (vn : list vnode) (keys : list nat) (n : nat) : list vnode * list (nat * (nat * nat)) :=
  match keys with
  | [] => (vn, [])
  | key :: ks => let '(vn', r) := extend vn key n 0 in
                 let '(vn'', rs) := cache_all vn' ks (S n) in (vn'', r :: rs)
  end.

(* structural hash: the class when vectorizing; otherwise cached IRs are ignored (every node alone) *)
Definition keys (vec : bool) (c : circuit) : list nat :=
  if vec then map ncls (cnodes c) else seq 0 (length (cnodes c)).

(* _vectorization_labels / _vectorization_indices: frontend node -> (vector node, list(arange(start,stop))[0]) *)
Definition idx_of (rs : list (nat * (nat * nat))) (n : nat) : nat * nat :=
  let r := nth n rs (0, (0, 0))%nat in (fst r, fst (snd r)).

Definition members (vn : list vnode) (j : nat) : list nat := snd (nth j vn (0%nat, [])).

(* 2. _group_edges *)
Definition gkey := (nat * bool * nat)%type.          (* source vector node, source variable, target vector node *)
Record grp := Grp { gk : gkey; gw : list Qc; gs : list nat; gt : list nat }.
Definition gkey_eqb (a b : gkey) : bool :=
  let '(a1, a2, a3) := a in let '(b1, b2, b3) := b in (a1 =? b1) && Bool.eqb a2 b2 && (a3 =? b3).

Fixpoint add_group (gs0 : list grp) (key : gkey) (w : Qc) (si ti : nat) : list grp :=
  match gs0 with
  | [] => [Grp key [w] [si] [ti]]
  | g :: rest => if gkey_eqb (gk g) key then Grp (gk g) (gw g ++ [w]) (gs g ++ [si]) (gt g ++ [ti]) :: rest
                 else g :: add_group rest key w si ti
  end.

Definition ekey (ix : nat -> nat * nat) (e : edge) : gkey := (fst (ix (esrc e)), esv e, fst (ix (etgt e))).

Definition group_step (ix : nat -> nat * nat) (gs0 : list grp) (e : edge) : list grp :=
  add_group gs0 (ekey ix e) (ew e) (snd (ix (esrc e))) (snd (ix (etgt e))).

Definition group_edges (ix : nat -> nat * nat) (es : list edge) : list grp := fold_left (group_step ix) es [].

(* the same fold WITHOUT the setdefault of fix D46 (not used by Impl; it is what the alignment theorem is about):
   every key of the edge dict is extended by [val]*edge_len, so an edge without a 'weight' entry extends the index
   lists only.  (Faithful for a weightless edge that FOLLOWS a weighted one in its group — the silent truncation of
   D46; a group OPENED by a weightless edge has no weight list at all in the code.) *)
Definition olist (o : option Qc) : list Qc := match o with Some w => [w] | None => [] end.
Fixpoint add_group_raw (gs0 : list grp) (key : gkey) (w : option Qc) (si ti : nat) : list grp :=
  match gs0 with
  | [] => [Grp key (olist w) [si] [ti]]
  | g :: rest => if gkey_eqb (gk g) key then Grp (gk g) (gw g ++ olist w) (gs g ++ [si]) (gt g ++ [ti]) :: rest
                 else g :: add_group_raw rest key w si ti
  end.
Definition group_step_raw (ix : nat -> nat * nat) (gs0 : list grp) (e : edge) : list grp :=
  add_group_raw gs0 (ekey ix e) (ewo e) (snd (ix (esrc e))) (snd (ix (etgt e))).
Definition group_edges_raw (ix : nat -> nat * nat) (es : list edge) : list grp := fold_left (group_step_raw ix) es [].
Definition set_default (e : edge) : edge := Edge (esrc e) (etgt e) (Some (ew e)) (esv e).

(* 3. _collect_from_edges for one target vector node.  Since fix D59 the inputs are keyed by (source node, source
      variable) (`by_var = true`): every entry has one source variable.  Before D59 (`by_var = false`) the key was the
      source node alone and the entry kept the source variable of its FIRST group (D3).
      Order of the entries: first appearance of the key (the code iterates the predecessors of the target node and, per
      predecessor, its parallel graph edges, so entries of one source node are adjacent there; the entries are only
      summed, and each is realised on its own, so the order is immaterial for the values). *)
Record mrg := Mrg { msrc : nat; msv : bool; mw : list Qc; ms : list nat; mt : list nat }.
Definition gsrc (g : grp) : nat := fst (fst (gk g)).
Definition gsv (g : grp) : bool := snd (fst (gk g)).
Definition gtgt (g : grp) : nat := snd (gk g).

Definition same_input (by_var : bool) (m : mrg) (g : grp) : bool :=
  (msrc m =? gsrc g) && (negb by_var || Bool.eqb (msv m) (gsv g)).

Fixpoint add_merge (by_var : bool) (l : list mrg) (g : grp) : list mrg :=
  match l with
  | [] => [Mrg (gsrc g) (gsv g) (gw g) (gs g) (gt g)]
  | m :: rest => if same_input by_var m g then Mrg (msrc m) (msv m) (mw m ++ gw g) (ms m ++ gs g) (mt m ++ gt g) :: rest
                 else m :: add_merge by_var rest g
  end.

Definition merged (by_var : bool) (tj : nat) (groups : list grp) : list mrg :=
  fold_left (add_merge by_var) (filter (fun g => gtgt g =? tj) groups) [].

(* 4. _generate_edge_equation: one contribution = association list target unit -> value (first match wins) *)
Definition triple := (Qc * nat * nat)%type.                      (* weight, source unit, target unit *)
Fixpoint zip3 (w : list Qc) (s t : list nat) : list triple :=
  match w, s, t with
  | a :: w', b :: s', c :: t' => (a, b, c) :: zip3 w' s' t'
  | _, _, _ => []
  end.

Fixpoint mem (x : nat) (l : list nat) : bool := match l with [] => false | y :: l' => (x =? y) || mem x l' end.
Fixpoint nodupb (l : list nat) : bool := match l with [] => true | x :: l' => negb (mem x l') && nodupb l' end.

(* np.unique: sorted, without repetitions *)
Fixpoint ins (x : nat) (l : list nat) : list nat :=
  match l with
  | [] => [x]
  | y :: l' => if x <? y then x :: y :: l' else if x =? y then y :: l' else y :: ins x l'
  end.
Definition sort_u (l : list nat) : list nat := fold_right ins [] l.

(* dot_edge: duplicates in tidx, or (n*m > 1 and tsize*ssize > 1 and len(weight)/(n*m) > matrix_sparseness = 1/10);
   n = m = len(weight) = E for the scalar edges modelled here; E/(E*E) > 1/10 <-> E*E < 10*E.
   Non-vectorized target variables have shape () : tsize = 0. *)
Definition dot_edge (tsize ssize : nat) (ti : list nat) : bool :=
  let E := length ti in
  negb (nodupb ti) || ((1 <? E * E) && (1 <? tsize * ssize) && (E * E <? 10 * E)).

(* weight_mat[row(t), col(s)] += w  — kept as a function of the (t, s) unit numbers *)
Definition upd2 (W : nat -> nat -> Qc) (r c : nat) (v : Qc) : nat -> nat -> Qc :=
  fun r' c' => if (r =? r') && (c =? c') then v else W r' c'.
Definition build_add (tr : list triple) : nat -> nat -> Qc :=
  fold_left (fun W e => let '(w, s, t) := e in upd2 W t s (W t s + w)) tr (fun _ _ => 0).

Definition assoc := list (nat * Qc).
Fixpoint lookup (a : assoc) (u : nat) : option Qc :=
  match a with [] => None | (t, v) :: a' => if t =? u then Some v else lookup a' u end.

Definition contrib_dot (tr : list triple) (sval : nat -> Qc) : assoc :=
  let su := sort_u (map (fun e => snd (fst e)) tr) in
  let tu := sort_u (map snd tr) in
  let W := build_add tr in
  map (fun t => (t, qsum (map (fun s => W t s * sval s) su))) tu.

(* t[target_idx] = s[source_idx] * weight : assignments in order, a later one overwrites an earlier one *)
Definition contrib_idx (tr : list triple) (sval : nat -> Qc) : assoc :=
  fold_left (fun a e => let '(w, s, t) := e in (t, sval s * w) :: a) tr [].

(* model switches of the repairs D85 (= D32) and D86 (= D21), both landed in /repo (f88ba52): true.  Read by harness/c04.py:
   fixed_D32: the indexed branch broadcasts a single source unit instead of indexing a scalar
   fixed_D21: a right-hand side of size one is broadcast to the shape of a vectorized state variable *)
Definition fixed_D32 : bool := true.
Definition fixed_D21 : bool := true.

Definition contrib (f32 : bool) (tsize ssize : nat) (m : mrg) (sval : nat -> Qc) : option assoc :=
  let tr := zip3 (mw m) (ms m) (mt m) in
  if dot_edge tsize ssize (mt m) then Some (contrib_dot tr sval)
  else if negb f32 && (ssize =? 1) && (1 <? length (mt m)) then None           (* D32: IndexError *)
  else Some (contrib_idx tr sval).

Fixpoint all_some {A} (l : list (option A)) : option (list A) :=
  match l with
  | [] => Some []
  | None :: _ => None
  | Some a :: l' => match all_some l' with Some r => Some (a :: r) | None => None end
  end.

(* step 3 + default handling.
   Several source vector nodes: tvar = t_in0 + t_in1 + ...; the buffers are zero-initialised, except that (fix D57) the
   FIRST buffer carries the declared default on the units that no edge of any source reaches (`covered` = union of all
   target_idx lists).  Before D57 all buffers were zeros: `input_of_before_D57` (D14: an unconnected unit got 0). *)
Definition assigned (u : nat) (a : assoc) : bool := match lookup a u with Some _ => true | None => false end.
Definition buffers_sum (cs : list assoc) (u : nat) : Qc :=
  qsum (map (fun a => match lookup a u with Some v => v | None => 0 end) cs).

Definition input_of (cs : list assoc) (rdef : Qc) (u : nat) : Qc :=
  match cs with
  | [] => rdef                                              (* no edge operator: constant argument *)
  | [a] => match lookup a u with Some v => v | None => rdef end     (* t_str = tvar: buffer initialised with defaults *)
  | _ => buffers_sum cs u + (if existsb (assigned u) cs then 0 else rdef)
  end.

Definition input_of_before_D57 (cs : list assoc) (rdef : Qc) (u : nat) : Qc :=
  match cs with
  | [] => rdef
  | [a] => match lookup a u with Some v => v | None => rdef end
  | _ => buffers_sum cs u
  end.

(* right-hand side that collapses to a constant once like terms are collected (sympy Add) *)
Definition same_exp (a b : mono) : bool := (mx a =? mx b) && (mk a =? mk b) && (mr a =? mr b).
Fixpoint coef_sum (p : poly) (m : mono) : Qc :=
  match p with [] => 0 | m' :: p' => if same_exp m m' then mc m' + coef_sum p' m else coef_sum p' m end.
Definition is_const_mono (m : mono) : bool := (mx m =? 0) && (mk m =? 0) && (mr m =? 0).
Definition const_rhs (p : poly) : bool := forallb (fun m => is_const_mono m || Qc_eqb (coef_sum p m) 0) p.

Definition vn_err (c : circuit) (v : vnode) : bool :=          (* D21 *)
  (1 <? length (snd v)) && const_rhs (cf (node_cls c (hd 0%nat (snd v)))).

Record compiled := Compiled { cvn : list vnode; cidx : nat -> nat * nat; cgroups : list grp }.

Definition compile (vec : bool) (c : circuit) : compiled :=
  let '(vn, rs) := cache_all [] (keys vec c) 0 in
  let ix := idx_of rs in
  Compiled vn ix (group_edges ix (cedges c)).

(* input values of all units of target vector node tj *)
Definition vn_inputs_gen (inp : list assoc -> Qc -> nat -> Qc) (by_var f32 : bool) (vec : bool) (c : circuit) (st : list Qc) (k : compiled) (tj : nat)
  : option (list Qc) :=
  let mem_t := members (cvn k) tj in
  let tsize := if vec then length mem_t else 0%nat in
  let ml := merged by_var tj (cgroups k) in
  match all_some (map (fun m =>
            let mem_s := members (cvn k) (msrc m) in
            contrib f32 tsize (length mem_s) m (fun i => srcval c st (nth i mem_s 0%nat) (msv m))) ml) with
  | None => None
  | Some cs => Some (map (fun u => inp cs (crdef (node_cls c (nth u mem_t 0%nat))) u) (seq 0 (length mem_t)))
  end.
Definition vn_inputs := vn_inputs_gen input_of true fixed_D32.

Definition impl_gen (inp : list assoc -> Qc -> nat -> Qc) (by_var f32 f21 : bool) (vec : bool) (c : circuit) (st : list Qc) : option (list Qc) :=
  let k := compile vec c in
  if negb f21 && existsb (vn_err c) (cvn k) then None
  else match all_some (map (vn_inputs_gen inp by_var f32 vec c st k) (seq 0 (length (cvn k)))) with
       | None => None
       | Some rv => Some (map (fun n => let '(j, i) := cidx k n in
                                        deriv_at c st n (nth i (nth j rv []) 0)) (seq 0 (length (cnodes c))))
       end.
Definition impl := impl_gen input_of true fixed_D32 fixed_D21.                  (* the code as it is now *)
Definition impl_loud := impl_gen input_of true false false.                     (* ... with the loud classes D32, D21 unrepaired *)
Definition impl_before_D59 := impl_gen input_of false false false.              (* the code before fix D59 (D3) *)
Definition impl_before_D57 := impl_gen input_of_before_D57 false false false.   (* the code before fix D57 (D14) *)

(* explicit Euler on the frontend state with either derivative *)
Definition euler_step (h : Qc) (st d : list Qc) : list Qc := map (fun p => fst p + h * snd p) (combine st d).
Fixpoint euler_spec (c : circuit) (h : Qc) (st : list Qc) (n : nat) : list (list Qc) :=
  match n with O => [] | S n' => let st' := euler_step h st (spec c st) in st' :: euler_spec c h st' n' end.
Fixpoint euler_impl (vec : bool) (c : circuit) (h : Qc) (st : list Qc) (n : nat) : option (list (list Qc)) :=
  match n with
  | O => Some []
  | S n' => match impl vec c st with
            | None => None
            | Some d => let st' := euler_step h st d in
                        match euler_impl vec c h st' n' with Some r => Some (st' :: r) | None => None end
            end
  end.

(* ------------------------------------------------------------------------------------------ well-formedness, guards *)
Definition poly_no_r (p : poly) : bool := forallb (fun m => mr m =? 0) p.
Definition wf_cls (cl : cls) : bool :=
  match cg cl with None => true | Some g => poly_no_r g && negb (const_rhs g) end.
Definition has_g (c : circuit) (n : nat) : bool := match cg (node_cls c n) with Some _ => true | None => false end.
Definition wf (c : circuit) : bool :=
  forallb wf_cls (ccls c) &&
  forallb (fun nd => ncls nd <? length (ccls c)) (cnodes c) &&
  forallb (fun e => (esrc e <? length (cnodes c)) && (etgt e <? length (cnodes c)) &&
                    (negb (esv e) || has_g c (esrc e))) (cedges c).

Definition cls_of (c : circuit) (n : nat) : nat := ncls (nth n (cnodes c) dnode).
Definition count_cls (c : circuit) (ci : nat) : nat := length (filter (fun nd => ncls nd =? ci) (cnodes c)).

(* source classes projecting into class ci *)
Definition src_classes (c : circuit) (ci : nat) : list nat :=
  sort_u (map (fun e => cls_of c (esrc e)) (filter (fun e => cls_of c (etgt e) =? ci) (cedges c))).

(* D14 (repaired by D57; no longer part of `guard`): an unconnected unit of a class fed by >= 2 source classes must have default 0 *)
Definition default_survives (c : circuit) : bool :=
  forallb (fun u => negb (length (filter (into u) (cedges c)) =? 0) || Qc_eqb (crdef (node_cls c u)) 0 ||
                    (length (src_classes c (cls_of c u)) <? 2)) (seq 0 (length (cnodes c))).

(* D21 *)
Definition no_constant_rhs (c : circuit) : bool :=
  forallb (fun nd => (count_cls c (ncls nd) <? 2) || negb (const_rhs (cf (nth (ncls nd) (ccls c) dcls)))) (cnodes c).

(* D3 (repaired by D59; no longer part of `guard`): all edges between one source class and one target class read the same source variable *)
Definition single_source_var (c : circuit) : bool :=
  forallb (fun e1 => forallb (fun e2 =>
     negb ((cls_of c (esrc e1) =? cls_of c (esrc e2)) && (cls_of c (etgt e1) =? cls_of c (etgt e2))) ||
     Bool.eqb (esv e1) (esv e2)) (cedges c)) (cedges c).

(* D32: a class with a single unit does not feed, through one source variable, >= 10 distinct units of one class
   without a repeated target *)
Definition pair_targets (c : circuit) (e : edge) : list nat :=
  map etgt (filter (fun e2 => (cls_of c (esrc e2) =? cls_of c (esrc e)) && (cls_of c (etgt e2) =? cls_of c (etgt e)) &&
                              Bool.eqb (esv e2) (esv e)) (cedges c)).
Definition no_scalar_fanout (c : circuit) : bool :=
  forallb (fun e => negb (count_cls c (cls_of c (esrc e)) =? 1) || (length (pair_targets c e) <? 10) ||
                    negb (nodupb (pair_targets c e))) (cedges c).

Definition guard (c : circuit) : bool :=
  (fixed_D21 || no_constant_rhs c) && (fixed_D32 || no_scalar_fanout c).

(* ------------------------------------------------------------------------------------------ comparison glue *)
Fixpoint qlist_eqb (a b : list Qc) : bool :=
  match a, b with
  | [], [] => true
  | x :: a', y :: b' => Qc_eqb x y && qlist_eqb a' b'
  | _, _ => false
  end.
Fixpoint qll_eqb (a b : list (list Qc)) : bool :=
  match a, b with
  | [], [] => true
  | x :: a', y :: b' => qlist_eqb x y && qll_eqb a' b'
  | _, _ => false
  end.
Definition oq_eqb (a b : option (list Qc)) : bool :=
  match a, b with Some x, Some y => qlist_eqb x y | None, None => true | _, _ => false end.
Definition oqq_eqb (a b : option (list (list Qc))) : bool :=
  match a, b with Some x, Some y => qll_eqb x y | None, None => true | _, _ => false end.

(* _finalize_var_def: a float constant vector with one distinct value is replaced by that scalar; a scalar
   is broadcast against the other operands.  bget = element i under broadcasting. *)
Inductive cval := CScalar (v : Qc) | CVector (l : list Qc).
Definition bget (v : cval) (i : nat) : Qc := match v with CScalar a => a | CVector l => nth i l 0 end.
Definition all_eqb (a : Qc) (l : list Qc) : bool := forallb (Qc_eqb a) l.
Definition finalize (l : list Qc) : cval :=
  match l with
  | [] => CVector []
  | a :: l' => if all_eqb a l' then CScalar a else CVector l      (* len(np.unique(value)) > 1 -> unchanged *)
  end.

(* ========================================================================================== multi-operator nodes
   A node type = a LIST of operators, each with its own state variable x, parameter k, input r (declared default) and
   optional algebraic output m = g(x,k); `ofeed` = positions of the operators of the same node whose output x feeds this
   operator's input by name (summed), such an operator receives no edges.
   - structural key of a node = the list of operator structures: operator names and values are not in it, the
     multiplicity and order are, and so is the way the variables are DECLARED (vtype, dtype, shape: `odecl`, a code for
     the declaration signature — ProtectedVariableDict hashes the (name, vtype, dtype, shape) tuples; seed C01-m6) (OperatorGraph.__hash__ = hash(tuple(operators.values())), fix against seed C04-m2);
     `canon` = first declared type with the same structure list;
   - cache_func (ir/node.py:60-90, fix D58): the operators of a node that is merged into a cached node are matched, in
     order, with the first not yet taken cached operator of the same structure (`match_ops`), and the operator keys of the
     node's values are renamed ONCE, simultaneously (`rename_names`); append_values then extends the cached operator's
     value lists by key; _vectorization_labels maps `node/op` to `cached node/cached op`;
   - the frontend variable (node n, operator o) therefore lives at unit i of the vector variable (vector node j, cached
     operator position `vpos`), and the value of vector variable (j, p) at unit i is that of operator `fpos` of the i-th
     member; edges are grouped per (source vector variable, source variable kind, target vector variable) and realised by
     the SAME pipeline as above (group_edges, merged, contrib, input_of), with frontend variables flattened to numbers
     (`voff c n + o`) and a vector variable named by the flattened number of the cached node's variable.
   The code modelled is the current one (D46, D57, D58, D59, D85, D86 included): no Err outcome. *)
Record opr := Opr { of_ : poly; og : option poly; ordef : Qc; ofeed : list nat; odecl : nat }.
Record mnode := MNode { mncls : nat; mnames : list nat; mnk : list Qc }.
Record medge := MEdge { mesrc : nat; meso : nat; mesv : bool; metgt : nat; meto : nat; mewo : option Qc }.
Record mcircuit := MCirc { mccls : list (list opr); mcnodes : list mnode; mcedges : list medge }.

Definition dopr : opr := Opr [] None 0 [] 0.
Definition dmnode : mnode := MNode 0 [] [].
Definition mn (c : mcircuit) (n : nat) : mnode := nth n (mcnodes c) dmnode.
Definition cops (c : mcircuit) (ci : nat) : list opr := nth ci (mccls c) [].
Definition mops (c : mcircuit) (n : nat) : list opr := cops c (mncls (mn c n)).
Definition mop (c : mcircuit) (n o : nat) : opr := nth o (mops c n) dopr.
Definition mnops (c : mcircuit) (n : nat) : nat := length (mops c n).

(* flattening of (node, operator position) *)
Fixpoint sum_first (ls : list nat) (n : nat) : nat :=
  match n, ls with S n', a :: ls' => (a + sum_first ls' n')%nat | _, _ => 0%nat end.
Definition oplens (c : mcircuit) : list nat := map (fun nd => length (cops c (mncls nd))) (mcnodes c).
Definition voff (c : mcircuit) (n : nat) : nat := sum_first (oplens c) n.
Definition nvars (c : mcircuit) : nat := voff c (length (mcnodes c)).
Fixpoint unflat_l (ls : list nat) (v n : nat) : nat * nat :=
  match ls with [] => (n, v) | a :: ls' => if v <? a then (n, v) else unflat_l ls' (v - a) (S n) end.
Definition unflat (c : mcircuit) (v : nat) : nat * nat := unflat_l (oplens c) v 0.

Definition mvar_x (c : mcircuit) (st : list Qc) (n o : nat) : Qc := nth (voff c n + o) st 0.
Definition mpar (c : mcircuit) (n o : nat) : Qc := nth o (mnk (mn c n)) 0.
Definition msrcval (c : mcircuit) (st : list Qc) (n o : nat) (sv : bool) : Qc :=
  if sv then match og (mop c n o) with
             | Some g => peval g (mvar_x c st n o) (mpar c n o) 0
             | None => mvar_x c st n o
             end
  else mvar_x c st n o.

(* ---- Spec *)
Definition mew (e : medge) : Qc := match mewo e with Some w => w | None => 1 end.
Definition minto (n o : nat) (e : medge) : bool := (metgt e =? n) && (meto e =? o).
Definition mspec_input (c : mcircuit) (st : list Qc) (n o : nat) : Qc :=
  match ofeed (mop c n o) with
  | [] => match filter (minto n o) (mcedges c) with
          | [] => ordef (mop c n o)
          | inc => qsum (map (fun e => mew e * msrcval c st (mesrc e) (meso e) (mesv e)) inc)
          end
  | fd => qsum (map (fun o' => mvar_x c st n o') fd)
  end.
Definition mderiv (c : mcircuit) (st : list Qc) (n o : nat) (r : Qc) : Qc :=
  peval (of_ (mop c n o)) (mvar_x c st n o) (mpar c n o) r.
Definition mspec (c : mcircuit) (st : list Qc) : list Qc :=
  flat_map (fun n => map (fun o => mderiv c st n o (mspec_input c st n o)) (seq 0 (mnops c n))) (seq 0 (length (mcnodes c))).

(* ---- Impl *)
Definition mono_eqb (a b : mono) : bool := Qc_eqb (mc a) (mc b) && (mx a =? mx b) && (mk a =? mk b) && (mr a =? mr b).
Fixpoint list_eqb {A} (f : A -> A -> bool) (a b : list A) : bool :=
  match a, b with [], [] => true | x :: a', y :: b' => f x y && list_eqb f a' b' | _, _ => false end.
Definition opt_eqb {A} (f : A -> A -> bool) (a b : option A) : bool :=
  match a, b with Some x, Some y => f x y | None, None => true | _, _ => false end.
Definition opr_eqb (a b : opr) : bool :=
  list_eqb mono_eqb (of_ a) (of_ b) && opt_eqb (list_eqb mono_eqb) (og a) (og b) && Qc_eqb (ordef a) (ordef b) &&
  list_eqb Nat.eqb (ofeed a) (ofeed b) && (odecl a =? odecl b).
Definition ops_eqb : list opr -> list opr -> bool := list_eqb opr_eqb.

(* the structural hash: the first declared type with the same list of operator structures *)
Fixpoint first_same (l : list opr) (cl : list (list opr)) (p : nat) : nat :=
  match cl with [] => p | l' :: rest => if ops_eqb l' l then p else first_same l rest (S p) end.
Definition canon (c : mcircuit) (ci : nat) : nat := first_same (cops c ci) (mccls c) 0.
Definition mkeys (vec : bool) (c : mcircuit) : list nat :=
  if vec then map (fun nd => canon c (mncls nd)) (mcnodes c) else seq 0 (length (mcnodes c)).

(* cache_func: matching of the operators of a node with those of the cached node *)
Fixpoint first_free (s : opr) (cached : list opr) (taken : list nat) (p : nat) : option nat :=
  match cached with
  | [] => None
  | t :: rest => if opr_eqb s t && negb (mem p taken) then Some p else first_free s rest taken (S p)
  end.
Fixpoint match_ops (ops cached : list opr) (taken : list nat) : list (option nat) :=
  match ops with
  | [] => []
  | s :: rest => match first_free s cached taken 0 with
                 | Some p => Some p :: match_ops rest cached (p :: taken)
                 | None => None :: match_ops rest cached taken
                 end
  end.
(* fix D58: every operator key of the node's values is replaced once, simultaneously: new key of the o-th operator *)
Fixpoint rename_with (names : list nat) (pos : list (option nat)) (cnames : list nat) : list nat :=
  match names, pos with
  | a :: names', Some p :: pos' => nth p cnames a :: rename_with names' pos' cnames
  | a :: names', None :: pos' => a :: rename_with names' pos' cnames
  | _, _ => []
  end.
Definition rename_names (c : mcircuit) (n0 n : nat) : list nat :=
  rename_with (mnames (mn c n)) (match_ops (mops c n) (mops c n0) []) (mnames (mn c n0)).

Fixpoint index_of (a : nat) (l : list nat) : nat :=
  match l with [] => 0%nat | b :: l' => if a =? b then 0%nat else S (index_of a l') end.

(* operator o of node n -> position of its (renamed) key among the cached node's operators; and back *)
Definition vpos (c : mcircuit) (n0 n o : nat) : nat :=
  if n0 =? n then o else index_of (nth o (rename_names c n0 n) 0%nat) (mnames (mn c n0)).
Definition fpos (c : mcircuit) (n0 n p : nat) : nat :=
  if n0 =? n then p else index_of (nth p (mnames (mn c n0)) 0%nat) (rename_names c n0 n).

Record mcompiled := MCompiled { mvn : list vnode; mixn : nat -> nat * nat }.
Definition mcompile (vec : bool) (c : mcircuit) : mcompiled :=
  let '(vn, rs) := cache_all [] (mkeys vec c) 0 in MCompiled vn (idx_of rs).
Definition cached (k : mcompiled) (j : nat) : nat := hd 0%nat (members (mvn k) j).

(* variable-level index map, members, valuation, edges *)
Definition vix (c : mcircuit) (k : mcompiled) (v : nat) : nat * nat :=
  let '(n, o) := unflat c v in
  let '(j, i) := mixn k n in
  let n0 := cached k j in
  ((voff c n0 + vpos c n0 n o)%nat, i).
Definition vmemb (c : mcircuit) (k : mcompiled) (J : nat) : list nat :=
  let '(n0, p) := unflat c J in
  map (fun n => (voff c n + fpos c n0 n p)%nat) (members (mvn k) (fst (mixn k n0))).
Definition vval (c : mcircuit) (st : list Qc) (v : nat) (sv : bool) : Qc :=
  let '(n, o) := unflat c v in msrcval c st n o sv.
Definition vedge (c : mcircuit) (e : medge) : edge :=
  Edge (voff c (mesrc e) + meso e) (voff c (metgt e) + meto e) (mewo e) (mesv e).
Definition vedges (c : mcircuit) : list edge := map (vedge c) (mcedges c).

Definition contrib_now (tsize ssize : nat) (m : mrg) (sval : nat -> Qc) : assoc :=
  let tr := zip3 (mw m) (ms m) (mt m) in
  if dot_edge tsize ssize (mt m) then contrib_dot tr sval else contrib_idx tr sval.

(* inputs of all units of the vector variable J (an operator without feeders) *)
Definition minputs (vec : bool) (c : mcircuit) (st : list Qc) (k : mcompiled) (groups : list grp) (J units : nat) (rdef : Qc)
  : list Qc :=
  let tsize := if vec then units else 0%nat in
  let cs := map (fun m => contrib_now tsize (length (vmemb c k (msrc m))) m
                            (fun s => vval c st (nth s (vmemb c k (msrc m)) 0%nat) (msv m)))
                (merged true J groups) in
  map (fun u => input_of cs rdef u) (seq 0 units).

(* the vector operator p of vector node j: per unit the input (edges, or the same unit's feeder outputs) *)
Definition mvec_inputs (vec : bool) (c : mcircuit) (st : list Qc) (k : mcompiled) (groups : list grp) (j p : nat) : list Qc :=
  let n0 := cached k j in
  let mem_j := members (mvn k) j in
  match ofeed (mop c n0 p) with
  | [] => minputs vec c st k groups (voff c n0 + p) (length mem_j) (ordef (mop c n0 p))
  | fd => map (fun n => qsum (map (fun p' => mvar_x c st n (fpos c n0 n p')) fd)) mem_j
  end.

Definition mimpl (vec : bool) (c : mcircuit) (st : list Qc) : list Qc :=
  let k := mcompile vec c in
  let groups := group_edges (vix c k) (vedges c) in
  flat_map (fun n => map (fun o =>
      let '(j, i) := mixn k n in
      let n0 := cached k j in
      let p := vpos c n0 n o in
      (* state and parameter of unit i of the vector operator p: append_values / state packing by renamed key *)
      peval (of_ (mop c n0 p)) (mvar_x c st n (fpos c n0 n p)) (mpar c n (fpos c n0 n p))
            (nth i (mvec_inputs vec c st k groups j p) 0))
    (seq 0 (mnops c n))) (seq 0 (length (mcnodes c))).

Definition mwf (c : mcircuit) : bool :=
  forallb (fun nd => (mncls nd <? length (mccls c)) && (length (mnames nd) =? length (cops c (mncls nd))) &&
                     nodupb (mnames nd)) (mcnodes c) &&
  forallb (fun l => forallb (fun op => forallb (fun p' => p' <? length l) (ofeed op)) l) (mccls c) &&
  forallb (fun e => (mesrc e <? length (mcnodes c)) && (metgt e <? length (mcnodes c)) &&
                    (meso e <? mnops c (mesrc e)) && (meto e <? mnops c (metgt e)) &&
                    (match ofeed (mop c (metgt e) (meto e)) with [] => true | _ => false end)) (mcedges c).
