(* LabelGenEquiv.v — E2-tied theorems about the regenerated ComputeGraph._generate_unique_label
   (coq/gen/Gen_generate_unique_label.v, see LabelGen.v).  If the Python text changes, the generated definition
   changes and these proofs either still go through (harmless rewrite) or break (reported by the checks that
   rest on them).

   gen_label_spec          every call terminates within the fuel |table|+1 and without KeyError, for ANY table and
                           ANY label (incl. labels of the shape x_v1 and tables that already contain x_v1, x_v2 ...);
                           the label handed out is not in the table before the call, is appended to it, and no key
                           is ever removed; "t" is returned unchanged and leaves the table alone.
   unique_labels_distinct  any sequence of requests on any table yields pairwise distinct labels (apart from the
                           shared "t"), all of them different from every key the table held at the start.
                           Referenced from C01 / C05 (label generator distinctness, DESIGN.md section 5).
   Before fix D04 (e2d4952) the generator handed out x_v1 twice for the requests [x; x_v1; x]: with that text
   the loop disappears from the generated file and `loop_sound` below no longer type-checks. *)
From Coq Require Import ZArith List Bool String Lia.
From PV Require Import PyLib LabelGen.
From PVG Require Import Gen_generate_unique_label.
Import ListNotations.
Open Scope Z_scope.

Lemma py_dget_some_in d k v : py_dget d k = Some v -> In k (py_keys d).
Proof.
  unfold py_keys. induction d as [|[k' v'] d IH]; cbn; [discriminate|].
  destruct (String.eqb_spec k' k) as [->|N]; [auto|]. intros H. right. auto.
Qed.
Lemma py_dget_dset_same d k v : py_dget (py_dset d k v) k = Some v.
Proof.
  induction d as [|[k' v'] d IH]; cbn; [now rewrite String.eqb_refl|].
  destruct (String.eqb_spec k' k) as [->|N]; cbn; [now rewrite String.eqb_refl|].
  destruct (String.eqb_spec k' k); [contradiction|exact IH].
Qed.
Lemma py_din_false d k : py_din d k = false -> ~ In k (py_keys d).
Proof. intros H Hin. apply py_din_In in Hin. congruence. Qed.

Lemma cand_inj label a b : cand label a = cand label b -> a = b.
Proof. unfold cand. intros H. apply append_inj_l in H. apply append_inj_l in H. now apply py_str_Z_inj. Qed.
Lemma cand_longer label n : (String.length label + 2 <= String.length (cand label n))%nat.
Proof. unfold cand. rewrite !append_length. cbn. lia. Qed.
Lemma cand_neq_label label n : label <> cand label n.
Proof. intros H. pose proof (cand_longer label n) as L. rewrite <- H in L. lia. Qed.
Lemma cand_neq_t label n : cand label n <> "t"%string.
Proof. intros H. pose proof (cand_longer label n) as L. rewrite H in L. cbn in L. lia. Qed.

(* one unfolding of the generated loop *)
Lemma loop_unfold fuel label names label_new :
  generate_unique_label_loop1 (S fuel) label (names, label_new) =
  if py_din names label_new then
    py_bind (py_dget names label) (fun n =>
    py_bind (py_dget names label) (fun m =>
      generate_unique_label_loop1 fuel label (py_dset names label (m + 1), cand label (n + 1))))
  else Some (names, label_new).
Proof. reflexivity. Qed.

(* partial correctness of the loop: keys untouched, result not a key, result is the start value or a candidate *)
Lemma loop_sound : forall fuel label names label_new names' r,
  In label (py_keys names) ->
  generate_unique_label_loop1 fuel label (names, label_new) = Some (names', r) ->
  py_keys names' = py_keys names /\ ~ In r (py_keys names) /\ (r = label_new \/ exists k, r = cand label k).
Proof.
  induction fuel as [|fuel IH]; intros label names label_new names' r Hl H; [discriminate|].
  rewrite loop_unfold in H. destruct (py_din names label_new) eqn:E.
  - destruct (py_dget_in names label) as [n Hn]; [now apply py_din_In|]. rewrite Hn in H. cbn [py_bind] in H.
    apply IH in H.
    + rewrite py_dset_keys_in in H by exact Hl. destruct H as (H1 & H2 & [H3|H3]); repeat split; auto.
      right. eauto.
    + now apply py_dset_keys_incl.
  - injection H as <- <-. repeat split; auto. now apply py_din_false.
Qed.

(* termination within the fuel: the candidates tried are pairwise distinct keys of a finite table *)
Lemma loop_total : forall fuel label names label_new n (seen : list string),
  py_dget names label = Some n ->
  NoDup seen -> incl seen (py_keys names) ->
  (forall m, n < m -> label_new <> cand label m) ->
  (forall s m, In s seen -> n < m -> s <> cand label m) ->
  ~ In label_new seen ->
  (List.length (py_keys names) < fuel + List.length seen)%nat ->
  generate_unique_label_loop1 fuel label (names, label_new) <> None.
Proof.
  induction fuel as [|fuel IH]; intros label names label_new n seen Hn Hnd Hincl Hnew Hseen Hnotin Hlen.
  - exfalso. pose proof (NoDup_incl_length Hnd Hincl). cbn in Hlen. lia.
  - rewrite loop_unfold. destruct (py_din names label_new) eqn:E; [|discriminate].
    rewrite Hn. cbn [py_bind].
    assert (Hl : In label (py_keys names)) by (eapply py_dget_some_in; eauto).
    apply (IH label _ _ (n + 1) (label_new :: seen)).
    + apply py_dget_dset_same.
    + constructor; assumption.
    + rewrite py_dset_keys_in by exact Hl. intros s [<-|Hs]; [now apply py_din_In|auto].
    + intros m Hm Heq. apply cand_inj in Heq. lia.
    + intros s m [<-|Hs] Hm; [apply Hnew; lia|apply Hseen; [exact Hs|lia]].
    + intros [Heq|Hin]; [apply (Hnew (n + 1)); [lia|exact Heq]|apply (Hseen _ (n + 1) Hin); [lia|reflexivity]].
    + rewrite py_dset_keys_in by exact Hl. cbn [List.length]. lia.
Qed.

(* the specification the regenerated function meets, for every table and every label *)
Theorem gen_label_spec names label :
  exists r names', generate_unique_label names label = Some (r, names') /\
    ((label = "t"%string /\ r = "t"%string /\ names' = names) \/
     (label <> "t"%string /\ r <> "t"%string /\ ~ In r (py_keys names) /\ py_keys names' = py_keys names ++ [r] /\
      (r = label \/ exists k, r = cand label k))).
Proof.
  unfold generate_unique_label. destruct (String.eqb_spec label "t") as [->|Nt].
  - exists "t"%string, names. split; [reflexivity|left; auto].
  - destruct (generate_unique_label_loop1 (S (List.length names)) label (names, label)) as [[names1 r]|] eqn:EL.
    + cbn [py_bind]. exists r, (py_dset names1 r 0). split; [reflexivity|right].
      assert (HS : py_keys names1 = py_keys names /\ ~ In r (py_keys names) /\ (r = label \/ exists k, r = cand label k)).
      { destruct (py_din names label) eqn:E.
        - apply loop_sound in EL; [exact EL|now apply py_din_In].
        - rewrite loop_unfold, E in EL. injection EL as <- <-. repeat split; auto. now apply py_din_false. }
      destruct HS as (HK & HN & HR). repeat split; auto.
      * destruct HR as [->|[k ->]]; [exact Nt|apply cand_neq_t].
      * rewrite py_dset_keys_new by (now rewrite HK). now rewrite HK.
    + exfalso. destruct (py_din names label) eqn:E.
      * destruct (py_dget_in names label E) as [n Hn].
        revert EL. apply (loop_total _ label names label n []);
          [exact Hn|constructor|intros s []|intros m _; apply cand_neq_label|intros s m []|intros []|].
        unfold py_keys. rewrite map_length. cbn. lia.
      * rewrite loop_unfold, E in EL. discriminate.
Qed.

(* ANY sequence of requests on ANY table: the labels handed out (other than the shared "t") are pairwise distinct
   and different from every key the table held before; the run never fails *)
Theorem unique_labels_distinct : forall ls names,
  exists rs names', requests names ls = Some (rs, names') /\
    List.length rs = List.length ls /\
    incl (py_keys names) (py_keys names') /\
    NoDup (filter not_time rs) /\
    (forall r, In r (filter not_time rs) -> ~ In r (py_keys names)).
Proof.
  induction ls as [|l ls IH]; intros names.
  - exists [], names. cbn. repeat split; auto using incl_refl, NoDup_nil.
  - cbn [requests]. destruct (gen_label_spec names l) as (r & names1 & -> & Hcase).
    destruct (IH names1) as (rs & names2 & -> & Hlen & Hincl & Hnd & Hfresh).
    exists (r :: rs), names2. split; [reflexivity|]. split; [cbn; now rewrite Hlen|].
    destruct Hcase as [(-> & -> & ->)|(Nt & Nr & Hnot & HK & _)].
    + cbn. repeat split; auto.
    + assert (Hsub : incl (py_keys names) (py_keys names1)) by (rewrite HK; now apply incl_appl, incl_refl).
      split; [eapply incl_tran; eauto|].
      assert (Ent : not_time r = true) by (unfold not_time; destruct (String.eqb_spec r "t"); [contradiction|reflexivity]).
      cbn [filter]. rewrite Ent.
      split.
      * constructor; [|exact Hnd]. intros Hin. apply (Hfresh _ Hin). rewrite HK. apply in_or_app. right. now left.
      * intros x [<-|Hx]; [exact Hnot|]. intros Hin. apply (Hfresh _ Hx). now apply Hsub.
Qed.

(* requests that never ask for "t": all labels handed out are pairwise distinct *)
Corollary unique_labels_distinct_no_time : forall ls names rs names',
  Forall (fun l => l <> "t"%string) ls -> requests names ls = Some (rs, names') -> NoDup rs.
Proof.
  induction ls as [|l ls IH]; intros names rs names' HF H.
  - injection H as <- <-. constructor.
  - cbn [requests] in H. inversion HF as [|? ? Hl HF']; subst.
    destruct (gen_label_spec names l) as (r & names1 & E & Hcase). rewrite E in H.
    destruct (unique_labels_distinct ls names1) as (rs1 & names2 & E2 & _ & _ & _ & Hfresh). rewrite E2 in H.
    injection H as <- <-. destruct Hcase as [(-> & _)|(_ & Nr & _ & HK & _)]; [contradiction|].
    constructor; [|eapply IH; eauto].
    intros Hin.
    assert (Hnt : forall x, In x rs1 -> x <> "t"%string).
    { clear -HF' E2. revert names1 rs1 names2 E2. induction ls as [|a ls IHl]; intros names1 rs1 names2 E2.
      - injection E2 as <- <-. intros x [].
      - cbn [requests] in E2. inversion HF' as [|? ? Ha HF'']; subst.
        destruct (gen_label_spec names1 a) as (ra & n1 & Ea & Hc). rewrite Ea in E2.
        destruct (requests n1 ls) as [[rs' n2]|] eqn:Er; [|discriminate]. injection E2 as <- <-.
        intros x [<-|Hx]; [destruct Hc as [(-> & _)|(_ & Nr & _)]; [contradiction|exact Nr]|].
        eapply IHl; eauto. }
    apply (Hfresh r).
    + apply filter_In. split; [exact Hin|]. unfold not_time. destruct (String.eqb_spec r "t"); [contradiction|reflexivity].
    + rewrite HK. apply in_or_app. right. now left.
Qed.
