(* Replace.v — C15 part (a): model of pyrates.backend.parser.replace (as repaired by fix D11) and of
   OperatorTemplate._update_equation / update_template (pyrates/frontend/template/operator.py).
   Definitions only; proofs are in ReplaceProofs.v.

   Strings are lists of characters.  Everything is parameterised by the delimiter predicate `isd`
   (membership in `allowed_follow_ops`); the concrete predicate of the code is `is_delim`. *)
From Coq Require Import List Ascii String Bool Arith.
Import ListNotations.

Definition str := list ascii.

(* ---- repair switches (false = the code before the fix; true since the fix landed in /repo: D99 = 84e16e5, D100 = bc613b0) ---- *)
(* D99: OperatorTemplate.update_template pops 'add' out of the CALLER's edit dictionary (before fix D99; the repaired method works on a copy) *)
Definition fixed_D99 : bool := true.
(* primed left-hand sides: the derivative mark ' is not in allowed_follow_ops, so `x'` is one identifier for replace
   (before fix D100, which adds ' to the set) *)
Definition fixed_prime : bool := true.

(* allowed_follow_ops = '-+=*/^<>=!.%@[]():, '   (parser.py line 708) *)
Definition ops_base : str := list_ascii_of_string "-+=*/^<>=!.%@[]():, ".
Definition quote : ascii := "039"%char.                                  (* the derivative mark ' *)
Definition allowed_gen (fx : bool) : str := if fx then ops_base ++ [quote] else ops_base.
Definition allowed_follow_ops : str := allowed_gen fixed_prime.
Definition memc (c : ascii) (l : str) : bool := existsb (Ascii.eqb c) l.
Definition is_delim_gen (fx : bool) (c : ascii) : bool := memc c (allowed_gen fx).
Definition is_delim (c : ascii) : bool := memc c allowed_follow_ops.
(* Spec: where an identifier ends for the READER of an equation — `x' = -x/tau` is the differential equation of x (the
   form is accepted by the equation parser and used by shipped templates: qif.yaml "a' = x/tau_a") *)
Definition is_delim_spec (c : ascii) : bool := is_delim_gen true c.
Definition prime_free (s : str) : bool := negb (memc quote s).

Fixpoint str_eqb (a b : str) : bool :=
  match a, b with
  | [], [] => true
  | x :: a', y :: b' => Ascii.eqb x y && str_eqb a' b'
  | _, _ => false
  end.

Fixpoint prefixb (p s : str) : bool :=
  match p, s with
  | [], _ => true
  | a :: p', b :: s' => Ascii.eqb a b && prefixb p' s'
  | _ :: _, [] => false
  end.

(* `"=" in eq_part` *)
Definition has_eq (s : str) : bool := memc "="%char s.

Definition nodelim (isd : ascii -> bool) (w : str) : bool := forallb (fun c => negb (isd c)) w.

Section Replace.
  Variable isd : ascii -> bool.
  Variables term rep : str.
  Let n := List.length term.

  (* str.find(term): index of the leftmost occurrence *)
  Fixpoint find (s : str) : option nat :=
    if prefixb term s then Some 0 else
    match s with [] => None | _ :: s' => option_map S (find s') end.

  (* `idx_follow_op == len(eq) or eq[idx_follow_op] in allowed_follow_ops`, on the rest after the occurrence *)
  Definition follow_ok (rest : str) : bool := match rest with [] => true | c :: _ => isd c end.
  (* `before == "" or before in allowed_follow_ops` *)
  Definition pd_of (prev : option ascii) : bool := match prev with None => true | Some c => isd c end.

  (* ---- Impl: the loop of parser.replace, line by line (accumulator eq_new, the cut string eq, prev) ----
       while idx != -1:
         idx_follow_op = idx+len(term)
         before = eq[idx-1] if idx > 0 else prev
         if (idx_follow_op == len(eq) or eq[idx_follow_op] in ops) and (before == "" or before in ops):
             eq_part = eq[:idx]
             if (rhs_only and "=" in eq_part) or (lhs_only and "=" not in eq_part) or (not rhs_only and not lhs_only):
                 eq_new += eq_part + replacement ; replaced = True
         if not replaced: eq_new += eq[:idx_follow_op]
         prev = eq[idx_follow_op-1:idx_follow_op] ; eq = eq[idx_follow_op:] ; idx = eq.find(term)
       eq_new += eq
     `fuel` bounds the number of iterations; None = the loop does not terminate within the fuel (this is
     what happens for term = "": idx stays 0 and eq is never shortened). *)
  Fixpoint loopA (rhs lhs : bool) (fuel : nat) (acc : str) (prev : option ascii) (seen : bool) (s : str) : option str :=
    match find s with
    | None => Some (acc ++ s)
    | Some idx =>
      match fuel with
      | O => None
      | S f =>
        let follow := idx + n in
        let before := match idx with O => prev | S i => nth_error s i end in
        let bound_ok := follow_ok (skipn follow s) && pd_of before in
        let eq_part := firstn idx s in
        let in_rhs := seen || has_eq eq_part in         (* seen_eq or "=" in eq_part *)
        let side_ok := (rhs && in_rhs) || (lhs && negb in_rhs) || (negb rhs && negb lhs) in
        let acc' := if bound_ok && side_ok then acc ++ eq_part ++ rep else acc ++ firstn follow s in
        let prev' := match follow with O => None | S k => nth_error s k end in
        loopA rhs lhs f acc' prev' (seen || has_eq (firstn follow s)) (skipn follow s)
      end
    end.

  Definition replace_flags (rhs lhs : bool) (eq : str) : option str := loopA rhs lhs (S (List.length eq)) [] None false eq.
  Definition replace (eq : str) : option str := replace_flags false false eq.

  (* the same loop in suffix-returning form (what the accumulator form is shown equal to) *)
  Fixpoint loop (fuel : nat) (prev : option ascii) (s : str) : option str :=
    match find s with
    | None => Some s
    | Some idx =>
      match fuel with
      | O => None
      | S f =>
        let follow := idx + n in
        let before := match idx with O => prev | S i => nth_error s i end in
        let ok := follow_ok (skipn follow s) && pd_of before in
        let out := if ok then firstn idx s ++ rep else firstn follow s in
        match loop f (nth_error s (follow - 1)) (skipn follow s) with
        | Some r => Some (out ++ r)
        | None => None
        end
      end
    end.

  (* ---- Spec 1: one left-to-right scan; an occurrence is replaced iff it is delimited on both sides ---- *)
  Fixpoint scan (pd : bool) (skip : nat) (s : str) : str :=
    match s with
    | [] => []
    | c :: s' =>
      match skip with
      | S k => scan (isd c) k s'
      | O => if pd && prefixb term s && follow_ok (skipn n s)
             then rep ++ scan (isd c) (n - 1) s'
             else c :: scan (isd c) 0 s'
      end
    end.

  (* ---- Spec 2 (the property as the user reads it): split the equation into words — maximal runs of
     non-delimiter characters, and every delimiter character on its own — and replace exactly the words that
     ARE the term.  A part of a longer identifier is never a word, so it is never touched. ---- *)
  Definition flush (cur : str) : list str := match cur with [] => [] | _ => [cur] end.
  Fixpoint wordsA (cur : str) (s : str) : list str :=
    match s with
    | [] => flush cur
    | c :: s' => if isd c then flush cur ++ [c] :: wordsA [] s' else wordsA (cur ++ [c]) s'
    end.
  Definition words (s : str) : list str := wordsA [] s.
  Definition subst_word (w : str) : str := if str_eqb w term then rep else w.
  Definition replace_words (eq : str) : str := List.concat (map subst_word (words eq)).

  (* sided specification for rhs_only / lhs_only as documented ("only in the right-hand / left-hand side of
     the equation"): words before the first "=" are the lhs, the "=" and the words after it the rhs *)
  Fixpoint sided (rhs lhs : bool) (seen_eq : bool) (ws : list str) : str :=
    match ws with
    | [] => []
    | w :: ws' =>
      let seen := seen_eq || str_eqb w ["="%char] in
      let side_ok := (rhs && seen_eq) || (lhs && negb seen_eq) || (negb rhs && negb lhs) in
      (if side_ok then subst_word w else w) ++ sided rhs lhs seen ws'
    end.
  Definition replace_words_sided (rhs lhs : bool) (eq : str) : str := sided rhs lhs false (words eq).
End Replace.

(* ------------------------------------------------------------------------------------------------------
   _update_equation(equation, replace: dict, remove: list, append: str, prepend: str)   operator.py 245-277
   ------------------------------------------------------------------------------------------------------ *)
Record edit := { e_replace : list (str * str); e_remove : list str; e_append : str; e_prepend : str }.

Definition obind {A B} (o : option A) (f : A -> option B) : option B := match o with Some a => f a | None => None end.

Section Update.
  Variable isd : ascii -> bool.

  Fixpoint apply_replaces (l : list (str * str)) (eq : str) : option str :=
    match l with
    | [] => Some eq
    | (old, new) :: l' => obind (replace isd old new eq) (apply_replaces l')
    end.
  Fixpoint apply_replaces_spec (l : list (str * str)) (eq : str) : str :=
    match l with
    | [] => eq
    | (old, new) :: l' => apply_replaces_spec l' (replace_words isd old new eq)
    end.

  Definition sp : str := [" "%char].
  (* `if append:` / `if prepend:` — the empty string is falsy *)
  Definition do_append (a : str) (eq : str) : str := match a with [] => eq | _ => eq ++ sp ++ a end.
  Definition do_prepend (p : str) (eq : str) : str := match p with [] => eq | _ => p ++ sp ++ eq end.

  Definition update_equation (e : edit) (eq : str) : option str :=
    obind (apply_replaces (e_replace e) eq) (fun eq1 =>
    obind (apply_replaces (map (fun t => (t, [])) (e_remove e)) eq1) (fun eq2 =>
    Some (do_prepend (e_prepend e) (do_append (e_append e) eq2)))).

  Definition update_equation_spec (e : edit) (eq : str) : str :=
    do_prepend (e_prepend e) (do_append (e_append e)
      (apply_replaces_spec (map (fun t => (t, [])) (e_remove e)) (apply_replaces_spec (e_replace e) eq))).

  Definition edit_terms (e : edit) : list str := map fst (e_replace e) ++ e_remove e.
  Definition term_ok (t : str) : bool := negb (str_eqb t []) && nodelim isd t.
  Definition edit_ok (e : edit) : bool := forallb term_ok (edit_terms e).
End Update.

(* ------------------------------------------------------------------------------------------------------
   OperatorTemplate.update_template (operator.py 75-124): equations given as list (taken as they are) or as
   edit dictionary (every base equation edited, `add` appended); variables: copy of the base dict updated
   with the given entries (_update_variables); then every variable whose NAME IS NOT A SUBSTRING of any
   equation is dropped ("rogue variables": `var in eq` is a substring test, not an identifier test).
   ------------------------------------------------------------------------------------------------------ *)
Section OpUpdate.
  Variable V : Type.                       (* variable definitions (default strings / numbers) *)
  Variable isd : ascii -> bool.

  Fixpoint substrb (p s : str) : bool :=
    prefixb p s || match s with [] => false | _ :: s' => substrb p s' end.

  Fixpoint lookup (k : str) (m : list (str * V)) : option V :=
    match m with [] => None | (k', v) :: m' => if str_eqb k k' then Some v else lookup k m' end.
  (* dict.update on an insertion-ordered dict: an existing key keeps its position *)
  Fixpoint set_key (k : str) (v : V) (m : list (str * V)) : list (str * V) :=
    match m with
    | [] => [(k, v)]
    | (k', v') :: m' => if str_eqb k k' then (k, v) :: m' else (k', v') :: set_key k v m'
    end.
  Definition update_map (m upd : list (str * V)) : list (str * V) := fold_left (fun acc kv => set_key (fst kv) (snd kv) acc) upd m.

  Inductive eq_update := EqKeep | EqList (l : list str) | EqEdit (e : edit) (add : list str).

  Fixpoint mapM {A B} (f : A -> option B) (l : list A) : option (list B) :=
    match l with
    | [] => Some []
    | x :: l' => obind (f x) (fun y => obind (mapM f l') (fun ys => Some (y :: ys)))
    end.

  Definition update_equations (base : list str) (u : eq_update) : option (list str) :=
    match u with
    | EqKeep => Some base
    | EqList [] => Some base                  (* `if equations:` — an empty list is falsy *)
    | EqList l => Some l
    | EqEdit e add => obind (mapM (update_equation isd e) base) (fun l => Some (l ++ add))
    end.

  Definition used (eqs : list str) (var : str) : bool := existsb (substrb var) eqs.

  Definition update_op (base_eqs : list str) (base_vars : list (str * V)) (u : eq_update) (vupd : list (str * V))
    : option (list str * list (str * V)) :=
    obind (update_equations base_eqs u) (fun eqs =>
    Some (eqs, filter (fun kv => used eqs (fst kv)) (update_map base_vars vupd))).

  (* the BASE template is left as it is: since fix D44 the code works on `dict(self.variables)`, a copy (before that the
     rogue variables were popped from the base's own dict when no `variables` argument was given; the witness is kept as
     regression case corpus/C15/D35_base_mutated.json and the correspondence run observes the base after every call) *)
  (* D99: what the CALLER's `equations` argument is after the call: `new_eqs = equations.pop('add', [])` removes the key from the
     caller's own dictionary (unless repaired: the method works on a copy) *)
  Definition edit_after_gen (fx : bool) (u : eq_update) : eq_update :=
    if fx then u else match u with EqEdit e _ => EqEdit e [] | _ => u end.
  (* k derivations from the same base with the SAME edit dictionary object *)
  Fixpoint derive_reusing_gen (fx : bool) (k : nat) (beqs : list str) (bvars : list (str * V)) (u : eq_update) (vupd : list (str * V))
    : list (option (list str * list (str * V))) :=
    match k with
    | O => []
    | S k' => update_op beqs bvars u vupd :: derive_reusing_gen fx k' beqs bvars (edit_after_gen fx u) vupd
    end.
  Definition derive_reusing := derive_reusing_gen fixed_D99.
  (* Spec: identical arguments give identical derived templates *)
  Definition derive_spec (k : nat) (beqs : list str) (bvars : list (str * V)) (u : eq_update) (vupd : list (str * V)) :=
    repeat (update_op beqs bvars u vupd) k.
  Definition reuse_guard (k : nat) (u : eq_update) : bool :=
    match u with EqEdit _ (_ :: _) => Nat.leb k 1 | _ => true end.
End OpUpdate.
