(* ReplaceProofs.v — proofs about the model of parser.replace / _update_equation / update_template (Replace.v). *)
From Coq Require Import List Ascii Bool Arith Lia.
From Coq Require String.
From PV Require Import Replace.
Import ListNotations.

Lemma str_eqb_eq : forall a b, str_eqb a b = true <-> a = b.
Proof.
  induction a as [|x a IH]; intros [|y b]; cbn; split; intro H; try reflexivity; try discriminate.
  - apply andb_prop in H as [H1 H2]. apply Ascii.eqb_eq in H1. apply IH in H2. now subst.
  - injection H as -> ->. rewrite Ascii.eqb_refl. cbn. now apply IH.
Qed.
Lemma str_eqb_refl a : str_eqb a a = true.
Proof. now apply str_eqb_eq. Qed.
Lemma str_eqb_neq a b : str_eqb a b = false <-> a <> b.
Proof.
  split; intro H.
  - intro E. apply str_eqb_eq in E. congruence.
  - destruct (str_eqb a b) eqn:E; [|reflexivity]. apply str_eqb_eq in E. contradiction.
Qed.

Section ReplaceP.
  Variable isd : ascii -> bool.
  Variables term rep : str.
  Hypothesis term_nonempty : term <> [].
  Hypothesis term_nodelim : forallb (fun c => negb (isd c)) term = true.
  Let n := List.length term.
  Notation find := (Replace.find term).
  Notation follow_ok := (Replace.follow_ok isd).
  Notation pd_of := (Replace.pd_of isd).
  Notation loop := (Replace.loop isd term rep).
  Notation scan := (Replace.scan isd term rep).

  (* ---------------- lemmas ---------------- *)
  Lemma prefixb_app p r : prefixb p (p ++ r) = true.
  Proof. induction p; cbn; [reflexivity|]. now rewrite Ascii.eqb_refl. Qed.

  Lemma prefixb_split p s : prefixb p s = true -> s = p ++ skipn (length p) s.
  Proof.
    revert s; induction p as [|a p IH]; intros s H; [reflexivity|].
    destruct s as [|b s]; [discriminate|]. cbn in H. apply andb_prop in H as [Hab Hp].
    apply Ascii.eqb_eq in Hab. subst b. cbn. f_equal. now apply IH.
  Qed.

  (* skipping k characters of a word w: no output, pd becomes isd of the last skipped char *)
  Lemma scan_skip : forall (w : str) pd r, w <> [] ->
    scan pd (length w) (w ++ r) = scan (isd (last w "000"%char)) 0 r.
  Proof.
    induction w as [|c w IH]; intros pd r Hne; [congruence|].
    destruct w as [|d w].
    - cbn. reflexivity.
    - cbn [length app scan]. change (scan (isd c) (length (d :: w)) ((d :: w) ++ r) = scan (isd (last (c :: d :: w) "000"%char)) 0 r).
      rewrite IH by discriminate. reflexivity.
  Qed.

  Lemma nodelim_last w d : w <> [] -> forallb (fun c => negb (isd c)) w = true -> isd (last w d) = false.
  Proof.
    induction w as [|c w IH]; intros Hne H; [congruence|]. cbn in H. apply andb_prop in H as [Hc Hw].
    destruct w as [|e w]; [cbn; now apply negb_true_iff in Hc|]. change (isd (last (e :: w) d) = false). apply IH; [discriminate|exact Hw].
  Qed.

  (* copying through a word without delimiters that is entered with pd = false: nothing can be replaced inside *)
  Lemma scan_copy_nodelim : forall (w : str) r, forallb (fun c => negb (isd c)) w = true ->
    scan false 0 (w ++ r) = w ++ scan (match w with [] => false | _ => false end) 0 r.
  Proof.
    induction w as [|c w IH]; intros r H; [reflexivity|].
    cbn in H. apply andb_prop in H as [Hc Hw]. apply negb_true_iff in Hc.
    cbn [app scan andb]. rewrite Hc. rewrite IH by exact Hw. destruct w; reflexivity.
  Qed.

  (* before the first occurrence nothing matches *)
  Lemma find_none_scan : forall s pd, find s = None -> scan pd 0 s = s.
  Proof.
    induction s as [|c s IH]; intros pd H; [reflexivity|].
    cbn [find] in H. destruct (prefixb term (c :: s)) eqn:Ep; [discriminate|].
    destruct (find s) eqn:Ef; [discriminate|]. cbn [scan]. rewrite Ep, andb_false_r. cbn [andb]. now rewrite IH.
  Qed.

  Definition pd_after (pd : bool) (pre : str) : bool := match pre with [] => pd | _ => isd (last pre "000"%char) end.

  Lemma scan_copy_nodelim' (w r : str) : forallb (fun c => negb (isd c)) w = true ->
    scan false 0 (w ++ r) = w ++ scan false 0 r.
  Proof. intros H. rewrite scan_copy_nodelim by exact H. destruct w; reflexivity. Qed.

  Lemma find_spec : forall s idx, find s = Some idx ->
    prefixb term (skipn idx s) = true /\ (forall j, j < idx -> prefixb term (skipn j s) = false).
  Proof.
    induction s as [|c s IH]; intros idx H; cbn [find] in H.
    - destruct (prefixb term []) eqn:E; [|discriminate]. injection H as <-. split; [exact E|intros; lia].
    - destruct (prefixb term (c :: s)) eqn:E.
      + injection H as <-. split; [exact E|intros; lia].
      + destruct (find s) as [i|] eqn:Ef; [|discriminate]. injection H as <-.
        destruct (IH i eq_refl) as [Hp Hn]. split; [exact Hp|].
        intros j Hj. destruct j as [|j]; [exact E|]. cbn [skipn]. apply Hn. lia.
  Qed.

  Lemma copy_prefix : forall pre r pd,
    (forall j, j < length pre -> prefixb term (skipn j (pre ++ r)) = false) ->
    scan pd 0 (pre ++ r) = pre ++ scan (pd_after pd pre) 0 r.
  Proof.
    induction pre as [|c pre IH]; intros r pd H; [reflexivity|].
    cbn [app scan]. pose proof (H 0 ltac:(cbn; lia)) as H0. cbn [skipn app] in H0. rewrite H0, andb_false_r. cbn [andb].
    rewrite IH.
    - f_equal. destruct pre as [|d pre]; reflexivity.
    - intros j Hj. apply (H (S j)). cbn [length]. lia.
  Qed.

  Lemma nth_error_last {A} : forall (l : list A) i d, S i <= length l -> nth_error l i = Some (last (firstn (S i) l) d).
  Proof.
    induction l as [|x l IH]; intros i d H; [cbn in H; lia|].
    destruct i as [|i]; [reflexivity|]. cbn [nth_error]. cbn [length] in H.
    rewrite (IH i d) by lia. cbn [firstn]. destruct l as [|y l]; [cbn in H; lia|]. reflexivity.
  Qed.

  Lemma prefixb_length p s : prefixb p s = true -> length p <= length s.
  Proof.
    revert s; induction p as [|a p IH]; intros s H; [cbn; lia|].
    destruct s as [|b s]; [discriminate|]. cbn in H. apply andb_prop in H as [_ H]. cbn. apply IH in H. lia.
  Qed.

  Lemma skipn_skipn' {A} : forall a b (l : list A), skipn a (skipn b l) = skipn (b + a) l.
  Proof. intros a b; revert a; induction b as [|b IH]; intros a l; [reflexivity|]. destruct l; [now rewrite !skipn_nil|]. cbn [skipn plus]. apply IH. Qed.

  Lemma last_app_cons {A} : forall (l : list A) x l' d, last (l ++ x :: l') d = last (x :: l') d.
  Proof.
    induction l as [|y l IH]; intros x l' d; [reflexivity|].
    cbn [app]. specialize (IH x l' d). destruct (l ++ x :: l') eqn:E; [destruct l; discriminate|].
    cbn [last]. exact IH.
  Qed.

  Lemma term_split : exists c tw, term = c :: tw.
  Proof. destruct term as [|c tw]; [congruence|eauto]. Qed.

  (* scanning over an occurrence: replaced iff word boundaries on both sides *)
  Lemma scan_occurrence pd rest :
    scan pd 0 (term ++ rest) =
      (if follow_ok rest && pd then rep else term) ++ scan (isd (last term "000"%char)) 0 rest.
  Proof.
    destruct term_split as (c & tw & Et).
    assert (Hn : n = S (length tw)) by (unfold n; rewrite Et; reflexivity).
    assert (Hskip : skipn n (term ++ rest) = rest).
    { unfold n. rewrite skipn_app, skipn_all, Nat.sub_diag. reflexivity. }
    assert (Hlast : isd (last term "000"%char) = false) by (apply nodelim_last; assumption).
    assert (Happ : term ++ rest = c :: (tw ++ rest)) by (rewrite Et; reflexivity).
    pose proof (prefixb_app term rest) as Hp.
    assert (Hnd : isd c = false /\ forallb (fun c => negb (isd c)) tw = true).
    { pose proof term_nodelim as H. rewrite Et in H. cbn [forallb] in H. apply andb_prop in H as [H1 H2].
      apply negb_true_iff in H1. tauto. }
    destruct Hnd as [Hcc Htw].
    rewrite Happ. cbn [Replace.scan]. fold n. rewrite <- Happ. rewrite Hp, Hskip, andb_true_r.
    rewrite (andb_comm pd (follow_ok rest)).
    destruct (follow_ok rest && pd) eqn:Eok.
    - rewrite Hn. cbn [Nat.sub]. rewrite Nat.sub_0_r. f_equal.
      destruct tw as [|d tw].
      + cbn [app length scan]. rewrite Et. reflexivity.
      + rewrite scan_skip by discriminate. rewrite Et. reflexivity.
    - rewrite Hcc, Hlast. rewrite (scan_copy_nodelim' tw rest Htw).
      change (c :: tw ++ scan false 0 rest) with ((c :: tw) ++ scan false 0 rest). now rewrite <- Et.
  Qed.

  Theorem loop_is_scan : forall fuel prev s, length s < fuel -> loop fuel prev s = Some (scan (pd_of prev) 0 s).
  Proof.
    induction fuel as [|f IH]; intros prev s Hlen; [lia|].
    cbn [Replace.loop]. fold n. destruct (find s) as [idx|] eqn:Ef.
    2:{ now rewrite find_none_scan. }
    destruct (find_spec s idx Ef) as [Hocc Hnone].
    pose proof (prefixb_split _ _ Hocc) as Hsplit. fold n in Hsplit. rewrite skipn_skipn' in Hsplit.
    pose proof (prefixb_length _ _ Hocc) as Hl. fold n in Hl. rewrite skipn_length in Hl.
    assert (Hidx : idx + n <= length s).
    { destruct term_split as (c & tw & Et). unfold n in *. rewrite Et in *. cbn [length] in *. lia. }
    set (pre := firstn idx s). set (rest := skipn (idx + n) s).
    assert (Hs : s = pre ++ term ++ rest).
    { unfold pre, rest. rewrite <- (firstn_skipn idx s) at 1. f_equal. exact Hsplit. }
    assert (Hprelen : length pre = idx) by (unfold pre; rewrite firstn_length; lia).
    (* the loop's `before` is the pd after copying the prefix *)
    assert (Hbefore : pd_of (match idx with O => prev | S i => nth_error s i end) = pd_after (pd_of prev) pre).
    { destruct idx as [|i]; [unfold pre; reflexivity|].
      rewrite (nth_error_last s i "000"%char) by lia. fold pre. unfold pd_after, pd_of.
      destruct pre; [cbn in Hprelen; lia|reflexivity]. }
    (* recursive call *)
    assert (Hprev' : pd_of (nth_error s (idx + n - 1)) = isd (last term "000"%char)).
    { destruct term_split as (c & tw & Et).
      assert (Hn : n = S (length tw)) by (unfold n; rewrite Et; reflexivity).
      replace (idx + n - 1) with (idx + length tw) by lia.
      rewrite (nth_error_last s (idx + length tw) "000"%char) by lia. cbn [pd_of]. f_equal.
      rewrite Hs at 1. replace (S (idx + length tw)) with (length pre + n) by lia.
      rewrite firstn_app, firstn_all2 by lia. replace (length pre + n - length pre) with n by lia.
      rewrite firstn_app. unfold n at 1 2. rewrite firstn_all, Nat.sub_diag. cbn [firstn]. rewrite app_nil_r.
      rewrite Et. apply last_app_cons. }
    rewrite IH by (unfold rest; rewrite skipn_length; destruct term_split as (c & tw & Et); unfold n in *; rewrite Et in *; cbn [length] in *; lia).
    f_equal. fold rest. rewrite Hprev'.
    (* the specification side *)
    replace (scan (pd_of prev) 0 s) with (scan (pd_of prev) 0 (pre ++ term ++ rest)) by (now rewrite <- Hs).
    rewrite copy_prefix.
    2:{ intros j Hj. rewrite <- Hs. apply Hnone. lia. }
    rewrite scan_occurrence. rewrite Hbefore.
    destruct (follow_ok rest && pd_after (pd_of prev) pre).
    - fold pre. now rewrite <- !app_assoc.
    - replace (firstn (idx + n) s) with (pre ++ term).
      + now rewrite <- !app_assoc.
      + rewrite Hs at 1. rewrite <- Hprelen. rewrite firstn_app, firstn_all2 by lia.
        replace (length pre + n - length pre) with n by lia. rewrite firstn_app. unfold n.
        rewrite firstn_all, Nat.sub_diag. cbn [firstn]. now rewrite app_nil_r.
  Qed.


  (* ---------- accumulator form (the code) = suffix form ---------- *)
  Lemma loopA_loop : forall fuel acc prev seen s,
    Replace.loopA isd term rep false false fuel acc prev seen s = option_map (app acc) (loop fuel prev s).
  Proof.
    destruct term_split as (c0 & tw & Et).
    assert (Hn : n = S (length tw)) by (unfold n; rewrite Et; reflexivity).
    induction fuel as [|f IH]; intros acc prev seen s; cbn [Replace.loopA Replace.loop]; fold n;
      destruct (find s) as [idx|]; try reflexivity.
    cbn [andb orb negb]. rewrite andb_true_r.
    replace (idx + n - 1) with (idx + length tw) by lia.
    replace (idx + n) with (S (idx + length tw)) by lia.
    rewrite IH.
    destruct (loop f (nth_error s (idx + length tw)) (skipn (S (idx + length tw)) s)) as [r|]; [|reflexivity].
    cbn [option_map]. f_equal.
    destruct (follow_ok (skipn (S (idx + length tw)) s) && pd_of match idx with 0 => prev | S i => nth_error s i end);
      now rewrite <- !app_assoc.
  Qed.

  (* ---------- scan = word-wise substitution ---------- *)
  Notation wordsA := (Replace.wordsA isd).
  Notation subst_word := (Replace.subst_word term rep).

  Lemma scan_delim c r pd : isd c = true -> scan pd 0 (c :: r) = c :: scan true 0 r.
  Proof.
    intro Hc. destruct term_split as (c0 & tw & Et).
    assert (H0 : isd c0 = false).
    { pose proof term_nodelim as H. rewrite Et in H. cbn [forallb] in H. apply andb_prop in H as [H1 _]. now apply negb_true_iff in H1. }
    cbn [Replace.scan]. assert (Hp : prefixb term (c :: r) = false).
    { rewrite Et. cbn [prefixb]. destruct (Ascii.eqb c0 c) eqn:E; [|reflexivity]. apply Ascii.eqb_eq in E. congruence. }
    rewrite Hp, andb_false_r. cbn [andb]. now rewrite Hc.
  Qed.

  Lemma prefix_in_word : forall t w rest, forallb (fun c => negb (isd c)) t = true -> follow_ok rest = true ->
    prefixb t (w ++ rest) = true -> prefixb t w = true.
  Proof.
    induction t as [|a t IH]; intros w rest Ht Hr Hp; [reflexivity|].
    cbn [forallb] in Ht. apply andb_prop in Ht as [Ha Ht]. apply negb_true_iff in Ha.
    destruct w as [|b w].
    - cbn [app] in Hp. destruct rest as [|d rest]; [discriminate|]. cbn [prefixb] in Hp. apply andb_prop in Hp as [E _].
      apply Ascii.eqb_eq in E. subst d. cbn in Hr. congruence.
    - cbn [app prefixb] in *. apply andb_prop in Hp as [E Hp]. rewrite E. cbn [andb]. eapply IH; eassumption.
  Qed.

  Lemma scan_word : forall w rest pd, w <> [] -> forallb (fun c => negb (isd c)) w = true -> follow_ok rest = true ->
    scan pd 0 (w ++ rest) = (if pd && str_eqb w term then rep else w) ++ scan false 0 rest.
  Proof.
    intros w rest pd Hne Hw Hr.
    assert (Hlast : isd (last term "000"%char) = false) by (apply nodelim_last; assumption).
    destruct (str_eqb w term) eqn:Ew.
    - apply str_eqb_eq in Ew. subst w. rewrite scan_occurrence, Hr, Hlast, andb_true_r. cbn [andb]. reflexivity.
    - rewrite andb_false_r. apply str_eqb_neq in Ew.
      destruct pd; [|now apply scan_copy_nodelim'].
      destruct w as [|c w']; [congruence|].
      pose proof Hw as Hw0. cbn [forallb] in Hw0. apply andb_prop in Hw0 as [Hc Hw']. apply negb_true_iff in Hc.
      cbn [app Replace.scan]. fold n. change (c :: w' ++ rest) with ((c :: w') ++ rest).
      assert (Hno : prefixb term ((c :: w') ++ rest) && follow_ok (skipn n ((c :: w') ++ rest)) = false).
      { destruct (prefixb term ((c :: w') ++ rest)) eqn:Ep; [|reflexivity]. cbn [andb].
        apply prefix_in_word in Ep; [|exact term_nodelim|exact Hr].
        pose proof (prefixb_split _ _ Ep) as Hsp. fold n in Hsp.
        pose proof (prefixb_length _ _ Ep) as Hl. fold n in Hl.
        rewrite skipn_app. replace (n - length (c :: w')) with 0 by lia. cbn [skipn].
        destruct (skipn n (c :: w')) as [|d tl] eqn:Es.
        - rewrite app_nil_r in Hsp. congruence.
        - cbn [app Replace.follow_ok]. rewrite Hsp in Hw. rewrite forallb_app in Hw. apply andb_prop in Hw as [_ Hw].
          cbn [forallb] in Hw. apply andb_prop in Hw as [Hd _]. now apply negb_true_iff in Hd. }
      cbn [andb]. rewrite Hno. rewrite Hc. f_equal. now apply scan_copy_nodelim'.
  Qed.

  Lemma subst_delim c : isd c = true -> subst_word [c] = [c].
  Proof.
    intro Hc. unfold Replace.subst_word. destruct (str_eqb [c] term) eqn:E; [|reflexivity].
    apply str_eqb_eq in E. pose proof term_nodelim as H. rewrite <- E in H. cbn in H. rewrite Hc in H. discriminate.
  Qed.

  Lemma scan_wordsA : forall s cur, forallb (fun c => negb (isd c)) cur = true ->
    scan true 0 (cur ++ s) = List.concat (map subst_word (wordsA cur s)).
  Proof.
    induction s as [|c s IH]; intros cur Hcur.
    - cbn [Replace.wordsA]. destruct cur as [|d cur]; [reflexivity|].
      rewrite scan_word by (try discriminate; auto). cbn [andb Replace.flush map List.concat Replace.scan].
      unfold Replace.subst_word. now rewrite !app_nil_r.
    - cbn [Replace.wordsA]. destruct (isd c) eqn:Ec.
      + rewrite map_app, concat_app. cbn [map List.concat]. rewrite (subst_delim c Ec).
        rewrite <- (IH [] eq_refl). cbn [app].
        destruct cur as [|d cur].
        * cbn [Replace.flush map List.concat app]. now apply scan_delim.
        * rewrite scan_word by (try discriminate; auto). cbn [andb Replace.flush map List.concat].
          rewrite app_nil_r. unfold Replace.subst_word. f_equal. now apply scan_delim.
      + replace (cur ++ c :: s) with ((cur ++ [c]) ++ s) by (now rewrite <- app_assoc).
        apply IH. rewrite forallb_app, Hcur. cbn. now rewrite Ec.
  Qed.

  Theorem scan_words : forall s, scan true 0 s = Replace.replace_words isd term rep s.
  Proof. intro s. exact (scan_wordsA s [] eq_refl). Qed.

  Theorem replace_full : forall eq, Replace.replace isd term rep eq = Some (Replace.replace_words isd term rep eq).
  Proof.
    intro eq. unfold Replace.replace, Replace.replace_flags. rewrite loopA_loop.
    rewrite loop_is_scan by lia. cbn [option_map app Replace.pd_of]. now rewrite scan_words.
  Qed.

  Lemma subst_other : forall ws, ~ In term ws -> List.concat (map subst_word ws) = List.concat ws.
  Proof.
    induction ws as [|w ws IH]; intro H; [reflexivity|]. cbn [map List.concat]. rewrite IH by (intro; apply H; now right).
    unfold Replace.subst_word. destruct (str_eqb w term) eqn:E; [|reflexivity]. apply str_eqb_eq in E. exfalso. apply H. now left.
  Qed.


  (* ================= one-sided flags (as repaired by D52): general theorem ================= *)
  Hypothesis eq_delim : isd "="%char = true.
  Notation loopA := (Replace.loopA isd term rep).

  (* the part of a string before its first '=' and the rest (empty, or starting with that '=') *)
  Fixpoint before_eq (s : str) : str :=
    match s with [] => [] | c :: s' => if Ascii.eqb "="%char c then [] else c :: before_eq s' end.
  Fixpoint from_eq (s : str) : str :=
    match s with [] => [] | c :: s' => if Ascii.eqb "="%char c then s else from_eq s' end.

  Lemma has_eq_cons c s : has_eq (c :: s) = Ascii.eqb "="%char c || has_eq s.
  Proof. reflexivity. Qed.
  Lemma has_eq_app a b : has_eq (a ++ b) = has_eq a || has_eq b.
  Proof. unfold has_eq, memc. apply existsb_app. Qed.
  Lemma split_eq s : before_eq s ++ from_eq s = s.
  Proof. induction s as [|c s IH]; [reflexivity|]. cbn [before_eq from_eq]. destruct (Ascii.eqb "=" c); [reflexivity|]. cbn [app]. now rewrite IH. Qed.
  Lemma before_noeq s : has_eq (before_eq s) = false.
  Proof.
    induction s as [|c s IH]; [reflexivity|]. cbn [before_eq]. destruct (Ascii.eqb "=" c) eqn:E; [reflexivity|].
    rewrite has_eq_cons, E, IH. reflexivity.
  Qed.
  Lemma app_noeq p r : has_eq p = false -> before_eq (p ++ r) = p ++ before_eq r /\ from_eq (p ++ r) = from_eq r.
  Proof.
    induction p as [|c p IH]; intro H; [split; reflexivity|]. rewrite has_eq_cons in H. apply orb_false_elim in H as [Hc Hp].
    cbn [app before_eq from_eq]. rewrite Hc. destruct (IH Hp) as [H1 H2]. now rewrite H1, H2.
  Qed.
  Lemma from_shape s : from_eq s = [] \/ exists b, from_eq s = "="%char :: b.
  Proof.
    induction s as [|c s IH]; [now left|]. cbn [from_eq]. destruct (Ascii.eqb "=" c) eqn:E; [|exact IH].
    apply Ascii.eqb_eq in E. subst c. right. eauto.
  Qed.
  Lemma nodelim_noeq w : forallb (fun c => negb (isd c)) w = true -> has_eq w = false.
  Proof.
    induction w as [|c w IH]; intro H; [reflexivity|]. cbn [forallb] in H. apply andb_prop in H as [Hc Hw].
    rewrite has_eq_cons, (IH Hw), orb_false_r. destruct (Ascii.eqb "=" c) eqn:E; [|reflexivity].
    apply Ascii.eqb_eq in E. subst c. rewrite eq_delim in Hc. discriminate.
  Qed.
  Lemma follow_before s : follow_ok (before_eq s) = follow_ok s.
  Proof.
    destruct s as [|c s]; [reflexivity|]. cbn [before_eq]. destruct (Ascii.eqb "=" c) eqn:E; [|reflexivity].
    apply Ascii.eqb_eq in E. subst c. cbn [Replace.follow_ok]. now rewrite eq_delim.
  Qed.

  (* ---- find on a prefix / suffix ---- *)
  Lemma prefixb_app_r : forall t p q, prefixb t p = true -> prefixb t (p ++ q) = true.
  Proof.
    induction t as [|a t IH]; intros p q H; [reflexivity|]. destruct p as [|b p]; [discriminate|].
    cbn in *. apply andb_prop in H as [H1 H2]. rewrite H1. cbn. now apply IH.
  Qed.
  Lemma prefixb_app_inv : forall t p q, prefixb t (p ++ q) = true -> length t <= length p -> prefixb t p = true.
  Proof.
    induction t as [|a t IH]; intros p q H Hl; [reflexivity|]. destruct p as [|b p]; [cbn in Hl; lia|].
    cbn in *. apply andb_prop in H as [H1 H2]. rewrite H1. cbn. apply (IH p q); [exact H2|lia].
  Qed.
  Lemma find_nil : find [] = None.
  Proof. destruct term_split as (c & tw & Et). cbn. rewrite Et. reflexivity. Qed.
  Lemma find_none_prefix : forall p q, find (p ++ q) = None -> find p = None.
  Proof.
    induction p as [|c p IH]; intros q H; [apply find_nil|]. cbn [app Replace.find] in *.
    destruct (prefixb term (c :: p ++ q)) eqn:E; [discriminate|].
    destruct (prefixb term (c :: p)) eqn:E2; [apply (prefixb_app_r _ _ q) in E2; cbn [app] in E2; congruence|].
    destruct (find (p ++ q)) eqn:Ef; [discriminate|]. now rewrite (IH q Ef).
  Qed.
  Lemma find_none_suffix : forall p q, find (p ++ q) = None -> find q = None.
  Proof.
    induction p as [|c p IH]; intros q H; [exact H|]. cbn [app Replace.find] in H.
    destruct (prefixb term (c :: p ++ q)); [discriminate|]. destruct (find (p ++ q)) eqn:Ef; [discriminate|]. now apply IH.
  Qed.
  Lemma find_prefix_some : forall p q idx, find (p ++ q) = Some idx -> idx + n <= length p -> find p = Some idx.
  Proof.
    destruct term_split as (c0 & tw & Et). assert (Hn : n = S (length tw)) by (unfold n; rewrite Et; reflexivity).
    induction p as [|c p IH]; intros q idx H Hl; [cbn in Hl; lia|]. cbn [app Replace.find] in *.
    destruct (prefixb term (c :: p ++ q)) eqn:E.
    - injection H as <-. rewrite (prefixb_app_inv term (c :: p) q E) by (fold n; cbn [length] in *; lia). reflexivity.
    - destruct (prefixb term (c :: p)) eqn:E2; [apply (prefixb_app_r _ _ q) in E2; cbn [app] in E2; congruence|].
      destruct (find (p ++ q)) as [i|] eqn:Ef; [|discriminate]. injection H as <-. cbn [length] in Hl.
      rewrite (IH q i Ef) by lia. reflexivity.
  Qed.
  Lemma find_none_of : forall p, (forall j, j <= length p -> prefixb term (skipn j p) = false) -> find p = None.
  Proof.
    induction p as [|c p IH]; intro H; [apply find_nil|]. cbn [Replace.find].
    pose proof (H 0 ltac:(lia)) as H0. cbn [skipn] in H0. rewrite H0. rewrite IH; [reflexivity|]. intros j Hj. apply (H (S j)). cbn [length]. lia.
  Qed.
  Lemma find_decomp s idx : find s = Some idx ->
    idx + n <= length s /\ firstn (idx + n) s = firstn idx s ++ term /\ (forall j, j < idx -> prefixb term (skipn j s) = false).
  Proof.
    intro Ef. destruct (find_spec s idx Ef) as [Hocc Hnone].
    destruct term_split as (c0 & tw & Et). assert (Hn : n = S (length tw)) by (unfold n; rewrite Et; reflexivity).
    pose proof (prefixb_split _ _ Hocc) as Hsplit. fold n in Hsplit.
    pose proof (prefixb_length _ _ Hocc) as Hl. fold n in Hl. rewrite skipn_length in Hl.
    assert (Hidx : idx + n <= length s) by lia. split; [exact Hidx|]. split; [|exact Hnone].
    rewrite <- (firstn_skipn idx s) at 1. rewrite Hsplit.
    assert (Hlen : length (firstn idx s) = idx) by (rewrite firstn_length; lia).
    rewrite <- Hlen at 1. rewrite firstn_app_2. f_equal. rewrite firstn_app. unfold n. rewrite firstn_all, Nat.sub_diag. cbn [firstn].
    now rewrite app_nil_r.
  Qed.

  (* ---- the phase after seen_eq is set ---- *)
  Lemma rhs_seen : forall fuel acc prev s, loopA true false fuel acc prev true s = loopA false false fuel acc prev true s.
  Proof. induction fuel as [|f IH]; intros acc prev s; cbn [Replace.loopA]; destruct (find s); try reflexivity. cbn [orb andb negb]. apply IH. Qed.
  Lemma lhs_seen : forall fuel acc prev s, length s < fuel -> loopA false true fuel acc prev true s = Some (acc ++ s).
  Proof.
    induction fuel as [|f IH]; intros acc prev s Hl; [lia|]. cbn [Replace.loopA]. fold n. destruct (find s) as [idx|] eqn:Ef; [|reflexivity].
    destruct (find_decomp s idx Ef) as (Hidx & _ & _). destruct term_split as (c0 & tw & Et).
    assert (Hn : n = S (length tw)) by (unfold n; rewrite Et; reflexivity).
    cbn [orb andb negb]. rewrite andb_false_r. rewrite IH by (rewrite skipn_length; lia).
    now rewrite <- app_assoc, firstn_skipn.
  Qed.

  (* ---- rhs_only ---- *)
  Definition after_r (r : str) : str := match r with [] => [] | e :: b => e :: scan true 0 b end.
  Definition rhs_t (s : str) : str := before_eq s ++ after_r (from_eq s).

  Lemma rhs_t_app p r : has_eq p = false -> rhs_t (p ++ r) = p ++ rhs_t r.
  Proof. intro H. unfold rhs_t. destruct (app_noeq p r H) as [H1 H2]. now rewrite H1, H2, app_assoc. Qed.

  Lemma rhs_t_nofind s : find s = None -> rhs_t s = s.
  Proof.
    intro H. unfold rhs_t. pose proof (split_eq s) as Hs. rewrite <- Hs in H. apply find_none_suffix in H.
    destruct (from_eq s) as [|e b] eqn:Ef; cbn [after_r]; [exact Hs|].
    rewrite find_none_scan; [exact Hs|]. exact (find_none_suffix [e] b H).
  Qed.

  Lemma before_lt : forall s idx, has_eq (firstn idx s) = true -> length (before_eq s) < idx /\ exists b, from_eq s = "="%char :: b.
  Proof.
    induction s as [|c s IH]; intros idx H; [rewrite firstn_nil in H; discriminate|].
    destruct idx as [|i]; [discriminate|]. cbn [firstn] in H. rewrite has_eq_cons in H. cbn [before_eq from_eq].
    destruct (Ascii.eqb "=" c) eqn:E.
    - apply Ascii.eqb_eq in E. subst c. split; [cbn; lia|eauto].
    - cbn [orb] in H. destruct (IH i H) as [H1 H2]. split; [cbn [length]; lia|exact H2].
  Qed.

  Lemma scan_rhs s idx pd : (forall j, j < idx -> prefixb term (skipn j s) = false) -> has_eq (firstn idx s) = true ->
    scan pd 0 s = rhs_t s.
  Proof.
    intros Hn He. destruct (before_lt s idx He) as [Hlt [b Hb]]. unfold rhs_t. rewrite Hb. cbn [after_r].
    pose proof (split_eq s) as Hs. rewrite Hb in Hs. set (B := before_eq s) in *.
    assert (H : s = (B ++ ["="%char]) ++ b) by (rewrite <- app_assoc; symmetry; exact Hs).
    rewrite H at 1. rewrite copy_prefix.
    - assert (Hp : pd_after pd (B ++ ["="%char]) = true).
      { unfold pd_after. destruct (B ++ ["="%char]) as [|x l] eqn:E; [destruct B; discriminate|]. now rewrite <- E, last_last. }
      rewrite Hp. now rewrite <- app_assoc.
    - intros j Hj. rewrite <- H. apply Hn. rewrite app_length in Hj. cbn [length] in Hj. lia.
  Qed.

  Lemma rhs_loop : forall fuel acc prev s, length s < fuel -> loopA true false fuel acc prev false s = Some (acc ++ rhs_t s).
  Proof.
    induction fuel as [|f IH]; intros acc prev s Hl; [lia|].
    destruct (find s) as [idx|] eqn:Ef.
    2:{ cbn [Replace.loopA]. rewrite Ef. now rewrite rhs_t_nofind. }
    destruct (find_decomp s idx Ef) as (Hidx & Hfn & Hnone).
    destruct term_split as (c0 & tw & Et). assert (Hn : n = S (length tw)) by (unfold n; rewrite Et; reflexivity).
    destruct (has_eq (firstn idx s)) eqn:He.
    - (* the occurrence lies right of the first '=': from here on the loop is the flagless loop *)
      assert (Hf : has_eq (firstn (idx + n) s) = true) by (rewrite Hfn, has_eq_app, He; reflexivity).
      assert (Hstep : loopA true false (S f) acc prev false s = loopA false false (S f) acc prev false s).
      { cbn [Replace.loopA]. fold n. rewrite Ef, He, Hf. cbn [orb andb negb]. apply rhs_seen. }
      rewrite Hstep, loopA_loop, loop_is_scan by lia. cbn [option_map]. f_equal. f_equal. now apply (scan_rhs s idx).
    - (* left of the first '=': copied *)
      assert (Hf : has_eq (firstn (idx + n) s) = false) by (rewrite Hfn, has_eq_app, He, (nodelim_noeq term term_nodelim); reflexivity).
      cbn [Replace.loopA]. fold n. rewrite Ef, He, Hf. cbn [orb andb negb]. rewrite andb_false_r.
      rewrite IH by (rewrite skipn_length; lia). f_equal. rewrite <- app_assoc. f_equal.
      rewrite <- (rhs_t_app _ _ Hf). now rewrite firstn_skipn.
  Qed.

  (* ---- lhs_only: up to the first '=' the loop runs like the flagless loop on the part before it ---- *)
  Lemma nth_error_firstn' {A} : forall (l : list A) k i, i < k -> nth_error (firstn k l) i = nth_error l i.
  Proof.
    induction l as [|x l IH]; intros k i H; [now rewrite firstn_nil|]. destruct k as [|k]; [lia|]. destruct i as [|i]; [reflexivity|].
    cbn [firstn nth_error]. apply IH. lia.
  Qed.

  Lemma lhs_sim : forall fuel acc prev s, length s < fuel ->
    loopA false true fuel acc prev false s =
    option_map (fun x => x ++ from_eq s) (loopA false false fuel acc prev false (before_eq s)).
  Proof.
    induction fuel as [|f IH]; intros acc prev s Hl; [lia|].
    destruct (find s) as [idx|] eqn:Ef.
    2:{ cbn [Replace.loopA]. rewrite Ef. pose proof Ef as Ef'. rewrite <- (split_eq s) in Ef'. apply find_none_prefix in Ef'.
        rewrite Ef'. cbn [option_map]. now rewrite <- app_assoc, split_eq. }
    destruct (find_decomp s idx Ef) as (Hidx & Hfn & Hnone).
    destruct term_split as (c0 & tw & Et). assert (Hn : n = S (length tw)) by (unfold n; rewrite Et; reflexivity).
    destruct (has_eq (firstn idx s)) eqn:He.
    - (* the first occurrence lies right of the first '=': nothing is replaced at all *)
      assert (Hf : has_eq (firstn (idx + n) s) = true) by (rewrite Hfn, has_eq_app, He; reflexivity).
      destruct (before_lt s idx He) as [Hlt _].
      assert (EfB : find (before_eq s) = None).
      { apply find_none_of. intros j Hj. destruct (prefixb term (skipn j (before_eq s))) eqn:E; [|reflexivity].
        apply (prefixb_app_r _ _ (from_eq s)) in E.
        assert (Hsk : skipn j (before_eq s) ++ from_eq s = skipn j s).
        { rewrite <- (split_eq s) at 3. rewrite skipn_app. replace (j - length (before_eq s)) with 0 by lia. reflexivity. }
        rewrite Hsk in E. rewrite Hnone in E by lia. discriminate. }
      cbn [Replace.loopA]. fold n. rewrite Ef, EfB, He, Hf. cbn [orb andb negb option_map]. rewrite andb_false_r.
      rewrite lhs_seen by (rewrite skipn_length; lia). f_equal.
      rewrite <- !app_assoc. f_equal. now rewrite firstn_skipn, split_eq.
    - (* the occurrence lies left of the first '=': the same step as the flagless loop on before_eq s *)
      assert (Hf : has_eq (firstn (idx + n) s) = false) by (rewrite Hfn, has_eq_app, He, (nodelim_noeq term term_nodelim); reflexivity).
      destruct (app_noeq (firstn (idx + n) s) (skipn (idx + n) s) Hf) as [HB HF]. rewrite firstn_skipn in HB, HF.
      assert (Hlp : length (firstn (idx + n) s) = idx + n) by (rewrite firstn_length; lia).
      assert (EfB : find (before_eq s) = Some idx).
      { apply (find_prefix_some _ (from_eq s)); [now rewrite split_eq|]. rewrite HB, app_length. lia. }
      assert (E1 : firstn idx (before_eq s) = firstn idx s).
      { rewrite HB, firstn_app. replace (idx - length (firstn (idx + n) s)) with 0 by lia. cbn [firstn]. rewrite app_nil_r.
        rewrite firstn_firstn. now rewrite Nat.min_l by lia. }
      assert (E2 : firstn (idx + n) (before_eq s) = firstn (idx + n) s).
      { rewrite HB, firstn_app. replace (idx + n - length (firstn (idx + n) s)) with 0 by lia. cbn [firstn]. rewrite app_nil_r.
        apply firstn_all2. lia. }
      assert (E3 : skipn (idx + n) (before_eq s) = before_eq (skipn (idx + n) s)).
      { rewrite HB at 1. rewrite skipn_app. replace (idx + n - length (firstn (idx + n) s)) with 0 by lia.
        rewrite skipn_all2 by lia. reflexivity. }
      assert (E4 : forall i, i < idx + n -> nth_error (before_eq s) i = nth_error s i).
      { intros i Hi. rewrite HB, nth_error_app1 by lia. now apply nth_error_firstn'. }
      assert (E5 : match idx with 0 => prev | S i => nth_error (before_eq s) i end = match idx with 0 => prev | S i => nth_error s i end).
      { destruct idx as [|i]; [reflexivity|]. apply E4. lia. }
      assert (E6 : match idx + n with 0 => None | S k => nth_error (before_eq s) k end = match idx + n with 0 => None | S k => nth_error s k end).
      { destruct (idx + n) as [|k] eqn:Ek; [reflexivity|]. apply E4. lia. }
      cbn [Replace.loopA]. fold n. rewrite Ef, EfB, E1, E2, E3, E5, E6, He, Hf, follow_before. cbn [orb andb negb].
      rewrite IH by (rewrite skipn_length; lia). now rewrite HF.
  Qed.

  Definition lhs_t (pd : bool) (s : str) : str := scan pd 0 (before_eq s) ++ from_eq s.

  Lemma lhs_loop : forall fuel acc prev s, length s < fuel ->
    loopA false true fuel acc prev false s = Some (acc ++ lhs_t (pd_of prev) s).
  Proof.
    intros fuel acc prev s Hl. rewrite lhs_sim by exact Hl. rewrite loopA_loop, loop_is_scan.
    - cbn [option_map]. unfold lhs_t. now rewrite <- app_assoc.
    - pose proof (f_equal (@length ascii) (split_eq s)) as H. rewrite app_length in H. lia.
  Qed.

  (* ---- the sided word-wise specification, split at the first '=' ---- *)
  Notation sided := (Replace.sided term rep).

  Lemma wordsA_delim : forall a cur d b, isd d = true -> wordsA cur (a ++ d :: b) = wordsA cur a ++ [d] :: wordsA [] b.
  Proof.
    induction a as [|c a IH]; intros cur d b Hd; cbn [app Replace.wordsA].
    - now rewrite Hd.
    - destruct (isd c); [|now apply IH]. rewrite (IH [] d b Hd). now rewrite <- app_assoc.
  Qed.

  Lemma wordsA_concat0 : forall s cur, List.concat (wordsA cur s) = cur ++ s.
  Proof.
    induction s as [|c s IH]; intro cur; cbn [Replace.wordsA].
    - destruct cur; cbn; now rewrite ?app_nil_r.
    - destruct (isd c).
      + rewrite concat_app. cbn [List.concat]. rewrite IH. destruct cur; cbn; now rewrite ?app_nil_r.
      + rewrite IH. now rewrite <- app_assoc.
  Qed.

  Lemma flush_noeq cur w : has_eq cur = false -> In w (Replace.flush cur) -> has_eq w = false.
  Proof. intros Hc Hin. destruct cur; cbn in Hin; [contradiction|]. destruct Hin as [<-|[]]. exact Hc. Qed.

  Lemma words_noeq : forall a cur, has_eq a = false -> has_eq cur = false -> forall w, In w (wordsA cur a) -> has_eq w = false.
  Proof.
    induction a as [|c a IH]; intros cur Ha Hc w Hin; cbn [Replace.wordsA] in Hin; [now apply (flush_noeq cur)|].
    rewrite has_eq_cons in Ha. apply orb_false_elim in Ha as [Hc0 Ha].
    destruct (isd c).
    - apply in_app_or in Hin as [Hin|[<-|Hin]]; [now apply (flush_noeq cur)| |now apply (IH [])].
      now rewrite has_eq_cons, Hc0.
    - apply (IH (cur ++ [c])); auto. now rewrite has_eq_app, Hc, has_eq_cons, Hc0.
  Qed.

  Lemma noeq_word w : has_eq w = false -> str_eqb w ["="%char] = false.
  Proof. intro H. apply str_eqb_neq. intro E. subst w. discriminate. Qed.

  Lemma sided_seen_rhs : forall ws, sided true false true ws = List.concat (map subst_word ws).
  Proof. induction ws as [|w ws IH]; [reflexivity|]. cbn [Replace.sided map List.concat orb andb negb]. now rewrite IH. Qed.
  Lemma sided_seen_lhs : forall ws, sided false true true ws = List.concat ws.
  Proof. induction ws as [|w ws IH]; [reflexivity|]. cbn [Replace.sided List.concat orb andb negb]. now rewrite IH. Qed.
  Lemma sided_ff : forall ws seen, sided false false seen ws = List.concat (map subst_word ws).
  Proof. induction ws as [|w ws IH]; intro seen; [reflexivity|]. cbn [Replace.sided map List.concat orb andb negb]. now rewrite IH. Qed.
  Lemma sided_tt : forall ws seen, sided true true seen ws = List.concat (map subst_word ws).
  Proof. induction ws as [|w ws IH]; intro seen; [reflexivity|]. cbn [Replace.sided map List.concat]. rewrite IH. now destruct seen. Qed.

  Lemma sided_noeq_rhs : forall ws rest, (forall w, In w ws -> has_eq w = false) ->
    sided true false false (ws ++ rest) = List.concat ws ++ sided true false false rest.
  Proof.
    induction ws as [|w ws IH]; intros rest H; [reflexivity|]. cbn [app Replace.sided List.concat].
    rewrite (noeq_word w) by (apply H; now left). cbn [orb andb negb]. rewrite IH by (intros x Hx; apply H; now right).
    now rewrite app_assoc.
  Qed.
  Lemma sided_noeq_lhs : forall ws rest, (forall w, In w ws -> has_eq w = false) ->
    sided false true false (ws ++ rest) = List.concat (map subst_word ws) ++ sided false true false rest.
  Proof.
    induction ws as [|w ws IH]; intros rest H; [reflexivity|]. cbn [app Replace.sided map List.concat].
    rewrite (noeq_word w) by (apply H; now left). cbn [orb andb negb]. rewrite IH by (intros x Hx; apply H; now right).
    now rewrite app_assoc.
  Qed.

  Lemma before_words_noeq s : forall w, In w (wordsA [] (before_eq s)) -> has_eq w = false.
  Proof. apply words_noeq; [apply before_noeq|reflexivity]. Qed.

  Lemma sided_rhs_spec s : Replace.replace_words_sided isd term rep true false s = rhs_t s.
  Proof.
    unfold Replace.replace_words_sided, Replace.words, rhs_t.
    replace (wordsA [] s) with (wordsA [] (before_eq s ++ from_eq s)) by (now rewrite split_eq).
    destruct (from_shape s) as [E|[b E]]; rewrite E; cbn [after_r].
    - rewrite app_nil_r. rewrite <- (app_nil_r (wordsA [] (before_eq s))). rewrite sided_noeq_rhs by apply before_words_noeq.
      cbn [Replace.sided]. now rewrite wordsA_concat0, app_nil_r.
    - rewrite wordsA_delim by exact eq_delim. rewrite sided_noeq_rhs by apply before_words_noeq.
      rewrite wordsA_concat0. cbn [app]. f_equal. cbn [Replace.sided]. rewrite str_eqb_refl. cbn [orb andb negb app].
      f_equal. rewrite sided_seen_rhs. symmetry. apply scan_words.
  Qed.

  Lemma sided_lhs_spec s : Replace.replace_words_sided isd term rep false true s = lhs_t true s.
  Proof.
    unfold Replace.replace_words_sided, Replace.words, lhs_t. rewrite scan_words. unfold Replace.replace_words, Replace.words.
    replace (wordsA [] s) with (wordsA [] (before_eq s ++ from_eq s)) by (now rewrite split_eq).
    destruct (from_shape s) as [E|[b E]]; rewrite E.
    - rewrite app_nil_r. rewrite <- (app_nil_r (wordsA [] (before_eq s))) at 1. rewrite sided_noeq_lhs by apply before_words_noeq.
      reflexivity.
    - rewrite wordsA_delim by exact eq_delim. rewrite sided_noeq_lhs by apply before_words_noeq. f_equal.
      cbn [Replace.sided]. rewrite str_eqb_refl. cbn [orb andb negb]. rewrite (subst_delim _ eq_delim). cbn [app]. f_equal.
      rewrite sided_seen_lhs. apply (wordsA_concat0 b []).
  Qed.

  Theorem flags_rhs eq : Replace.replace_flags isd term rep true false eq = Some (Replace.replace_words_sided isd term rep true false eq).
  Proof. unfold Replace.replace_flags. rewrite rhs_loop by lia. cbn [app]. f_equal. symmetry. apply sided_rhs_spec. Qed.
  Theorem flags_lhs eq : Replace.replace_flags isd term rep false true eq = Some (Replace.replace_words_sided isd term rep false true eq).
  Proof. unfold Replace.replace_flags. rewrite lhs_loop by lia. cbn [app Replace.pd_of]. f_equal. symmetry. apply sided_lhs_spec. Qed.
  Theorem flags_none eq : Replace.replace_flags isd term rep false false eq = Some (Replace.replace_words_sided isd term rep false false eq).
  Proof.
    change (Replace.replace_flags isd term rep false false eq) with (Replace.replace isd term rep eq). rewrite replace_full.
    unfold Replace.replace_words_sided, Replace.replace_words. now rewrite sided_ff.
  Qed.
  Lemma sided_both eq : Replace.replace_words_sided isd term rep true true eq = Replace.replace_words isd term rep eq.
  Proof. unfold Replace.replace_words_sided, Replace.replace_words. now rewrite sided_tt. Qed.

End ReplaceP.

(* ---------- what `words` is: a partition of the string into delimiter characters and delimiter-free runs ---------- *)
Lemma wordsA_concat isd : forall s cur, List.concat (wordsA isd cur s) = cur ++ s.
Proof.
  induction s as [|c s IH]; intro cur; cbn [wordsA].
  - destruct cur; cbn; now rewrite ?app_nil_r.
  - destruct (isd c).
    + rewrite concat_app. cbn [List.concat]. rewrite IH. destruct cur; cbn; now rewrite ?app_nil_r.
    + rewrite IH. now rewrite <- app_assoc.
Qed.
Theorem words_concat isd s : List.concat (words isd s) = s.
Proof. apply (wordsA_concat isd s []). Qed.

Definition word_shape (isd : ascii -> bool) (w : str) : Prop :=
  (exists c, w = [c] /\ isd c = true) \/ (w <> [] /\ nodelim isd w = true).

Lemma wordsA_shape isd : forall s cur, nodelim isd cur = true -> Forall (word_shape isd) (wordsA isd cur s).
Proof.
  induction s as [|c s IH]; intros cur Hcur; cbn [wordsA].
  - destruct cur; cbn [flush]; constructor; [|constructor]. right. split; [discriminate|exact Hcur].
  - destruct (isd c) eqn:Ec.
    + apply Forall_app. split.
      * destruct cur; cbn [flush]; constructor; [|constructor]. right. split; [discriminate|exact Hcur].
      * constructor; [left; eauto|]. now apply IH.
    + apply IH. unfold nodelim in *. rewrite forallb_app, Hcur. cbn. now rewrite Ec.
Qed.
Theorem words_shape isd s : Forall (word_shape isd) (words isd s).
Proof. now apply wordsA_shape. Qed.

(* an equation in which the term is not a word is left as it is: an identifier that merely CONTAINS the term
   (rr, r_in, m_in2 for term r / in) is a different word *)
Theorem replace_words_untouched isd term rep s : ~ In term (words isd s) -> replace_words isd term rep s = s.
Proof.
  intro H. unfold replace_words.
  assert (E : forall ws, ~ In term ws -> List.concat (map (subst_word term rep) ws) = List.concat ws).
  { induction ws as [|w ws IH]; intro Hn; [reflexivity|]. cbn [map List.concat]. rewrite IH by (intro; apply Hn; now right).
    unfold subst_word. destruct (str_eqb w term) eqn:E; [|reflexivity]. apply str_eqb_eq in E. exfalso. apply Hn. now left. }
  rewrite E by exact H. apply words_concat.
Qed.

(* ---------- flags ---------- *)
Lemma loopA_both_flags isd term rep : forall fuel acc prev seen s,
  loopA isd term rep true true fuel acc prev seen s = loopA isd term rep false false fuel acc prev seen s.
Proof.
  induction fuel as [|f IH]; intros acc prev seen s; cbn [loopA]; destruct (find term s) as [idx|]; try reflexivity.
  rewrite IH. destruct (seen || has_eq (firstn idx s)); reflexivity.
Qed.
Theorem replace_both_flags isd term rep eq : replace_flags isd term rep true true eq = replace isd term rep eq.
Proof. apply loopA_both_flags. Qed.

(* every flag setting: the loop (with seen_eq carried across the cuts, fix D52) returns the SIDED word-wise substitution —
   rhs_only: exactly the words that are the term and lie right of the first "=" of the original string, lhs_only: those
   left of it, both or none: all of them.  "=" must be a delimiter (it is one of allowed_follow_ops). *)
Theorem replace_flags_full isd term rep : term <> [] -> nodelim isd term = true -> isd "="%char = true ->
  forall rhs lhs eq, replace_flags isd term rep rhs lhs eq = Some (replace_words_sided isd term rep rhs lhs eq).
Proof.
  intros Hne Hnd Heq rhs lhs eq. destruct rhs, lhs.
  - rewrite replace_both_flags, (replace_full isd term rep Hne Hnd). f_equal. unfold replace_words_sided, replace_words.
    symmetry. apply sided_tt.
  - apply flags_rhs; assumption.
  - apply flags_lhs; assumption.
  - apply flags_none; assumption.
Qed.

Definition L := Coq.Strings.String.list_ascii_of_string.
Import Coq.Strings.String.
Local Open Scope string_scope.

Local Close Scope string_scope.

(* ---------- _update_equation ---------- *)
Lemma term_ok_spec isd t : term_ok isd t = true -> t <> [] /\ nodelim isd t = true.
Proof.
  unfold term_ok. intro H. apply andb_prop in H as [H1 H2]. split; [|exact H2].
  apply negb_true_iff in H1. now apply str_eqb_neq in H1.
Qed.

Lemma forallb_map' {A B} (f : B -> bool) (g : A -> B) : forall l, forallb f (map g l) = forallb (fun x => f (g x)) l.
Proof. induction l as [|x l IH]; cbn; [reflexivity|now rewrite IH]. Qed.

Lemma apply_replaces_full isd : forall l eq, forallb (fun p => term_ok isd (fst p)) l = true ->
  apply_replaces isd l eq = Some (apply_replaces_spec isd l eq).
Proof.
  induction l as [|[old new] l IH]; intros eq H; [reflexivity|].
  cbn [forallb fst] in H. apply andb_prop in H as [Ht Hl]. apply term_ok_spec in Ht as [Hne Hnd].
  cbn [apply_replaces apply_replaces_spec]. rewrite (replace_full isd old new Hne Hnd). cbn [obind]. now apply IH.
Qed.

Theorem update_equation_full isd e eq : edit_ok isd e = true ->
  update_equation isd e eq = Some (update_equation_spec isd e eq).
Proof.
  unfold edit_ok, edit_terms. rewrite forallb_app. intro H. apply andb_prop in H as [Hr Hm].
  unfold update_equation, update_equation_spec.
  rewrite apply_replaces_full by (now rewrite forallb_map' in Hr). cbn [obind].
  rewrite apply_replaces_full; [reflexivity|].
  rewrite forallb_map'. cbn [fst]. exact Hm.
Qed.

(* ---------- update_template of an operator: map-override algebra ---------- *)
Section Maps.
  Variable V : Type.
  Notation lookup := (Replace.lookup V).
  Notation set_key := (Replace.set_key V).
  Notation update_map := (Replace.update_map V).

  Lemma str_eqb_sym a b : str_eqb a b = str_eqb b a.
  Proof.
    destruct (str_eqb a b) eqn:E.
    - apply str_eqb_eq in E. subst. now rewrite str_eqb_refl.
    - apply str_eqb_neq in E. symmetry. apply str_eqb_neq. congruence.
  Qed.

  Lemma lookup_set_key : forall m k k' v, lookup k (set_key k' v m) = if str_eqb k k' then Some v else lookup k m.
  Proof.
    induction m as [|[k0 v0] m IH]; intros k k' v; cbn [Replace.set_key Replace.lookup].
    - reflexivity.
    - destruct (str_eqb k' k0) eqn:E0; cbn [Replace.lookup].
      + apply str_eqb_eq in E0. subst k0. destruct (str_eqb k k'); reflexivity.
      + rewrite IH. destruct (str_eqb k k') eqn:E; [|reflexivity].
        apply str_eqb_eq in E. subst k'. now rewrite E0.
  Qed.

  Lemma lookup_app : forall a b k, lookup k (a ++ b) = match lookup k a with Some v => Some v | None => lookup k b end.
  Proof. induction a as [|[k0 v0] a IH]; intros b k; cbn [app Replace.lookup]; [reflexivity|]. destruct (str_eqb k k0); [reflexivity|apply IH]. Qed.

  (* derived = base except on the overridden keys; the LAST entry of a key in the update wins *)
  Theorem lookup_update_map : forall upd m k,
    lookup k (update_map m upd) = match lookup k (rev upd) with Some v => Some v | None => lookup k m end.
  Proof.
    unfold Replace.update_map. induction upd as [|[k1 v1] upd IH]; intros m k; cbn [fold_left rev fst snd]; [reflexivity|].
    rewrite IH, lookup_app. destruct (lookup k (rev upd)); [reflexivity|].
    cbn [Replace.lookup]. rewrite lookup_set_key. destruct (str_eqb k k1); reflexivity.
  Qed.

  Lemma lookup_filter (p : str -> bool) : forall m k,
    lookup k (filter (fun kv => p (fst kv)) m) = if p k then lookup k m else None.
  Proof.
    induction m as [|[k0 v0] m IH]; intros k; cbn [filter Replace.lookup fst].
    - now destruct (p k).
    - destruct (p k0) eqn:E0; cbn [Replace.lookup]; rewrite IH.
      + destruct (str_eqb k k0) eqn:E; [|reflexivity]. apply str_eqb_eq in E. subst. now rewrite E0.
      + destruct (str_eqb k k0) eqn:E; [|reflexivity]. apply str_eqb_eq in E. subst. now rewrite E0.
  Qed.

  Theorem update_op_vars isd beqs bvars u vupd eqs vars k :
    update_op V isd beqs bvars u vupd = Some (eqs, vars) ->
    lookup k vars = if used eqs k then (match lookup k (rev vupd) with Some v => Some v | None => lookup k bvars end) else None.
  Proof.
    unfold update_op. destruct (update_equations isd beqs u) as [e|]; cbn [obind]; [|discriminate].
    intro H. injection H as <- <-. rewrite (lookup_filter (used e)). now rewrite lookup_update_map.
  Qed.

  (* equations of a derived operator *)
  Theorem update_op_equations_edit isd beqs bvars e add vupd :
    edit_ok isd e = true ->
    option_map fst (update_op V isd beqs bvars (EqEdit e add) vupd) = Some (map (update_equation_spec isd e) beqs ++ add).
  Proof.
    intro He. unfold update_op, update_equations.
    assert (Hm : forall l, mapM (update_equation isd e) l = Some (map (update_equation_spec isd e) l)).
    { induction l as [|x l IH]; [reflexivity|]. cbn [mapM map]. rewrite update_equation_full by exact He. cbn [obind]. now rewrite IH. }
    rewrite Hm. reflexivity.
  Qed.
End Maps.


(* ====================== the derivative mark ' and the delimiter set (finding C15-primed-lhs) ====================== *)
Lemma wordsA_agree isd1 isd2 : forall s cur, (forall c, In c s -> isd1 c = isd2 c) -> wordsA isd1 cur s = wordsA isd2 cur s.
Proof.
  induction s as [|c s IH]; intros cur H; [reflexivity|]. cbn [wordsA]. rewrite <- (H c (or_introl eq_refl)).
  destruct (isd1 c); [f_equal; f_equal|]; apply IH; intros x Hx; apply H; now right.
Qed.

Lemma memc_app c a b : memc c (a ++ b) = memc c a || memc c b.
Proof. unfold memc. apply existsb_app. Qed.
Lemma delim_gen_true c : is_delim_gen true c = is_delim_gen false c || Ascii.eqb c quote.
Proof. unfold is_delim_gen, allowed_gen. rewrite memc_app. unfold memc at 2. cbn [existsb]. now rewrite orb_false_r. Qed.
Lemma delim_gen_mono fx c : is_delim_gen fx c = true -> is_delim_spec c = true.
Proof. unfold is_delim_spec. destruct fx; [auto|]. rewrite delim_gen_true. intros ->. reflexivity. Qed.
Lemma delim_gen_agree fx c : c <> quote -> is_delim_gen fx c = is_delim_spec c.
Proof.
  unfold is_delim_spec. destruct fx; [reflexivity|]. intro H. rewrite delim_gen_true.
  destruct (Ascii.eqb c quote) eqn:E; [apply Ascii.eqb_eq in E; contradiction|]. now rewrite orb_false_r.
Qed.
Lemma prime_free_in s : prime_free s = true -> forall c, In c s -> c <> quote.
Proof.
  unfold prime_free, memc. intros H c Hin E. subst c. apply negb_true_iff in H.
  assert (existsb (Ascii.eqb quote) s = true) by (apply existsb_exists; exists quote; split; [exact Hin|apply Ascii.eqb_refl]). congruence.
Qed.
Lemma nodelim_spec_gen fx t : nodelim is_delim_spec t = true -> nodelim (is_delim_gen fx) t = true.
Proof.
  unfold nodelim. rewrite !forallb_forall. intros H c Hc. specialize (H c Hc). apply negb_true_iff in H. apply negb_true_iff.
  destruct (is_delim_gen fx c) eqn:E; [|reflexivity]. apply delim_gen_mono in E. congruence.
Qed.

(* for either value of the switch: on equations without the derivative mark — or with the repaired delimiter set — the loop
   returns the sided word-wise substitution for the READER's notion of identifier (identifiers end at ') *)
Theorem replace_flags_reader fx term rep : term <> [] -> nodelim is_delim_spec term = true ->
  forall rhs lhs eq, (fx = true \/ prime_free eq = true) ->
  replace_flags (is_delim_gen fx) term rep rhs lhs eq = Some (replace_words_sided is_delim_spec term rep rhs lhs eq).
Proof.
  intros Hne Hnd rhs lhs eq Hg.
  rewrite (replace_flags_full (is_delim_gen fx) term rep Hne (nodelim_spec_gen fx term Hnd)) by (now destruct fx).
  f_equal. unfold replace_words_sided, words. f_equal. apply wordsA_agree. intros c Hc.
  destruct Hg as [->|Hp]; [reflexivity|]. apply delim_gen_agree. now apply (prime_free_in eq).
Qed.

Import Coq.Strings.String.
(* before the repair the guard is needed: the primed left-hand side is not renamed *)
Theorem replace_prime_before_fix : exists eq, prime_free eq = false /\
  replace (is_delim_gen false) (list_ascii_of_string "x") (list_ascii_of_string "z") eq <>
  Some (replace_words is_delim_spec (list_ascii_of_string "x") (list_ascii_of_string "z") eq).
Proof. exists (list_ascii_of_string "x' = -x/tau"). split; [reflexivity|]. vm_compute. discriminate. Qed.

(* ====================== D99: the caller's edit dictionary ====================== *)
Section Reuse.
  Variable V : Type.
  Variable isd : ascii -> bool.

  Lemma derive_fixed : forall k beqs bvars u vupd,
    derive_reusing_gen V isd true k beqs bvars u vupd = derive_spec V isd k beqs bvars u vupd.
  Proof. induction k as [|k IH]; intros; [reflexivity|]. cbn [derive_reusing_gen edit_after_gen]. unfold derive_spec in *. cbn [repeat]. now rewrite IH. Qed.

  Lemma derive_same : forall k beqs bvars u vupd, edit_after_gen false u = u ->
    derive_reusing_gen V isd false k beqs bvars u vupd = derive_spec V isd k beqs bvars u vupd.
  Proof.
    induction k as [|k IH]; intros beqs bvars u vupd H; [reflexivity|]. cbn [derive_reusing_gen]. unfold derive_spec in *. cbn [repeat].
    rewrite H. now rewrite IH.
  Qed.

  (* for either value of the switch *)
  Theorem derive_reusing_ok fx k beqs bvars u vupd : (fx = true \/ reuse_guard k u = true) ->
    derive_reusing_gen V isd fx k beqs bvars u vupd = derive_spec V isd k beqs bvars u vupd.
  Proof.
    intros [->|Hg]; [apply derive_fixed|]. destruct fx; [apply derive_fixed|].
    destruct u as [| l | e [|a add]]; try (apply derive_same; reflexivity).
    cbn [reuse_guard] in Hg. destruct k as [|[|k]]; try reflexivity. discriminate.
  Qed.
End Reuse.

Theorem derive_before_fix : exists beqs u,
  derive_reusing_gen str is_delim false 2 beqs [] u [] <> derive_spec str is_delim 2 beqs [] u [].
Proof.
  exists [list_ascii_of_string "d/dt * r = -k*r"], (EqEdit (Build_edit [] [] [] []) [list_ascii_of_string "d/dt * x = r - x"]).
  vm_compute. discriminate.
Qed.

Print Assumptions replace_full.
Print Assumptions replace_flags_full.
Print Assumptions replace_flags_reader.
Print Assumptions derive_reusing_ok.
Print Assumptions update_equation_full.
Print Assumptions update_op_vars.
