(* DDEProofs.v — the compiled delayed terms are components of hist(t - tau); allocation of history variables is
   injective; the Euler loop with the DDEHistory model is the method-of-steps recurrence. *)
From Coq Require Import List ZArith QArith Qcanon Lia Bool Arith.
From PV Require Import History HistoryProofs DDE.
Import ListNotations.
Open Scope Qc_scope.

(* ---------- keys ---------- *)
Lemma Qc_eqb_true a b : Qc_eqb a b = true <-> a = b.
Proof.
  unfold Qc_eqb. rewrite Qeq_bool_iff. split; [apply Qc_is_canon | intros ->; reflexivity].
Qed.

Lemma dkey_eqb_true a b : dkey_eqb a b = true <-> a = b.
Proof.
  destruct a as [p|p], b as [q|q]; cbn [dkey_eqb].
  - rewrite Qc_eqb_true. split; congruence.
  - split; discriminate.
  - split; discriminate.
  - rewrite Nat.eqb_eq. split; congruence.
Qed.

Lemma dkey_eqb_refl a : dkey_eqb a a = true.
Proof. now apply dkey_eqb_true. Qed.

Lemma find_d_some d l k : find_d d l = Some k -> nth_error l k = Some d.
Proof.
  revert k; induction l as [|d' l IH]; intros k H; cbn [find_d] in H; [discriminate|].
  destruct (dkey_eqb d d') eqn:E.
  - injection H as <-. apply dkey_eqb_true in E. now subst.
  - destruct (find_d d l) as [k'|]; [|discriminate]. injection H as <-. cbn. now apply IH.
Qed.

Lemma find_d_none d l : find_d d l = None -> ~ In d l.
Proof.
  induction l as [|d' l IH]; intros H; cbn [find_d] in H; [tauto|].
  destruct (dkey_eqb d d') eqn:E; [discriminate|].
  destruct (find_d d l) eqn:F; [discriminate|].
  intros [->|Hin]; [rewrite dkey_eqb_refl in E; discriminate | now apply IH].
Qed.

(* a registered delay is found again: the same (variable, delay) never gets a second history variable *)
Lemma find_d_in d l : In d l -> exists k, find_d d l = Some k.
Proof.
  induction l as [|d' l IH]; intros H; [inversion H|]. cbn [find_d].
  destruct (dkey_eqb d d') eqn:E; [eauto|].
  destruct H as [->|H]; [rewrite dkey_eqb_refl in E; discriminate|].
  destruct (IH H) as [k ->]. cbn. eauto.
Qed.

Lemma NoDup_snoc {A} (l : list A) d : NoDup l -> ~ In d l -> NoDup (l ++ [d]).
Proof.
  induction l as [|a l IH]; intros ND Hn; cbn.
  - constructor; [intros []|constructor].
  - inversion ND as [|? ? Ha ND']; subst. constructor.
    + rewrite in_app_iff. intros [H|[<-|[]]]; [now apply Ha|apply Hn; now left].
    + apply IH; [exact ND'|]. intros H. apply Hn. now right.
Qed.

Lemma alloc_in_spec l d l' k : alloc_in l d = (l', k) ->
  nth_error l' k = Some d /\ (exists s, l' = l ++ s /\ (forall e, In e s -> e = d)) /\ (NoDup l -> NoDup l').
Proof.
  unfold alloc_in. destruct (find_d d l) as [k0|] eqn:F; intros [= <- <-].
  - split; [now apply find_d_some|]. split; [exists []; split; [now rewrite app_nil_r|intros e []]|auto].
  - split; [rewrite nth_error_app2 by lia; now rewrite Nat.sub_diag|].
    split; [exists [d]; split; [reflexivity|intros e [<-|[]]; reflexivity]|].
    intros ND. apply NoDup_snoc; [exact ND|now apply find_d_none].
Qed.

(* ---------- table extension ---------- *)
Definition ext (tb tb' : table) : Prop := forall x k d, slot tb x k = Some d -> slot tb' x k = Some d.
Definition WFt (tb : table) : Prop := Forall (fun xl : nat * list dkey => NoDup (snd xl)) tb.

Lemma ext_refl tb : ext tb tb.
Proof. intros x k d H; exact H. Qed.
Lemma ext_trans a b c : ext a b -> ext b c -> ext a c.
Proof. intros H1 H2 x k d H. apply H2, H1, H. Qed.

Lemma nth_error_app_l {A} (l s : list A) k d : nth_error l k = Some d -> nth_error (l ++ s) k = Some d.
Proof.
  intros H. rewrite nth_error_app1; [exact H|]. apply nth_error_Some. congruence.
Qed.

Lemma assoc_in tb x l : assoc tb x = Some l -> exists x', In (x', l) tb.
Proof.
  induction tb as [|[x' l'] tb IH]; cbn [assoc]; [discriminate|].
  destruct (x =? x')%nat; [intros [= <-]; exists x'; now left|].
  intros H. destruct (IH H) as [x0 H0]. exists x0. now right.
Qed.

Lemma WFt_assoc tb x l : WFt tb -> assoc tb x = Some l -> NoDup l.
Proof.
  intros W H. destruct (assoc_in tb x l H) as [x' Hin].
  unfold WFt in W. rewrite Forall_forall in W. apply (W (x', l) Hin).
Qed.

Lemma get_var_hist_spec : forall tb x d tb' k, get_var_hist tb x d = (tb', k) ->
  slot tb' x k = Some d /\ ext tb tb' /\ (WFt tb -> WFt tb') /\
  (forall x0 k0 d0, slot tb' x0 k0 = Some d0 -> slot tb x0 k0 = Some d0 \/ (x0 = x /\ d0 = d)).
Proof.
  induction tb as [|[x' l] tb IH]; intros x d tb' k H; cbn [get_var_hist] in H.
  - injection H as <- <-. unfold ext, WFt, slot. cbn [assoc]. rewrite Nat.eqb_refl. cbn.
    split; [reflexivity|]. split; [intros ? ? ? [=]|]. split.
    + intros _. constructor; [|constructor]. cbn. constructor; [intros []|constructor].
    + intros x0 k0 d0. destruct (x0 =? x)%nat eqn:E; [|discriminate]. apply Nat.eqb_eq in E.
      destruct k0 as [|k0]; cbn; [intros [= <-]; auto|]. destruct k0; discriminate.
  - destruct (x =? x')%nat eqn:E.
    + destruct (alloc_in l d) as [l' k0] eqn:A. injection H as <- <-.
      destruct (alloc_in_spec l d l' k0 A) as (Hn & (s & -> & Hs) & Hnd).
      apply Nat.eqb_eq in E. subst x'. unfold ext, slot. cbn [assoc]. rewrite Nat.eqb_refl.
      split; [exact Hn|]. split; [|split].
      * intros x0 k1 d1. destruct (x0 =? x)%nat; [|auto]. apply nth_error_app_l.
      * unfold WFt. intros W. inversion W as [|? ? W1 W2]; subst. constructor; [cbn in *; auto|exact W2].
      * intros x0 k1 d1. destruct (x0 =? x)%nat eqn:E0; [|auto]. apply Nat.eqb_eq in E0. subst x0.
        intros H1. destruct (Nat.lt_ge_cases k1 (length l)) as [Hlt|Hge].
        -- left. now rewrite nth_error_app1 in H1.
        -- right. split; [reflexivity|]. rewrite nth_error_app2 in H1 by exact Hge. apply Hs. eapply nth_error_In; eauto.
    + destruct (get_var_hist tb x d) as [tb2 k2] eqn:G. injection H as <- <-.
      destruct (IH x d tb2 k2 G) as (Hs & He & Hw & Hb).
      unfold ext, slot in *. cbn [assoc]. rewrite E.
      split; [exact Hs|]. split; [|split].
      * intros x0 k1 d1. destruct (x0 =? x')%nat; [auto|apply He].
      * unfold WFt. intros W. inversion W as [|? ? W1 W2]; subst. constructor; [exact W1|apply Hw, W2].
      * intros x0 k1 d1. destruct (x0 =? x')%nat; [auto|apply Hb].
Qed.

(* ---------- one history variable per distinct (variable, delay); different pairs do not interfere ---------- *)
Theorem slot_injective tb x1 k1 d1 x2 k2 d2 : WFt tb ->
  slot tb x1 k1 = Some d1 -> slot tb x2 k2 = Some d2 ->
  ((x1, k1) = (x2, k2) <-> (x1, d1) = (x2, d2)).
Proof.
  intros W H1 H2. split; intros [= -> E].
  - subst. rewrite H1 in H2. now injection H2 as ->.
  - subst. f_equal. unfold slot in *. destruct (assoc tb x2) as [l|] eqn:A; [|discriminate].
    pose proof (WFt_assoc tb x2 l W A) as ND. rewrite NoDup_nth_error in ND. apply ND.
    + apply nth_error_Some. congruence.
    + congruence.
Qed.

Lemma WFt_nil : WFt [].
Proof. constructor. Qed.

(* ---------- keys occurring in a model ---------- *)
Definition fkeys (fs : list factor) : list (nat * dkey) :=
  flat_map (fun f => match f with FPast x d => [(x, d)] | _ => [] end) fs.
Definition rkeys (r : rhs) : list (nat * dkey) := flat_map (fun cf : term => fkeys (snd cf)) r.
Definition past_keys (m : model) : list (nat * dkey) := flat_map rkeys m.

(* what a compilation pass guarantees about the table it returns *)
Definition pass_ok (tb tb' : table) (keys : list (nat * dkey)) : Prop :=
  ext tb tb' /\ (WFt tb -> WFt tb') /\
  (forall x d, In (x, d) keys -> exists k, slot tb' x k = Some d) /\
  (forall x k d, slot tb' x k = Some d -> slot tb x k = Some d \/ In (x, d) keys).

Lemma pass_ok_refl tb : pass_ok tb tb [].
Proof. repeat split; auto using ext_refl. intros x d []. Qed.

Lemma pass_ok_app a b c k1 k2 : pass_ok a b k1 -> pass_ok b c k2 -> pass_ok a c (k1 ++ k2).
Proof.
  intros (E1 & W1 & C1 & S1) (E2 & W2 & C2 & S2). repeat split.
  - eapply ext_trans; eauto.
  - auto.
  - intros x d H. apply in_app_iff in H as [H|H].
    + destruct (C1 x d H) as [k Hk]. exists k. now apply E2.
    + now apply C2.
  - intros x k d H. destruct (S2 x k d H) as [H'|H']; [|right; apply in_app_iff; now right].
    destruct (S1 x k d H') as [H''|H'']; [now left|right; apply in_app_iff; now left].
Qed.

Section Correct.
  Variable hist : Qc -> list Qc.
  Variable pos : nat -> nat.
  Variable par : nat -> Qc.
  Variable dpar : nat -> Qc.              (* values of the delay parameters (DPar p) *)

  Lemma t_emit_true md t : dt_fmt_exact md = true -> t_emit md t = t_true md t.
  Proof. destruct md as [|dt de]; cbn; [reflexivity|]. intros H. apply Qc_eqb_true in H. now subst. Qed.

  (* the compiled factor, evaluated with ANY later table, has the value of the source factor *)
  Definition fac_ok (tb' : table) (f : factor) (c : cfactor) : Prop :=
    forall tbF md t y, ext tb' tbF -> dt_fmt_exact md = true ->
      cfval hist pos par dpar tbF md t y c = fval hist pos par dpar md t y f.

  Lemma comp_factor_ok tb f tb' c : comp_factor tb f = (tb', c) ->
    pass_ok tb tb' (fkeys [f]) /\ fac_ok tb' f c.
  Proof.
    destruct f as [x|p|x d|q|q]; cbn [comp_factor]; try (intros [= <- <-]; split; [apply pass_ok_refl|intros ? ? ? ? _ _; reflexivity]).
    destruct (get_var_hist tb x d) as [tb1 k] eqn:G. intros [= <- <-].
    destruct (get_var_hist_spec tb x d tb1 k G) as (Hs & He & Hw & Hb).
    split.
    - repeat split; auto.
      + intros x0 d0 [[= <- <-]|[]]. eauto.
      + intros x0 k0 d0 H. destruct (Hb x0 k0 d0 H) as [H'|[-> ->]]; [now left|right; now left].
    - intros tbF md t y HE Hdt. cbn [cfval fval]. unfold hist_val, past_val.
      rewrite (HE x k d Hs). now rewrite t_emit_true.
  Qed.

  Lemma comp_factors_ok : forall fs tb tb' cs, comp_factors tb fs = (tb', cs) ->
    pass_ok tb tb' (fkeys fs) /\
    forall tbF md t y, ext tb' tbF -> dt_fmt_exact md = true ->
      map (cfval hist pos par dpar tbF md t y) cs = map (fval hist pos par dpar md t y) fs.
  Proof.
    induction fs as [|f fs IH]; intros tb tb' cs H; cbn [comp_factors] in H.
    - injection H as <- <-. split; [apply pass_ok_refl|reflexivity].
    - destruct (comp_factor tb f) as [tb1 c] eqn:C1. destruct (comp_factors tb1 fs) as [tb2 cs2] eqn:C2.
      injection H as <- <-.
      destruct (comp_factor_ok tb f tb1 c C1) as (P1 & F1). destruct (IH tb1 tb2 cs2 C2) as (P2 & F2).
      split.
      + replace (fkeys (f :: fs)) with (fkeys [f] ++ fkeys fs).
        * eapply pass_ok_app; eauto.
        * unfold fkeys. cbn [flat_map]. now rewrite app_nil_r.
      + intros tbF md t y HE Hdt. cbn [map]. f_equal.
        * apply F1; [|exact Hdt]. eapply ext_trans; [apply P2|exact HE].
        * now apply F2.
  Qed.

  Lemma comp_rhs_ok : forall r tb tb' cr, comp_rhs tb r = (tb', cr) ->
    pass_ok tb tb' (rkeys r) /\
    forall tbF md t y, ext tb' tbF -> dt_fmt_exact md = true ->
      map (cterm_val hist pos par dpar tbF md t y) cr = map (term_val hist pos par dpar md t y) r.
  Proof.
    induction r as [|[c fs] r IH]; intros tb tb' cr H; cbn [comp_rhs] in H.
    - injection H as <- <-. split; [apply pass_ok_refl|reflexivity].
    - destruct (comp_factors tb fs) as [tb1 cfs] eqn:C1. destruct (comp_rhs tb1 r) as [tb2 cr2] eqn:C2.
      injection H as <- <-.
      destruct (comp_factors_ok fs tb tb1 cfs C1) as (P1 & F1). destruct (IH tb1 tb2 cr2 C2) as (P2 & F2).
      split.
      + unfold rkeys. cbn [flat_map snd]. eapply pass_ok_app; eauto.
      + intros tbF md t y HE Hdt. cbn [map]. f_equal; [|now apply F2].
        unfold cterm_val, term_val. cbn [fst snd]. f_equal. f_equal.
        apply F1; [|exact Hdt]. eapply ext_trans; [apply P2|exact HE].
  Qed.

  Lemma comp_model_ok : forall m tb tb' cm, comp_model tb m = (tb', cm) ->
    pass_ok tb tb' (past_keys m) /\
    forall tbF md t y, ext tb' tbF -> dt_fmt_exact md = true ->
      map (crhs_val hist pos par dpar tbF md t y) cm = map (rhs_val hist pos par dpar md t y) m.
  Proof.
    induction m as [|r m IH]; intros tb tb' cm H; cbn [comp_model] in H.
    - injection H as <- <-. split; [apply pass_ok_refl|reflexivity].
    - destruct (comp_rhs tb r) as [tb1 cr] eqn:C1. destruct (comp_model tb1 m) as [tb2 cm2] eqn:C2.
      injection H as <- <-.
      destruct (comp_rhs_ok r tb tb1 cr C1) as (P1 & F1). destruct (IH tb1 tb2 cm2 C2) as (P2 & F2).
      split.
      + unfold past_keys. cbn [flat_map]. eapply pass_ok_app; eauto.
      + intros tbF md t y HE Hdt. cbn [map]. f_equal; [|now apply F2].
        unfold crhs_val, rhs_val. f_equal.
        apply F1; [|exact Hdt]. eapply ext_trans; [apply P2|exact HE].
  Qed.

  (* headline: for EVERY history function, state layout, parameter values and model, every delayed term of the compiled
     function is component pos(x) of hist(t_time - tau): Impl = Spec, no guard *)
  Theorem dde_full m md t y : impl_eval hist pos par dpar m md t y = spec_eval hist pos par dpar m md t y.
  Proof.
    unfold impl_eval, spec_eval, spec_eval_e, compile.
    destruct (comp_model [] m) as [tb cm] eqn:C.
    destruct (comp_model_ok m [] tb cm C) as (_ & F).
    apply F; [apply ext_refl|]. destruct md; cbn; [reflexivity|]. now apply Qc_eqb_true.
  Qed.

  (* the code before D38/D39 met the specification only inside two guards *)
  Theorem before_fix_refines m md t y :
    past_terms_printable m = true -> dt_fmt_exact md = true ->
    impl_eval_before_fix hist pos par dpar m md t y = Some (spec_eval_e hist pos par dpar m md t y).
  Proof.
    intros G1 G2. unfold impl_eval_before_fix, compile. rewrite G1.
    destruct (comp_model [] m) as [tb cm] eqn:C.
    destruct (comp_model_ok m [] tb cm C) as (_ & F). f_equal. unfold spec_eval_e.
    apply F; [apply ext_refl|exact G2].
  Qed.

  (* the same read off a single occurrence: the history variable that replaces past(x, d) is bound to
     nth (pos x) (hist (t_time - d)) by its emitted line *)
  Theorem past_occurrence m tb cm x d : compile m = (tb, cm) -> In (x, d) (past_keys m) ->
    exists k, slot tb x k = Some d /\
      forall md t, hist_val hist pos dpar tb md t x k = nth (pos x) (hist (t_emit md t - dval dpar d)) 0.
  Proof.
    intros C Hin. destruct (comp_model_ok m [] tb cm C) as ((_ & _ & Cov & _) & _).
    destruct (Cov x d Hin) as [k Hk]. exists k. split; [exact Hk|]. intros md t. unfold hist_val. now rewrite Hk.
  Qed.
End Correct.

(* allocation: the history variables of the compiled model are in bijection with the distinct (variable, delay)
   pairs that occur in it *)
Theorem alloc_bijective m tb cm : compile m = (tb, cm) ->
  (forall x d, In (x, d) (past_keys m) -> exists k, slot tb x k = Some d) /\
  (forall x k d, slot tb x k = Some d -> In (x, d) (past_keys m)) /\
  (forall x1 k1 d1 x2 k2 d2, slot tb x1 k1 = Some d1 -> slot tb x2 k2 = Some d2 ->
     ((x1, k1) = (x2, k2) <-> (x1, d1) = (x2, d2))).
Proof.
  intros C. destruct (comp_model_ok (fun _ => []) (fun x => x) (fun _ => 0) (fun _ => 0) m [] tb cm C) as ((_ & W & Cov & Sp) & _).
  split; [exact Cov|]. split.
  - intros x k d H. destruct (Sp x k d H) as [H'|H']; [|exact H']. unfold slot in H'. cbn in H'. discriminate.
  - intros. apply slot_injective with (tb := tb); auto. apply W, WFt_nil.
Qed.

(* ---------- delayed edges under an adaptive solver ---------- *)
Lemma edge_factor_ok step es e : edge_delay_above_step step es = true -> In e es ->
  edge_factor_impl step es e = edge_factor_spec e.
Proof.
  unfold edge_delay_above_step. rewrite forallb_forall. intros H2 Hin.
  unfold edge_factor_impl, edge_factor_spec. now rewrite (H2 e Hin).
Qed.

Lemma edge_factor_before_fix_ok step es e : edge_delay_not_one es = true -> edge_delay_above_step step es = true -> In e es ->
  edge_factor_before_fix step es e = edge_factor_spec e.
Proof.
  unfold edge_delay_not_one, edge_delay_above_step. rewrite !forallb_forall. intros H1 H2 Hin.
  unfold edge_factor_before_fix, edge_factor_spec. rewrite (H2 e Hin).
  specialize (H1 e Hin). apply negb_true_iff in H1. now rewrite H1.
Qed.

Lemma add_edges_ext f g : forall es base, (forall e, In e es -> f e = g e) -> add_edges f es base = add_edges g es base.
Proof.
  unfold add_edges. induction es as [|e es IH]; intros base H; [reflexivity|]. cbn [fold_left].
  rewrite (H e (or_introl eq_refl)). apply IH. intros e' He'. apply H. now right.
Qed.

(* every delayed edge becomes past(source, delay) when the largest delay leaving each source variable exceeds step_size *)
Theorem edges_refine step es base : edge_delay_above_step step es = true ->
  add_edges (edge_factor_impl step es) es base = add_edges edge_factor_spec es base.
Proof. intros H2. apply add_edges_ext. intros e He. now apply edge_factor_ok. Qed.

(* ---------- vector-valued variables ---------- *)
Lemma spec_eval_dpar_ext hist pos par d1 d2 m md t y : (forall p, d1 p = d2 p) ->
  spec_eval hist pos par d1 m md t y = spec_eval hist pos par d2 m md t y.
Proof.
  intros H. unfold spec_eval, spec_eval_e. apply map_ext. intros r. unfold rhs_val. f_equal. apply map_ext. intros cf.
  unfold term_val. f_equal. f_equal. apply map_ext. intros f. destruct f; cbn [fval]; try reflexivity.
  unfold past_val. destruct d; cbn [dval]; [reflexivity|]. now rewrite H.
Qed.

(* every unit of a vector-valued delayed variable reads its own component of hist(t_time - tau) — provided delay
   parameters have the same value on all units *)
Theorem vec_refines hist start par dpar n m md t y :
  (forall p u, (u < n)%nat -> dpar p u = dpar p 0%nat) ->
  vimpl_eval hist start par dpar n m md t y = vspec_eval hist start par dpar n m md t y.
Proof.
  intros H. unfold vimpl_eval, vspec_eval. apply map_ext_in. intros u Hu. apply in_seq in Hu.
  rewrite dde_full. apply spec_eval_dpar_ext. intros p. symmetry. apply H. lia.
Qed.

(* the same under the BOOLEAN guard delays_uniform (the one the correspondence run evaluates), for delay-parameter tables whose
   rows cover all n units *)
Lemma uniform_row r u : forallb (fun v => Qc_eqb v (nth 0 r 0)) r = true -> (u < length r)%nat -> nth u r 0 = nth 0 r 0.
Proof.
  intros H Hu. rewrite forallb_forall in H. apply Qc_eqb_true. apply H. now apply nth_In.
Qed.

Theorem vec_refines_bool hist start par dps n m md t y :
  delays_uniform dps = true -> (forall r, In r dps -> (n <= length r)%nat) ->
  vimpl_eval hist start par (tab dps) n m md t y = vspec_eval hist start par (tab dps) n m md t y.
Proof.
  intros G L. apply vec_refines. intros p u Hu. unfold tab.
  destruct (Nat.lt_ge_cases p (length dps)) as [Hp|Hp].
  - assert (Hin : In (nth p dps []) dps) by now apply nth_In.
    unfold delays_uniform in G. rewrite forallb_forall in G.
    apply uniform_row; [now apply G|]. specialize (L _ Hin). lia.
  - rewrite (nth_overflow dps [] Hp). now destruct u.
Qed.

(* with the proposed repair of C10-F5 every accepted vectorized model meets the specification, and exactly the models
   with a non-uniform delay parameter are refused *)
Theorem vec_checked_refines hist start par dpar n m md t y (uniform : bool) :
  (uniform = true -> forall p u, (u < n)%nat -> dpar p u = dpar p 0%nat) ->
  vimpl_eval_checked uniform hist start par dpar n m md t y =
  if uniform then Some (vspec_eval hist start par dpar n m md t y) else None.
Proof.
  intros H. unfold vimpl_eval_checked. destruct uniform; [|reflexivity]. f_equal. apply vec_refines. now apply H.
Qed.

(* with per-unit delay lookups the vector statement holds without any guard *)
Theorem vec_perunit_full hist start par dpar n m md t y :
  vimpl_eval_perunit hist start par dpar n m md t y = vspec_eval hist start par dpar n m md t y.
Proof. unfold vimpl_eval_perunit, vspec_eval. apply map_ext. intros u. apply dde_full. Qed.

(* ---------- the Euler loop with DDEHistory is the method-of-steps recurrence ---------- *)
Lemma spec_eval_ext h1 h2 pos par dpar m md t y : (forall s, h1 s = h2 s) ->
  spec_eval h1 pos par dpar m md t y = spec_eval h2 pos par dpar m md t y.
Proof.
  intros H. unfold spec_eval, spec_eval_e. apply map_ext. intros r. unfold rhs_val. f_equal. apply map_ext. intros cf.
  unfold term_val. f_equal. f_equal. apply map_ext. intros f. destruct f; cbn [fval]; try reflexivity.
  unfold past_val. now rewrite H.
Qed.

Lemma qn_0 : qn 0 = 0.
Proof. reflexivity. Qed.

Lemma qn_S i : qn (S i) = qn i + 1.
Proof.
  unfold qn. rewrite Nat2Z.inj_succ, <- Z.add_1_r, inject_Z_plus.
  apply Qc_is_canon. unfold Qcplus. cbn [this Q2Qc].
  rewrite !Qred_correct. reflexivity.
Qed.

Lemma step_time_lt i dt : 0 < dt -> qn i * dt < qn (S i) * dt.
Proof.
  intros H. rewrite qn_S. apply Qclt_minus_iff.
  replace ((qn i + 1) * dt + - (qn i * dt)) with dt by ring. exact H.
Qed.

Lemma incr_snoc : forall l t, incr l -> (l = [] \/ last l 0 < t) -> incr (l ++ [t]).
Proof.
  induction l as [|x l IH]; intros t Hinc Hl; [cbn; auto|].
  destruct Hl as [Hl|Hl]; [discriminate|].
  destruct l as [|z l].
  - cbn in *. auto.
  - cbn [app incr] in *. destruct Hinc as [Hxz Hrest]. split; [exact Hxz|].
    apply (IH t Hrest). right. exact Hl.
Qed.

Lemma step_y_ext sc dt F1 F2 y : (forall z, F1 z = F2 z) -> step_y sc dt F1 y = step_y sc dt F2 y.
Proof. intros H. destruct sc; cbn [step_y]; now rewrite !H. Qed.

Section RunProof.
  Variable sc : scheme.
  Variable pos : nat -> nat.
  Variable par : nat -> Qc.
  Variable dpar : nat -> Qc.              (* values of the delay parameters (DPar p) *)
  Variable m : model.
  Variable dt : Qc.
  Variable junk : nat -> list row.
  Hypothesis Hdt : 0 < dt.

  (* what the loop maintains: the concrete buffer represents exactly the records of the recurrence *)
  Definition RInv (h : hist) (recs : list (Qc * row)) (i : nat) : Prop :=
    Inv h /\ growable h = true /\ combine (ts h) (recorded h) = recs /\ incr (ts h) /\
    ts h <> [] /\ last (ts h) 0 = qn i * dt.

  Lemma loop_refines : forall n i y h recs, RInv h recs i ->
    loop_impl sc pos par dpar m dt junk n i y h = Some (loop_spec sc pos par dpar m dt n i y recs).
  Proof.
    induction n as [|n IH]; intros i y h recs (HI & Hgr & Hrec & Hinc & Hne & Hlast); [reflexivity|].
    cbn [loop_impl loop_spec].
    assert (E : step_y sc dt (impl_eval (query h) pos par dpar m (Fixed dt) (qn i)) y =
                step_y sc dt (spec_eval (interp recs) pos par dpar m (Fixed dt) (qn i)) y).
    { apply step_y_ext. intros z. rewrite dde_full. apply spec_eval_ext. intros s. rewrite <- Hrec. now apply query_is_interp. }
    rewrite E.
    set (y' := step_y sc dt (spec_eval (interp recs) pos par dpar m (Fixed dt) (qn i)) y). set (t' := qn (S i) * dt).
    destruct (update h (junk i) t' y') as [h'|] eqn:U.
    - destruct (update_inv h (junk i) t' y' h' HI U) as (HI' & Hr' & Ht' & Hg' & _).
      rewrite (IH (S i) y' h' (recs ++ [(t', y')])); [reflexivity|].
      unfold RInv. split; [exact HI'|]. split; [congruence|]. split; [|split; [|split]].
      + rewrite Hr', Ht'. rewrite combine_app; [now rewrite Hrec|].
        rewrite (recorded_length h HI). now destruct HI.
      + rewrite Ht'. apply incr_snoc; [exact Hinc|]. right. rewrite Hlast. now apply step_time_lt.
      + rewrite Ht'. now destruct (ts h).
      + rewrite Ht'. now rewrite last_last.
    - apply update_none_iff in U. destruct U as [U _]. congruence.
  Qed.

  Theorem run_refines cap n y0 :
    run_impl sc pos par dpar m dt junk cap n y0 = Some (run_spec sc pos par dpar m dt n y0).
  Proof.
    unfold run_impl, run_spec. apply loop_refines.
    destruct (init_inv y0 0 cap true (junk 0)) as (HI & Hrec & _).
    unfold RInv. split; [exact HI|]. split; [reflexivity|]. split; [|split; [|split]].
    - rewrite Hrec. reflexivity.
    - cbn. auto.
    - discriminate.
    - cbn. rewrite qn_0. ring.
  Qed.
End RunProof.

(* the history the recurrence sees: records (k*dt, y_k), hence y0 before the start and the interpolant afterwards *)
Lemma spec_recs_prefix sc pos par dpar m dt : forall n i y recs, exists s, spec_recs sc pos par dpar m dt n i y recs = recs ++ s.
Proof.
  induction n as [|n IH]; intros i y recs; cbn [spec_recs]; [exists []; now rewrite app_nil_r|].
  match goal with |- exists s, spec_recs _ _ _ _ _ _ _ _ ?y1 (recs ++ ?r) = _ => destruct (IH (S i) y1 (recs ++ r)) as [s Hs] end.
  rewrite Hs, <- app_assoc. eauto.
Qed.

Theorem prehistory_constant sc pos par dpar m dt n y0 t : t <= 0 ->
  interp (spec_recs sc pos par dpar m dt n 0 y0 [(0, y0)]) t = y0.
Proof.
  intros H. destruct (spec_recs_prefix sc pos par dpar m dt n 0 y0 [(0, y0)]) as [s ->].
  cbn [app interp]. apply Qcleb_true in H. now rewrite H.
Qed.

Lemma spec_recs_times sc pos par dpar m dt : forall n i y recs,
  times (spec_recs sc pos par dpar m dt n i y recs) = times recs ++ map (fun k => qn k * dt) (seq (S i) n).
Proof.
  induction n as [|n IH]; intros i y recs; cbn [spec_recs seq map]; [now rewrite app_nil_r|].
  rewrite IH. unfold times. rewrite map_app, <- app_assoc. reflexivity.
Qed.

(* the rows DDEHistory.__call__ reads: the model's query is row 0 / the last row / the interpolation of rows idx, idx+1
   selected by qcase on the update times *)
Theorem query_by_qcase h t :
  query h t = match qcase (ts h) t with
              | (0%nat, _) => nth 0 (buf h) []
              | (1%nat, _) => nth (n h - 1) (buf h) []
              | (_, idx) => lerp (nth idx (ts h) 0) (nth idx (buf h) []) (nth (S idx) (ts h) 0) (nth (S idx) (buf h) []) t
              end.
Proof.
  unfold query, qcase. destruct (Qcleb t (hd 0 (ts h))); [reflexivity|].
  destruct (Qcleb (last (ts h) 0) t); reflexivity.
Qed.

(* bisect_right brackets t for ANY list: everything before the returned position is <= t, the element at it is > t.
   Hence an interpolating lookup never divides by a zero-width interval, also when update times repeat. *)
Lemma bisect_right_bracket : forall l t,
  (forall i, (i < bisect_right l t)%nat -> nth i l 0 <= t) /\
  ((bisect_right l t < length l)%nat -> t < nth (bisect_right l t) l 0).
Proof.
  induction l as [|x l IH]; intros t; cbn [bisect_right length].
  - split; intros; lia.
  - destruct (Qcleb x t) eqn:E.
    + destruct (IH t) as [H1 H2]. split.
      * intros [|i] Hi; cbn [nth]; [now apply Qcleb_true|]. apply H1. lia.
      * intros Hlt. cbn [nth]. apply H2. lia.
    + split; [intros i Hi; lia|]. intros _. cbn [nth]. now apply Qcleb_false.
Qed.

Lemma last_in {A} (l : list A) d : l <> [] -> In (last l d) l.
Proof.
  induction l as [|a [|b l] IH]; intros H; [congruence|now left|]. right. apply IH. discriminate.
Qed.

Theorem qcase_between_bracket tsl t idx : qcase tsl t = (2%nat, idx) ->
  nth idx tsl 0 <= t /\ t < nth (S idx) tsl 0.
Proof.
  unfold qcase. destruct (Qcleb t (hd 0 tsl)) eqn:E1; [discriminate|].
  destruct (Qcleb (last tsl 0) t) eqn:E2; [discriminate|]. intros [= <-].
  apply Qcleb_false in E1. apply Qcleb_false in E2.
  destruct (bisect_right_bracket tsl t) as [H1 H2].
  assert (Hne : tsl <> []) by (intros ->; cbn in *; eapply Qclt_not_le; [eapply Qclt_trans; [exact E1|exact E2]|apply Qcle_refl]).
  assert (Hk1 : (1 <= bisect_right tsl t)%nat).
  { destruct tsl as [|x l]; [congruence|]. cbn [hd] in E1. cbn [bisect_right].
    apply Qclt_le_weak in E1. apply Qcleb_true in E1. rewrite E1. lia. }
  assert (Hk2 : (bisect_right tsl t < length tsl)%nat).
  { destruct (Nat.lt_ge_cases (bisect_right tsl t) (length tsl)) as [H|H]; [exact H|]. exfalso.
    destruct (In_nth tsl (last tsl 0) 0 (last_in tsl 0 Hne)) as (i & Hi & Hn).
    assert (nth i tsl 0 <= t) by (apply H1; lia). rewrite Hn in H0. eapply Qclt_not_le; eauto. }
  split.
  - apply H1. lia.
  - replace (S (bisect_right tsl t - 1)) with (bisect_right tsl t) by lia. now apply H2.
Qed.

(* ---------- helpers for the refutation witnesses ---------- *)
Lemma row_eqb_refl r : row_eqb r r = true.
Proof.
  unfold row_eqb. rewrite Nat.eqb_refl. cbn [andb].
  induction r as [|a r IH]; [reflexivity|]. cbn [combine forallb fst snd]. rewrite IH, andb_true_r. apply Qeq_bool_iff. reflexivity.
Qed.

Lemma orow_eqb_some a b : a = Some b -> orow_eqb a b = true.
Proof. intros ->. apply row_eqb_refl. Qed.

(* ---------- the rewrite x(t-d) -> past(x, d) on token lists ---------- *)
Lemma span_no_rp_app d rest : forallb (fun a => negb (is_rp a)) d = true ->
  span_no_rp (d ++ TRp :: rest) = (d, TRp :: rest).
Proof.
  induction d as [|a d IH]; intros H; [reflexivity|]. cbn [forallb] in H. apply andb_true_iff in H as [Ha Hd].
  cbn [app span_no_rp]. apply negb_true_iff in Ha. rewrite Ha. now rewrite (IH Hd).
Qed.

(* one call  f(t - d)  with a non-empty delay d that contains no ')' : rewritten to past(f, d) unless f is a known
   function name, in which case it is left exactly as it was; the scan continues behind the call *)
Theorem rewrite_call t_id past_id excluded fuel f d0 d rest :
  forallb (fun a => negb (is_rp a)) (d0 :: d) = true ->
  rewrite_fuel t_id past_id excluded (S fuel) (TId f :: TLp :: TId t_id :: TMinus :: (d0 :: d) ++ TRp :: rest) =
  if excluded f
  then TId f :: TLp :: TId t_id :: TMinus :: (d0 :: d) ++ TRp :: rewrite_fuel t_id past_id excluded fuel rest
  else TId past_id :: TLp :: TId f :: TComma :: (d0 :: d) ++ TRp :: rewrite_fuel t_id past_id excluded fuel rest.
Proof.
  intros H. cbn [rewrite_fuel]. rewrite Nat.eqb_refl. rewrite (span_no_rp_app (d0 :: d) rest H). reflexivity.
Qed.

(* tokens that cannot start a call are copied *)
Theorem rewrite_other t_id past_id excluded fuel a l :
  (forall s, a <> TId s) ->
  rewrite_fuel t_id past_id excluded (S fuel) (a :: l) = a :: rewrite_fuel t_id past_id excluded fuel l.
Proof. intros H. destruct a; try reflexivity. exfalso. now apply (H s). Qed.
