(* RingProofs.v — proofs about Ring.v (C09). *)
From Coq Require Import List ZArith QArith Qcanon Qround Bool Arith Lia ZifyBool Lqa.
From PV Require Import Ring.
Import ListNotations.

(* ------------------------------------------------------------------------------------------------ *)
(* 1. the ring-buffer machine *)
Lemma removelast_length {A} (l : list A) : length (removelast l) = pred (length l).
Proof. induction l as [|a [|b l] IH]; cbn in *; auto. Qed.

Lemma nth_removelast (l : list Qc) j : (S j < length l)%nat -> nth j (removelast l) 0%Qc = nth j l 0%Qc.
Proof.
  revert j; induction l as [|a [|b l] IH]; intros j H; cbn in *; try lia.
  destruct j; [reflexivity|]. apply IH. cbn. lia.
Qed.

Lemma call_length buf x : length (call buf x) = S (pred (length buf)).
Proof. unfold call. cbn [length]. now rewrite removelast_length. Qed.

Lemma feed_length xs c D : length (feed xs c (repeat 0%Qc (S D))) = S D.
Proof.
  induction c; cbn [feed]; [apply repeat_length|].
  rewrite call_length, IHc. reflexivity.
Qed.

Lemma feed_nth xs D : forall c j, (j <= D)%nat ->
  nth j (feed xs c (repeat 0%Qc (S D))) 0%Qc = if (j <? c)%nat then xs (c - 1 - j)%nat else 0%Qc.
Proof.
  induction c as [|c IH]; intros j Hj.
  - cbn [feed]. destruct (j <? 0)%nat eqn:E; [apply Nat.ltb_lt in E; lia|]. apply nth_repeat.
  - cbn [feed]. unfold call. destruct j as [|j].
    + cbn. replace (c - 0 - 0)%nat with c by lia. reflexivity.
    + cbn [nth]. rewrite nth_removelast by (rewrite feed_length; lia).
      rewrite IH by lia.
      destruct (Nat.ltb_spec j c), (Nat.ltb_spec (S j) (S c)); try lia; try reflexivity.
      f_equal; lia.
Qed.

(* a buffer of length D+1 serves every delay d <= D: the value read at call number c (0-based) is the input
   of call c-d, zero before the first call *)
Theorem ring_delay xs D d c : (d <= D)%nat ->
  read d (feed xs (S c) (repeat 0%Qc (S D))) = if (d <=? c)%nat then xs (c - d)%nat else 0%Qc.
Proof.
  intros Hd. unfold read. rewrite feed_nth by lia.
  destruct (Nat.ltb_spec d (S c)), (Nat.leb_spec d c); try lia; try reflexivity.
  f_equal; lia.
Qed.

(* seeded-bug sanity: reading the neighbouring slot or writing after reading gives another delay *)
Lemma ring_delay_wrong_slot xs D d c : (S d <= D)%nat ->
  read (S d) (feed xs (S c) (repeat 0%Qc (S D))) = if (S d <=? c)%nat then xs (c - S d)%nat else 0%Qc.
Proof. intros. now apply ring_delay. Qed.

Lemma nth_map_lt {A B} (f : A -> B) d d' : forall l i, (i < length l)%nat -> nth i (map f l) d = f (nth i l d').
Proof. induction l as [|x l IH]; intros i H; cbn in *; [lia|]. destruct i; [reflexivity|]. apply IH. lia. Qed.

Lemma nth_repeat_lt {A} (x d : A) n j : (j < n)%nat -> nth j (repeat x n) d = x.
Proof. revert j; induction n; intros j H; [lia|]. destruct j; cbn; [reflexivity|]. apply IHn. lia. Qed.

(* ---- the (Ns, d+1) matrix buffer of _add_matrix_delay: row j is the scalar machine fed with component j ---- *)
Lemma mfeed_length X Ns d : (forall c, length (X c) = Ns) -> forall c, length (mfeed X c (mbuf0 Ns d)) = Ns.
Proof.
  intros HX. induction c; cbn [mfeed]; [apply repeat_length|].
  unfold mcall. rewrite map_length, combine_length, IHc, HX. apply Nat.min_id.
Qed.

Lemma combine_nth_lt {A B} (a : list A) (b : list B) k da db : (k < length a)%nat -> (k < length b)%nat ->
  nth k (combine a b) (da, db) = (nth k a da, nth k b db).
Proof.
  revert b k; induction a as [|x a IH]; intros b k Ha Hb; [cbn in Ha; lia|].
  destruct b as [|y b]; [cbn in Hb; lia|]. destruct k; cbn; [reflexivity|]. apply IH; cbn in *; lia.
Qed.

Lemma mfeed_row X Ns d : (forall c, length (X c) = Ns) -> forall c j, (j < Ns)%nat ->
  nth j (mfeed X c (mbuf0 Ns d)) [] = feed (fun c => nth j (X c) 0%Qc) c (repeat 0%Qc (S d)).
Proof.
  intros HX. induction c as [|c IH]; intros j Hj; cbn [mfeed feed].
  - unfold mbuf0. apply nth_repeat_lt. exact Hj.
  - unfold mcall. set (f := fun p : list Qc * Qc => call (fst p) (snd p)).
    rewrite (nth_indep _ [] (f ([], 0%Qc))) by (rewrite map_length, combine_length, (mfeed_length X Ns d HX), HX, Nat.min_id; exact Hj).
    rewrite map_nth. rewrite combine_nth_lt by (rewrite ?(mfeed_length X Ns d HX), ?HX; exact Hj).
    unfold f. cbn [fst snd]. rewrite IH by exact Hj. reflexivity.
Qed.

(* delivered_i(c) = sum_j W[i][j] * src_j(c - d), zero before the first call: any Ns, any d, any weight matrix *)
Theorem matrix_delay W X Ns d c : (forall c, length (X c) = Ns) ->
  mat_delivered W X Ns d c =
  matvec W (map (fun j => if (d <=? c)%nat then nth j (X (c - d)%nat) 0%Qc else 0%Qc) (seq 0 Ns)).
Proof.
  intros HX. unfold mat_delivered. f_equal.
  apply nth_ext with (d := 0%Qc) (d' := 0%Qc).
  - rewrite !map_length, seq_length. apply (mfeed_length X Ns d HX).
  - intros j Hj. rewrite map_length, (mfeed_length X Ns d HX) in Hj.
    rewrite (nth_map_lt (read d) 0%Qc []) by (rewrite (mfeed_length X Ns d HX); exact Hj).
    rewrite (nth_map_lt _ 0%Qc 0%nat) by (rewrite seq_length; exact Hj). rewrite seq_nth by exact Hj. cbn [plus].
    rewrite (mfeed_row X Ns d HX) by exact Hj.
    rewrite (ring_delay (fun c => nth j (X c) 0%Qc) d d c (Nat.le_refl d)). reflexivity.
Qed.



(* ------------------------------------------------------------------------------------------------ *)
(* 2. bookkeeping of the flattened slot lists *)
Lemma nth_concat_slice {A} (d : A) : forall (ls : list (list A)) i p,
  (p < length (nth i ls []))%nat -> nth (idx_l ls i + p) (concat ls) d = nth p (nth i ls []) d.
Proof.
  induction ls as [|l ls IH]; intros i p Hp.
  - destruct i; cbn in Hp; lia.
  - destruct i as [|i]; cbn [idx_l concat nth] in *.
    + cbn. rewrite app_nth1 by exact Hp. reflexivity.
    + rewrite app_nth2 by lia. replace (length l + idx_l ls i + p - length l)%nat with (idx_l ls i + p)%nat by lia.
      apply IH. exact Hp.
Qed.

Lemma idx_l_bound {A} : forall (ls : list (list A)) i p,
  (p < length (nth i ls []))%nat -> (idx_l ls i + p < length (concat ls))%nat.
Proof.
  induction ls as [|l ls IH]; intros i p Hp.
  - destruct i; cbn in Hp; lia.
  - destruct i as [|i]; cbn [idx_l concat nth] in *; rewrite app_length.
    + cbn. lia.
    + specialize (IH i p Hp). lia.
Qed.

Lemma idx_l_same_shape : forall (a b : list (list nat)) i,
  Forall2 (fun x y => length x = length y) a b -> idx_l a i = idx_l b i.
Proof.
  intros a b i H. revert i. induction H as [|x y a b Hxy H IH]; intros i; destruct i; cbn; auto.
Qed.

(* edge i, slot p reads the ring-buffer row of ITS source unit at ITS delay, whatever the other edges on the
   same source variable are *)
Theorem each_edge_keeps_its_delay buf nodes dl i p :
  Forall2 (fun x y => length x = length y) nodes dl ->
  (p < length (nth i nodes []))%nat ->
  edge_reads buf nodes dl i p = nth (nth p (nth i dl []) 0%nat) (nth (nth p (nth i nodes []) 0%nat) buf []) 0%Qc.
Proof.
  intros Hs Hp. unfold edge_reads, buffered_vec.
  assert (Hlen : length (concat nodes) = length (concat dl)).
  { clear Hp. induction Hs; cbn; [reflexivity|]. rewrite !app_length. lia. }
  assert (Hp' : (p < length (nth i dl []))%nat).
  { clear Hlen. revert i Hp. induction Hs as [|x y a b Hxy H IH]; intros i Hp; destruct i; cbn in *; try lia. apply IH, Hp. }
  pose proof (idx_l_bound nodes i p Hp) as Hb.
  set (f := fun q : nat * nat => nth (snd q) (nth (fst q) buf []) 0%Qc).
  rewrite (nth_indep _ 0%Qc (f (0%nat, 0%nat))) by (rewrite map_length, combine_length; lia).
  rewrite map_nth. rewrite combine_nth by exact Hlen. unfold f; cbn [fst snd].
  rewrite nth_concat_slice by exact Hp.
  rewrite (idx_l_same_shape nodes dl i Hs). rewrite nth_concat_slice by exact Hp'. reflexivity.
Qed.

(* ------------------------------------------------------------------------------------------------ *)
(* 3. bucketing keeps every element *)
Lemma bucket_add_In {A} k (x : A) : forall bs y,
  In y (concat (map snd (bucket_add k x bs))) <-> y = x \/ In y (concat (map snd bs)).
Proof.
  induction bs as [|[k' l] bs IH]; intros y; cbn.
  - intuition.
  - destruct (Nat.eqb k k'); cbn; rewrite ?in_app_iff.
    + cbn. intuition.
    + rewrite IH. intuition.
Qed.

Lemma bucket_In {A} (key : A -> nat) : forall l y, In y (concat (map snd (bucket key l))) <-> In y l.
Proof.
  intros l y. unfold bucket.
  assert (G : forall l bs, In y (concat (map snd (fold_left (fun bs x => bucket_add (key x) x bs) l bs))) <->
                           In y l \/ In y (concat (map snd bs))).
  { clear l. induction l as [|x l IH]; intros bs; cbn [fold_left].
    - cbn. intuition.
    - rewrite IH, bucket_add_In. cbn. intuition. }
  rewrite G. cbn. intuition.
Qed.

Lemma bucket_snd_In {A} (key : A -> nat) (l : list A) b y : In b (bucket key l) -> In y (snd b) -> In y l.
Proof.
  intros Hb Hy. apply (bucket_In key). apply in_concat. exists (snd b). split; [apply in_map, Hb|exact Hy].
Qed.

Lemma gslots_In c g e : In e (gslots c g) <-> In e (group c g).
Proof.
  unfold gslots. rewrite in_flat_map. split.
  - intros [b [Hb He]]. apply bucket_In in He. eapply bucket_snd_In; eauto.
  - intros He. apply (bucket_In (tkey c)) in He. apply in_concat in He. destruct He as [l [Hl He]].
    apply in_map_iff in Hl. destruct Hl as [b [Hbl Hb]]. subst l.
    exists b. split; [exact Hb|]. apply bucket_In. exact He.
Qed.

Lemma index_of_nth {B} (f : edge -> B) d : forall l e, In e l -> nth (index_of e l) (map f l) d = f e.
Proof.
  induction l as [|x l IH]; intros e He; [destruct He|].
  cbn [index_of]. destruct (edge_eq_dec e x) as [->|Hne]; [reflexivity|].
  cbn [map nth]. apply IH. destruct He as [->|He]; [contradiction|exact He].
Qed.

Lemma list_max_ge l x : In x l -> (x <= list_max l)%nat.
Proof.
  intros H. pose proof (proj1 (list_max_le l (list_max l)) (Nat.le_refl _)) as F.
  rewrite Forall_forall in F. apply F, H.
Qed.

Lemma group_self c e : In e (cedges c) -> In e (group c (skey c e)).
Proof. intros H. unfold group. apply filter_In. split; [exact H|apply Nat.eqb_refl]. Qed.

Lemma rsteps_le_gmax c e : In e (cedges c) -> (rsteps (cdt c) e <= gmax c (skey c e))%nat.
Proof. intros H. unfold gmax. apply list_max_ge. apply in_map. apply group_self, H. Qed.

(* ------------------------------------------------------------------------------------------------ *)
(* 4. refinement: under the guards the buffer mechanism computes the delayed recurrence *)
Record Inv (c : circuit) (hist : list (list Qc)) (rows : list (list Qc)) : Prop := {
  inv_len_rows : length rows = length (cnodes c);
  inv_len_xs : length (hd [] hist) = length (cnodes c);
  inv_ne : hist <> [];
  inv_row_len : forall i, (i < length (cnodes c))%nat -> length (nth i rows []) = S (gmax c (nkey c i));
  inv_row : forall i j, (i < length (cnodes c))%nat -> (j <= gmax c (nkey c i))%nat ->
            nth j (nth i rows []) 0%Qc = past hist (S j) i }.

Lemma mapi_length {A B} (f : nat -> A -> B) l : length (mapi f l) = length l.
Proof. unfold mapi. rewrite map_length, combine_length, seq_length. lia. Qed.

Lemma axpy_length a xs dy : length (axpy a xs dy) = Nat.min (length xs) (length dy).
Proof. unfold axpy, zip. now rewrite map_length, combine_length. Qed.

Lemma roll_rows_length rows xs : length (roll_rows rows xs) = Nat.min (length rows) (length xs).
Proof. unfold roll_rows. now rewrite map_length, combine_length. Qed.

Lemma roll_rows_nth rows xs i : (i < length rows)%nat -> (i < length xs)%nat ->
  nth i (roll_rows rows xs) [] = call (nth i rows []) (nth i xs 0%Qc).
Proof.
  intros H1 H2. unfold roll_rows.
  set (f := fun p : list Qc * Qc => call (fst p) (snd p)).
  rewrite (nth_indep _ [] (f ([], 0%Qc))) by (rewrite map_length, combine_length; lia).
  rewrite map_nth. unfold f.
  assert (G : forall (a : list (list Qc)) (b : list Qc) k, (k < length a)%nat -> (k < length b)%nat ->
              nth k (combine a b) ([], 0%Qc) = (nth k a [], nth k b 0%Qc)).
  { induction a as [|x a IH]; intros b k Ha Hb; [cbn in Ha; lia|].
    destruct b as [|y b]; [cbn in Hb; lia|]. destruct k; cbn; [reflexivity|]. apply IH; cbn in *; lia. }
  rewrite G by assumption. reflexivity.
Qed.

Lemma dy_of_ext c rd1 rd2 j n : (forall e, In e (cedges c) -> rd1 e = rd2 e) -> dy_of c rd1 j n = dy_of c rd2 j n.
Proof.
  intros H. unfold dy_of. destruct (nsrc n); [reflexivity|]. f_equal. f_equal.
  apply map_ext_in. intros e He. unfold into in He. apply filter_In in He. rewrite (H e (proj1 He)). reflexivity.
Qed.

Lemma mapi_ext {A B} (f g : nat -> A -> B) l : (forall i x, f i x = g i x) -> mapi f l = mapi g l.
Proof. intros H. unfold mapi. apply map_ext. intros [i x]. apply H. Qed.

Lemma wf_edge c e : wf c = true -> In e (cedges c) ->
  (esrc e < length (cnodes c))%nat /\ (etgt e < length (cnodes c))%nat.
Proof.
  unfold wf. intros H He. apply andb_prop in H. destruct H as [_ H].
  rewrite forallb_forall in H. specialize (H e He).
  repeat (apply andb_prop in H; destruct H as [H ?]). split; apply Nat.ltb_lt; assumption.
Qed.

(* the value an edge reads at a rhs call, given the invariant *)
Lemma eread_spec c hist rows e :
  wf c = true -> guards c = true -> Inv c hist rows -> In e (cedges c) ->
  eread c (roll_rows rows (hd [] hist)) (hd [] hist) e = past hist (sdelay (cdt c) e) (esrc e).
Proof.
  intros Hwf Hg I He. destruct (wf_edge c e Hwf He) as [Hs _].
  unfold guards in Hg. repeat (apply andb_prop in Hg; destruct Hg as [Hg ?]).
  rename H into Hge2, H0 into Hpar, H1 into Hsib.
  unfold g_no_undelayed_sibling in Hsib. rewrite forallb_forall in Hsib. specialize (Hsib e He).
  unfold g_delays_ge2 in Hge2. rewrite forallb_forall in Hge2. specialize (Hge2 e He).
  pose proof (rsteps_le_gmax c e He) as Hle.
  assert (Hhd : forall i, nth i (hd [] hist) 0%Qc = past hist 0 i).
  { intros i. unfold past. destruct hist; [exfalso; now apply (inv_ne _ _ _ I)|reflexivity]. }
  unfold eread. destruct (gadd c (skey c e)) eqn:Ga.
  - (* buffered: slot of e in the buffered vector = row of its source at its own delay *)
    unfold buffered. rewrite index_of_nth by (apply gslots_In, group_self, He).
    rewrite roll_rows_nth by (rewrite ?(inv_len_rows _ _ _ I), ?(inv_len_xs _ _ _ I); exact Hs).
    assert (Hr : rsteps (cdt c) e = sdelay (cdt c) e).
    { rewrite orb_false_r in Hsib. unfold sdelay, is_delayed in *.
      destruct (ed e) eqn:Ed; cbn [orb] in Hsib; [apply Nat.eqb_eq, Hsib | apply Nat.eqb_eq, Hsib |].
      unfold rsteps, neglect. rewrite Ed. apply Nat.leb_le in Hge2.
      destruct (Nat.leb_spec (steps_of d (cdt c)) 1); [lia|]. rewrite andb_false_r. reflexivity. }
    rewrite <- Hr. unfold call.
    destruct (rsteps (cdt c) e) as [|j] eqn:Ej.
    + cbn [nth]. apply Hhd.
    + cbn [nth]. unfold skey in Hle.
      rewrite nth_removelast by (rewrite (inv_row_len _ _ _ I) by exact Hs; lia).
      apply (inv_row _ _ _ I); [exact Hs|lia].
  - (* not buffered: the edge has no delay (a delay of >= 2 steps would have forced the buffer) *)
    assert (Hz : sdelay (cdt c) e = 0%nat).
    { unfold sdelay. destruct (ed e) as [| |d] eqn:Ed; try reflexivity.
      exfalso. unfold gadd in Ga. apply Nat.ltb_ge in Ga.
      unfold rsteps, neglect in Hle. rewrite Ed in Hle. apply Nat.leb_le in Hge2.
      destruct (Nat.leb_spec (steps_of d (cdt c)) 1); [lia|]. rewrite andb_false_r in Hle. lia. }
    rewrite Hz. apply Hhd.
Qed.

Lemma rhs_spec c hist rows :
  wf c = true -> guards c = true -> Inv c hist rows ->
  fst (rhs c rows (hd [] hist)) = spec_dy c hist.
Proof.
  intros Hwf Hg I. unfold rhs, spec_dy. cbn [fst]. apply mapi_ext. intros j n.
  apply dy_of_ext. intros e He. apply eread_spec; assumption.
Qed.

Lemma inv_step c hist rows xs' :
  Inv c hist rows -> length xs' = length (cnodes c) ->
  Inv c (xs' :: hist) (roll_rows rows (hd [] hist)).
Proof.
  intros I Hx. pose proof (inv_len_rows _ _ _ I) as Lr. pose proof (inv_len_xs _ _ _ I) as Lx.
  constructor.
  - rewrite roll_rows_length. lia.
  - exact Hx.
  - discriminate.
  - intros i Hi. rewrite roll_rows_nth by lia. rewrite call_length, (inv_row_len _ _ _ I) by exact Hi. reflexivity.
  - intros i j Hi Hj. rewrite roll_rows_nth by lia. unfold call, past. cbn [nth].
    destruct j as [|j]; cbn [nth].
    + destruct hist; [exfalso; now apply (inv_ne _ _ _ I)|reflexivity].
    + rewrite nth_removelast by (rewrite (inv_row_len _ _ _ I) by exact Hi; lia).
      apply (inv_row _ _ _ I); [exact Hi|lia].
Qed.

Lemma spec_dy_length c hist : length (spec_dy c hist) = length (cnodes c).
Proof. unfold spec_dy. apply mapi_length. Qed.

Lemma inv_init c : Inv c [x0s c] (rows0 c).
Proof.
  constructor.
  - unfold rows0. now rewrite map_length, seq_length.
  - cbn. unfold x0s. apply map_length.
  - discriminate.
  - intros i Hi. unfold rows0.
    rewrite (nth_map_lt _ [] 0%nat) by (rewrite seq_length; exact Hi). rewrite seq_nth by exact Hi. cbn [plus]. rewrite repeat_length. reflexivity.
  - intros i j Hi Hj. unfold rows0.
    rewrite (nth_map_lt _ [] 0%nat) by (rewrite seq_length; exact Hi). rewrite seq_nth by exact Hi. cbn [plus]. rewrite nth_repeat. unfold past. cbn. destruct j; destruct i; reflexivity.
Qed.

Lemma iruns_spec c : wf c = true -> guards c = true ->
  forall n k rows, Inv c (shist c k) rows ->
  iruns c n (hd [] (shist c k), rows) = map (fun k => hd [] (shist c k)) (seq k n).
Proof.
  intros Hwf Hg. assert (He : cheun c = false).
  { unfold guards, g_euler in Hg. repeat (apply andb_prop in Hg; destruct Hg as [Hg ?]).
    destruct (cheun c); [discriminate|reflexivity]. }
  induction n as [|n IH]; intros k rows I; [reflexivity|].
  cbn [iruns seq map fst]. f_equal.
  unfold istep.
  pose proof (rhs_spec c _ _ Hwf Hg I) as Hr.
  destruct (rhs c rows (hd [] (shist c k))) as [dy1 rows1] eqn:R. cbn [fst] in Hr. rewrite He.
  assert (R1 : rows1 = roll_rows rows (hd [] (shist c k))) by (unfold rhs in R; now inversion R).
  assert (Hs : shist c (S k) = axpy (cdt c) (hd [] (shist c k)) dy1 :: shist c k).
  { cbn [shist]. unfold spec_step. rewrite He, Hr. reflexivity. }
  specialize (IH (S k) rows1). rewrite Hs in IH. cbn [hd] in IH. apply IH.
  rewrite R1. apply inv_step; [exact I|].
  rewrite axpy_length, (inv_len_xs _ _ _ I), Hr, spec_dy_length. lia.
Qed.

Theorem impl_refines_spec c n : wf c = true -> guards c = true -> impl_run c n = Ok (spec_run c n).
Proof.
  intros Hwf Hg. unfold impl_run.
  assert (Hc : crashes c = false).
  { unfold guards, g_no_parallel_buffered in Hg. repeat (apply andb_prop in Hg; destruct Hg as [Hg ?]).
    destruct (crashes c); [discriminate|reflexivity]. }
  rewrite Hc. f_equal. unfold spec_run.
  apply (iruns_spec c Hwf Hg n 0 (rows0 c)). cbn [shist]. apply inv_init.
Qed.

(* with fixed_D18c on nothing crashes any more; together with the trivial sibling guard the only hypotheses left are the solver
   (D7: Heun) and the scope of the property (delays of at least two steps) *)
Lemma crashes_never c : crashes c = false.
Proof. reflexivity. Qed.
Lemma sibling_guard_trivial' c : g_no_undelayed_sibling c = true.
Proof.
  unfold g_no_undelayed_sibling. apply forallb_forall. intros e _.
  unfold is_delayed, rsteps. destruct (ed e); cbn; rewrite ?orb_true_r; reflexivity.
Qed.
Theorem full_up_to_heun c n : wf c = true -> g_euler c = true -> g_delays_ge2 c = true -> impl_run c n = Ok (spec_run c n).
Proof.
  intros Hwf He Hg. apply impl_refines_spec; [exact Hwf|].
  unfold guards, g_no_parallel_buffered. rewrite He, Hg, sibling_guard_trivial', crashes_never. reflexivity.
Qed.

(* the meaning of `past`: the state of d steps ago, zero before the simulation started *)
Lemma shist_cons c k : exists x, shist c (S k) = x :: shist c k.
Proof. cbn [shist]. unfold spec_step. destruct (cheun c); eexists; reflexivity. Qed.

Lemma shist_nth c : forall k d, nth d (shist c k) [] = if (d <=? k)%nat then hd [] (shist c (k - d)) else [].
Proof.
  induction k as [|k IH]; intros d.
  - destruct d as [|d]. { reflexivity. } cbn. destruct d; reflexivity.
  - destruct (shist_cons c k) as [x Hx]. destruct d as [|d].
    + rewrite Nat.sub_0_r, Hx. reflexivity.
    + rewrite Hx. cbn [nth]. rewrite IH. reflexivity.
Qed.

Theorem past_meaning c k d i :
  past (shist c k) d i = if (d <=? k)%nat then nth i (nth (k - d) (spec_run c (S k)) []) 0%Qc else 0%Qc.
Proof.
  unfold past. rewrite shist_nth. destruct (Nat.leb_spec d k); [|now destruct i].
  unfold spec_run.
  rewrite (nth_map_lt _ [] 0%nat) by (rewrite seq_length; lia). rewrite seq_nth by lia. reflexivity.
Qed.

(* Euler composition, per edge: at step k every edge delivers (before weighting) the value its source had at
   step k - round_half_even(delay/dt), zero before the start; undelayed edges deliver the current value *)
Fixpoint istate (c : circuit) (k : nat) : list Qc * list (list Qc) :=
  match k with O => (x0s c, rows0 c) | S k' => istep c (istate c k') end.

Lemma istate_inv c : wf c = true -> guards c = true ->
  forall k, fst (istate c k) = hd [] (shist c k) /\ Inv c (shist c k) (snd (istate c k)).
Proof.
  intros Hwf Hg. assert (He : cheun c = false).
  { unfold guards, g_euler in Hg. repeat (apply andb_prop in Hg; destruct Hg as [Hg ?]).
    destruct (cheun c); [discriminate|reflexivity]. }
  induction k as [|k [IHx IHi]].
  - split; [reflexivity|apply inv_init].
  - cbn [istate]. destruct (istate c k) as [xs rows].
    cbn [fst snd] in *. subst xs. unfold istep.
    pose proof (rhs_spec c _ _ Hwf Hg IHi) as Hr.
    destruct (rhs c rows (hd [] (shist c k))) as [dy1 rows1] eqn:R. cbn [fst] in Hr. rewrite He.
    assert (R1 : rows1 = roll_rows rows (hd [] (shist c k))) by (unfold rhs in R; now inversion R).
    assert (Hs : shist c (S k) = axpy (cdt c) (hd [] (shist c k)) dy1 :: shist c k).
    { cbn [shist]. unfold spec_step. rewrite He, Hr. reflexivity. }
    cbn [fst snd]. rewrite Hs. split; [reflexivity|].
    rewrite R1. apply inv_step; [exact IHi|].
    rewrite axpy_length, (inv_len_xs _ _ _ IHi), Hr, spec_dy_length. lia.
Qed.

Theorem euler_delivered c k e : wf c = true -> guards c = true -> In e (cedges c) ->
  let st := istate c k in
  let d := sdelay (cdt c) e in
  eread c (roll_rows (snd st) (fst st)) (fst st) e =
    if (d <=? k)%nat then nth (esrc e) (nth (k - d) (spec_run c (S k)) []) 0%Qc else 0%Qc.
Proof.
  intros Hwf Hg He st d. destruct (istate_inv c Hwf Hg k) as [Hx Hi]. subst st.
  rewrite Hx. rewrite (eread_spec c _ _ e Hwf Hg Hi He). apply past_meaning.
Qed.

(* with fixed_D15 and fixed_D34 on, every edge without delay has 0 steps: the sibling guard restricts nothing *)
Lemma sibling_guard_trivial c : g_no_undelayed_sibling c = true.
Proof.
  unfold g_no_undelayed_sibling. apply forallb_forall. intros e _.
  unfold is_delayed, rsteps. destruct (ed e); cbn; rewrite ?orb_true_r; reflexivity.
Qed.

(* ------------------------------------------------------------------------------------------------ *)
(* 5. rounding *)
Lemma round_half_even_int z : round_half_even (Q2Qc (inject_Z z)) = z.
Proof.
  unfold round_half_even, qfloor. cbn [this Q2Qc].
  assert (E : Qfloor (Qred (inject_Z z)) = z) by (rewrite (Qfloor_comp _ _ (Qred_correct _)); apply Qfloor_Z).
  rewrite E.
  assert (H : (Qred (inject_Z z) - inject_Z z ?= 1 # 2)%Q = Lt).
  { apply Qlt_alt. rewrite Qred_correct. setoid_replace (inject_Z z - inject_Z z)%Q with 0%Q by ring. reflexivity. }
  rewrite H. reflexivity.
Qed.

(* np.round for every rational: the result is a nearest integer (|q - z| <= 1/2), and on a tie (q = floor q + 1/2) it is the
   even one of the two candidates *)
Theorem round_half_even_nearest (q : Qc) :
  let z := round_half_even q in
  (inject_Z z - (1 # 2) <= this q)%Q /\ (this q <= inject_Z z + (1 # 2))%Q /\
  ((this q - inject_Z (qfloor q) == 1 # 2)%Q -> Z.even z = true).
Proof.
  unfold round_half_even, qfloor. set (f := Qfloor (this q)).
  pose proof (Qfloor_le (this q)) as Hlo. pose proof (Qlt_floor (this q)) as Hhi. fold f in Hlo, Hhi.
  assert (Hf1 : (inject_Z (f + 1) == inject_Z f + 1)%Q) by (rewrite inject_Z_plus; reflexivity).
  rewrite Hf1 in Hhi.
  destruct (Qcompare_spec (this q - inject_Z f) (1 # 2)) as [He|Hl|Hg].
  - destruct (Z.even f) eqn:Ev.
    + repeat split; try lra; try (intros _; exact Ev).
    + rewrite Hf1. repeat split; try lra; try (intros _;
      replace (f + 1)%Z with (Z.succ f) by lia; rewrite Z.even_succ, <- Z.negb_even, Ev; reflexivity).
  - repeat split; try lra; try (intros E; lra).
  - rewrite Hf1. repeat split; try lra; try (intros E; lra).
Qed.

(* ------------------------------------------------------------------------------------------------ *)
(* 6. boolean comparison is sound for refutations *)
Lemma Qceqb_refl q : Qceqb q q = true.
Proof. unfold Qceqb. apply Qeq_bool_iff. reflexivity. Qed.
Lemma rowq_eqb_refl r : rowq_eqb r r = true.
Proof.
  unfold rowq_eqb. rewrite Nat.eqb_refl. cbn. induction r as [|x r IH]; [reflexivity|].
  cbn. rewrite Qceqb_refl. exact IH.
Qed.
Lemma rows_eqb_refl r : rows_eqb r r = true.
Proof.
  unfold rows_eqb. rewrite Nat.eqb_refl. cbn. induction r as [|x r IH]; [reflexivity|].
  cbn. rewrite rowq_eqb_refl. exact IH.
Qed.
Lemma res_eqb_false_neq a b : res_eqb a b = false -> a <> b.
Proof. intros H E. subst b. destruct a; cbn in H; [rewrite rows_eqb_refl in H|]; discriminate. Qed.
