(* Ring.v — executable model (Impl) of the discrete edge-delay mechanism of PyRates and its specification (Spec).
   Definitions only; proofs are in RingProofs.v.

   Mirrors pyrates/ir/circuit.py (as the code is now, defects included):
     _preprocess_delay        : int(np.round(delay/step_size))            -> round_half_even
     _collect_delays_from_edges: per edge  None -> 1 step ; `delay: None` written out in a (grouped) list -> the
                                 *number* 1 -> round(1/dt) steps ; add_delay := max over the edges leaving the same
                                 (merged) source variable > 1
     _add_edge_buffer (discrete branch): buffer rows of length max_delay+1, one row per source unit;
                                 every rhs call:  buf = roll(buf,1); buf[:,0] = x; buffered[j] = buf[source_idx[j], delays[j]]
                                 edge i is re-pointed to the slice [idx_l, idx_h) of `buffered`
     frontend _group_edges    : edges are bucketed by (source class var, target class var, delayed?) ; networkx
                                 enumerates the out-edges of a node by successor, then by key
     non-vectorized           : one buffer per delayed edge (`_out{i}`); two UNDELAYED edges between one variable pair on a
                                 buffered source do not compile (IndexError at the first call)
     _solve_euler / _solve_heun: one / two rhs calls per step (the buffer advances at every call).
   Circuits of the correspondence run: source nodes x' = k + .. + k, target nodes x' = r_in + .. + r_in (class c has c+1
   summands; nodes of one class are merged by vectorization), edges source -> target. *)
From Coq Require Import List ZArith QArith Qcanon Qround Bool Arith.
Import ListNotations.

Definition mkq (num : Z) (den : positive) : Qc := Q2Qc (num # den).
Definition Qceqb (a b : Qc) : bool := Qeq_bool (this a) (this b).
Definition qsum (l : list Qc) : Qc := fold_right Qcplus 0%Qc l.
Definition zip {A B} (f : A -> A -> B) (a b : list A) : list B := map (fun p => f (fst p) (snd p)) (combine a b).

(* ------------------------------------------------------------------------------------------------ *)
(* np.round(q) for a rational q: nearest integer, ties to the even one *)
Definition qfloor (q : Qc) : Z := Qfloor (this q).
Definition round_half_even (q : Qc) : Z :=
  let f := qfloor q in
  match ((this q - inject_Z f) ?= (1 # 2))%Q with
  | Lt => f
  | Gt => (f + 1)%Z
  | Eq => if Z.even f then f else (f + 1)%Z
  end.
(* other roundings (not used by the code; used to state what the generator can tell apart) *)
Definition round_half_up (q : Qc) : Z :=
  let f := qfloor q in
  match ((this q - inject_Z f) ?= (1 # 2))%Q with Lt => f | _ => (f + 1)%Z end.
Definition steps_of (delay dt : Qc) : nat := Z.to_nat (round_half_even (delay / dt)%Qc).

(* ------------------------------------------------------------------------------------------------ *)
(* the ring-buffer machine:  buf[:] = roll(buf, 1); buf[0] = x; out = buf[d] *)
Definition call (buf : list Qc) (x : Qc) : list Qc := x :: removelast buf.
Definition read (d : nat) (buf : list Qc) : Qc := nth d buf 0%Qc.
Fixpoint feed (xs : nat -> Qc) (c : nat) (buf0 : list Qc) : list Qc :=
  match c with O => buf0 | S c' => call (feed xs c' buf0) (xs c') end.

(* ------------------------------------------------------------------------------------------------ *)
(* _add_matrix_delay, discrete branch (Connectivity with `delays`, no spread): a buffer of shape (Ns, d+1), every rhs call
   index_axis(buf) = roll(buf, 1, 1); index_axis(buf, 0, 1) = x; x_buffered = index_axis(buf, d, 1); target = matvec(W, x_buffered) *)
Definition mcall (buf : list (list Qc)) (x : list Qc) : list (list Qc) := map (fun p => call (fst p) (snd p)) (combine buf x).
Fixpoint mfeed (X : nat -> list Qc) (c : nat) (buf0 : list (list Qc)) : list (list Qc) :=
  match c with O => buf0 | S c' => mcall (mfeed X c' buf0) (X c') end.
Definition mbuf0 (Ns d : nat) : list (list Qc) := repeat (repeat 0%Qc (S d)) Ns.
Definition dotq (w v : list Qc) : Qc := qsum (zip Qcmult w v).
Definition matvec (W : list (list Qc)) (v : list Qc) : list Qc := map (fun w => dotq w v) W.
(* what the targets receive at rhs call number c (0-based) *)
Definition mat_delivered (W : list (list Qc)) (X : nat -> list Qc) (Ns d c : nat) : list Qc :=
  matvec W (map (read d) (mfeed X (S c) (mbuf0 Ns d))).

(* ------------------------------------------------------------------------------------------------ *)
(* bookkeeping of _add_edge_buffer for many edges on one source variable (vectorized form):
   edge i comes with its slots  nodes[i] = source units, dl[i] = delays;  the flat lists are concatenations,
   buffered[j] = buf[source_idx[j]][delays[j]], edge i is re-pointed to range(idx_l, idx_l + len nodes[i]) *)
Definition buffered_vec (buf : list (list Qc)) (source_idx delays : list nat) : list Qc :=
  map (fun p => nth (snd p) (nth (fst p) buf []) 0%Qc) (combine source_idx delays).
Fixpoint idx_l {A} (nodes : list (list A)) (i : nat) : nat :=
  match i, nodes with
  | S i', n0 :: rest => (length n0 + idx_l rest i')%nat
  | _, _ => O
  end.
Definition edge_reads (buf : list (list Qc)) (nodes dl : list (list nat)) (i p : nat) : Qc :=
  nth (idx_l nodes i + p) (buffered_vec buf (concat nodes) (concat dl)) 0%Qc.

(* ------------------------------------------------------------------------------------------------ *)
(* circuits *)
Inductive dspec := NoKey | ExplNone | Delay (d : Qc).
Record node := mkNode { nsrc : bool; ncls : nat; nk : Qc; nx0 : Qc }.
Record edge := mkEdge { esrc : nat; etgt : nat; ew : Qc; ed : dspec }.
Record circuit := mkC { cdt : Qc; cvec : bool; cheun : bool; cnodes : list node; cedges : list edge }.

Definition dnode : node := mkNode false 0 0%Qc 0%Qc.
(* class c: x' = k + ... + k resp. x' = r_in + ... + r_in with c+1 summands *)
Definition nfac (n : node) : Qc := Q2Qc (inject_Z (Z.of_nat (S (ncls n)))).
Definition getn (c : circuit) (i : nat) : node := nth i (cnodes c) dnode.

Definition dspec_eq_dec (a b : dspec) : {a = b} + {a <> b}.
Proof. decide equality. apply Qc_eq_dec. Defined.
Definition edge_eq_dec (a b : edge) : {a = b} + {a <> b}.
Proof. decide equality; [apply dspec_eq_dec | apply Qc_eq_dec | apply Nat.eq_dec | apply Nat.eq_dec]. Defined.

(* key of the (merged) node a unit belongs to: its class when vectorized (source and target classes are
   disjoint because edges go from sources to targets), the node itself otherwise *)
Definition nkey (c : circuit) (i : nat) : nat := if cvec c then ncls (getn c i) else i.
Definition skey (c : circuit) (e : edge) : nat := nkey c (esrc e).
Definition tkey (c : circuit) (e : edge) : nat := nkey c (etgt e).

(* _collect_delays_from_edges: steps of one edge before the add_delay decision *)
(* model switches for the proposed repairs (fixes/proposed_fix_C09_D15.diff, proposed_fix_C09_D34.diff): false = the code
   as it is.  D15: an edge without delay entry counts as 1 step (repaired: 0, i.e. it reads slot 0 = the current value);
   D34: `delay: None` written out becomes the NUMBER 1 = one time unit (repaired: like a missing entry). *)
Definition fixed_D15 : bool := true.
Definition fixed_D34 : bool := true.
Definition nokey_steps : nat := if fixed_D15 then 0 else 1.
(* D118 (repaired in /repo, switch on): a delay of at most one step is neglected PER EDGE (set to 0 before the group decision).
   Before the fix (rsteps_before_fix) a one-step delay was realised as a one-step ring-buffer delay whenever a sibling edge of the same
   (merged) source variable had a delay of >= 2 steps, and dropped otherwise.  Such delays are outside the property (g_delays_ge2). *)
Definition fixed_one_step_per_edge : bool := true.
Definition neglect (k : nat) : nat := if fixed_one_step_per_edge && Nat.leb k 1 then O else k.
Definition rsteps (dt : Qc) (e : edge) : nat :=
  match ed e with
  | NoKey => nokey_steps
  | ExplNone => if fixed_D34 then nokey_steps else steps_of 1%Qc dt
  | Delay d => neglect (steps_of d dt)
  end.
Definition rsteps_before_fix (dt : Qc) (e : edge) : nat :=
  match ed e with NoKey | ExplNone => O | Delay d => steps_of d dt end.
Definition is_delayed (e : edge) : bool := match ed e with Delay _ => true | _ => false end.

Definition group (c : circuit) (g : nat) : list edge := filter (fun e => Nat.eqb (skey c e) g) (cedges c).
Definition gmax (c : circuit) (g : nat) : nat := list_max (map (rsteps (cdt c)) (group c g)).
Definition gadd (c : circuit) (g : nat) : bool := Nat.ltb 1 (gmax c g).

(* first-appearance bucketing (dict insertion order) *)
Fixpoint bucket_add {A} (k : nat) (x : A) (bs : list (nat * list A)) : list (nat * list A) :=
  match bs with
  | [] => [(k, [x])]
  | (k', l) :: rest => if Nat.eqb k k' then (k', l ++ [x]) :: rest else (k', l) :: bucket_add k x rest
  end.
Definition bucket {A} (key : A -> nat) (l : list A) : list (nat * list A) :=
  fold_left (fun bs x => bucket_add (key x) x bs) l [].
(* slots of the buffered vector of group g, in the order out_edges enumerates them:
   by target (merged) node, then delayed / undelayed graph edge, then the order the user wrote them *)
Definition gslots (c : circuit) (g : nat) : list edge :=
  flat_map (fun b => concat (map snd (bucket (fun e => if is_delayed e then 1 else 0)%nat (snd b))))
           (bucket (tkey c) (group c g)).

Fixpoint index_of (e : edge) (l : list edge) : nat :=
  match l with
  | [] => O
  | x :: l' => if edge_eq_dec e x then O else S (index_of e l')
  end.

(* one rhs call.  xs: values of all nodes; rows: ring-buffer row of every node (row i has length
   gmax (nkey i) + 1; rows of nodes that are not buffered are never read) *)
Definition roll_rows (rows : list (list Qc)) (xs : list Qc) : list (list Qc) :=
  map (fun p => call (fst p) (snd p)) (combine rows xs).
Definition buffered (c : circuit) (rows : list (list Qc)) (g : nat) : list Qc :=
  map (fun e => nth (rsteps (cdt c) e) (nth (esrc e) rows []) 0%Qc) (gslots c g).
Definition eread (c : circuit) (rows : list (list Qc)) (xs : list Qc) (e : edge) : Qc :=
  if gadd c (skey c e)
  then nth (index_of e (gslots c (skey c e))) (buffered c rows (skey c e)) 0%Qc
  else nth (esrc e) xs 0%Qc.
Definition into (c : circuit) (j : nat) : list edge := filter (fun e => Nat.eqb (etgt e) j) (cedges c).
Definition dy_of (c : circuit) (rd : edge -> Qc) (j : nat) (n : node) : Qc :=
  if nsrc n then (nfac n * nk n)%Qc
  else (nfac n * qsum (map (fun e => ew e * rd e) (into c j)))%Qc.
Definition mapi {A B} (f : nat -> A -> B) (l : list A) : list B := map (fun p => f (fst p) (snd p)) (combine (seq 0 (length l)) l).
Definition rhs (c : circuit) (rows : list (list Qc)) (xs : list Qc) : list Qc * list (list Qc) :=
  let rows' := roll_rows rows xs in
  (mapi (dy_of c (eread c rows' xs)) (cnodes c), rows').

Definition axpy (a : Qc) (xs dy : list Qc) : list Qc := zip (fun x d => x + a * d)%Qc xs dy.
Definition istep (c : circuit) (st : list Qc * list (list Qc)) : list Qc * list (list Qc) :=
  let '(xs, rows) := st in
  let '(dy1, rows1) := rhs c rows xs in
  if cheun c then
    let y0 := axpy (cdt c) xs dy1 in
    let '(dy2, rows2) := rhs c rows1 y0 in
    (axpy (cdt c / (1 + 1))%Qc xs (zip Qcplus dy1 dy2), rows2)
  else (axpy (cdt c) xs dy1, rows1).

Definition x0s (c : circuit) : list Qc := map nx0 (cnodes c).
Definition rows0 (c : circuit) : list (list Qc) :=
  map (fun i => repeat 0%Qc (S (gmax c (nkey c i)))) (seq 0 (length (cnodes c))).
Fixpoint iruns (c : circuit) (n : nat) (st : list Qc * list (list Qc)) : list (list Qc) :=
  match n with O => [] | S n' => fst st :: iruns c n' (istep c st) end.

(* non-vectorized (every user edge is a graph edge of its own since D68; an edge of 0 steps is left on the unbuffered source
   variable since D70, with its source_idx cleared): two such unbuffered edges from a buffered source to one target variable are
   merged by _collect_from_edges into one two-column projection of a scalar -> IndexError at the first call.  (Before D59/D68 every
   pair of edges between one variable pair on a buffered source crashed: D18.) *)
Fixpoint has_dup_pair (l : list edge) : bool :=
  match l with
  | [] => false
  | e :: l' => existsb (fun e' => Nat.eqb (esrc e) (esrc e') && Nat.eqb (etgt e) (etgt e')) l' || has_dup_pair l'
  end.
(* model switch of fix D94 (landed, on; false = the code before it): the unbuffered edges get their source index back *)
Definition fixed_D18c : bool := true.
Definition crashes (c : circuit) : bool :=
  negb fixed_D18c && negb (cvec c) &&
  existsb (fun e => gadd c (skey c e) &&
                    has_dup_pair (filter (fun e' => Nat.eqb (rsteps (cdt c) e') 0) (group c (skey c e)))) (cedges c).

Inductive res := Ok (rows : list (list Qc)) | ErrIndex.
Definition impl_run (c : circuit) (n : nat) : res :=
  if crashes c then ErrIndex else Ok (iruns c n (x0s c, rows0 c)).

(* ------------------------------------------------------------------------------------------------ *)
(* Spec: the delayed recurrence, read off the edge list.  hist = past states, newest first. *)
Definition sdelay (dt : Qc) (e : edge) : nat := match ed e with Delay d => steps_of d dt | _ => O end.
Definition past (hist : list (list Qc)) (d i : nat) : Qc := nth i (nth d hist []) 0%Qc.   (* zero before the start *)
Definition spec_dy (c : circuit) (hist : list (list Qc)) : list Qc :=
  mapi (dy_of c (fun e => past hist (sdelay (cdt c) e) (esrc e))) (cnodes c).
(* second Heun stage, evaluated at the predictor y0 for step k+1: the delayed value is the one of step k+1-d *)
Definition spec_step (c : circuit) (hist : list (list Qc)) : list (list Qc) :=
  let xs := hd [] hist in
  if cheun c then
    let y0 := axpy (cdt c) xs (spec_dy c hist) in
    let dy2 := spec_dy c (y0 :: hist) in
    axpy (cdt c / (1 + 1))%Qc xs (zip Qcplus (spec_dy c hist) dy2) :: hist
  else axpy (cdt c) xs (spec_dy c hist) :: hist.
Fixpoint shist (c : circuit) (k : nat) : list (list Qc) :=
  match k with O => [x0s c] | S k' => spec_step c (shist c k') end.
Definition spec_run (c : circuit) (n : nat) : list (list Qc) := map (fun k => hd [] (shist c k)) (seq 0 n).

(* ------------------------------------------------------------------------------------------------ *)
(* well-formedness and guards (decidable) *)
Definition Qcpos (q : Qc) : bool := negb (Qle_bool (this q) 0).
Definition wf (c : circuit) : bool :=
  Qcpos (cdt c) &&
  forallb (fun e => Nat.ltb (esrc e) (length (cnodes c)) && Nat.ltb (etgt e) (length (cnodes c)) &&
                    nsrc (getn c (esrc e)) && negb (nsrc (getn c (etgt e))) &&
                    match ed e with Delay d => Qcpos d | _ => true end) (cedges c).
(* D7 *)
Definition g_euler (c : circuit) : bool := negb (cheun c).
(* D15 / D24: an edge without delay that leaves a buffered (merged) source variable must read slot 0 (true of no such edge
   in the code as it is: it counts as 1 step; always true once fixed_D15 and fixed_D34 hold) *)
Definition g_no_undelayed_sibling (c : circuit) : bool :=
  forallb (fun e => is_delayed e || negb (gadd c (skey c e)) || Nat.eqb (rsteps (cdt c) e) 0) (cedges c).
(* D18 (loud), what is left of it: two undelayed edges between one variable pair on a buffered source, vectorize=False *)
Definition g_no_parallel_buffered (c : circuit) : bool := negb (crashes c).
(* `delay: None` written out *)
Definition g_no_explicit_none (c : circuit) : bool :=
  forallb (fun e => match ed e with ExplNone => false | _ => true end) (cedges c).
(* scope of the property: delays that round to at least two steps *)
Definition g_delays_ge2 (c : circuit) : bool :=
  forallb (fun e => match ed e with Delay d => Nat.leb 2 (steps_of d (cdt c)) | _ => true end) (cedges c).
(* D101 (repaired in /repo, switch on): before the fix an operator on the SAME node as a buffered source operator that reads the source variable through the operator graph
   (a "tap": op2 with w' = x next to op1 defining x) gets the operator's re-pointed output `x_buffered`, i.e. a delayed value (the
   last `_out{i}` buffer when vectorize=False; slot number <unit> of the buffered vector, or ValueError when the slot count differs from
   the unit count, when vectorize=True).  In this model a tap is an edge WITHOUT delay of weight 1 from the source node to an extra
   integrator node: that is what the specification and the repaired mechanism (fixes/fix_D101.diff: the operator's output is left
   alone) compute.  The defective read is NOT modelled; this guard delimits the class.  `taps` = positions of the tap edges in cedges.
   fixed_tap (on): false = the code before fix D101. *)
Definition fixed_tap : bool := true.
Definition dedge : edge := mkEdge 0 0 0%Qc NoKey.
Definition g_no_tap_on_buffered (taps : list nat) (c : circuit) : bool :=
  fixed_tap || forallb (fun i => negb (gadd c (skey c (nth i (cedges c) dedge)))) taps.

(* D103 (repaired in /repo, switch on): before the fix, with vectorize=True, the frontend's _group_edges builds the per-edge lists of a group (same source class variable, target
   class variable, delayed?) key by key from the edge dictionaries; an edge that lacks an entry other edges of its group have (here:
   `delay` present as None on one undelayed edge, absent on another) leaves the lists out of step: KeyError / shape mismatch, or
   silently misassigned values.  Not modelled; the guard delimits the class; repaired by fixes/fix_D103.diff (missing entries
   are padded with None).  fixed_group_keys (on): false = the code before fix D103. *)
Definition fixed_group_keys : bool := true.
Definition has_delay_key (e : edge) : bool := match ed e with NoKey => false | _ => true end.
Definition g_uniform_keys (c : circuit) : bool :=
  fixed_group_keys || negb (cvec c) ||
  forallb (fun e => forallb (fun e' => negb (Nat.eqb (skey c e) (skey c e') && Nat.eqb (tkey c e) (tkey c e') &&
                                              Bool.eqb (is_delayed e) (is_delayed e')) ||
                                       Bool.eqb (has_delay_key e) (has_delay_key e')) (cedges c)) (cedges c).

(* D110 (repaired in /repo, switch on; was loud): before the fix the buffer constant `source_idx{buffer_id}` (ring buffer) and the rate constants `k_d{chain}{buffer_id}` (gamma
   kernels) do not carry the variable's name, so delayed edges leaving two DIFFERENT variables of ONE operator collide: PyRatesException
   'Buffer variable name collision' at compile time, both vectorize settings.  In the model the two variables of such an operator are two
   source nodes; `twins` lists the pairs.  Not modelled; the guard delimits the class (conservative for gamma kernels); repaired by
   fix D110 (fixes/round8/01_D110.diff).  fixed_twin_names (on): false = the code before the fix. *)
Definition fixed_twin_names : bool := true.
Definition g_no_twin_collision (twins : list (nat * nat)) (c : circuit) : bool :=
  fixed_twin_names || forallb (fun p => negb (gadd c (nkey c (fst p)) && gadd c (nkey c (snd p)))) twins.

(* hypotheses of the partial theorem.  g_no_explicit_none is not among them: an edge with `delay: None` written out that
   ends up buffered already violates g_no_undelayed_sibling; it is kept as a separate guard to classify that class *)
Definition guards (c : circuit) : bool :=
  g_euler c && g_no_undelayed_sibling c && g_no_parallel_buffered c && g_delays_ge2 c.

(* comparison glue for the correspondence run *)
Definition rowq_eqb (a b : list Qc) : bool :=
  Nat.eqb (length a) (length b) && forallb (fun p => Qceqb (fst p) (snd p)) (combine a b).
Definition rows_eqb (a b : list (list Qc)) : bool :=
  Nat.eqb (length a) (length b) && forallb (fun p => rowq_eqb (fst p) (snd p)) (combine a b).
Definition res_eqb (a b : res) : bool :=
  match a, b with Ok x, Ok y => rows_eqb x y | ErrIndex, ErrIndex => true | _, _ => false end.
