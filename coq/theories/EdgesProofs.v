(* EdgesProofs.v — lemmas about Expr.v / Net.v / Edges.v for property C01. *)
From Coq Require Import List String Ascii ZArith QArith Qcanon Bool Arith Lia.
From PV Require Import Expr Net Edges.
Import ListNotations.
Open Scope Qc_scope.

(* ============================================================================================ sums *)
Lemma qsum_app a b : qsum (a ++ b) = qsum a + qsum b.
Proof. induction a; cbn [app qsum]; [ring | rewrite IHa; ring]. Qed.

Lemma qsum_map_ext {A} (f g : A -> Qc) l : (forall c, In c l -> f c = g c) -> qsum (map f l) = qsum (map g l).
Proof. induction l; cbn [map qsum]; intros H; [reflexivity|]. rewrite H, IHl; auto with datatypes. Qed.
Lemma qsum_map_add {A} (f g : A -> Qc) l : qsum (map (fun c => f c + g c) l) = qsum (map f l) + qsum (map g l).
Proof. induction l; cbn [map qsum]; [ring | rewrite IHl; ring]. Qed.
Lemma qsum_map_zero {A} (l : list A) : qsum (map (fun _ => 0) l) = 0.
Proof. induction l; cbn [map qsum]; [reflexivity | rewrite IHl; ring]. Qed.

Lemma olift2_plus_comm a b : olift2 Qcplus a b = olift2 Qcplus b a.
Proof. destruct a, b; cbn; try reflexivity. f_equal; ring. Qed.
Lemma olift2_plus_assoc a b c : olift2 Qcplus a (olift2 Qcplus b c) = olift2 Qcplus (olift2 Qcplus a b) c.
Proof. destruct a, b, c; cbn; try reflexivity. f_equal; ring. Qed.
Lemma olift2_plus_0_r a : olift2 Qcplus a (Some 0) = a.
Proof. destruct a; cbn; [f_equal; ring | reflexivity]. Qed.
Lemma olift2_plus_0_l a : olift2 Qcplus (Some 0) a = a.
Proof. destruct a; cbn; [f_equal; ring | reflexivity]. Qed.
Lemma osum_app a b : osum (a ++ b) = olift2 Qcplus (osum a) (osum b).
Proof.
  induction a; cbn [app osum]; [symmetry; apply olift2_plus_0_l|].
  rewrite IHa. apply olift2_plus_assoc.
Qed.

(* ============================================================================================ A. one source node *)
(* A.1 matrix branch: weight_mat[row, col] += w, then matvec — for ANY list of unit edges, parallel edges included *)
Definition tgtu (e : uedge) : nat := fst (fst e).
Definition srcu (e : uedge) : nat := snd (fst e).

Lemma build_add_entry : forall es W0 r c,
  fold_left (fun W (e : uedge) => let '(t, s, w) := e in upd2 W t s (W t s + w)) es W0 r c
  = W0 r c + edge_sum es (fun s => if Nat.eqb s c then 1 else 0) r.
Proof.
  induction es as [|[[t s] w] es IH]; intros W0 r c; cbn [fold_left edge_sum].
  - ring.
  - rewrite IH. unfold upd2.
    destruct (Nat.eqb_spec t r) as [->|Hn]; cbn [andb].
    + destruct (Nat.eqb_spec s c) as [->|Hc]; cbn [andb]; ring.
    + ring.
Qed.

Lemma qsum_indicator : forall cols (g : nat -> Qc) s, NoDup cols -> In s cols ->
  qsum (map (fun c => (if Nat.eqb s c then 1 else 0) * g c) cols) = g s.
Proof.
  induction cols as [|a cols IH]; intros g s Hnd Hin; [inversion Hin|].
  inversion Hnd as [|? ? Hna Hnd']; subst. cbn [map qsum].
  destruct Hin as [->|Hin].
  - rewrite Nat.eqb_refl.
    assert (qsum (map (fun c => (if Nat.eqb s c then 1 else 0) * g c) cols) = 0) as ->.
    { clear IH Hnd Hnd'. induction cols as [|b cols IH2]; cbn [map qsum]; [reflexivity|].
      destruct (Nat.eqb_spec s b) as [->|Hb]; [exfalso; apply Hna; left; reflexivity|].
      rewrite IH2; [ring|]. intro H; apply Hna; right; exact H. }
    ring.
  - destruct (Nat.eqb_spec s a) as [->|Hsa]; [contradiction|].
    rewrite IH by assumption. ring.
Qed.

Theorem matvec_add_is_edge_sum : forall es cols x u,
  NoDup cols -> (forall e, In e es -> In (srcu e) cols) ->
  matvec_row (build_add es) cols x u = edge_sum es x u.
Proof.
  intros es cols x u Hnd Hcov. unfold matvec_row, build_add.
  rewrite (qsum_map_ext _ (fun c => edge_sum es (fun s => if Nat.eqb s c then 1 else 0) u * x c)).
  2:{ intros c _. rewrite build_add_entry. ring. }
  induction es as [|[[t s] w] es IH]; cbn [edge_sum].
  - rewrite (qsum_map_ext _ (fun _ => 0)) by (intros; ring). apply qsum_map_zero.
  - rewrite (qsum_map_ext _ (fun c => (if Nat.eqb t u then w * (if Nat.eqb s c then 1 else 0) else 0) * x c
                                + edge_sum es (fun s0 => if Nat.eqb s0 c then 1 else 0) u * x c)) by (intros; ring).
    rewrite qsum_map_add. rewrite IH by (intros; apply Hcov; right; assumption). f_equal.
    destruct (Nat.eqb_spec t u) as [->|Hn].
    + rewrite (qsum_map_ext _ (fun c => (if Nat.eqb s c then 1 else 0) * (w * x c)))
        by (intros; destruct (Nat.eqb s c); ring).
      apply qsum_indicator; [assumption|]. apply (Hcov (u, s, w)); left; reflexivity.
    + rewrite (qsum_map_ext _ (fun _ => 0)) by (intros; ring). apply qsum_map_zero.
Qed.

(* before fix D02 (`weight_mat[row, col] = w`): refuted by two parallel edges — the seeded bug "revert fix_D02" *)
Example matvec_set_refuted : exists es cols x u,
  NoDup cols /\ matvec_row (build_set es) cols x u <> edge_sum es x u.
Proof.
  exists [(0%nat, 0%nat, Q2Qc 2); (0%nat, 0%nat, Q2Qc 3)], [0%nat], (fun _ => 1), 0%nat. split.
  - repeat constructor; intros [].
  - vm_compute. discriminate.
Qed.

Lemma existsb_eqb_In u l : existsb (Nat.eqb u) l = true <-> In u l.
Proof.
  rewrite existsb_exists. split.
  - intros [x [Hin He]]. apply Nat.eqb_eq in He. subst. exact Hin.
  - intros H. exists u. split; [exact H | apply Nat.eqb_refl].
Qed.

Theorem dot_contrib_is_edge_sum : forall es x u, In u (map tgtu es) ->
  dot_contrib es x u = Some (edge_sum es x u).
Proof.
  intros es x u Hin. unfold dot_contrib.
  assert (existsb (Nat.eqb u) (unique (map (fun e : uedge => fst (fst e)) es)) = true) as ->.
  { apply existsb_eqb_In. unfold unique. apply nodup_In. exact Hin. }
  f_equal. apply matvec_add_is_edge_sum.
  - apply NoDup_nodup.
  - intros e He. unfold unique. apply nodup_In. apply in_map_iff. exists e. split; [reflexivity | exact He].
Qed.

(* A.2 indexed branch: target[tidx[k]] = source[sidx[k]] * weight[k]; correct because the branch is only taken
   when target_idx has no duplicates *)
Lemma edge_sum_notin : forall es x u, ~ In u (map tgtu es) -> edge_sum es x u = 0.
Proof.
  induction es as [|[[t s] w] es IH]; intros x u Hn; cbn [edge_sum]; [reflexivity|].
  cbn [map tgtu fst] in Hn. destruct (Nat.eqb_spec t u) as [->|Hne].
  - exfalso. apply Hn. left. reflexivity.
  - rewrite IH; [ring|]. intro H. apply Hn. right. exact H.
Qed.

Lemma index_contrib_fold : forall es x u acc, NoDup (map tgtu es) ->
  fold_left (fun acc (e : uedge) => let '(t, s, w) := e in if Nat.eqb t u then Some (x s * w) else acc) es acc
  = if existsb (Nat.eqb u) (map tgtu es) then Some (edge_sum es x u) else acc.
Proof.
  induction es as [|[[t s] w] es IH]; intros x u acc Hnd; cbn [fold_left map existsb edge_sum]; [reflexivity|].
  cbn [map tgtu fst] in Hnd. inversion Hnd as [|? ? Hna Hnd']; subst.
  rewrite IH by assumption. change (tgtu (t, s, w)) with t.
  rewrite (Nat.eqb_sym u t).
  destruct (Nat.eqb_spec t u) as [->|Hne]; cbn [orb].
  - assert (existsb (Nat.eqb u) (map tgtu es) = false) as ->.
    { destruct (existsb (Nat.eqb u) (map tgtu es)) eqn:E; [|reflexivity].
      apply existsb_eqb_In in E. contradiction. }
    f_equal. rewrite edge_sum_notin by assumption. ring.
  - destruct (existsb (Nat.eqb u) (map tgtu es)); [f_equal; ring | reflexivity].
Qed.

Theorem index_contrib_is_edge_sum : forall es x u, NoDup (map tgtu es) -> In u (map tgtu es) ->
  index_contrib es x u = Some (edge_sum es x u).
Proof.
  intros es x u Hnd Hin. unfold index_contrib. rewrite index_contrib_fold by assumption.
  apply existsb_eqb_In in Hin. rewrite Hin. reflexivity.
Qed.

Lemma has_dup_false_NoDup : forall l, has_dup l = false -> NoDup l.
Proof.
  induction l as [|a l IH]; cbn [has_dup]; intros H; [constructor|].
  apply orb_false_iff in H. destruct H as [H1 H2]. constructor; [|apply IH; exact H2].
  intro Hin. apply existsb_eqb_In in Hin. congruence.
Qed.

(* both branches: whatever branch the duplicate test selects, an assigned target unit gets the edge sum *)
Theorem contrib_is_edge_sum : forall m x u,
  let es := zip3 (mtidx m) (msidx m) (mw m) in
  map tgtu es = mtidx m -> In u (mtidx m) -> contrib m x u = Some (edge_sum es x u).
Proof.
  intros m x u es Hal Hin. unfold contrib. fold es.
  destruct (has_dup (mtidx m)) eqn:Hd.
  - apply dot_contrib_is_edge_sum. rewrite Hal. exact Hin.
  - apply index_contrib_is_edge_sum; rewrite Hal; [apply has_dup_false_NoDup; exact Hd | exact Hin].
Qed.

(* scalar mode: all unit indices are 0 *)
Definition zeros (l : list nat) : Prop := Forall (fun i => i = 0%nat) l.

Lemma zip3_zeros : forall (w : list Qc) t s, zeros t -> zeros s ->
  List.length t = List.length w -> List.length s = List.length w ->
  zip3 t s w = map (fun c => (0%nat, 0%nat, c)) w.
Proof.
  induction w as [|c w IH]; intros t s Ht Hs Lt Ls; destruct t as [|a t]; destruct s as [|b s];
    cbn [zip3 map]; try reflexivity; cbn [List.length] in *; try discriminate.
  inversion Ht; inversion Hs; subst. f_equal. apply IH; auto.
Qed.

Lemma edge_sum_zeros : forall (w : list Qc) xv,
  edge_sum (map (fun c => (0%nat, 0%nat, c)) w) (fun _ => xv) 0%nat = qsum w * xv.
Proof. induction w as [|c w IH]; intros xv; cbn [map edge_sum qsum Nat.eqb]; [ring | rewrite IH; ring]. Qed.

Definition aligned_m (m : merged) : Prop :=
  zeros (mtidx m) /\ zeros (msidx m) /\ List.length (mtidx m) = List.length (mw m) /\
  List.length (msidx m) = List.length (mw m) /\ mw m <> [].

Theorem contrib_scalar : forall m xv, aligned_m m -> contrib m (fun _ => xv) 0%nat = Some (qsum (mw m) * xv).
Proof.
  intros m xv (Ht & Hs & Lt & Ls & Hne).
  pose proof (zip3_zeros (mw m) (mtidx m) (msidx m) Ht Hs Lt Ls) as Hz.
  assert (Hmap : map tgtu (zip3 (mtidx m) (msidx m) (mw m)) = mtidx m).
  { rewrite Hz. rewrite map_map. unfold tgtu. cbn [fst].
    clear Hz Hs Ls Hne. revert Ht Lt. generalize (mw m) as w. induction (mtidx m) as [|a t IH]; intros w Ht Lt.
    - destruct w; [reflexivity | discriminate].
    - destruct w as [|c w]; [discriminate|]. inversion Ht; subst. cbn [map]. f_equal. apply IH; auto. }
  rewrite (contrib_is_edge_sum m (fun _ => xv) 0%nat Hmap).
  - rewrite Hz. rewrite edge_sum_zeros. reflexivity.
  - destruct (mtidx m) as [|a t]; [|inversion Ht; subst; left; reflexivity].
    destruct (mw m); [contradiction | discriminate].
Qed.

(* ============================================================================================ B. grouping *)
Section Group.
  Context {A K : Type} (eqb : K -> K -> bool) (key : A -> K).
  Hypothesis eqb_refl : forall k, eqb k k = true.

  Definition gsum (F : A -> option Qc) (g : list (K * list A)) : option Qc :=
    osum (map (fun kv => osum (map F (snd kv))) g).

  Lemma gsum_insert F k a g : gsum F (insert_group eqb k a g) = olift2 Qcplus (gsum F g) (F a).
  Proof.
    unfold gsum. induction g as [|[k' vs] g IH]; cbn [insert_group map osum snd].
    - rewrite olift2_plus_0_l. rewrite !olift2_plus_0_r. reflexivity.
    - destruct (eqb k k'); cbn [map osum snd].
      + rewrite map_app, osum_app. cbn [map osum]. rewrite olift2_plus_0_r.
        rewrite <- !olift2_plus_assoc. f_equal. apply olift2_plus_comm.
      + rewrite IH. apply olift2_plus_assoc.
  Qed.

  Lemma gsum_fold F : forall l g,
    gsum F (fold_left (fun g a => insert_group eqb (key a) a g) l g) = olift2 Qcplus (gsum F g) (osum (map F l)).
  Proof.
    induction l as [|a l IH]; intros g; cbn [fold_left map osum].
    - symmetry. apply olift2_plus_0_r.
    - rewrite IH, gsum_insert. symmetry. apply olift2_plus_assoc.
  Qed.

  (* Σ over the groups of Σ over the members = Σ over the list: nothing is lost, nothing is counted twice *)
  Theorem gsum_group_by F l : gsum F (group_by eqb key l) = osum (map F l).
  Proof. unfold group_by. rewrite gsum_fold. apply olift2_plus_0_l. Qed.

  Definition good (P : A -> Prop) (g : list (K * list A)) : Prop :=
    Forall (fun kv => snd kv <> [] /\ Forall (fun a => eqb (key a) (fst kv) = true /\ P a) (snd kv)) g.

  Lemma good_insert (P : A -> Prop) a g : good P g -> P a -> good P (insert_group eqb (key a) a g).
  Proof.
    intros Hg Pa. induction g as [|[k' vs] g IH]; cbn [insert_group].
    - constructor; [|constructor]. cbn [fst snd]. split; [discriminate|]. constructor; [|constructor]. auto.
    - inversion Hg as [|? ? [Hne Hall] Hg']; subst. cbn [fst snd] in *.
      destruct (eqb (key a) k') eqn:E.
      + constructor; [|exact Hg']. cbn [fst snd]. split; [destruct vs; discriminate|].
        apply Forall_app. split; [exact Hall|]. constructor; [|constructor]. auto.
      + constructor; [cbn [fst snd]; auto | apply IH; exact Hg'].
  Qed.

  Theorem good_group_by (P : A -> Prop) l : (forall a, In a l -> P a) -> good P (group_by eqb key l).
  Proof.
    unfold group_by. assert (H0 : good P []) by constructor. revert H0. generalize (@nil (K * list A)) as g.
    induction l as [|a l IH]; intros g Hg Hl; cbn [fold_left]; [exact Hg|].
    apply IH; [apply good_insert; [exact Hg | apply Hl; left; reflexivity] | intros; apply Hl; right; assumption].
  Qed.

  Lemma insert_group_not_nil k (a : A) g : insert_group eqb k a g <> [].
  Proof. destruct g as [|[k' vs] g]; cbn [insert_group]; [discriminate|]. destruct (eqb k k'); discriminate. Qed.

  Lemma group_by_nil l : group_by eqb key l = [] -> l = [].
  Proof.
    unfold group_by. destruct l as [|a l]; [reflexivity|]. cbn [fold_left]. intros H. exfalso.
    assert (forall l g, g <> [] -> fold_left (fun g a => insert_group eqb (key a) a g) l g <> []) as Hnn.
    { clear. induction l as [|b l IH]; intros g Hg; cbn [fold_left]; [exact Hg|]. apply IH. apply insert_group_not_nil. }
    apply (Hnn l _ (insert_group_not_nil (key a) a [])). exact H.
  Qed.
End Group.

(* ============================================================================================ C. the input variable *)
Lemma string_eqb_refl s : String.eqb s s = true.
Proof. apply String.eqb_refl. Qed.
Lemma vid_eqb_eq a b : vid_eqb a b = true <-> a = b.
Proof.
  destruct a as [[n1 o1] x1], b as [[n2 o2] x2]. unfold vid_eqb. rewrite !andb_true_iff, !String.eqb_eq.
  split; [intros [[-> ->] ->]; reflexivity | intros H; inversion H; auto].
Qed.
Lemma vid_eqb_refl a : vid_eqb a a = true.
Proof. apply vid_eqb_eq. reflexivity. Qed.
Lemma key2_eqb_refl k : key2_eqb k k = true.
Proof. unfold key2_eqb. rewrite !vid_eqb_refl. reflexivity. Qed.

Section Input.
  Variable sv : vid -> option Qc.
  Definition Fe (e : edge) : option Qc := oscale (ew e) (sv (esrc e)).
  Definition Gg (g : gedge) : option Qc := obind (sv (gsrc g)) (fun xv => Some (qsum (gw g) * xv)).
  Definition Mm (m : merged) : option Qc := obind (sv (msrc m)) (fun xv => Some (qsum (mw m) * xv)).

  Lemma osum_same_src_edges : forall l src, l <> [] -> (forall e, In e l -> esrc e = src) ->
    osum (map Fe l) = obind (sv src) (fun xv => Some (qsum (map ew l) * xv)).
  Proof.
    intros l src Hne Hall. destruct (sv src) as [xv|] eqn:Es; cbn [obind].
    - clear Hne. induction l as [|e l IH]; cbn [map osum qsum]; [f_equal; ring|].
      rewrite IH by (intros; apply Hall; right; assumption).
      unfold Fe, oscale. rewrite (Hall e) by (left; reflexivity). rewrite Es. cbn. f_equal. ring.
    - destruct l as [|e l]; [contradiction|]. cbn [map osum]. unfold Fe at 1, oscale.
      rewrite (Hall e) by (left; reflexivity). rewrite Es. reflexivity.
  Qed.

  Lemma osum_same_src_groups : forall l src, l <> [] -> (forall g, In g l -> gsrc g = src) ->
    osum (map Gg l) = obind (sv src) (fun xv => Some (qsum (flat_map gw l) * xv)).
  Proof.
    intros l src Hne Hall. destruct (sv src) as [xv|] eqn:Es; cbn [obind].
    - clear Hne. induction l as [|g l IH]; cbn [map osum flat_map qsum]; [f_equal; ring|].
      rewrite IH by (intros; apply Hall; right; assumption).
      unfold Gg. rewrite (Hall g) by (left; reflexivity). rewrite Es. cbn [obind olift2]. f_equal.
      rewrite qsum_app. ring.
    - destruct l as [|g l]; [contradiction|]. cbn [map osum]. unfold Gg at 1.
      rewrite (Hall g) by (left; reflexivity). rewrite Es. reflexivity.
  Qed.

  (* step 1 (group): the grouped edges carry exactly the edges *)
  Lemma group_edges_sum es : osum (map Gg (group_edges es)) = osum (map Fe es).
  Proof.
    unfold group_edges. rewrite map_map.
    rewrite <- (gsum_group_by key2_eqb (fun e => (esrc e, etgt e)) Fe es). unfold gsum.
    pose proof (good_group_by key2_eqb (fun e => (esrc e, etgt e)) key2_eqb_refl (fun _ => True) es (fun _ _ => I)) as Hg.
    induction Hg as [|[k vs] g [Hne Hall] Hg IH]; cbn [map osum]; [reflexivity|].
    rewrite IH. f_equal. cbn [fst snd] in *. unfold Gg, mk_gedge. cbn [gsrc gw fst snd].
    symmetry. apply osum_same_src_edges; [exact Hne|].
    intros e He. rewrite Forall_forall in Hall. destruct (Hall e He) as [Hk _].
    unfold key2_eqb in Hk. cbn [fst snd] in Hk. apply andb_true_iff in Hk. destruct Hk as [Hk _].
    apply vid_eqb_eq in Hk. exact Hk.
  Qed.

  (* step 2 (merge by source node): correct exactly when every merge group has one source variable (guard D3) *)
  Lemma merge_sum ges :
    forallb (fun p : vid * list gedge => forallb (fun g => vid_eqb (gsrc g) (first_src (fst p) (snd p))) (snd p))
            (merge_groups ges) = true ->
    osum (map Mm (collect_from_edges ges)) = osum (map Gg ges).
  Proof.
    intros Hd3. unfold collect_from_edges. rewrite map_map.
    rewrite <- (gsum_group_by vid_eqb merge_key Gg ges). unfold gsum. fold (merge_groups ges).
    pose proof (good_group_by vid_eqb merge_key vid_eqb_refl (fun _ => True) ges (fun _ _ => I)) as Hg.
    fold (merge_groups ges) in Hg.
    induction Hg as [|[k vs] g [Hne Hall] Hg IH]; cbn [map osum]; [reflexivity|].
    cbn [forallb] in Hd3. apply andb_true_iff in Hd3. destruct Hd3 as [Hd Hd3].
    rewrite IH by exact Hd3. f_equal. cbn [fst snd] in *. unfold Mm, mk_merged. cbn [msrc mw fst snd].
    symmetry. apply osum_same_src_groups; [exact Hne|].
    intros g0 Hg0. rewrite forallb_forall in Hd. apply vid_eqb_eq. apply Hd. exact Hg0.
  Qed.
End Input.

(* alignment of everything the pipeline builds in scalar mode *)
Definition aligned_g (g : gedge) : Prop :=
  zeros (gtidx g) /\ zeros (gsidx g) /\ List.length (gtidx g) = List.length (gw g) /\
  List.length (gsidx g) = List.length (gw g) /\ gw g <> [].

Lemma zeros_map {A} (l : list A) : zeros (map (fun _ => 0%nat) l).
Proof. unfold zeros. induction l; cbn [map]; constructor; auto. Qed.

Lemma group_edges_aligned es : Forall aligned_g (group_edges es).
Proof.
  unfold group_edges.
  pose proof (good_group_by key2_eqb (fun e => (esrc e, etgt e)) key2_eqb_refl (fun _ => True) es (fun _ _ => I)) as Hg.
  induction Hg as [|[k vs] g [Hne _] Hg IH]; cbn [map]; constructor; [|exact IH].
  cbn [snd] in Hne. unfold aligned_g, mk_gedge. cbn [gtidx gsidx gw snd].
  repeat split; try apply zeros_map; try (rewrite !map_length; reflexivity).
  destruct vs; [contradiction | discriminate].
Qed.

Lemma flat_aligned (l : list gedge) : l <> [] -> Forall aligned_g l ->
  zeros (flat_map gtidx l) /\ zeros (flat_map gsidx l) /\
  List.length (flat_map gtidx l) = List.length (flat_map gw l) /\
  List.length (flat_map gsidx l) = List.length (flat_map gw l) /\ flat_map gw l <> [].
Proof.
  intros Hne Hall. assert (Hbase : zeros (flat_map gtidx l) /\ zeros (flat_map gsidx l) /\
    List.length (flat_map gtidx l) = List.length (flat_map gw l) /\
    List.length (flat_map gsidx l) = List.length (flat_map gw l)).
  { clear Hne. induction Hall as [|g l (Ht & Hs & Lt & Ls & _) Hall IH]; cbn [flat_map].
    - repeat split; constructor.
    - destruct IH as (It & Is & ILt & ILs). unfold zeros in *. repeat split.
      + apply Forall_app; auto.
      + apply Forall_app; auto.
      + rewrite !app_length. congruence.
      + rewrite !app_length. congruence. }
  destruct Hbase as (a & b & c & d). repeat split; auto.
  destruct l as [|g l]; [contradiction|]. inversion Hall as [|? ? (_ & _ & _ & _ & Hw) _]; subst.
  cbn [flat_map]. destruct (gw g); [contradiction | discriminate].
Qed.

Lemma collect_aligned ges : Forall aligned_g ges -> Forall aligned_m (collect_from_edges ges).
Proof.
  intros Hal. unfold collect_from_edges, merge_groups.
  assert (Hal' : forall g, In g ges -> aligned_g g) by (apply Forall_forall; exact Hal).
  pose proof (good_group_by vid_eqb merge_key vid_eqb_refl aligned_g ges Hal') as Hg.
  induction Hg as [|[k vs] g [Hne Hall] Hg IH]; cbn [map]; constructor; [|exact IH].
  cbn [snd] in *. unfold aligned_m, mk_merged. cbn [mtidx msidx mw snd].
  apply flat_aligned; [exact Hne|]. apply Forall_forall. intros g0 Hg0. rewrite Forall_forall in Hall.
  apply (Hall g0 Hg0).
Qed.

(* step 3+4: the in_edge operator computes Σ over the merged source nodes of (Σ weights) * source *)
Lemma edge_value_sum sv ms dflt : Forall aligned_m ms -> edge_value sv ms dflt = osum (map (Mm sv) ms).
Proof.
  intros Hal.
  assert (Hm : forall m, In m ms -> forall d,
             obind (sv (msrc m)) (fun xv => Some (or_default (contrib m (fun _ => xv) 0%nat) d)) = Mm sv m).
  { intros m Hm d. unfold Mm. destruct (sv (msrc m)) as [xv|]; cbn [obind]; [|reflexivity].
    rewrite contrib_scalar by (rewrite Forall_forall in Hal; apply Hal; exact Hm). reflexivity. }
  unfold edge_value. destruct ms as [|m [|m' ms]].
  - reflexivity.
  - cbn [map osum]. rewrite olift2_plus_0_r. apply Hm. left. reflexivity.
  - f_equal. apply map_ext_in. intros a Ha. apply Hm. exact Ha.
Qed.

Lemma pick_is_osum (l : list (option Qc)) d : l <> [] ->
  match l with [] => d | [x] => x | _ => osum l end = osum l.
Proof.
  destruct l as [|x [|y l]]; intros H; [contradiction | | reflexivity].
  cbn [osum]. symmetry. apply olift2_plus_0_r.
Qed.

Lemma in_edges_target n v e : In e (in_edges n v) -> In e (nedges n) /\ etgt e = v.
Proof. unfold in_edges. rewrite filter_In. intros [H1 H2]. apply vid_eqb_eq in H2. auto. Qed.

(* THE INPUT LAYER: under the D3 guard the mechanism delivers to every input variable exactly
   Σ same-node producers + Σ over all edges of weight * source, or the default when nothing connects *)
Theorem input_impl_is_spec : forall n, guard_d3 n = true ->
  forall pa sv v prods, input_impl n pa sv v prods = input_spec n pa sv v prods.
Proof.
  intros n Hg pa sv v prods. unfold input_impl, input_spec, merged_into.
  destruct (in_edges n v) as [|e0 es0] eqn:Ees.
  - (* nothing connects through edges *)
    cbn. rewrite app_nil_r. destruct prods as [|p prods]; [reflexivity|].
    rewrite pick_is_osum by discriminate. symmetry. apply olift2_plus_0_r.
  - assert (Hd3 : d3_ok n v = true).
    { unfold guard_d3 in Hg. rewrite forallb_forall in Hg.
      assert (Hin : In e0 (in_edges n v)) by (rewrite Ees; left; reflexivity).
      apply in_edges_target in Hin. destruct Hin as [Hin Ht]. rewrite <- Ht. apply Hg. exact Hin. }
    unfold d3_ok in Hd3. rewrite Ees in Hd3.
    set (es := e0 :: es0) in *. set (ges := group_edges es) in *.
    assert (Hval : edge_value sv (collect_from_edges ges) (pa v) = osum (map (Fe sv) es)).
    { rewrite edge_value_sum by (apply collect_aligned; apply group_edges_aligned).
      rewrite merge_sum by exact Hd3. apply group_edges_sum. }
    assert (Hnn : collect_from_edges ges <> []).
    { unfold collect_from_edges, merge_groups. intro H. apply map_eq_nil in H.
      apply group_by_nil in H. unfold ges, group_edges in H. apply map_eq_nil in H.
      apply group_by_nil in H. discriminate. }
    destruct (collect_from_edges ges) as [|m ms] eqn:Ecm; [contradiction|].
    rewrite Hval. rewrite pick_is_osum by (destruct prods; discriminate).
    rewrite osum_app. cbn [osum]. rewrite olift2_plus_0_r.
    destruct prods; reflexivity.
Qed.

(* the sub-lemmas named in the design *)
Theorem multi_source_sum : forall sv ges dflt, Forall aligned_g ges ->
  forallb (fun p : vid * list gedge => forallb (fun g => vid_eqb (gsrc g) (first_src (fst p) (snd p))) (snd p))
          (merge_groups ges) = true ->
  edge_value sv (collect_from_edges ges) dflt = osum (map (Gg sv) ges).
Proof. intros. rewrite edge_value_sum by (apply collect_aligned; assumption). apply merge_sum. assumption. Qed.

Theorem default_when_no_source : forall n pa sv v, in_edges n v = [] ->
  input_impl n pa sv v [] = Some (pa v) /\ input_spec n pa sv v [] = Some (pa v).
Proof. intros n pa sv v H. unfold input_impl, input_spec, merged_into. rewrite H. split; reflexivity. Qed.

(* ============================================================================================ D. composition *)
Lemma eval_ext env1 env2 e : (forall y, env1 y = env2 y) -> eval env1 e = eval env2 e.
Proof. intros H. induction e; cbn [eval]; try rewrite IHe1, IHe2; try rewrite IHe; auto. Qed.

Lemma eval_ext_fv env1 env2 e : (forall y, In y (fv e) -> env1 y = env2 y) -> eval env1 e = eval env2 e.
Proof.
  induction e; cbn [eval fv]; intros H; auto.
  - apply H. left. reflexivity.
  - rewrite IHe1, IHe2; auto; intros; apply H; apply in_or_app; auto.
  - rewrite IHe1, IHe2; auto; intros; apply H; apply in_or_app; auto.
  - rewrite IHe1, IHe2; auto; intros; apply H; apply in_or_app; auto.
  - rewrite IHe; auto.
  - rewrite IHe; auto.
Qed.

Lemma input_spec_ext n pa sv1 sv2 v p : (forall u, sv1 u = sv2 u) -> input_spec n pa sv1 v p = input_spec n pa sv2 v p.
Proof.
  intros H. unfold input_spec.
  assert (E1 : map sv1 p = map sv2 p) by (apply map_ext; exact H).
  assert (E2 : forall l : list edge, map (fun e => oscale (ew e) (sv1 (esrc e))) l = map (fun e => oscale (ew e) (sv2 (esrc e))) l)
    by (intros l; apply map_ext; intros; rewrite H; reflexivity).
  destruct p; destruct (in_edges n v); rewrite ?E1, ?E2; reflexivity.
Qed.

Lemma value_with_rule_ext n st pa (inp1 inp2 : input_rule) :
  (forall sv v p, inp1 sv v p = inp2 sv v p) ->
  (forall sv1 sv2 v p, (forall u, sv1 u = sv2 u) -> inp2 sv1 v p = inp2 sv2 v p) ->
  forall fuel v, value_with n st pa inp1 fuel v = value_with n st pa inp2 fuel v.
Proof.
  intros H12 Hext. induction fuel as [|f IH]; intros v; cbn [value_with]; [reflexivity|].
  destruct (lookup n v) as [[[ops op] d]|]; [|reflexivity].
  destruct v as [[nd o] x]. destruct (vk d); try reflexivity.
  - rewrite H12. apply Hext. exact IH.
  - destruct (find_eq op x false); cbn [obind]; [|reflexivity]. apply eval_ext. intros y. apply IH.
Qed.

Theorem deriv_impl_is_deriv : forall n, guard_d3 n = true -> forall st pa v, deriv_impl n st pa v = deriv n st pa v.
Proof.
  intros n Hg st pa v. unfold deriv_impl, deriv, deriv_with.
  destruct (lookup n v) as [[[ops op] d]|]; [|reflexivity].
  destruct v as [[nd o] x]. destruct (find_eq op x true); cbn [obind]; [|reflexivity].
  apply eval_ext. intros y. apply value_with_rule_ext.
  - intros. apply input_impl_is_spec. exact Hg.
  - intros. apply input_spec_ext. assumption.
Qed.

Theorem value_impl_is_value : forall n, guard_d3 n = true -> forall st pa v, value_impl n st pa v = value n st pa v.
Proof.
  intros n Hg st pa v. unfold value_impl, value. apply value_with_rule_ext.
  - intros. apply input_impl_is_spec. exact Hg.
  - intros. apply input_spec_ext. assumption.
Qed.

(* ============================================================================================ E. the textual rewrite *)
Lemma eval_subst env x r e :
  eval env (subst x r e) = eval (fun y => if String.eqb y x then eval env r else env y) e.
Proof.
  induction e; cbn [eval subst]; try rewrite IHe1, IHe2; try rewrite IHe; auto.
  destruct (String.eqb x0 x); reflexivity.
Qed.

Lemma eval_sum_term env ls : ls <> [] -> eval env (sum_term ls) = osum (map env ls).
Proof.
  induction ls as [|l ls IH]; intros H; [contradiction|].
  destruct ls as [|l' ls].
  - cbn. symmetry. apply olift2_plus_0_r.
  - change (sum_term (l :: l' :: ls)) with (EAdd (EVar l) (sum_term (l' :: ls))).
    cbn [eval map osum]. rewrite IH by discriminate. reflexivity.
Qed.

(* `replace(eq, a, "(l1+...+lk)")`: if the labels are fresh for the equation (they do not occur among its other
   variables), the rewritten equation evaluates like the original with `a` bound to the sum of the sources *)
Theorem substitute_input_term : forall env env' a ls e, ls <> [] ->
  (forall y, In y (fv e) -> y <> a -> env' y = env y) ->
  eval env' (rewrite_input a ls e) = eval (fun y => if String.eqb y a then osum (map env' ls) else env y) e.
Proof.
  intros env env' a ls e Hne Hfresh. unfold rewrite_input. rewrite eval_subst.
  apply eval_ext_fv. intros y Hy. destruct (String.eqb y a) eqn:E.
  - apply eval_sum_term. exact Hne.
  - apply Hfresh; [exact Hy|]. intro Heq. subst. rewrite String.eqb_refl in E. discriminate.
Qed.

(* ... and it is false when a label coincides with a variable of the operator (the class excluded by guard_labels):
   v = a * a_v1 with the user's a_v1 = 5, sources of a: 1 and 2 under the labels a, a_v1: intended (1+2)*5 = 15 *)
Example label_clash_refuted : exists env env' a ls e,
  ls <> [] /\ eval env' (rewrite_input a ls e) <> eval (fun y => if String.eqb y a then osum (map env' ls) else env y) e.
Proof.
  exists (fun y => if String.eqb y "a_v1" then Some (Q2Qc 5) else None),
         (fun y => if String.eqb y "a" then Some (Q2Qc 1) else if String.eqb y "a_v1" then Some (Q2Qc 2) else None),
         "a"%string, ["a"%string; "a_v1"%string], (EMul (EVar "a") (EVar "a_v1")).
  split; [discriminate | vm_compute; discriminate].
Qed.

(* ============================================================================================ F. layout *)
Lemma layout_from_lb {A} : forall (vars : list (A * nat)) idx p,
  In p (layout_from idx vars) -> (idx <= fst (snd p) /\ fst (snd p) < snd (snd p))%nat.
Proof.
  induction vars as [|[v sz] r IH]; intros idx p Hin; cbn [layout_from] in Hin; [contradiction|].
  destruct Hin as [<-|Hin]; cbn [fst snd].
  - destruct (1 <? sz)%nat eqn:E; [apply Nat.ltb_lt in E|]; lia.
  - apply IH in Hin. destruct (1 <? sz)%nat eqn:E; [apply Nat.ltb_lt in E|]; lia.
Qed.

(* positions handed out are pairwise distinct, for any number of variables of any sizes *)
Theorem layout_positions_NoDup {A} : forall (vars : list (A * nat)) idx,
  NoDup (map (fun p => fst (snd p)) (layout_from idx vars)).
Proof.
  induction vars as [|[v sz] r IH]; intros idx; cbn [layout_from map]; constructor; [|apply IH].
  cbn [fst snd]. intro Hin. apply in_map_iff in Hin. destruct Hin as [p [Hp Hin]].
  apply layout_from_lb in Hin. destruct (1 <? sz)%nat eqn:E; [apply Nat.ltb_lt in E|]; lia.
Qed.

(* ... and the half-open ranges are pairwise disjoint (each ends before every later one starts) *)
Theorem layout_ranges_disjoint {A} : forall (vars : list (A * nat)) idx,
  ForallOrdPairs (fun p q : A * (nat * nat) => (snd (snd p) <= fst (snd q))%nat) (layout_from idx vars).
Proof.
  induction vars as [|[v sz] r IH]; intros idx; cbn [layout_from]; constructor; [|apply IH].
  apply Forall_forall. intros q Hq. apply layout_from_lb in Hq. cbn [fst snd]. lia.
Qed.

Theorem layout_covers {A} : forall (vars : list (A * nat)) idx, map fst (layout_from idx vars) = map fst vars.
Proof. induction vars as [|[v sz] r IH]; intros idx; cbn [layout_from map fst]; [reflexivity | f_equal; apply IH]. Qed.

(* ============================================================================================ G. witnesses *)
Open Scope string_scope.
Definition mkD (x : string) (k : vkind) (q : Qc) : vdecl := {| vname := x; vk := k; vval := q |}.
Definition mkE (s t : vid) (w : Qc) : edge := {| esrc := s; etgt := t; ew := w |}.
Definition mkEq (l : string) (de : bool) (p : poly) : eqn := {| lhs := l; is_de := de; rhs := poly_expr p |}.

(* source operator: x' = -x/4 + k*z/2, z' = x*x/4 (output x);  target operator: v' = -v + a + 2*b (inputs a, b) *)
Definition w_sop : oper :=
  {| oname := "sop"; ovars := [mkD "x" VState (mkq 1 2); mkD "z" VState (mkq 1 4); mkD "k" VConst (mkq 3 4)];
     oeqs := [mkEq "x" true [(mkq (-1) 4, ["x"]); (mkq 1 2, ["k"; "z"])]; mkEq "z" true [(mkq 1 4, ["x"; "x"])]];
     oout := Some "x" |}.
Definition w_top : oper :=
  {| oname := "top"; ovars := [mkD "v" VState (mkq 0 1); mkD "a" VInput (mkq 1 4); mkD "b" VInput (mkq 1 2)];
     oeqs := [mkEq "v" true [(mkq (-1) 1, ["v"]); (mkq 1 1, ["a"]); (mkq 2 1, ["b"])]]; oout := Some "v" |}.
(* producer operator: a' = -a (output a) *)
Definition w_pop : oper :=
  {| oname := "pop"; ovars := [mkD "a" VState (mkq 1 2)]; oeqs := [mkEq "a" true [(mkq (-1) 1, ["a"])]]; oout := Some "a" |}.

(* D3 witness: two variables (x and z) of ONE source node A project to the same target variable T/top/a *)
Definition d3_witness : net := flatten (Circ [("A", [(w_sop, [])]); ("T", [(w_top, [])])] []
  [mkE ("A", "sop", "x") ("T", "top", "a") (mkq 1 2); mkE ("A", "sop", "z") ("T", "top", "a") (mkq 2 1)]).
Definition d3_state : vid -> Qc :=
  assoc_env [(("A", "sop", "x"), mkq 1 2); (("A", "sop", "z"), mkq 1 4); (("T", "top", "v"), mkq 1 8)] zero_env.

Lemma d3_witness_values :
  wf d3_witness = true /\ guard_names d3_witness = true /\ guard_labels d3_witness = true /\ guard_d3 d3_witness = fixed_D3 /\
  oqc_eqb (deriv d3_witness d3_state (declared_env d3_witness) ("T", "top", "v")) (Some (mkq 13 8)) = true /\
  oqc_eqb (deriv_impl d3_witness d3_state (declared_env d3_witness) ("T", "top", "v"))
          (Some (if fixed_D3 then mkq 13 8 else mkq 17 8)) = true.
Proof. vm_compute. repeat split; reflexivity. Qed.

(* as long as the model describes the code as it is (fixed_D3 = false) the full statement is refuted *)
Lemma d3_refutes : fixed_D3 = false -> exists n st pa v, wf n = true /\ guard_names n = true /\ guard_labels n = true /\
  deriv_impl n st pa v <> deriv n st pa v.
Proof.
  intros Hf. exists d3_witness, d3_state, (declared_env d3_witness), ("T", "top", "v").
  destruct d3_witness_values as (H1 & H2 & H3 & _ & H5 & H6). repeat split; try assumption.
  rewrite Hf in H6. intro Heq. rewrite Heq in H6.
  assert (Hn : oqc_eqb (deriv d3_witness d3_state (declared_env d3_witness) ("T", "top", "v")) (Some (mkq 17 8)) = false)
    by (vm_compute; reflexivity).
  congruence.
Qed.

(* with the repair (merge keyed by source node AND source variable) the D3 guard holds of every network ... *)
Lemma d3_ok_when_fixed : fixed_D3 = true -> forall n v, d3_ok n v = true.
Proof.
  intros Hfix n v. unfold d3_ok.
  pose proof (good_group_by vid_eqb merge_key vid_eqb_refl (fun _ => True) (group_edges (in_edges n v)) (fun _ _ => I)) as Hg.
  fold (merge_groups (group_edges (in_edges n v))) in Hg.
  induction Hg as [|[k vs] g [Hne Hall] Hg IH]; cbn [forallb]; [reflexivity|].
  rewrite IH, andb_true_r. cbn [fst snd] in *.
  assert (Hk : forall g0, In g0 vs -> gsrc g0 = k).
  { intros g0 Hg0. rewrite Forall_forall in Hall. destruct (Hall g0 Hg0) as [He _].
    unfold merge_key in He. rewrite Hfix in He. apply vid_eqb_eq in He. exact He. }
  apply forallb_forall. intros g0 Hg0. apply vid_eqb_eq. rewrite (Hk g0 Hg0).
  destruct vs as [|g1 vs]; [contradiction|]. cbn [first_src]. symmetry. apply Hk. left. reflexivity.
Qed.

Lemma guard_d3_when_fixed : fixed_D3 = true -> forall n, guard_d3 n = true.
Proof. intros Hfix n. unfold guard_d3. apply forallb_forall. intros e _. apply d3_ok_when_fixed. exact Hfix. Qed.

(* ... and the full statement follows (no D3 guard; the name-clash guards only delimit where the model is faithful) *)
Theorem full_when_fixed : fixed_D3 = true -> forall n st pa v, deriv_impl n st pa v = deriv n st pa v.
Proof. intros Hfix n. apply deriv_impl_is_deriv. apply guard_d3_when_fixed. exact Hfix. Qed.

(* since fix D59 the switch IS true (these three lines stop compiling if the model is switched back) *)
Theorem deriv_impl_full : forall n st pa v, deriv_impl n st pa v = deriv n st pa v.
Proof. exact (full_when_fixed eq_refl). Qed.
Theorem value_impl_full : forall n st pa v, value_impl n st pa v = value n st pa v.
Proof. intros n. apply value_impl_is_value. apply (guard_d3_when_fixed eq_refl). Qed.
Theorem input_impl_full : forall n pa sv v prods, input_impl n pa sv v prods = input_spec n pa sv v prods.
Proof. intros n. apply input_impl_is_spec. apply (guard_d3_when_fixed eq_refl). Qed.

(* the switch-parameterised mechanism at the current switch value IS the model (by conversion) ... *)
Lemma deriv_impl_gen_is_model : deriv_impl_gen fixed_D3 = deriv_impl.
Proof. reflexivity. Qed.

(* ... and with the switch OFF (the mechanism before fix D59: merge keyed by the source node only) Coq computes 17/8 on the
   witness where the Spec gives 13/8: a real before-fix theorem, independent of the current value of fixed_D3 *)
Lemma d3_before_fix_values :
  wf d3_witness = true /\
  oqc_eqb (deriv d3_witness d3_state (declared_env d3_witness) ("T", "top", "v")) (Some (mkq 13 8)) = true /\
  oqc_eqb (deriv_impl_gen false d3_witness d3_state (declared_env d3_witness) ("T", "top", "v")) (Some (mkq 17 8)) = true /\
  oqc_eqb (deriv_impl_gen true d3_witness d3_state (declared_env d3_witness) ("T", "top", "v")) (Some (mkq 13 8)) = true.
Proof. vm_compute. repeat split; reflexivity. Qed.

Lemma d3_before_fix : exists n st pa v, wf n = true /\ deriv_impl_gen false n st pa v <> deriv n st pa v.
Proof.
  exists d3_witness, d3_state, (declared_env d3_witness), ("T", "top", "v").
  destruct d3_before_fix_values as (H1 & H2 & H3 & _). split; [exact H1|].
  intro Heq. rewrite Heq in H3.
  assert (Hn : oqc_eqb (deriv d3_witness d3_state (declared_env d3_witness) ("T", "top", "v")) (Some (mkq 17 8)) = false)
    by (vm_compute; reflexivity).
  congruence.
Qed.

(* a non-trivial guard-satisfying network: hierarchy depth 1, three nodes, a same-node producer of T/top/a, two parallel
   edges A -> T/top/a, a third edge from another node (two source nodes -> multi-source sum), T/top/b unconnected *)
Definition nonvac_net : net := flatten (Circ [] [
   ("c1", Circ [("A", [(w_sop, [])]); ("B", [(w_sop, [("k", mkq 1 2)])])] [] []);
   ("c2", Circ [("T", [(w_top, [("b", mkq 4 1)]); (w_pop, [])])] [] [])]
  [mkE ("c1/A", "sop", "x") ("c2/T", "top", "a") (mkq 1 2); mkE ("c1/B", "sop", "x") ("c2/T", "top", "a") (mkq 3 4);
   mkE ("c1/A", "sop", "x") ("c2/T", "top", "a") (mkq 1 4)]).
Definition nonvac_state : vid -> Qc :=
  assoc_env [(("c1/A", "sop", "x"), mkq 1 2); (("c1/A", "sop", "z"), mkq 1 4); (("c1/B", "sop", "x"), mkq (-3) 4);
             (("c1/B", "sop", "z"), mkq 1 1); (("c2/T", "top", "v"), mkq 1 8); (("c2/T", "pop", "a"), mkq 3 1)] zero_env.

(* a = 3 (producer) + (1/2 + 1/4)*(1/2) + (3/4)*(-3/4) = 45/16;  v' = -1/8 + 45/16 + 2*4 = 171/16 *)
Lemma nonvac_values :
  wf nonvac_net = true /\ guard nonvac_net = true /\
  oqc_eqb (deriv nonvac_net nonvac_state (declared_env nonvac_net) ("c2/T", "top", "v")) (Some (mkq 171 16)) = true /\
  oqc_eqb (deriv_impl nonvac_net nonvac_state (declared_env nonvac_net) ("c2/T", "top", "v")) (Some (mkq 171 16)) = true /\
  oqc_eqb (value nonvac_net nonvac_state (declared_env nonvac_net) ("c2/T", "top", "b")) (Some (mkq 4 1)) = true.
Proof. vm_compute. repeat split; reflexivity. Qed.

(* ============================================================================================ H. hierarchy *)
(* An edge may be declared at any circuit level that contains both end points (with the path relative to that level).
   `flatten` turns every choice into the same nodes and a permutation of the same edge list, and the denotation does not
   depend on the order of the edge list. *)
From Coq Require Import Permutation.

Lemma osum_perm l l' : Permutation l l' -> osum l = osum l'.
Proof.
  induction 1; cbn [osum]; try congruence.
  rewrite !olift2_plus_assoc. f_equal. apply olift2_plus_comm.
Qed.

Lemma filter_perm {A} (f : A -> bool) l l' : Permutation l l' -> Permutation (filter f l) (filter f l').
Proof.
  induction 1; cbn [filter].
  - constructor.
  - destruct (f x); [constructor|]; assumption.
  - destruct (f x), (f y); try reflexivity. constructor.
  - etransitivity; eassumption.
Qed.

Lemma input_spec_perm N E1 E2 pa sv v p : Permutation E1 E2 ->
  input_spec {| nnodes := N; nedges := E1 |} pa sv v p = input_spec {| nnodes := N; nedges := E2 |} pa sv v p.
Proof.
  intros HP. unfold input_spec, in_edges. cbn [nedges].
  pose proof (filter_perm (fun e => vid_eqb (etgt e) v) E1 E2 HP) as HF.
  assert (Hs : osum (map (fun e => oscale (ew e) (sv (esrc e))) (filter (fun e => vid_eqb (etgt e) v) E1)) =
               osum (map (fun e => oscale (ew e) (sv (esrc e))) (filter (fun e => vid_eqb (etgt e) v) E2)))
    by (apply osum_perm, Permutation_map, HF).
  destruct p as [|p0 p].
  - destruct (filter (fun e => vid_eqb (etgt e) v) E1) eqn:F1; destruct (filter (fun e => vid_eqb (etgt e) v) E2) eqn:F2.
    + reflexivity.
    + apply Permutation_nil in HF. discriminate.
    + symmetry in HF. apply Permutation_nil in HF. discriminate.
    + rewrite Hs. reflexivity.
  - rewrite Hs. reflexivity.
Qed.

Lemma value_with_edges_ext N E1 E2 st pa (inp1 inp2 : input_rule) :
  (forall sv v p, inp1 sv v p = inp2 sv v p) ->
  (forall sv1 sv2 v p, (forall u, sv1 u = sv2 u) -> inp2 sv1 v p = inp2 sv2 v p) ->
  forall fuel v, value_with {| nnodes := N; nedges := E1 |} st pa inp1 fuel v =
                 value_with {| nnodes := N; nedges := E2 |} st pa inp2 fuel v.
Proof.
  intros H12 Hext. induction fuel as [|f IH]; intros v; cbn [value_with]; [reflexivity|].
  change (lookup {| nnodes := N; nedges := E1 |} v) with (lookup {| nnodes := N; nedges := E2 |} v).
  destruct (lookup {| nnodes := N; nedges := E2 |} v) as [[[ops op] d]|]; [|reflexivity].
  destruct v as [[nd o] x]. destruct (vk d); try reflexivity.
  - rewrite H12. apply Hext. exact IH.
  - destruct (find_eq op x false); cbn [obind]; [|reflexivity]. apply eval_ext. intros y. apply IH.
Qed.

(* the denotation does not depend on the order in which the edges are listed *)
Theorem deriv_edge_order : forall N E1 E2, Permutation E1 E2 -> forall st pa v,
  deriv {| nnodes := N; nedges := E1 |} st pa v = deriv {| nnodes := N; nedges := E2 |} st pa v.
Proof.
  intros N E1 E2 HP st pa v. unfold deriv, deriv_with.
  change (lookup {| nnodes := N; nedges := E1 |} v) with (lookup {| nnodes := N; nedges := E2 |} v).
  destruct (lookup {| nnodes := N; nedges := E2 |} v) as [[[ops op] d]|]; [|reflexivity].
  destruct v as [[nd o] x]. destruct (find_eq op x true); cbn [obind]; [|reflexivity].
  apply eval_ext. intros y.
  change (fuel_of {| nnodes := N; nedges := E1 |}) with (fuel_of {| nnodes := N; nedges := E2 |}).
  apply value_with_edges_ext.
  - intros. apply input_spec_perm. exact HP.
  - intros. apply input_spec_ext. assumption.
Qed.

(* two circuit templates are equivalent when, under every prefix, they flatten to the same nodes and the same edges up to order *)
Definition cequiv (c1 c2 : circuit) : Prop :=
  forall pre, flat_nodes pre c1 = flat_nodes pre c2 /\ Permutation (flat_edges pre c1) (flat_edges pre c2).

Theorem cequiv_deriv c1 c2 : cequiv c1 c2 -> forall st pa v, deriv (flatten c1) st pa v = deriv (flatten c2) st pa v.
Proof.
  intros H st pa v. destruct (H ""%string) as [Hn He]. unfold flatten. rewrite Hn. apply deriv_edge_order. exact He.
Qed.

Definition subs_nodes (pre : string) (l : list (string * circuit)) : list (string * list oper) :=
  flat_map (fun p => flat_nodes (pre ++ fst p ++ "/") (snd p)) l.
Definition subs_edges (pre : string) (l : list (string * circuit)) : list edge :=
  flat_map (fun p => flat_edges (pre ++ fst p ++ "/") (snd p)) l.

Lemma flat_nodes_eq pre ns subs es :
  flat_nodes pre (Circ ns subs es) =
  (map (fun nd : tnode => ((pre ++ fst nd)%string, map inst (snd nd))) ns ++ subs_nodes pre subs)%list.
Proof.
  cbn [flat_nodes]. f_equal. unfold subs_nodes. induction subs as [|[sn sc] l IH]; [reflexivity|].
  cbn [flat_map fst snd]. rewrite <- IH. reflexivity.
Qed.
Lemma flat_edges_eq pre ns subs es :
  flat_edges pre (Circ ns subs es) = (map (pedge pre) es ++ subs_edges pre subs)%list.
Proof.
  cbn [flat_edges]. f_equal. unfold subs_edges. induction subs as [|[sn sc] l IH]; [reflexivity|].
  cbn [flat_map fst snd]. rewrite <- IH. reflexivity.
Qed.

Lemma str_app_assoc (a b c : string) : ((a ++ b) ++ c)%string = (a ++ (b ++ c))%string.
Proof. induction a as [|ch a IH]; cbn; [reflexivity | rewrite IH; reflexivity]. Qed.

Lemma pedge_pedge pre q e : pedge pre (pedge q e) = pedge (pre ++ q) e.
Proof.
  unfold pedge. cbn [esrc etgt ew]. destruct (esrc e) as [[n1 o1] x1], (etgt e) as [[n2 o2] x2].
  cbn [pvid]. rewrite !str_app_assoc. reflexivity.
Qed.

(* hoisting: an edge declared inside the sub-circuit `sn` may equally be declared one level up as `sn/...` *)
Theorem hoist_edge : forall ns l1 sn ns' subs' e es' l2 es,
  cequiv (Circ ns (l1 ++ (sn, Circ ns' subs' (e :: es')) :: l2) es)
         (Circ ns (l1 ++ (sn, Circ ns' subs' es') :: l2) (pedge (sn ++ "/") e :: es)).
Proof.
  intros. intro pre. split.
  - rewrite !flat_nodes_eq. f_equal. unfold subs_nodes. rewrite !flat_map_app. cbn [flat_map fst snd].
    rewrite !flat_nodes_eq. reflexivity.
  - rewrite !flat_edges_eq. unfold subs_edges. rewrite !flat_map_app. cbn [flat_map fst snd map].
    rewrite !flat_edges_eq. cbn [map]. rewrite pedge_pedge. rewrite <- str_app_assoc.
    set (x := pedge ((pre ++ sn) ++ "/") e).
    rewrite <- !app_assoc. cbn [app].
    etransitivity.
    { apply Permutation_app_head. symmetry. apply Permutation_middle. }
    symmetry. apply Permutation_middle.
Qed.

(* equivalence is preserved by every context: replacing a sub-circuit by an equivalent one *)
Theorem cequiv_context : forall ns l1 sn c1 c2 l2 es, cequiv c1 c2 ->
  cequiv (Circ ns (l1 ++ (sn, c1) :: l2) es) (Circ ns (l1 ++ (sn, c2) :: l2) es).
Proof.
  intros ns l1 sn c1 c2 l2 es H pre. destruct (H (pre ++ sn ++ "/")%string) as [Hn He]. split.
  - rewrite !flat_nodes_eq. f_equal. unfold subs_nodes. rewrite !flat_map_app. cbn [flat_map fst snd]. rewrite Hn. reflexivity.
  - rewrite !flat_edges_eq. unfold subs_edges. rewrite !flat_map_app. cbn [flat_map fst snd].
    apply Permutation_app_head. apply Permutation_app_head. apply Permutation_app_tail. exact He.
Qed.

Lemma cequiv_refl c : cequiv c c.
Proof. intro pre. split; reflexivity. Qed.
Lemma cequiv_trans c1 c2 c3 : cequiv c1 c2 -> cequiv c2 c3 -> cequiv c1 c3.
Proof.
  intros H1 H2 pre. destruct (H1 pre) as [a b], (H2 pre) as [c d]. split; [congruence | etransitivity; eassumption].
Qed.
Lemma cequiv_sym c1 c2 : cequiv c1 c2 -> cequiv c2 c1.
Proof. intros H pre. destruct (H pre) as [a b]. split; [congruence | symmetry; exact b]. Qed.

(* declaration order of the edges of one circuit level is irrelevant as well *)
Theorem cequiv_edge_order : forall ns subs es es', Permutation es es' -> cequiv (Circ ns subs es) (Circ ns subs es').
Proof.
  intros ns subs es es' HP pre. split; [rewrite !flat_nodes_eq; reflexivity|].
  rewrite !flat_edges_eq. apply Permutation_app_tail. apply Permutation_map. exact HP.
Qed.

(* ============================================================================================ I. evaluation order *)
(* _sort_var_updates produces a permutation of the updates in which no update reads the left-hand side of an update
   that comes at the same or a later position (itself excepted) — a topological order of the dependencies —, and running
   the assignments in such an order leaves a memory in which EVERY assigned variable equals its defining expression
   evaluated in that same memory (no stale read). *)
Section SortProofs.
  Variable A : Type.
  Variable lhs_of : A -> string.
  Variable deps_of : A -> list string.
  Let dep := dependent A lhs_of deps_of.
  Let pass := sort_pass A lhs_of deps_of.
  Let srt := sort_updates A lhs_of deps_of.

  Fixpoint topo_from (out : list A) (later : list string) : Prop :=
    match out with
    | [] => True
    | q :: r => dep q (map lhs_of (q :: r) ++ later) = false /\ topo_from r later
    end.

  Lemma memb_In x l : memb x l = true <-> In x l.
  Proof.
    unfold memb. rewrite existsb_exists. split.
    - intros [y [Hy He]]. apply String.eqb_eq in He. subst. exact Hy.
    - intros H. exists x. split; [exact H | apply String.eqb_refl].
  Qed.

  Lemma dependent_mono q big small : dep q big = false ->
    (forall i, In i small -> i = lhs_of q \/ In i big) -> dep q small = false.
  Proof.
    intros Hb Hsub. destruct (dep q small) eqn:E; [|reflexivity]. exfalso.
    unfold dep, dependent in *. apply existsb_exists in E. destruct E as [i [Hi Hf]].
    apply andb_true_iff in Hf. destruct Hf as [Hm Hn]. apply memb_In in Hm.
    apply negb_true_iff in Hn. destruct (Hsub i Hm) as [Heq|Hin].
    - subst. rewrite String.eqb_refl in Hn. discriminate.
    - assert (existsb (fun i0 => memb i0 big && negb (String.eqb i0 (lhs_of q))) (deps_of q) = true); [|congruence].
      apply existsb_exists. exists i. split; [exact Hi|]. apply andb_true_iff. split; [apply memb_In; exact Hin|].
      apply negb_true_iff. exact Hn.
  Qed.

  Lemma remove1_incl x l : incl (remove1 x l) l.
  Proof.
    induction l as [|y l IH]; cbn [remove1]; [apply incl_refl|].
    destruct (String.eqb x y); [apply incl_tl, incl_refl|]. intros z [->|Hz]; [left; reflexivity | right; apply IH; exact Hz].
  Qed.
  Lemma remove1_keep x y l : In y l -> y <> x -> In y (remove1 x l).
  Proof.
    induction l as [|z l IH]; cbn [remove1]; intros Hin Hne; [contradiction|].
    destruct (String.eqb x z) eqn:E.
    - apply String.eqb_eq in E. subst. destruct Hin as [->|Hin]; [contradiction | exact Hin].
    - destruct Hin as [->|Hin]; [left; reflexivity | right; apply IH; assumption].
  Qed.

  Lemma pass_spec : forall todo names e s nm, pass todo names = (e, s, nm) ->
    NoDup (map lhs_of todo) -> incl (map lhs_of todo) names ->
    Permutation todo (e ++ s) /\ incl nm names /\
    (forall x, In x names -> ~ In x (map lhs_of e) -> In x nm) /\ topo_from e nm.
  Proof.
    induction todo as [|q r IH]; intros names e s nm H Hnd Hinc.
    - cbn in H. inversion H; subst. repeat split; auto using incl_refl.
    - cbn [map] in Hnd. inversion Hnd as [|? ? Hq Hnd']; subst.
      assert (Hr : incl (map lhs_of r) names) by (intros x Hx; apply Hinc; right; exact Hx).
      unfold pass in H. cbn [sort_pass] in H. fold pass in H. fold dep in H.
      destruct (dep q names) eqn:D.
      + destruct (pass r names) as [[e' s'] nm'] eqn:P. inversion H; subst e s nm.
        destruct (IH names e' s' nm' P Hnd' Hr) as (Hp & Hi & Hk & Ht).
        repeat split; auto. apply Permutation_cons_app. exact Hp.
      + destruct (pass r (remove1 (lhs_of q) names)) as [[e' s'] nm'] eqn:P. inversion H; subst e s nm.
        assert (Hr' : incl (map lhs_of r) (remove1 (lhs_of q) names)).
        { intros x Hx. apply remove1_keep; [apply Hr; exact Hx|]. intro Heq. subst. contradiction. }
        destruct (IH _ e' s' nm' P Hnd' Hr') as (Hp & Hi & Hk & Ht).
        assert (Hnm : incl nm' names) by (intros x Hx; apply (remove1_incl (lhs_of q)), Hi, Hx).
        repeat split.
        * cbn [app]. constructor. exact Hp.
        * exact Hnm.
        * intros x Hx Hne. cbn [map] in Hne. apply Hk.
          -- apply remove1_keep; [exact Hx|]. intro Heq. apply Hne. left. symmetry. exact Heq.
          -- intro Hin. apply Hne. right. exact Hin.
        * apply (dependent_mono q names); [exact D|]. intros i Hi'. cbn [map app] in Hi'.
          destruct Hi' as [<-|Hi']; [left; reflexivity|]. right. apply in_app_or in Hi'. destruct Hi' as [Hi'|Hi'].
          -- apply Hr. apply in_map_iff in Hi'. destruct Hi' as [a [<- Ha]]. apply in_map.
             apply (Permutation_in a (Permutation_sym Hp)). apply in_or_app. left. exact Ha.
          -- apply Hnm. exact Hi'.
        * exact Ht.
  Qed.

  Lemma NoDup_app_disjoint {B} (l1 l2 : list B) x : NoDup (l1 ++ l2) -> In x l1 -> ~ In x l2.
  Proof.
    induction l1 as [|a l1 IH]; cbn [app]; intros Hnd Hin; [contradiction|].
    inversion Hnd as [|? ? Ha Hnd']; subst. destruct Hin as [->|Hin].
    - intro H2. apply Ha. apply in_or_app. right. exact H2.
    - apply IH; assumption.
  Qed.

  Lemma NoDup_app_tail {B} (l1 l2 : list B) : NoDup (l1 ++ l2) -> NoDup l2.
  Proof. induction l1 as [|a l1 IH]; cbn [app]; intros H; [exact H|]. inversion H; subst. apply IH. assumption. Qed.

  Lemma topo_app : forall e later out', topo_from e later -> incl (map lhs_of out') later -> topo_from out' [] ->
    topo_from (e ++ out') [].
  Proof.
    induction e as [|q r IH]; intros later out' Ht Hinc Ho; cbn [app]; [exact Ho|].
    cbn [topo_from] in Ht. destruct Ht as [Hd Ht]. cbn [topo_from]. split; [|apply (IH later); assumption].
    apply (dependent_mono q (map lhs_of (q :: r) ++ later)); [exact Hd|].
    intros i Hi. rewrite app_nil_r in Hi. cbn [map] in Hi. destruct Hi as [<-|Hi]; [left; reflexivity|]. right.
    rewrite map_app in Hi. apply in_app_or in Hi. cbn [map]. destruct Hi as [Hi|Hi].
    - right. apply in_or_app. left. exact Hi.
    - right. apply in_or_app. right. apply Hinc. exact Hi.
  Qed.

  Theorem sort_spec : forall fuel rem out, srt fuel rem = (out, true) -> NoDup (map lhs_of rem) ->
    Permutation rem out /\ topo_from out [].
  Proof.
    induction fuel as [|f IH]; intros rem out H Hnd; destruct rem as [|a r].
    - inversion H. split; constructor.
    - inversion H.
    - inversion H. split; constructor.
    - unfold srt in H. cbn [sort_updates] in H. fold srt in H. fold pass in H.
      destruct (pass (a :: r) (map lhs_of (a :: r))) as [[e s] nm] eqn:P.
      destruct (List.length s =? List.length (a :: r))%nat; [inversion H|].
      destruct (srt f s) as [out' ok] eqn:S. inversion H; subst out ok.
      destruct (pass_spec _ _ _ _ _ P Hnd (incl_refl _)) as (Hp & Hi & Hk & Ht).
      assert (Hnd2 : NoDup (map lhs_of e ++ map lhs_of s)).
      { rewrite <- map_app. apply (Permutation_NoDup (Permutation_map lhs_of Hp)). exact Hnd. }
      destruct (IH s out' S (NoDup_app_tail _ _ Hnd2)) as (Hp' & Ht').
      split.
      + etransitivity; [exact Hp|]. apply Permutation_app_head. exact Hp'.
      + apply (topo_app e nm); [exact Ht | | exact Ht'].
        intros x Hx. assert (Hxs : In x (map lhs_of s)).
        { apply (Permutation_in x (Permutation_map lhs_of (Permutation_sym Hp'))). exact Hx. }
        apply Hk.
        * apply (Permutation_in x (Permutation_map lhs_of (Permutation_sym Hp))). rewrite map_app. apply in_or_app. right. exact Hxs.
        * intro Hxe. exact (NoDup_app_disjoint _ _ x Hnd2 Hxe Hxs).
  Qed.
End SortProofs.

Lemma run_unassigned : forall prog env x, ~ In x (map fst prog) -> run_assigns prog env x = env x.
Proof.
  induction prog as [|[y e] r IH]; intros env x Hn; cbn [run_assigns]; [reflexivity|].
  cbn [map fst] in Hn. rewrite IH by (intro H; apply Hn; right; exact H).
  unfold set_env. destruct (String.eqb x y) eqn:E; [|reflexivity].
  apply String.eqb_eq in E. subst. exfalso. apply Hn. left. reflexivity.
Qed.

Definition adeps (p : assign) : list string := fv (snd p).

Theorem run_solves : forall prog env, NoDup (map fst prog) ->
  (forall p, In p prog -> ~ In (fst p) (fv (snd p))) ->
  topo_from assign fst adeps prog [] ->
  forall p, In p prog -> run_assigns prog env (fst p) = eval (run_assigns prog env) (snd p).
Proof.
  induction prog as [|[x e] r IH]; intros env Hnd Hself Ht p Hp; [contradiction|].
  cbn [map fst] in Hnd. inversion Hnd as [|? ? Hx Hnd']; subst.
  cbn [topo_from] in Ht. destruct Ht as [Hd Ht]. cbn [run_assigns].
  destruct Hp as [<-|Hp].
  - cbn [fst snd].
    assert (Hfree : forall y, In y (fv e) -> ~ In y (x :: map fst r)).
    { intros y Hy Hin. apply not_true_iff_false in Hd. apply Hd. unfold dependent.
      apply existsb_exists. exists y. split; [exact Hy|]. apply andb_true_iff. split.
      - apply memb_In. rewrite app_nil_r. exact Hin.
      - apply negb_true_iff. cbn [fst]. destruct (String.eqb y x) eqn:E; [|reflexivity].
        apply String.eqb_eq in E. subst. exfalso. apply (Hself (x, e)); [left; reflexivity | exact Hy]. }
    rewrite run_unassigned by exact Hx. unfold set_env at 1. rewrite String.eqb_refl.
    apply eval_ext_fv. intros y Hy. rewrite run_unassigned by (intro H; apply (Hfree y Hy); right; exact H).
    unfold set_env. destruct (String.eqb y x) eqn:E; [|reflexivity].
    apply String.eqb_eq in E. subst. exfalso. apply (Hfree x Hy). left. reflexivity.
  - apply IH; auto. intros p' Hp'. apply Hself. right. exact Hp'.
Qed.

(* the order chosen by _sort_var_updates solves the algebraic equations: after running the sorted assignments, every
   assigned variable equals its defining expression evaluated in the final memory, and nothing else was touched *)
Theorem sorted_run_solves : forall prog out env, sort_assigns prog = (out, true) -> NoDup (map fst prog) ->
  (forall p, In p prog -> ~ In (fst p) (fv (snd p))) ->
  Permutation prog out /\
  (forall p, In p prog -> run_assigns out env (fst p) = eval (run_assigns out env) (snd p)) /\
  (forall x, ~ In x (map fst prog) -> run_assigns out env x = env x).
Proof.
  intros prog out env Hs Hnd Hself. unfold sort_assigns in Hs.
  destruct (sort_spec assign fst adeps _ _ _ Hs Hnd) as [Hp Ht]. split; [exact Hp|]. split.
  - intros p Hin. apply run_solves.
    + apply (Permutation_NoDup (Permutation_map fst Hp)). exact Hnd.
    + intros p' Hp'. apply Hself. apply (Permutation_in p' (Permutation_sym Hp)). exact Hp'.
    + exact Ht.
    + apply (Permutation_in p Hp). exact Hin.
  - intros x Hx. apply run_unassigned. intro H. apply Hx.
    apply (Permutation_in x (Permutation_map fst (Permutation_sym Hp))). exact H.
Qed.

(* non-vacuity of the sort: declaration order r = 2*m ; m = k + a ; z = r*m  is reordered to m, r, z *)
Example sort_example :
  map fst (fst (sort_assigns [("r", EMul (ECst (Q2Qc 2)) (EVar "m")); ("z", EMul (EVar "r") (EVar "m"));
                              ("m", EAdd (EVar "k") (EVar "a"))]%string)) = ["m"; "r"; "z"]%string
  /\ snd (sort_assigns [("r", EMul (ECst (Q2Qc 2)) (EVar "m")); ("z", EMul (EVar "r") (EVar "m"));
                        ("m", EAdd (EVar "k") (EVar "a"))]%string) = true
  /\ snd (sort_assigns [("r", EVar "m"); ("m", EVar "r")]%string) = false.
Proof. vm_compute. repeat split; reflexivity. Qed.

(* ============================================================================================ J. uniqueness *)
(* Any memory that satisfies the equations simultaneously agrees with the recursive denotation wherever the latter is
   defined (for well-formed = acyclic systems: everywhere).  Hence the memory left by the sorted run IS the recursive
   meaning (flat level: sorted_run_is_den), and any simultaneous solution of a network's equations IS Net.value. *)
Definition ext_le {K} (f g : K -> option Qc) : Prop := forall k w, f k = Some w -> g k = Some w.

Lemma eval_mono env1 env2 e v : ext_le env1 env2 -> eval env1 e = Some v -> eval env2 e = Some v.
Proof.
  intros Hle. revert v. induction e; intros v H; cbn [eval] in *; auto.
  - destruct (eval env1 e1) as [a|]; [|discriminate]. destruct (eval env1 e2) as [b|]; [|discriminate].
    rewrite (IHe1 a eq_refl), (IHe2 b eq_refl). exact H.
  - destruct (eval env1 e1) as [a|]; [|discriminate]. destruct (eval env1 e2) as [b|]; [|discriminate].
    rewrite (IHe1 a eq_refl), (IHe2 b eq_refl). exact H.
  - destruct (eval env1 e1) as [a|]; [|discriminate]. destruct (eval env1 e2) as [b|]; [|discriminate].
    rewrite (IHe1 a eq_refl), (IHe2 b eq_refl). exact H.
  - destruct (eval env1 e) as [a|]; [|discriminate]. rewrite (IHe a eq_refl). exact H.
  - destruct (eval env1 e) as [a|]; [|discriminate]. rewrite (IHe a eq_refl). exact H.
Qed.

Lemma find_assign_In prog x p : find (fun p : assign => String.eqb (fst p) x) prog = Some p -> In p prog /\ fst p = x.
Proof. intros H. apply find_some in H. destruct H as [Hin He]. apply String.eqb_eq in He. auto. Qed.
Lemma find_assign_None prog x : find (fun p : assign => String.eqb (fst p) x) prog = None -> ~ In x (map fst prog).
Proof.
  intros H Hin. apply in_map_iff in Hin. destruct Hin as [p [Hf Hp]].
  pose proof (find_none _ _ H p Hp) as Hn. cbn in Hn. rewrite Hf, String.eqb_refl in Hn. discriminate.
Qed.

(* flat level: every solution of the assignments over the base memory extends the recursive denotation *)
Theorem solution_extends_den : forall prog env M,
  (forall p, In p prog -> M (fst p) = eval M (snd p)) -> (forall x, ~ In x (map fst prog) -> M x = env x) ->
  forall fuel, ext_le (den_assigns prog env fuel) M.
Proof.
  intros prog env M Hsol Hbase. induction fuel as [|f IH]; intros x w H; cbn [den_assigns] in H; [discriminate|].
  destruct (find (fun p : assign => String.eqb (fst p) x) prog) as [p|] eqn:F.
  - destruct (find_assign_In _ _ _ F) as [Hin <-]. rewrite (Hsol p Hin). apply (eval_mono _ _ _ _ IH). exact H.
  - rewrite (Hbase x (find_assign_None _ _ F)). exact H.
Qed.

(* the memory left by running the assignments in the order chosen by _sort_var_updates IS the recursive meaning *)
Theorem sorted_run_is_den : forall prog out env, sort_assigns prog = (out, true) -> NoDup (map fst prog) ->
  (forall p, In p prog -> ~ In (fst p) (fv (snd p))) ->
  forall fuel x w, den_assigns prog env fuel x = Some w -> run_assigns out env x = Some w.
Proof.
  intros prog out env Hs Hnd Hself fuel.
  destruct (sorted_run_solves prog out env Hs Hnd Hself) as (_ & Hsol & Hbase).
  exact (solution_extends_den prog env (run_assigns out env) Hsol Hbase fuel).
Qed.

(* network level *)
Lemma osum_map_mono {B} (f1 f2 : B -> option Qc) l w :
  (forall a u, f1 a = Some u -> f2 a = Some u) -> osum (map f1 l) = Some w -> osum (map f2 l) = Some w.
Proof.
  intros Hle. revert w. induction l as [|a l IH]; intros w H; cbn [map osum] in *; [exact H|].
  destruct (f1 a) as [u|] eqn:E; [|discriminate]. destruct (osum (map f1 l)) as [r|]; [|discriminate].
  rewrite (Hle a u E), (IH r eq_refl). exact H.
Qed.

Lemma input_spec_mono n pa sv1 sv2 v p w : ext_le sv1 sv2 ->
  input_spec n pa sv1 v p = Some w -> input_spec n pa sv2 v p = Some w.
Proof.
  intros Hle. unfold input_spec.
  assert (Hgen : forall es : list edge,
     olift2 Qcplus (osum (map sv1 p)) (osum (map (fun e => oscale (ew e) (sv1 (esrc e))) es)) = Some w ->
     olift2 Qcplus (osum (map sv2 p)) (osum (map (fun e => oscale (ew e) (sv2 (esrc e))) es)) = Some w).
  { intros es H. destruct (osum (map sv1 p)) as [a|] eqn:E1; [|discriminate].
    destruct (osum (map (fun e => oscale (ew e) (sv1 (esrc e))) es)) as [b|] eqn:E2; [|discriminate].
    rewrite (osum_map_mono sv1 sv2 p a Hle E1).
    rewrite (osum_map_mono (fun e => oscale (ew e) (sv1 (esrc e))) (fun e => oscale (ew e) (sv2 (esrc e))) es b); [exact H | | exact E2].
    intros e u Hu. unfold oscale in *. destruct (sv1 (esrc e)) as [s|] eqn:Es; [|discriminate].
    rewrite (Hle _ _ Es). exact Hu. }
  destruct p as [|p0 p]; [destruct (in_edges n v) as [|e es]|]; auto.
Qed.

(* every memory that satisfies all equations of the network simultaneously IS Net.value wherever value is defined
   (for well-formed networks Net.wf demands that value is defined on every variable) *)
Theorem solution_extends_value : forall n st pa M, solves n st pa M ->
  forall fuel, ext_le (value_with n st pa (input_spec n pa) fuel) M.
Proof.
  intros n st pa M Hsol. induction fuel as [|f IH]; intros v w H; cbn [value_with] in H; [discriminate|].
  pose proof (Hsol v) as Hv. destruct (lookup n v) as [[[ops op] d]|]; [|discriminate].
  destruct v as [[nd o] x]. destruct (vk d).
  - rewrite Hv. exact H.
  - rewrite Hv. exact H.
  - rewrite Hv. apply (input_spec_mono n pa _ M _ _ w IH). exact H.
  - destruct (find_eq op x false) as [q|] eqn:F; cbn [obind] in H; [|discriminate].
    rewrite (Hv q eq_refl). apply (eval_mono (fun y => value_with n st pa (input_spec n pa) f (nd, o, y))); [|exact H].
    intros y u Hy. apply IH. exact Hy.
Qed.

Corollary solution_is_value : forall n st pa M, solves n st pa M ->
  forall v w, value n st pa v = Some w -> M v = Some w.
Proof. intros n st pa M Hsol v w. apply (solution_extends_value n st pa M Hsol). Qed.

(* ============================================================================================ K. name-clash repairs *)
(* once both name-clash repairs are in the code (model switches fixed_D22, fixed_D22b) the guard of C01_full holds of
   every network: C01_full is then unconditional (proved generically in the switches, not by computation) *)
Lemma guard_when_names_fixed : fixed_D22 = true -> fixed_D22b = true -> forall n, guard n = true.
Proof.
  intros H1 H2 n. unfold guard, guard_names, guard_labels. rewrite H1, H2. reflexivity.
Qed.
