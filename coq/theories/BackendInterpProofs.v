(* BackendInterpProofs.v — the torch and Fortran interpolation helpers (as coded now) equal numpy `interp`
   on every strictly increasing grid; characterisation of the specification. *)
From Coq Require Import List ZArith QArith Qcanon Lia Bool Arith.
From PV Require Import History BackendInterp.
Import ListNotations.
Open Scope Qc_scope.

(* ---------- comparisons ---------- *)
Lemma qle_t a b : Qcleb a b = true <-> a <= b.
Proof. unfold Qcleb, Qcle. apply Qle_bool_iff. Qed.
Lemma qle_f a b : Qcleb a b = false <-> b < a.
Proof.
  split; intro H.
  - destruct (Qclt_le_dec b a) as [Hlt|Hle]; [exact Hlt|]. apply qle_t in Hle. congruence.
  - destruct (Qcleb a b) eqn:E; [|reflexivity]. apply qle_t in E. exfalso. eapply Qclt_not_le; eauto.
Qed.
Lemma qlt_t a b : Qcltb a b = true <-> a < b.
Proof. unfold Qcltb. rewrite negb_true_iff. apply (qle_f b a). Qed.
Lemma qlt_f a b : Qcltb a b = false <-> b <= a.
Proof. unfold Qcltb. rewrite negb_false_iff. apply (qle_t b a). Qed.

Lemma increasingb_ok l : increasingb l = true <-> increasing l.
Proof.
  induction l as [|x l IH]; cbn [increasingb increasing]; [tauto|].
  rewrite andb_true_iff, IH. destruct l as [|y l]; [tauto|]. now rewrite qlt_t.
Qed.

(* ---------- order facts in Qc ---------- *)
Lemma qinv_pos b : 0 < b -> 0 < / b.
Proof.
  intros H. unfold Qclt in *. cbn in *. rewrite Qred_correct. apply Qinv_lt_0_compat. exact H.
Qed.
Lemma qplus_lt_r a b c : a < b -> a + c < b + c.
Proof.
  unfold Qclt. intros H. unfold Qcplus, Q2Qc. cbn [this].
  eapply Qle_lt_trans; [apply Qle_lteq; right; apply Qred_correct|].
  eapply Qlt_le_trans; [|apply Qle_lteq; right; symmetry; apply Qred_correct].
  now apply Qplus_lt_l.
Qed.
Lemma qsub_pos a b : a < b -> 0 < b - a.
Proof. intros H. apply (qplus_lt_r a b (- a)) in H. now replace (a + - a) with 0 in H by ring. Qed.
Lemma qsub_nonneg a b : a <= b -> 0 <= b - a.
Proof. intros H. apply (Qcplus_le_compat a b (- a) (- a)) in H; [|apply Qcle_refl]. now replace (a + - a) with 0 in H by ring. Qed.
Lemma qsub_nonpos a b : b <= a -> b - a <= 0.
Proof. intros H. apply (Qcplus_le_compat b a (- a) (- a)) in H; [|apply Qcle_refl]. now replace (a + - a) with 0 in H by ring. Qed.
Lemma qdiv_nonneg a b : 0 <= a -> 0 < b -> 0 <= a / b.
Proof.
  intros Ha Hb. unfold Qcdiv.
  assert (H : 0 * / b <= a * / b) by (apply Qcmult_le_compat_r; [exact Ha|apply Qclt_le_weak, qinv_pos, Hb]).
  now replace (0 * / b) with 0 in H by ring.
Qed.
Lemma qdiv_nonpos a b : a <= 0 -> 0 < b -> a / b <= 0.
Proof.
  intros Ha Hb. unfold Qcdiv.
  assert (H : a * / b <= 0 * / b) by (apply Qcmult_le_compat_r; [exact Ha|apply Qclt_le_weak, qinv_pos, Hb]).
  now replace (0 * / b) with 0 in H by ring.
Qed.
Lemma qmul_inv b : 0 < b -> b * / b = 1.
Proof. intros Hb. apply Qcmult_inv_r. intro E. rewrite E in Hb. now apply Qclt_not_eq in Hb. Qed.
Lemma qdiv_lt1 a b : a < b -> 0 < b -> a / b < 1.
Proof.
  intros Ha Hb. unfold Qcdiv.
  assert (H : a * / b < b * / b) by (apply Qcmult_lt_compat_r; [apply qinv_pos, Hb|exact Ha]).
  now rewrite (qmul_inv b Hb) in H.
Qed.
Lemma qdiv_ge1 a b : b <= a -> 0 < b -> 1 <= a / b.
Proof.
  intros Ha Hb. unfold Qcdiv.
  assert (H : b * / b <= a * / b) by (apply Qcmult_le_compat_r; [exact Ha|apply Qclt_le_weak, qinv_pos, Hb]).
  now rewrite (qmul_inv b Hb) in H.
Qed.

Lemma qmaxb_l v lo : lo <= v -> Qcmaxb v lo = v.
Proof.
  intros H. unfold Qcmaxb. destruct (Qcleb v lo) eqn:E; [|reflexivity]. apply qle_t in E. now apply Qcle_antisym.
Qed.
Lemma qmaxb_r v lo : v <= lo -> Qcmaxb v lo = lo.
Proof. intros H. unfold Qcmaxb. apply qle_t in H. now rewrite H. Qed.
Lemma qminb_l v hi : v <= hi -> Qcminb v hi = v.
Proof. intros H. unfold Qcminb. apply qle_t in H. now rewrite H. Qed.
Lemma qminb_r v hi : hi <= v -> Qcminb v hi = hi.
Proof.
  intros H. unfold Qcminb. destruct (Qcleb v hi) eqn:E; [|reflexivity]. apply qle_t in E. now apply Qcle_antisym.
Qed.
Lemma q01 : 0 <= 1. Proof. apply qle_t. reflexivity. Qed.

Lemma clamp_q_inside v : 0 <= v -> v < 1 -> clamp_q v 0 1 = v.
Proof. intros H0 H1. unfold clamp_q. rewrite qmaxb_l by exact H0. apply qminb_l. now apply Qclt_le_weak. Qed.
Lemma clamp_q_low v : v <= 0 -> clamp_q v 0 1 = 0.
Proof. intros H. unfold clamp_q. rewrite qmaxb_r by exact H. apply qminb_l. exact q01. Qed.
Lemma clamp_q_high v : 1 <= v -> clamp_q v 0 1 = 1.
Proof.
  intros H. unfold clamp_q. rewrite qmaxb_l by (eapply Qcle_trans; [exact q01|exact H]). now apply qminb_r.
Qed.

(* ---------- increasing grids ---------- *)
Lemma increasing_tail x l : increasing (x :: l) -> increasing l.
Proof. cbn [increasing]. tauto. Qed.

Lemma increasing_hd_le : forall l x i, increasing (x :: l) -> (i <= length l)%nat -> x <= nth i (x :: l) 0.
Proof.
  induction l as [|y l IH]; intros x i H Hi.
  - cbn in Hi. replace i with O by lia. apply Qcle_refl.
  - destruct i as [|i]; [apply Qcle_refl|].
    change (nth (S i) (x :: y :: l) 0) with (nth i (y :: l) 0).
    destruct H as [Hxy H']. eapply Qcle_trans; [apply Qclt_le_weak, Hxy|]. apply IH; [exact H'|cbn in Hi; lia].
Qed.

Lemma increasing_hd_lt : forall l x i, increasing (x :: l) -> (0 < i <= length l)%nat -> x < nth i (x :: l) 0.
Proof.
  intros l x i H Hi. destruct i as [|i]; [lia|]. destruct l as [|y l]; [cbn in Hi; lia|].
  change (nth (S i) (x :: y :: l) 0) with (nth i (y :: l) 0).
  destruct H as [Hxy H']. eapply Qclt_le_trans; [exact Hxy|]. apply increasing_hd_le; [exact H'|cbn in Hi; lia].
Qed.

Lemma increasing_step : forall l i, increasing l -> (S i < length l)%nat -> nth i l 0 < nth (S i) l 0.
Proof.
  induction l as [|x l IH]; intros i H Hi; [cbn in Hi; lia|].
  destruct i as [|i].
  - destruct l as [|y l]; [cbn in Hi; lia|]. exact (proj1 H).
  - change (nth (S i) (x :: l) 0) with (nth i l 0). change (nth (S (S i)) (x :: l) 0) with (nth (S i) l 0).
    apply IH; [eapply increasing_tail; eauto|cbn in Hi; lia].
Qed.

(* ---------- the specification in index form ---------- *)
Lemma from_between : forall xs ys xa ya i q, length xs = length ys -> increasing (xa :: xs) -> (i < length xs)%nat ->
  nth i (xa :: xs) 0 <= q -> q < nth i xs 0 ->
  interp_from xa ya (combine xs ys) q = lerp1 (nth i (xa :: xs) 0) (nth i (ya :: ys) 0) (nth i xs 0) (nth i ys 0) q.
Proof.
  induction xs as [|x xs IH]; intros ys xa ya i q HL HI Hi Hlo Hhi; [cbn in Hi; lia|].
  destruct ys as [|y ys]; [cbn in HL; lia|]. cbn [combine interp_from].
  destruct i as [|i].
  - cbn [nth] in *. apply qlt_t in Hhi. rewrite Hhi. reflexivity.
  - change (nth (S i) (xa :: x :: xs) 0) with (nth i (x :: xs) 0) in *.
    change (nth (S i) (ya :: y :: ys) 0) with (nth i (y :: ys) 0).
    change (nth (S i) (x :: xs) 0) with (nth i xs 0) in *. change (nth (S i) (y :: ys) 0) with (nth i ys 0).
    assert (Hx : x <= q).
    { eapply Qcle_trans; [|exact Hlo]. apply increasing_hd_le; [eapply increasing_tail; eauto|cbn in Hi; lia]. }
    apply qlt_f in Hx. rewrite Hx. apply IH; [cbn in HL; lia|eapply increasing_tail; eauto|cbn in Hi; lia|exact Hlo|exact Hhi].
Qed.

Lemma from_right : forall xs ys xa ya q, length xs = length ys -> increasing (xa :: xs) ->
  nth (length xs) (xa :: xs) 0 <= q -> interp_from xa ya (combine xs ys) q = nth (length xs) (ya :: ys) 0.
Proof.
  induction xs as [|x xs IH]; intros ys xa ya q HL HI Hq; destruct ys as [|y ys]; try (cbn in HL; lia); [reflexivity|].
  cbn [combine interp_from length]. cbn [length] in Hq.
  change (nth (S (length xs)) (xa :: x :: xs) 0) with (nth (length xs) (x :: xs) 0) in *.
  change (nth (S (length xs)) (ya :: y :: ys) 0) with (nth (length xs) (y :: ys) 0).
  assert (Hx : x <= q).
  { eapply Qcle_trans; [|exact Hq]. apply increasing_hd_le; [eapply increasing_tail; eauto|lia]. }
  apply qlt_f in Hx. rewrite Hx. apply IH; [cbn in HL; lia|eapply increasing_tail; eauto|exact Hq].
Qed.

(* left of (or at) the first grid point: the first value *)
Lemma interp_np_left xs ys q : length xs = length ys -> xs <> [] -> q <= nth 0 xs 0 -> interp_np xs ys q = nth 0 ys 0.
Proof.
  intros HL Hne Hq. destruct xs as [|x xs]; [congruence|]. destruct ys as [|y ys]; [cbn in HL; lia|].
  unfold interp_np. cbn [combine nth] in *. apply qle_t in Hq. rewrite Hq. reflexivity.
Qed.

(* right of (or at) the last grid point: the last value *)
Lemma interp_np_right xs ys q : length xs = length ys -> xs <> [] -> increasing xs ->
  nth (length xs - 1) xs 0 <= q -> interp_np xs ys q = nth (length xs - 1) ys 0.
Proof.
  intros HL Hne HI Hq. destruct xs as [|x xs]; [congruence|]. destruct ys as [|y ys]; [cbn in HL; lia|].
  unfold interp_np. cbn [combine length] in *. replace (S (length xs) - 1)%nat with (length xs) in * by lia.
  destruct (Qcleb q x) eqn:E.
  - apply qle_t in E. destruct xs as [|x1 xs]; [reflexivity|]. exfalso.
    assert (x < nth (length (x1 :: xs)) (x :: x1 :: xs) 0) by (apply increasing_hd_lt; [exact HI|cbn; lia]).
    eapply Qclt_not_le; [exact H|]. eapply Qcle_trans; eauto.
  - apply from_right; [cbn in HL; lia|exact HI|exact Hq].
Qed.

(* between two neighbouring grid points: the straight line through them *)
Lemma interp_np_between xs ys q i : length xs = length ys -> increasing xs -> (S i < length xs)%nat ->
  nth i xs 0 <= q -> q < nth (S i) xs 0 ->
  interp_np xs ys q = lerp1 (nth i xs 0) (nth i ys 0) (nth (S i) xs 0) (nth (S i) ys 0) q.
Proof.
  intros HL HI Hi Hlo Hhi. destruct xs as [|x xs]; [cbn in Hi; lia|]. destruct ys as [|y ys]; [cbn in HL; lia|].
  unfold interp_np. cbn [combine].
  change (nth (S i) (x :: xs) 0) with (nth i xs 0) in *. change (nth (S i) (y :: ys) 0) with (nth i ys 0).
  destruct (Qcleb q x) eqn:E.
  - apply qle_t in E.
    assert (Hx : x <= nth i (x :: xs) 0) by (apply increasing_hd_le; [exact HI|cbn in Hi; lia]).
    assert (Hqx : q = x) by (apply Qcle_antisym; [exact E|eapply Qcle_trans; eauto]).
    destruct i as [|i].
    + cbn [nth] in *. subst q. unfold lerp1, Qcdiv. ring.
    + exfalso. assert (x < nth (S i) (x :: xs) 0) by (apply increasing_hd_lt; [exact HI|cbn in Hi; lia]).
      eapply Qclt_not_le; [exact H|]. rewrite <- Hqx. exact Hlo.
  - apply from_between; [cbn in HL; lia|exact HI|cbn in Hi; lia|exact Hlo|exact Hhi].
Qed.

(* the value at a grid point is the sample *)
Lemma interp_np_at_grid xs ys i : length xs = length ys -> increasing xs -> (i < length xs)%nat ->
  interp_np xs ys (nth i xs 0) = nth i ys 0.
Proof.
  intros HL HI Hi. destruct (Nat.eq_dec (S i) (length xs)) as [E|E].
  - replace i with (length xs - 1)%nat by lia. apply interp_np_right; try assumption.
    + intro H. subst. cbn in Hi. lia.
    + apply Qcle_refl.
  - rewrite (interp_np_between xs ys _ i); try assumption; try lia.
    + unfold lerp1, Qcdiv. ring.
    + apply Qcle_refl.
    + apply increasing_step; [assumption|lia].
Qed.

(* ---------- searchsorted / the Fortran search loop ---------- *)
Lemma ss_spec : forall xs q, let k := searchsorted_right xs q in
  (k <= length xs)%nat /\ (forall j, (j < k)%nat -> nth j xs 0 <= q) /\ ((k < length xs)%nat -> q < nth k xs 0).
Proof.
  induction xs as [|x xs IH]; intros q; cbn [searchsorted_right length].
  - split; [lia|]. split; intros; lia.
  - destruct (Qcleb x q) eqn:E.
    + destruct (IH q) as (A & B & C). split; [lia|]. split.
      * intros [|j] Hj; [apply qle_t, E|]. cbn [nth]. apply B. lia.
      * intros Hk. cbn [nth]. apply C. lia.
    + split; [lia|]. split; [intros; lia|]. intros _. cbn [nth]. apply qle_f, E.
Qed.

Lemma first_gt_ss : forall xs q c, first_gt xs q c = (c + searchsorted_right xs q)%nat.
Proof.
  induction xs as [|x xs IH]; intros q c; cbn [first_gt searchsorted_right]; [lia|].
  unfold Qcltb. destruct (Qle_bool x q) eqn:E; fold (Qcleb x q) in E; rewrite E; cbn [negb].
  - rewrite IH. lia.
  - lia.
Qed.

(* ---------- torch ---------- *)
Theorem interp_torch_eq_np xs ys q : increasing xs -> length xs = length ys -> (2 <= length xs)%nat ->
  interp_torch xs ys q = interp_np xs ys q.
Proof.
  intros HI HL Hn. unfold interp_torch.
  destruct (ss_spec xs q) as (Hk & Hlow & Hhigh). set (k := searchsorted_right xs q) in *.
  set (n := length xs) in *. unfold clamp_nat.
  destruct (Nat.eq_dec k 0) as [K0|K0].
  - (* left of the grid *)
    replace (Nat.min (Nat.max k 1) (n - 1)) with 1%nat by lia. cbn [Nat.sub].
    assert (Hq : q < nth 0 xs 0) by (rewrite K0 in Hhigh; apply Hhigh; lia).
    assert (H01 : nth 0 xs 0 < nth 1 xs 0) by (apply increasing_step; [assumption|fold n; lia]).
    rewrite clamp_q_low.
    + rewrite interp_np_left; [ring|assumption|intro E; subst xs; cbn in n; lia|apply Qclt_le_weak, Hq].
    + apply qdiv_nonpos; [apply qsub_nonpos, Qclt_le_weak, Hq|apply qsub_pos, H01].
  - destruct (Nat.eq_dec k n) as [Kn|Kn].
    + (* right of the grid *)
      replace (Nat.min (Nat.max k 1) (n - 1)) with (n - 1)%nat by lia.
      assert (Hq : nth (n - 1) xs 0 <= q) by (apply Hlow; lia).
      assert (Hs : nth (n - 1 - 1) xs 0 < nth (n - 1) xs 0).
      { replace (n - 1)%nat with (S (n - 1 - 1)) at 2 by lia. apply increasing_step; [assumption|fold n; lia]. }
      rewrite clamp_q_high.
      * rewrite interp_np_right; [fold n; ring|assumption|intro E; subst xs; cbn in n; lia|assumption|exact Hq].
      * apply qdiv_ge1; [|apply qsub_pos, Hs].
        apply (Qcplus_le_compat _ _ (- nth (n - 1 - 1) xs 0) (- nth (n - 1 - 1) xs 0)) in Hq; [exact Hq|apply Qcle_refl].
    + (* inside *)
      replace (Nat.min (Nat.max k 1) (n - 1)) with k by lia.
      assert (Hlo : nth (k - 1) xs 0 <= q) by (apply Hlow; lia).
      assert (Hhi : q < nth k xs 0) by (apply Hhigh; lia).
      assert (Hs : nth (k - 1) xs 0 < nth k xs 0) by (eapply Qcle_lt_trans; eauto).
      rewrite clamp_q_inside.
      * rewrite (interp_np_between xs ys q (k - 1)); try assumption.
        -- replace (S (k - 1)) with k by lia. reflexivity.
        -- fold n. lia.
        -- replace (S (k - 1)) with k by lia. exact Hhi.
      * apply qdiv_nonneg; [apply qsub_nonneg, Hlo|apply qsub_pos, Hs].
      * apply qdiv_lt1; [|apply qsub_pos, Hs].
        apply (qplus_lt_r _ _ (- nth (k - 1) xs 0)) in Hhi. exact Hhi.
Qed.

(* ---------- Fortran ---------- *)
Theorem interp_fortran_eq_np xs ys q : increasing xs -> length xs = length ys -> (1 <= length xs)%nat ->
  interp_fortran xs ys q = interp_np xs ys q.
Proof.
  intros HI HL Hn. unfold interp_fortran, at1. set (n := length xs) in *.
  assert (Hne : xs <> []) by (intro E; subst xs; cbn in n; lia).
  cbn [Nat.sub].
  destruct (Qcltb q (nth 0 xs 0)) eqn:E1.
  - apply qlt_t in E1. symmetry. apply interp_np_left; [assumption|assumption|apply Qclt_le_weak, E1].
  - destruct (Qcltb (nth (n - 1) xs 0) q) eqn:E2.
    + apply qlt_t in E2. symmetry. apply interp_np_right; try assumption. apply Qclt_le_weak, E2.
    + rewrite first_gt_ss. destruct (ss_spec xs q) as (Hk & Hlow & Hhigh). set (k := searchsorted_right xs q) in *.
      fold n in Hk, Hhigh.
      destruct (Nat.eqb_spec (1 + k) 1) as [K1|K1].
      * apply qlt_f in E1. assert (k = 0)%nat by lia.
        exfalso. eapply Qclt_not_le; [|exact E1]. rewrite H in Hhigh. apply Hhigh. lia.
      * destruct (Nat.eqb_spec (1 + k) (n + 1)) as [K2|K2].
        -- symmetry. apply interp_np_right; try assumption. apply Hlow. lia.
        -- replace (1 + k - 1 - 1)%nat with (k - 1)%nat by lia. replace (1 + k - 1)%nat with k by lia.
           rewrite (interp_np_between xs ys q (k - 1)); try assumption.
           ++ replace (S (k - 1)) with k by lia. reflexivity.
           ++ fold n. lia.
           ++ apply Hlow. lia.
           ++ replace (S (k - 1)) with k by lia. apply Hhigh. lia.
Qed.

(* ---------- interp_rows ---------- *)
Lemma interp_rows_length q xs m : length (interp_rows q xs m) = ncols m.
Proof. unfold interp_rows, interp_rows_with. now rewrite map_length, seq_length. Qed.

Lemma nth_map_lt {A B} (f : A -> B) : forall l k d d', (k < length l)%nat -> nth k (map f l) d = f (nth k l d').
Proof.
  induction l as [|a l IH]; intros k d d' Hk; [cbn in Hk; lia|]. destruct k as [|k]; [reflexivity|].
  cbn [map nth]. apply IH. cbn in Hk. lia.
Qed.

Lemma interp_rows_nth q xs m k : (k < ncols m)%nat -> nth k (interp_rows q xs m) 0 = interp_np xs (column k m) q.
Proof.
  intros Hk. unfold interp_rows, interp_rows_with.
  rewrite (nth_map_lt _ _ k 0 O) by (now rewrite seq_length). now rewrite seq_nth by exact Hk.
Qed.

(* a backend whose scalar interp equals numpy's gets the same interp_rows *)
Lemma interp_rows_with_ext f g q xs m : (forall ys, f xs ys q = g xs ys q) ->
  interp_rows_with f q xs m = interp_rows_with g q xs m.
Proof. intros H. unfold interp_rows_with. apply map_ext. intros k. apply H. Qed.

Lemma nth_vlerp : forall (ra rb : row) c k, length ra = length rb -> (k < length ra)%nat ->
  nth k (vadd ra (vscale c (vsub rb ra))) 0 = nth k ra 0 + c * (nth k rb 0 - nth k ra 0).
Proof.
  induction ra as [|a ra IH]; intros rb c k HL Hk; [cbn in Hk; lia|].
  destruct rb as [|b rb]; [cbn in HL; lia|]. destruct k as [|k].
  - reflexivity.
  - unfold vadd, vsub, vscale in *. cbn [combine map nth]. apply IH; [cbn in HL; lia|cbn in Hk; lia].
Qed.

Lemma vlerp_length (ra rb : row) c : length ra = length rb -> length (vadd ra (vscale c (vsub rb ra))) = length ra.
Proof.
  intros HL. unfold vadd, vscale, vsub. rewrite map_length, combine_length, map_length, map_length, combine_length. lia.
Qed.

Lemma rows_from_nth : forall rest xa ra q w k, length ra = w -> (forall p, In p rest -> length (snd p) = w) -> (k < w)%nat ->
  nth k (interp_rows_from xa ra rest q) 0 =
  interp_from xa (nth k ra 0) (map (fun p => (fst p, nth k (snd p) 0)) rest) q /\
  length (interp_rows_from xa ra rest q) = w.
Proof.
  induction rest as [|[xb rb] rest IH]; intros xa ra q w k Hra Hrest Hk; cbn [interp_rows_from interp_from map fst snd].
  - split; [reflexivity|exact Hra].
  - assert (Hrb : length rb = w) by (apply (Hrest (xb, rb)); left; reflexivity).
    destruct (Qcltb q xb).
    + split.
      * rewrite nth_vlerp by lia. unfold lerp1. reflexivity.
      * rewrite vlerp_length by lia. exact Hra.
    + apply IH; [exact Hrb|intros p Hp; apply Hrest; now right|exact Hk].
Qed.

Lemma combine_column : forall (xs : list Qc) (m : list row) k,
  map (fun p : Qc * row => (fst p, nth k (snd p) 0)) (combine xs m) = combine xs (column k m).
Proof.
  induction xs as [|x xs IH]; intros m k; [reflexivity|]. destruct m as [|r m]; [reflexivity|].
  cbn [combine map column fst snd]. f_equal. apply IH.
Qed.

Theorem interp_rows_eq_spec q xs m w : rect w m -> length xs = length m -> m <> [] ->
  interp_rows q xs m = interp_rows_spec q xs m.
Proof.
  intros HR HL Hne. destruct m as [|r0 m]; [congruence|]. destruct xs as [|x0 xs]; [cbn in HL; lia|].
  assert (Hr0 : length r0 = w) by (apply HR; now left).
  assert (Hin : forall p, In p (combine xs m) -> length (snd p) = w).
  { intros [a b] Hp. apply in_combine_r in Hp. apply HR. now right. }
  apply (nth_ext _ _ 0 0).
  - rewrite interp_rows_length. unfold ncols, interp_rows_spec. cbn [hd combine].
    destruct (Qcleb q x0); [reflexivity|].
    destruct w as [|w'].
    + destruct r0; [|cbn in Hr0; lia]. clear - Hin.
      (* zero columns: every row is empty *)
      assert (G : forall rest xa, (forall p, In p rest -> length (snd p) = O) -> length (interp_rows_from xa [] rest q) = O).
      { induction rest as [|[xb rb] rest IH]; intros xa H; cbn [interp_rows_from]; [reflexivity|].
        assert (length rb = O) by (apply (H (xb, rb)); now left). destruct rb; [|cbn in H0; lia].
        destruct (Qcltb q xb); [reflexivity|]. apply IH. intros p Hp. apply H. now right. }
      cbn [length]. symmetry. apply G. exact Hin.
    + symmetry. rewrite Hr0. apply (proj2 (rows_from_nth (combine xs m) x0 r0 q (S w') O Hr0 Hin ltac:(lia))).
  - intros k Hk. rewrite interp_rows_length in Hk. unfold ncols in Hk. cbn [hd] in Hk.
    rewrite interp_rows_nth by (unfold ncols; cbn [hd]; exact Hk).
    unfold interp_rows_spec, interp_np. cbn [combine column map].
    destruct (Qcleb q x0); [reflexivity|].
    rewrite (proj1 (rows_from_nth (combine xs m) x0 r0 q w k Hr0 Hin ltac:(lia))).
    now rewrite combine_column.
Qed.
