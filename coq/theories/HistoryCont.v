(* HistoryCont.v — consequences of the piecewise-linear specification: continuity at the knots, no overshoot, and finality of the past. *)
From Coq Require Import List ZArith QArith Qcanon Lia Bool Arith.
From PV Require Import History HistoryProofs.
Import ListNotations.
Open Scope Qc_scope.

(* continuity of the interpolant at the knots: the segment formula of C19_between, taken at its right end, gives the
   next record (lerp_at_left gives the left end), so consecutive segments meet and no jump can be introduced there *)
Lemma lerp_at_right ta ya tb yb : ta <> tb -> length ya = length yb -> lerp ta ya tb yb tb = yb.
Proof.
  intros Hne H. unfold lerp.
  assert (Hd : (tb - ta) / (tb - ta) = 1).
  { unfold Qcdiv. apply Qcmult_inv_r. intro E. apply Hne. symmetry.
    replace tb with ((tb - ta) + ta) by ring. rewrite E. ring. }
  rewrite Hd.
  revert yb H. induction ya as [|a ya IH]; intros yb H; destruct yb as [|b yb]; cbn in H; try lia; [reflexivity|].
  cbn. f_equal; [ring|]. apply IH. lia.
Qed.

Lemma Qc_mul_nonneg x y : 0 <= x -> 0 <= y -> 0 <= x * y.
Proof. intros Hx Hy. rewrite <- (Qcmult_0_l y). apply Qcmult_le_compat_r; assumption. Qed.
Lemma Qc_sub_nonneg a b : a <= b -> 0 <= b - a.
Proof. intro H. apply Qcle_minus_iff in H. replace (b - a) with (b + - a) by ring. exact H. Qed.
Lemma Qc_le_of_sub_nonneg a b : 0 <= b - a -> a <= b.
Proof. intro H. apply Qcle_minus_iff. replace (b + - a) with (b - a) by ring. exact H. Qed.

(* every component of a segment value lies between the two neighbouring records (no overshoot) *)
Lemma lerp_component_between ta ya tb yb t k :
  ta < tb -> ta <= t -> t <= tb -> (k < length ya)%nat -> length ya = length yb ->
  let v := nth k (lerp ta ya tb yb t) 0 in
  (nth k ya 0 <= nth k yb 0 -> nth k ya 0 <= v /\ v <= nth k yb 0) /\
  (nth k yb 0 <= nth k ya 0 -> nth k yb 0 <= v /\ v <= nth k ya 0).
Proof.
  intros Hlt Ha Hb Hk Hlen. cbn zeta. unfold lerp.
  set (c := (t - ta) / (tb - ta)).
  assert (Hpos : 0 < tb - ta).
  { apply Qclt_minus_iff in Hlt. replace (tb - ta) with (tb + - ta) by ring. exact Hlt. }
  assert (Hne : ~ tb - ta = 0).
  { intro E. rewrite E in Hpos. exact (Qclt_not_le 0 0 Hpos (Qcle_refl 0)). }
  assert (Hcz : c * (tb - ta) = t - ta).
  { unfold c. rewrite Qcmult_comm. apply Qcmult_div_r. exact Hne. }
  assert (Hc0 : 0 <= c).
  { apply (Qcmult_lt_0_le_reg_r 0 c (tb - ta) Hpos). rewrite Hcz, Qcmult_0_l. apply Qc_sub_nonneg. exact Ha. }
  assert (Hc1 : 0 <= 1 - c).
  { apply Qc_sub_nonneg. apply (Qcmult_lt_0_le_reg_r c 1 (tb - ta) Hpos). rewrite Hcz, Qcmult_1_l.
    apply Qc_le_of_sub_nonneg. replace (tb - ta - (t - ta)) with (tb - t) by ring. apply Qc_sub_nonneg. exact Hb. }
  clearbody c. clear Hcz.
  revert yb k Hk Hlen. induction ya as [|a ya IH]; intros yb k Hk Hlen; cbn in Hk; [lia|].
  destruct yb as [|b yb]; cbn in Hlen; [lia|].
  destruct k as [|k].
  - cbn. clear IH.
    split; intro Hab.
    + apply Qc_sub_nonneg in Hab. split; apply Qc_le_of_sub_nonneg.
      * replace (a + c * (b - a) - a) with (c * (b - a)) by ring. apply Qc_mul_nonneg; assumption.
      * replace (b - (a + c * (b - a))) with ((1 - c) * (b - a)) by ring. apply Qc_mul_nonneg; assumption.
    + apply Qc_sub_nonneg in Hab. split; apply Qc_le_of_sub_nonneg.
      * replace (a + c * (b - a) - b) with ((1 - c) * (a - b)) by ring. apply Qc_mul_nonneg; assumption.
      * replace (a - (a + c * (b - a))) with (c * (a - b)) by ring. apply Qc_mul_nonneg; assumption.
  - cbn. apply (IH yb k); lia.
Qed.

(* the interpolant is continuous at every knot: the segment formula of interp_between, taken at the end of its
   segment, is the next record *)
Theorem interp_segment_meets_next rs i : incr (times rs) -> (S i < length rs)%nat ->
  length (nth i (values rs) []) = length (nth (S i) (values rs) []) ->
  lerp (nth i (times rs) 0) (nth i (values rs) []) (nth (S i) (times rs) 0) (nth (S i) (values rs) [])
       (nth (S i) (times rs) 0) = nth (S i) (values rs) [].
Proof.
  intros Hinc Hi Hlen. apply lerp_at_right; [|exact Hlen].
  assert (Hl : length (times rs) = length rs) by (unfold times; apply map_length).
  assert (H : nth i (times rs) 0 < nth (S i) (times rs) 0) by (apply incr_nth_lt; [exact Hinc|lia|lia]).
  intro E. rewrite E in H. exact (Qclt_not_le _ _ H (Qcle_refl _)).
Qed.

(* no overshoot: between two records every component of the query result lies between the two recorded components *)
Theorem interp_component_between rs i t k : incr (times rs) -> (S i < length rs)%nat ->
  nth i (times rs) 0 <= t -> t < nth (S i) (times rs) 0 -> hd 0 (times rs) < t ->
  length (nth i (values rs) []) = length (nth (S i) (values rs) []) -> (k < length (nth i (values rs) []))%nat ->
  let a := nth k (nth i (values rs) []) 0 in let b := nth k (nth (S i) (values rs) []) 0 in
  let v := nth k (interp rs t) 0 in
  (a <= b -> a <= v /\ v <= b) /\ (b <= a -> b <= v /\ v <= a).
Proof.
  intros Hinc Hi Hlo Hhi Hhd Hlen Hk. cbn zeta. rewrite (interp_between rs i t Hinc Hi Hlo Hhi Hhd).
  assert (Hl : length (times rs) = length rs) by (unfold times; apply map_length).
  apply lerp_component_between; try assumption.
  - apply incr_nth_lt; [exact Hinc|lia|lia].
  - apply Qclt_le_weak. exact Hhi.
Qed.

(* the past is final: records appended later never change the answer to a query that lies before the last record
   present now (what a DDE solver relies on when it reads the history while extending it). No monotonicity of the
   times and no shape condition is needed. *)
Lemma interp_from_app_stable : forall rest ext ta ya t, ta <= t -> t < last (ta :: times rest) 0 ->
  interp_from ta ya (rest ++ ext) t = interp_from ta ya rest t.
Proof.
  induction rest as [|[tb yb] rest IH]; intros ext ta ya t Hle Hlt.
  - cbn in Hlt. exfalso. exact (Qclt_not_le _ _ Hlt Hle).
  - cbn [app interp_from]. destruct (Qcltb t tb) eqn:E; [reflexivity|].
    apply Qcltb_false in E. apply IH; [exact E|].
    change (times ((tb, yb) :: rest)) with (tb :: times rest) in Hlt. exact Hlt.
Qed.

Theorem interp_past_stable rs ext t : rs <> [] -> t < last (times rs) 0 -> interp (rs ++ ext) t = interp rs t.
Proof.
  destruct rs as [|[t0 y0] rest]; intros Hne Hlt; [congruence|].
  cbn [app interp]. destruct (Qcleb t t0) eqn:E; [reflexivity|].
  apply Qcleb_false in E. apply interp_from_app_stable; [apply Qclt_le_weak; exact E|].
  change (times ((t0, y0) :: rest)) with (t0 :: times rest) in Hlt. exact Hlt.
Qed.

(* the same on whole scripts of the specification: after any further operations, a query before the last record of now is
   answered as it would have been answered now *)
Lemma arun_recs_extend : forall ops a, exists ext, recs (fst (arun a ops)) = recs a ++ ext.
Proof.
  induction ops as [|o ops IH]; intro a.
  - exists []. cbn. rewrite app_nil_r. reflexivity.
  - cbn [arun]. destruct (astep a o) as [a1 r] eqn:Es. destruct (arun a1 ops) as [a2 rs2] eqn:Er. cbn [fst].
    destruct (IH a1) as [ext Hext]. rewrite Er in Hext. cbn [fst] in Hext.
    assert (H1 : exists e1, recs a1 = recs a ++ e1).
    { unfold astep in Es. destruct o as [t y j|t].
      - destruct (bound a) as [b|].
        + destruct (b <=? length (recs a))%nat; inversion Es; subst; [exists []; rewrite app_nil_r; reflexivity | eexists; reflexivity].
        + inversion Es; subst. eexists; reflexivity.
      - inversion Es; subst. exists []. rewrite app_nil_r. reflexivity. }
    destruct H1 as [e1 H1]. exists (e1 ++ ext). rewrite Hext, H1, app_assoc. reflexivity.
Qed.

Theorem past_is_final a ops t : recs a <> [] -> t < last (times (recs a)) 0 ->
  interp (recs (fst (arun a ops))) t = interp (recs a) t.
Proof.
  intros Hne Hlt. destruct (arun_recs_extend ops a) as [ext H]. rewrite H. apply interp_past_stable; assumption.
Qed.
