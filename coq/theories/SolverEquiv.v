(* SolverEquiv.v — E2 tie for the string-level solver contract of C20 (default backend).  harness/py2v.py regenerates on every
   run, from the current text of pyrates/backend/base/base_backend.py,
     Gen_validate_solver.validate_solver : string -> option unit          (BaseBackend._validate_solver; raise = None;
                                                                           SUPPORTED_SOLVERS read from the class attribute)
     Gen_solve_dispatch.solve_dispatch   : string -> bool -> option string (the if-chain of BaseBackend._solve; the result is the
                                                                           NAME of the integrator method that runs; the bool is the
                                                                           uninterpreted test "args[0] is a DDEHistory")
   Proved for EVERY string s:
     accepted_runs_named      if the generated validation accepts s, the generated dispatch runs the integrator NAMED s
                              (`_solve_<s>`, resp. `_solve_scipy_dde` for s = "scipy" on a DDE): no accepted string falls through
                              to the last branch of the chain under another name
     gen_validate_equiv /     the hand model of Guards.v (validate_solver_str / solve_dispatch_str, backend BDefault) equals the
     gen_dispatch_equiv       generated functions
   A validation that accepts more than the dispatch distinguishes (e.g. case-insensitive membership, seeded C20-m6) changes
   the generated text and breaks these proofs. *)
From Coq Require Import ZArith List Bool String Ascii Lia.
From PV Require Import PyLib Guards.
From PVG Require Import Gen_validate_solver Gen_solve_dispatch.
Import ListNotations.

(* the integrator method that a Guards.method stands for, as the name that BaseBackend._solve calls *)
Definition called_name (m : method) (has_dde : bool) : string :=
  match m with
  | MEuler => "_solve_euler"
  | MHeun => "_solve_heun"
  | MScipy => if has_dde then "_solve_scipy_dde" else "_solve_scipy"
  | MDiffrax => "_solve_diffrax"
  end.

Lemma in_str_mem s l : py_in_str s l = Guards.mem s l.
Proof.
  unfold Guards.mem. induction l as [|x l IH]; cbn; [reflexivity|]. rewrite IH, (String.eqb_sym s x).
  destruct (String.eqb x s); reflexivity.
Qed.

Theorem gen_validate_equiv s :
  validate_solver s = if validate_solver_str BDefault (Some s) then Some tt else None.
Proof.
  unfold validate_solver, validate_solver_str. rewrite in_str_mem.
  change self_SUPPORTED_SOLVERS with (solver_names BDefault). destruct (Guards.mem s (solver_names BDefault)); reflexivity.
Qed.

Theorem gen_dispatch_equiv s has_dde :
  solve_dispatch s has_dde =
  if validate_solver_str BDefault (Some s) then Some (called_name (solve_dispatch_str BDefault (Some s)) has_dde) else None.
Proof.
  unfold solve_dispatch. rewrite gen_validate_equiv.
  destruct (validate_solver_str BDefault (Some s)); cbn [py_bind]; [|reflexivity].
  unfold solve_dispatch_str, str_is.
  destruct (String.eqb s "euler"); [reflexivity|]. destruct (String.eqb s "heun"); [reflexivity|].
  destruct has_dde; reflexivity.
Qed.

(* every accepted string runs the integrator that carries its name *)
Theorem accepted_runs_named s has_dde : validate_solver s = Some tt ->
  exists m, solve_dispatch s has_dde = Some m /\
            (m = ("_solve_" ++ s)%string \/ (s = "scipy"%string /\ has_dde = true /\ m = "_solve_scipy_dde"%string)).
Proof.
  intros H. unfold validate_solver in H.
  destruct (py_in_str s self_SUPPORTED_SOLVERS) eqn:E; [|discriminate]. clear H.
  apply py_in_str_In in E. unfold self_SUPPORTED_SOLVERS in E. cbn [In] in E.
  destruct E as [<-|[<-|[<-|[]]]]; unfold solve_dispatch; cbn; [eexists; split; [reflexivity|left; reflexivity]..|].
  destruct has_dde; eexists; (split; [reflexivity|]); [right; repeat split|left; reflexivity].
Qed.

(* the statement referenced from coq/properties/C20.v *)
Theorem solver_strings_generated : forall s has_dde,
  (validate_solver s = if validate_solver_str BDefault (Some s) then Some tt else None) /\
  (solve_dispatch s has_dde =
     if validate_solver_str BDefault (Some s) then Some (called_name (solve_dispatch_str BDefault (Some s)) has_dde) else None) /\
  (validate_solver s = Some tt ->
     exists m, solve_dispatch s has_dde = Some m /\
               (m = ("_solve_" ++ s)%string \/ (s = "scipy"%string /\ has_dde = true /\ m = "_solve_scipy_dde"%string))) /\
  (validate_solver s = None -> solve_dispatch s has_dde = None).
Proof.
  intros s d. split; [apply gen_validate_equiv|]. split; [apply gen_dispatch_equiv|]. split; [apply accepted_runs_named|].
  intros H. unfold solve_dispatch. now rewrite H.
Qed.
