(* BackendsProofs.v — index rendering commutes with the index base; shift-once bookkeeping; cshift(-k) = roll(k);
   the jax lax.scan solvers produce the rows of the Python loop; Heun: equal for autonomous right-hand sides without
   buffer aliasing, refuted otherwise. *)
From Coq Require Import List ZArith QArith Qcanon Lia Bool Arith Qround.
From PV Require Import History Backends.
Import ListNotations.
Open Scope nat_scope.

(* ================================================================================================ (i) indices *)
Lemma render_idx_commutes base i : lang_elem base (render_idx base i) = i.
Proof. unfold lang_elem, render_idx. lia. Qed.

Lemma render_range_commutes base a b : base <= 1 ->
  lang_range base (fst (render_range base a b)) (snd (render_range base a b)) = seq a (b - a).
Proof.
  intros Hb. unfold lang_range, render_range. cbn [fst snd].
  destruct (Nat.eqb_spec base 0) as [E|E].
  - subst. now rewrite Nat.add_0_r.
  - assert (base = 1) by lia. subst. f_equal; lia.
Qed.

(* a half-open 0-based range a:b and the closed 1-based range a+1:b are the same elements *)
Lemma range_base0_base1 a b :
  lang_range 0 (fst (render_range 0 a b)) (snd (render_range 0 a b)) =
  lang_range 1 (fst (render_range 1 a b)) (snd (render_range 1 a b)).
Proof. now rewrite !render_range_commutes by lia. Qed.

(* emitting `a:b` unchanged for a 1-based language is wrong as soon as the range is non-empty *)
Lemma range_without_offset_differs a b : a < b -> lang_range 1 a b <> seq a (b - a).
Proof.
  intros H. unfold lang_range. cbn [Nat.eqb]. intro E.
  assert (L : length (seq (a - 1) (b + 1 - a)) = length (seq a (b - a))) by now rewrite E.
  rewrite !seq_length in L. lia.
Qed.

Lemma process_str_range_ok start a b : process_str_range start a b = render_range start a b.
Proof. unfold process_str_range, process_int. now rewrite !Nat.add_0_r. Qed.

Lemma create_index_noapply_ok start i : create_index_noapply start i = i.
Proof. unfold create_index_noapply, process_int. lia. Qed.

(* ---------- shift-once bookkeeping ---------- *)
Lemma memb_cons i c l : memb i (c :: l) = (i =? c) || memb i l.
Proof. reflexivity. Qed.

Lemma process_vars_gen start : forall calls st id,
  vals (process_vars start st calls) id =
  (vals st id + (if negb (memb id (offsetted st)) && memb id calls then start else 0))%Z.
Proof.
  induction calls as [|c cs IH]; intros st id.
  - cbn. rewrite andb_false_r. lia.
  - unfold process_vars in *. cbn [fold_left]. rewrite IH. unfold process_var.
    destruct (Z.eqb_spec start 0) as [Z0|Z0]; cbn [negb andb].
    + subst start. destruct (negb (memb id (offsetted st)) && memb id cs); destruct (negb (memb id (offsetted st)) && memb id (c :: cs)); lia.
    + destruct (memb c (offsetted st)) eqn:Mc; cbn [negb vals offsetted].
      * rewrite memb_cons. destruct (Nat.eqb_spec id c) as [E|E]; [|reflexivity].
        subst id. rewrite Mc. cbn [negb andb]. lia.
      * rewrite !memb_cons. destruct (Nat.eqb_spec id c) as [E|E].
        -- subst id. rewrite Mc. cbn [negb andb orb]. lia.
        -- cbn [orb]. reflexivity.
Qed.

(* any sequence of _process_idx calls shifts a ComputeVar exactly once (by start), and only if it was processed *)
Theorem process_vars_once start v calls id :
  vals (process_vars start (fresh_state v) calls) id = (v id + (if memb id calls then start else 0))%Z.
Proof. rewrite process_vars_gen. reflexivity. Qed.

(* ---------- roll / cshift ---------- *)
Theorem cshift_neg_roll {A} (v : list A) (k : Z) : fortran_roll v k = roll v k.
Proof.
  unfold fortran_roll, cshift, roll, zmodn. destruct v as [|a v'] eqn:Ev.
  - now rewrite !skipn_nil, !firstn_nil.
  - rewrite <- Ev. set (n := length v). assert (Hn : 0 < n) by (unfold n; subst v; cbn; lia).
    assert (HN : (0 < Z.of_nat n)%Z) by lia.
    pose proof (Z.mod_pos_bound k (Z.of_nat n) HN) as Hr.
    destruct (Z.eq_dec (k mod Z.of_nat n) 0) as [R0|R0].
    + rewrite Z.mod_opp_l_z by lia. rewrite R0. cbn [Z.to_nat]. rewrite Nat.sub_0_r.
      unfold n. rewrite skipn_all, firstn_all. cbn [skipn firstn app]. now rewrite app_nil_r.
    + rewrite Z.mod_opp_l_nz by lia.
      replace (Z.to_nat (Z.of_nat n - k mod Z.of_nat n)) with (n - Z.to_nat (k mod Z.of_nat n)) by lia.
      reflexivity.
Qed.

Lemma nth_firstn_low {A} : forall (l : list A) k i d, i < k -> nth i (firstn k l) d = nth i l d.
Proof.
  induction l as [|x l IH]; intros k i d H; [now rewrite firstn_nil|].
  destruct k as [|k]; [lia|]. destruct i as [|i]; [reflexivity|]. cbn [firstn nth]. apply IH. lia.
Qed.
Lemma nth_skipn_add {A} : forall (l : list A) k i d, nth i (skipn k l) d = nth (k + i) l d.
Proof.
  induction l as [|x l IH]; intros k i d.
  - rewrite skipn_nil. destruct i, k; reflexivity.
  - destruct k as [|k]; [reflexivity|]. cbn [skipn Nat.add nth]. apply IH.
Qed.

(* what roll does, element by element: the entry at position i moves to position (i + k) mod n *)
Lemma roll_nth {A} (v : list A) (k : Z) (i : nat) d : i < length v ->
  nth (zmodn (Z.of_nat i + k) (length v)) (roll v k) d = nth i v d.
Proof.
  intros Hi. unfold roll, zmodn. set (n := length v) in *.
  assert (HN : (0 < Z.of_nat n)%Z) by lia.
  pose proof (Z.mod_pos_bound k (Z.of_nat n) HN) as Hr.
  set (r := Z.to_nat (k mod Z.of_nat n)). assert (Hrn : r < n) by lia.
  assert (Er : Z.of_nat r = (k mod Z.of_nat n)%Z) by lia.
  assert (M : ((Z.of_nat i + k) mod Z.of_nat n = (Z.of_nat i + Z.of_nat r) mod Z.of_nat n)%Z).
  { rewrite Er. now rewrite Zplus_mod_idemp_r. }
  rewrite M.
  destruct (Nat.lt_ge_cases (i + r) n) as [C|C].
  - (* no wrap: lands in the second part *)
    rewrite Z.mod_small by lia. replace (Z.to_nat (Z.of_nat i + Z.of_nat r)) with (i + r) by lia.
    rewrite app_nth2 by (rewrite skipn_length; fold n; lia).
    rewrite skipn_length. fold n. rewrite nth_firstn_low by lia. f_equal. lia.
  - (* wrap: lands in the first part *)
    replace ((Z.of_nat i + Z.of_nat r) mod Z.of_nat n)%Z with (Z.of_nat (i + r - n)).
    2:{ apply Z.mod_unique_pos with (q := 1%Z); lia. }
    rewrite Nat2Z.id. rewrite app_nth1 by (rewrite skipn_length; fold n; lia).
    rewrite nth_skipn_add. f_equal. lia.
Qed.

(* ================================================================================================ (iii) solvers *)
Section SolverProofs.
  Variable St : Type.
  Variable upd : Z -> St -> St.

  Lemma iter_from_add : forall a b t y,
    iter_from upd t (a + b) y = iter_from upd (t + Z.of_nat a)%Z b (iter_from upd t a y).
  Proof.
    induction a as [|a IH]; intros b t y.
    - cbn [Nat.add iter_from]. now replace (t + Z.of_nat 0)%Z with t by lia.
    - cbn [Nat.add iter_from]. rewrite IH. f_equal. lia.
  Qed.

  Lemma iter_from_S_end : forall j t y, iter_from upd t (S j) y = upd (t + Z.of_nat j)%Z (iter_from upd t j y).
  Proof.
    intros j t y. replace (S j) with (j + 1) by lia. rewrite iter_from_add. reflexivity.
  Qed.

  Lemma scan_inner_iter : forall k t y, scan_inner upd k t y = ((t + Z.of_nat k)%Z, iter_from upd t k y).
  Proof.
    induction k as [|k IH]; intros t y; cbn [scan_inner iter_from].
    - f_equal. lia.
    - rewrite IH. f_equal. lia.
  Qed.

  Lemma scan_outer_spec ss : forall m t y, scan_outer upd ss m t y = map (fun k => iter_from upd t (k * ss) y) (seq 0 m).
  Proof.
    induction m as [|m IH]; intros t y; [reflexivity|].
    cbn [scan_outer]. rewrite scan_inner_iter. rewrite IH.
    cbn [seq map Nat.mul iter_from]. f_equal.
    rewrite <- seq_shift, map_map. apply map_ext. intros k.
    replace (S k * ss) with (ss + k * ss) by lia. now rewrite iter_from_add.
  Qed.

  Theorem jax_solve_spec m ss t0 y0 : jax_solve upd m ss t0 y0 = spec_rows upd ss m t0 y0.
  Proof. apply scan_outer_spec. Qed.

  Lemma base_loop_spec ss t0 y0 : forall n i rec,
    base_loop upd ss t0 n i (iter_from upd t0 i y0) rec =
    rec ++ map (fun j => iter_from upd t0 j y0) (filter (fun j => j mod ss =? 0) (seq i n)).
  Proof.
    induction n as [|n IH]; intros i rec; cbn [base_loop seq filter map].
    - now rewrite app_nil_r.
    - replace (upd (Z.of_nat i + t0)%Z (iter_from upd t0 i y0)) with (iter_from upd t0 (S i) y0)
        by (rewrite iter_from_S_end; f_equal; lia).
      rewrite IH. destruct (i mod ss =? 0).
      + cbn [map]. now rewrite <- app_assoc.
      + reflexivity.
  Qed.
End SolverProofs.

Lemma cdiv_step b n : 1 <= b ->
  (n mod b = 0 -> cdiv (S n) b = S (cdiv n b) /\ n = cdiv n b * b) /\ (n mod b <> 0 -> cdiv (S n) b = cdiv n b).
Proof.
  intros Hb. unfold cdiv. pose proof (Nat.div_mod_eq n b) as E. pose proof (Nat.mod_upper_bound n b ltac:(lia)) as R.
  set (q := n / b) in *. set (r := n mod b) in *. split; intros H.
  - assert (Q1 : q = (n + b - 1) / b) by (apply Nat.div_unique with (r := b - 1); nia).
    assert (Q2 : S q = (S n + b - 1) / b) by (apply Nat.div_unique with (r := 0); nia).
    rewrite <- Q1, <- Q2. split; [reflexivity|nia].
  - assert (Q1 : S q = (n + b - 1) / b) by (apply Nat.div_unique with (r := r - 1); nia).
    assert (Q2 : S q = (S n + b - 1) / b) by (apply Nat.div_unique with (r := r); nia).
    now rewrite <- Q1, <- Q2.
Qed.

Lemma cdiv_0 b : 1 <= b -> cdiv 0 b = 0.
Proof. intros Hb. unfold cdiv. apply Nat.div_small. lia. Qed.

Lemma cdiv_mul m b : 1 <= b -> cdiv (m * b) b = m.
Proof.
  intros Hb. unfold cdiv. symmetry. apply Nat.div_unique with (r := b - 1); nia.
Qed.

Lemma filter_multiples b : 1 <= b -> forall n,
  filter (fun j => j mod b =? 0) (seq 0 n) = map (fun k => k * b) (seq 0 (cdiv n b)).
Proof.
  intros Hb. induction n as [|n IH].
  - now rewrite cdiv_0.
  - rewrite seq_S, filter_app, IH. cbn [Nat.add filter]. destruct (cdiv_step b n Hb) as [C0 C1].
    destruct (Nat.eqb_spec (n mod b) 0) as [E|E].
    + destruct (C0 E) as [C2 C3]. rewrite C2, seq_S, map_app. cbn [Nat.add map]. now rewrite <- C3.
    + rewrite (C1 E). now rewrite app_nil_r.
Qed.

Theorem base_solve_spec {St} (upd : Z -> St -> St) steps ss t0 y0 : 1 <= ss ->
  base_solve upd steps ss t0 y0 = spec_rows upd ss (cdiv steps ss) t0 y0.
Proof.
  intros Hs. unfold base_solve, spec_rows.
  change y0 with (iter_from upd t0 0 y0) at 1. rewrite base_loop_spec. cbn [app].
  rewrite filter_multiples by exact Hs. now rewrite map_map.
Qed.

(* the lax.scan formulation and the Python loop write the same rows, for any steps and any store_step >= 1 *)
Theorem jax_eq_base {St} (upd : Z -> St -> St) steps ss t0 y0 : 1 <= ss ->
  base_solve upd steps ss t0 y0 = jax_solve upd (cdiv steps ss) ss t0 y0.
Proof. intros Hs. now rewrite base_solve_spec, jax_solve_spec. Qed.

Corollary jax_eq_base_multiple {St} (upd : Z -> St -> St) store_steps ss t0 y0 : 1 <= ss ->
  base_solve upd (store_steps * ss) ss t0 y0 = jax_solve upd store_steps ss t0 y0.
Proof. intros Hs. now rewrite jax_eq_base, cdiv_mul. Qed.

(* extensionality and shift of the step counter *)
Lemma iter_from_ext {St} (u1 u2 : Z -> St -> St) : (forall t y, u1 t y = u2 t y) ->
  forall j t y, iter_from u1 t j y = iter_from u2 t j y.
Proof. intros H. induction j as [|j IH]; intros t y; cbn [iter_from]; [reflexivity|]. now rewrite H, IH. Qed.

Lemma iter_from_shift {St} (u : Z -> St -> St) c : forall j t y,
  iter_from u (t + c)%Z j y = iter_from (fun t' => u (t' + c)%Z) t j y.
Proof.
  induction j as [|j IH]; intros t y; cbn [iter_from]; [reflexivity|].
  rewrite <- IH. f_equal. lia.
Qed.

Lemma spec_rows_shift {St} (u1 u2 : Z -> St -> St) c ss m y0 : (forall t y, u1 (t + c)%Z y = u2 t y) ->
  spec_rows u1 ss m c y0 = spec_rows u2 ss m 0%Z y0.
Proof.
  intros H. unfold spec_rows. apply map_ext. intros k.
  change c with (0 + c)%Z at 1. rewrite iter_from_shift. now apply iter_from_ext.
Qed.

(* ---------- Heun ---------- *)
Open Scope Qc_scope.
Lemma inv_two : / two = half.
Proof. apply Qc_is_canon. reflexivity. Qed.
Lemma half_dt dt : dt / two = half * dt.
Proof. unfold Qcdiv. rewrite inv_two. ring. Qed.

Definition autonomous (f : rhs) : Prop := forall t t' y, f t y = f t' y.

Lemma heun_base_noalias_is_spec f dt t y : heun_base_upd false f dt t y = heun_spec_upd f dt t y.
Proof. reflexivity. Qed.

Lemma heun_jax_autonomous f dt t y : autonomous f -> heun_jax_upd f dt t y = heun_spec_upd f dt t y.
Proof.
  intros H. unfold heun_jax_upd, heun_spec_upd. rewrite (H (t + 1)%Z t). now rewrite half_dt.
Qed.

(* jax Heun = base Heun (without buffer aliasing) for every autonomous right-hand side, any steps, any cadence *)
Theorem heun_jax_eq_base_autonomous f dt steps ss t0 y0 : (1 <= ss)%nat -> autonomous f ->
  base_solve (heun_base_upd false f dt) steps ss t0 y0 = jax_solve (heun_jax_upd f dt) (cdiv steps ss) ss t0 y0.
Proof.
  intros Hs Ha. rewrite base_solve_spec by exact Hs. rewrite jax_solve_spec.
  unfold spec_rows. apply map_ext. intros k. apply iter_from_ext. intros t y.
  now rewrite heun_jax_autonomous.
Qed.

(* ---------- the linear systems of the correspondence run ---------- *)
Lemma lin_rhs_shift c s t y : lin_rhs c s (t + c)%Z y = lin_rhs 0 s t y.
Proof. unfold lin_rhs. do 3 f_equal. lia. Qed.

Lemma vscale_zero_weights : forall (w : row) a b, forallb (fun x => Qeq_bool (this x) 0) w = true -> vscale a w = vscale b w.
Proof.
  induction w as [|x w IH]; intros a b H; [reflexivity|]. cbn [forallb] in H. apply andb_true_iff in H. destruct H as [Hx Hw].
  unfold vscale in *. cbn [map]. f_equal; [|now apply IH].
  assert (x = 0) by (apply Qc_is_canon; apply Qeq_bool_iff in Hx; exact Hx). subst x. ring.
Qed.

Lemma lin_rhs_autonomous c s : time_free s = true -> autonomous (lin_rhs c s).
Proof. intros H t t' y. unfold lin_rhs. f_equal. now apply vscale_zero_weights. Qed.

Definition upd_of (sv : solver) (f : rhs) (dt : Qc) := match sv with Euler => euler_upd f dt | Heun => heun_spec_upd f dt end.

Lemma upd_of_shift sv c s dt t y : upd_of sv (lin_rhs c s) dt (t + c)%Z y = upd_of sv (lin_rhs 0 s) dt t y.
Proof.
  destruct sv; unfold upd_of, euler_upd, heun_spec_upd; now rewrite !lin_rhs_shift.
Qed.

(* what `run` computes on every backend is explicit Euler / Heun on the model — outside the Heun finding D16 *)
Theorem run_impl_eq_spec b sv s dt steps ss y0 : (1 <= ss)%nat -> heun_time_free b sv s = true ->
  run_impl b sv s dt steps ss y0 = run_spec sv s dt steps ss y0.
Proof.
  intros Hs Gt. unfold run_spec. fold (upd_of sv (lin_rhs 0 s) dt).
  rewrite <- (spec_rows_shift (upd_of sv (lin_rhs (idx_base b) s) dt) _ (idx_base b)) by (intros; apply upd_of_shift).
  destruct b, sv; unfold run_impl; cbn [heun_time_free] in *;
    try (rewrite base_solve_spec by exact Hs); try rewrite jax_solve_spec; try reflexivity.
  (* jax heun *)
  unfold spec_rows. apply map_ext. intros k. apply iter_from_ext. intros t y.
  apply heun_jax_autonomous. now apply lin_rhs_autonomous.
Qed.

(* hence any two backends agree with each other *)
Corollary run_backends_agree b1 b2 sv s dt steps ss y0 : (1 <= ss)%nat ->
  heun_time_free b1 sv s = true -> heun_time_free b2 sv s = true ->
  run_impl b1 sv s dt steps ss y0 = run_impl b2 sv s dt steps ss y0.
Proof. intros Hs G1 G2. now rewrite !run_impl_eq_spec. Qed.

(* ---------- refutations ---------- *)
(* x' = u(t), u_k = (k+1)^2, dt = 1, two steps: jax integrates (u_k + u_{k+1})/2, the base loop u_k *)
Definition witness_time : linsys :=
  {| mat := [[Q2Qc 0]]; inw := [Q2Qc 1]; usamp := [Q2Qc 1; Q2Qc 4; Q2Qc 9; Q2Qc 16] |}.
Lemma heun_corrector_time_differs :
  heun_time_free BJax Heun witness_time = false /\
  run_impl BJax Heun witness_time 1 2 1 [Q2Qc 0] <> run_spec Heun witness_time 1 2 1 [Q2Qc 0] /\
  run_impl BJax Heun witness_time 1 2 1 [Q2Qc 0] <> run_impl BDefault Heun witness_time 1 2 1 [Q2Qc 0].
Proof. split; [reflexivity|]. split; vm_compute; intro H; discriminate H. Qed.

(* the loop before fix_D36: x' = x, dt = 1, two steps, in-place buffer: y + dt*f(y + dt*f(y)) instead of Heun *)
Definition witness_alias : linsys := {| mat := [[Q2Qc 1]]; inw := [Q2Qc 0]; usamp := [] |}.
Lemma heun_alias_differs :
  time_free witness_alias = true /\
  run_impl_preD36 witness_alias 1 2 1 [Q2Qc 1] <> run_spec Heun witness_alias 1 2 1 [Q2Qc 1].
Proof. split; [reflexivity|]. vm_compute; intro H; discriminate H. Qed.

(* ================================================================================================ vectorized helpers *)
Open Scope nat_scope.
Lemma combine_repeat_map {A B C} (a : A) (g : B -> C) : forall l : list B,
  combine (repeat a (length l)) (map g l) = map (fun x => (a, g x)) l.
Proof. induction l as [|x l IH]; [reflexivity|]. cbn [length repeat map combine]. now rewrite IH. Qed.

Lemma combine_map_r {A B C} (g : B -> C) : forall (a : list A) (l : list B),
  combine a (map g l) = map (fun p => (fst p, g (snd p))) (combine a l).
Proof.
  induction a as [|x a IH]; intros l; [reflexivity|]. destruct l as [|y l]; [reflexivity|].
  cbn [map combine fst snd]. now rewrite IH.
Qed.

Lemma map2_repeat (c : Qc -> Qc -> Qc) xi : forall pre : row,
  map (fun q => c (fst q) (snd q)) (combine pre (repeat xi (length pre))) = map (fun pj => c pj xi) pre.
Proof. induction pre as [|p pre IH]; [reflexivity|]. cbn [length repeat combine map fst snd]. now rewrite IH. Qed.

(* wsum over the broadcast operands is the weighted sum of the coupling function over the source units *)
Theorem coupling_input_eq_spec c W pre post : coupling_input c W pre post = coupling_spec c W pre post.
Proof.
  unfold coupling_input, coupling_spec, wsum, mat_map2, broadcast_pre, broadcast_post.
  rewrite combine_repeat_map, map_map. cbn [fst snd].
  rewrite (map_ext _ (fun xi => map (fun pj => c pj xi) pre)) by (intros xi; apply map2_repeat).
  rewrite combine_map_r, map_map. apply map_ext. intros [wrow xi]. cbn [fst snd].
  unfold dot. now rewrite combine_map_r, map_map.
Qed.

(* ---------- slice updates: the returned array does not depend on what the dy buffer contained ---------- *)
Lemma set_range_length buf lo vals : lo + length vals <= length buf -> length (set_range buf lo vals) = length buf.
Proof. intros H. unfold set_range. rewrite !app_length, firstn_length, skipn_length. lia. Qed.

Lemma skipn_add {A} : forall (l : list A) a b, skipn a (skipn b l) = skipn (b + a) l.
Proof.
  induction l as [|x l IH]; intros a b; [now rewrite !skipn_nil|]. destruct b as [|b]; [reflexivity|].
  cbn [skipn Nat.add]. apply IH.
Qed.

Lemma apply_updates_form : forall us buf at_, consecutive at_ us -> at_ + total_len us <= length buf ->
  apply_updates buf us = firstn at_ buf ++ concat (map snd us) ++ skipn (at_ + total_len us) buf.
Proof.
  induction us as [|[lo vals] us IH]; intros buf at_ HC HL.
  - cbn. rewrite Nat.add_0_r. now rewrite firstn_skipn.
  - change (total_len ((lo, vals) :: us)) with (length vals + total_len us) in *.
    cbn [apply_updates fold_left map concat snd fst]. destruct HC as [-> HC]. fold (apply_updates (set_range buf at_ vals) us).
    assert (L1 : length (firstn at_ buf) = at_) by (rewrite firstn_length; lia).
    rewrite (IH _ (at_ + length vals)); [|exact HC|rewrite set_range_length; lia].
    unfold set_range.
    replace (firstn (at_ + length vals) (firstn at_ buf ++ vals ++ skipn (at_ + length vals) buf)) with (firstn at_ buf ++ vals).
    2:{ rewrite firstn_app, L1. rewrite (firstn_all2 (n := at_ + length vals) (firstn at_ buf)) by lia. f_equal.
        replace (at_ + length vals - at_) with (length vals) by lia.
        rewrite firstn_app, firstn_all, Nat.sub_diag. cbn [firstn]. now rewrite app_nil_r. }
    replace (skipn (at_ + length vals + total_len us) (firstn at_ buf ++ vals ++ skipn (at_ + length vals) buf))
      with (skipn (at_ + (length vals + total_len us)) buf).
    2:{ rewrite skipn_app, L1. rewrite (skipn_all2 (firstn at_ buf)) by lia. cbn [app].
        replace (at_ + length vals + total_len us - at_) with (length vals + total_len us) by lia.
        rewrite skipn_app. rewrite (skipn_all2 vals) by lia. cbn [app].
        replace (length vals + total_len us - length vals) with (total_len us) by lia.
        rewrite skipn_add. f_equal. lia. }
    now rewrite <- !app_assoc.
Qed.

(* in-place (stale buffer dy1) and functional (fresh buffer dy2) conventions return the same array when the slices tile it *)
Theorem conventions_agree us dy1 dy2 : consecutive 0 us -> total_len us = length dy1 -> length dy1 = length dy2 ->
  snd (inplace_call dy1 us) = snd (functional_call dy2 us) /\ snd (inplace_call dy1 us) = concat (map snd us).
Proof.
  intros HC HT HL. unfold inplace_call, functional_call. cbn [snd].
  rewrite (apply_updates_form us dy1 0 HC) by (cbn; lia). rewrite (apply_updates_form us dy2 0 HC) by (cbn; lia).
  cbn [firstn app Nat.add]. rewrite !skipn_all2 by lia. now rewrite app_nil_r.
Qed.

(* ---------- ring buffer ---------- *)
Lemma ring_push_form buf x : buf <> [] -> ring_push buf x = x :: removelast buf.
Proof.
  intros Hne. unfold ring_push, roll, zmodn, set_nth. cbn [firstn app].
  set (n := length buf). assert (Hn : 0 < n) by (unfold n; destruct buf; [congruence|cbn; lia]).
  destruct (Nat.eq_dec n 1) as [E|E].
  - destruct buf as [|b [|b2 buf]]; cbn in n; try lia. reflexivity.
  - assert (R : Z.to_nat (1 mod Z.of_nat n) = 1%nat) by (rewrite Z.mod_small by lia; reflexivity).
    rewrite R. f_equal.
    assert (LS : length (skipn (n - 1) buf) = 1%nat) by (rewrite skipn_length; fold n; lia).
    destruct (skipn (n - 1) buf) as [|s [|s2 l]]; cbn in LS; try lia. cbn [app skipn].
    rewrite removelast_firstn_len. fold n. f_equal. lia.
Qed.

Lemma ring_push_0 buf x : buf <> [] -> nth 0 (ring_push buf x) 0%Qc = x.
Proof. intros H. now rewrite ring_push_form. Qed.

Lemma nth_removelast : forall (l : list Qc) j, S j < length l -> nth j (removelast l) 0%Qc = nth j l 0%Qc.
Proof.
  induction l as [|a l IH]; intros j H; [cbn in H; lia|]. destruct l as [|b l]; [cbn in H; lia|].
  destruct j as [|j]; [reflexivity|]. change (removelast (a :: b :: l)) with (a :: removelast (b :: l)).
  cbn [nth]. apply IH. cbn in *. lia.
Qed.

Lemma ring_push_S buf x j : S j < length buf -> nth (S j) (ring_push buf x) 0%Qc = nth j buf 0%Qc.
Proof.
  intros H. rewrite ring_push_form by (intro E; subst; cbn in H; lia). cbn [nth]. now apply nth_removelast.
Qed.

Lemma ring_push_length buf x : buf <> [] -> length (ring_push buf x) = length buf.
Proof.
  intros H. rewrite ring_push_form by exact H. destruct buf as [|b buf]; [congruence|].
  cbn [length]. rewrite removelast_firstn_len, firstn_length. cbn [length]. lia.
Qed.

(* the in-place ring buffer delivers the value pushed d calls earlier (any d below the buffer length, any number of calls) *)
Theorem ring_inplace_is_delay d : forall xs buf, d < length buf -> ring_run_inplace d buf xs = ring_spec d buf xs.
Proof.
  induction xs as [|x xs IH]; intros buf Hd; [reflexivity|].
  assert (Hne : buf <> []) by (intro E; subst; cbn in Hd; lia).
  cbn [ring_run_inplace ring_step]. unfold ring_spec. cbn [length seq map]. f_equal.
  - destruct d as [|d]; cbn [Nat.leb Nat.sub].
    + now rewrite ring_push_0.
    + rewrite ring_push_S by lia. now rewrite Nat.sub_0_r.
  - rewrite IH by (rewrite ring_push_length; assumption). unfold ring_spec.
    rewrite <- seq_shift, map_map. apply map_ext. intros k.
    destruct (Nat.leb_spec d k) as [L|L].
    + destruct (Nat.leb_spec d (S k)) as [L2|L2]; [|lia]. replace (S k - d) with (S (k - d)) by lia. reflexivity.
    + destruct (Nat.leb_spec d (S k)) as [L2|L2].
      * assert (d = S k) by lia. subst d. replace (S k - k - 1) with 0 by lia. rewrite Nat.sub_diag.
        now rewrite ring_push_0.
      * replace (d - k - 1) with (S (d - S k - 1)) by lia. rewrite ring_push_S by lia. reflexivity.
Qed.

(* a functional update that is not threaded back into the next call never accumulates: refuted by computation *)
Lemma ring_unthreaded_differs :
  ring_run_unthreaded 1 [Q2Qc 0; Q2Qc 0] [Q2Qc 1; Q2Qc 2; Q2Qc 3] <> ring_run_inplace 1 [Q2Qc 0; Q2Qc 0] [Q2Qc 1; Q2Qc 2; Q2Qc 3].
Proof. vm_compute. intro H. discriminate H. Qed.

(* ---------- populations ---------- *)
Lemma pop_rhs_eq_spec s t y : pop_rhs s t y = pop_rhs_spec s t y.
Proof.
  unfold pop_rhs, pop_rhs_spec, pop_rhs_with. f_equal. apply map_ext. intros k. f_equal.
  apply map_ext. intros c. unfold conn_input. destruct (ckind c); [reflexivity|]. apply coupling_input_eq_spec.
Qed.

Theorem pop_run_eq_spec b s dt steps ss y0 : (1 <= ss)%nat -> pop_run_impl b s dt steps ss y0 = pop_run_spec s dt steps ss y0.
Proof.
  intros Hs. unfold pop_run_spec.
  assert (E : forall j, iter_from (euler_upd (pop_rhs s) dt) 0%Z j y0 = iter_from (euler_upd (pop_rhs_spec s) dt) 0%Z j y0).
  { intros j. apply iter_from_ext. intros t y. unfold euler_upd. now rewrite pop_rhs_eq_spec. }
  destruct b; unfold pop_run_impl; try (rewrite base_solve_spec by exact Hs); try rewrite jax_solve_spec;
    unfold spec_rows; apply map_ext; intros k; apply E.
Qed.

(* ================================================================================================ sigmoid *)
Open Scope Qc_scope.
Section Sigmoid.
  Variable E : Qc -> Qc.
  Lemma q0_neq_1 : Q2Qc 0 <> 1. Proof. intro H. discriminate H. Qed.

  (* 1/(1+exp(-x)) (base, Fortran helper, numpy stand-ins) = exp(x)/(1+exp(x)) (logistic form), given only exp(-x)*exp(x) = 1 *)
  Lemma sigmoid_forms x : E (- x) * E x = 1 -> 1 + E x <> 0 -> 1 + E (- x) <> 0 ->
    sigmoid_base E x = sigmoid_logistic E x.
  Proof.
    intros H Hb Ha. unfold sigmoid_base, sigmoid_logistic.
    assert (Hnz : E x <> 0) by (intro Z; rewrite Z in H; apply q0_neq_1; rewrite <- H; ring).
    assert (K : 1 + E x = E x * (1 + E (- x))) by (rewrite Qcmult_plus_distr_r, (Qcmult_comm (E x) (E (- x))), H; ring).
    replace (1 / (1 + E (- x))) with (E x / (E x * (1 + E (- x)))) by (field; split; assumption).
    now rewrite <- K.
  Qed.

  Lemma sigmoid_symmetry x : E (- x) * E x = 1 -> 1 + E x <> 0 -> 1 + E (- x) <> 0 ->
    sigmoid_base E (- x) = 1 - sigmoid_base E x.
  Proof.
    intros H Hb Ha. unfold sigmoid_base. rewrite Qcopp_involutive.
    assert (Hnz : E (- x) <> 0) by (intro Z; rewrite Z in H; apply q0_neq_1; rewrite <- H; ring).
    assert (K : 1 + E (- x) = E (- x) * (1 + E x)) by (rewrite Qcmult_plus_distr_r, H; ring).
    replace (1 - 1 / (1 + E (- x))) with (E (- x) / (1 + E (- x))) by (field; assumption).
    rewrite K. field. split; assumption.
  Qed.

  Lemma sigmoid_at_0 : E 0 = 1 -> sigmoid_base E 0 = Q2Qc (1 # 2).
  Proof.
    intros H. unfold sigmoid_base. replace (- 0) with (Q2Qc 0) by ring. rewrite H. apply Qc_is_canon. reflexivity.
  Qed.

  Lemma sigmoid_fortran_elementwise xs : sigmoid_fortran_vec E xs = map (sigmoid_base E) xs.
  Proof. reflexivity. Qed.
End Sigmoid.

Lemma roll_net_backend_independent b a k g n1 n2 n3 x z :
  roll_net_deriv (roll_of b) a k g n1 n2 n3 x z = roll_net_deriv roll a k g n1 n2 n3 x z.
Proof. destruct b; try reflexivity. unfold roll_net_deriv, roll_of. now rewrite !cshift_neg_roll. Qed.

(* ================================================================================================ named constants *)
(* both proofs go through for either value of the switch fixed_fortran_pi *)
Lemma backend_pi_partial b : fortran_pi_free b true = true -> backend_pi b = pi_f64.
Proof. destruct b; vm_compute; intros H; try reflexivity; discriminate H. Qed.

(* the tree before fix D108 (switch value false): the Fortran constant is float32(pi), computed, not assumed *)
Lemma backend_pi_fortran_before_fix : backend_pi_gen false BFortran = pi_f32 /\ backend_pi_gen false BFortran <> pi_f64.
Proof. split; [reflexivity|]. vm_compute. intro E. discriminate E. Qed.

(* since fix D108 (switch fixed_fortran_pi = true): no guard needed *)
Lemma backend_pi_full b : backend_pi b = pi_f64.
Proof. destruct b; vm_compute; reflexivity. Qed.

(* ================================================================================================ step-count cadence *)
Lemma round_half_even_Z (m : Z) : round_half_even (Q2Qc (inject_Z m)) = m.
Proof.
  unfold round_half_even.
  assert (F : Qfloor (this (Q2Qc (inject_Z m))) = m).
  { cbn [this Q2Qc]. rewrite (Qfloor_comp _ _ (Qred_correct (inject_Z m))). apply Qfloor_Z. }
  rewrite F. replace (Q2Qc (inject_Z m) - Q2Qc (inject_Z m))%Qc with (Q2Qc 0) by ring. reflexivity.
Qed.

(* a sampling step that is an integer multiple m of the step size gives store_step = m, whatever the (non-zero) step size *)
Lemma cadence_multiple (dt : Qc) (m : Z) : dt <> Q2Qc 0 -> round_half_even ((Q2Qc (inject_Z m) * dt) / dt)%Qc = m.
Proof.
  intros H. replace ((Q2Qc (inject_Z m) * dt) / dt)%Qc with (Q2Qc (inject_Z m)) by (field; exact H). apply round_half_even_Z.
Qed.
