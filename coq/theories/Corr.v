(* Corr.v — glue for the correspondence runs: indices of the cases on which a boolean test fails. *)
From Coq Require Import List.
Import ListNotations.

Fixpoint mismatches_from {A} (f : A -> bool) (i : nat) (l : list A) : list nat :=
  match l with
  | [] => []
  | x :: l' => if f x then mismatches_from f (S i) l' else i :: mismatches_from f (S i) l'
  end.
Definition mismatches {A} (f : A -> bool) (l : list A) : list nat := mismatches_from f 0 l.

Lemma mismatches_from_nil {A} (f : A -> bool) : forall l i, mismatches_from f i l = [] <-> forallb f l = true.
Proof.
  induction l as [|x l IH]; intros i; cbn; [tauto|].
  destruct (f x); cbn; [apply IH|]. split; discriminate.
Qed.
