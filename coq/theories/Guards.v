(* Guards.v — executable model (Impl) of the validation logic of PyRates that decides whether a request is
   refused, and the specification (Spec) of which requests are well-formed / supported.  Definitions only;
   proofs are in GuardsProofs.v.

   Impl transcribes (file:line of /repo/pyrates):
     frontend/template/circuit.py:1608  _validate_backend_args      vectorize and backend == 'fortran' -> PyRatesException
     frontend/template/circuit.py:1653  is_integration_adaptive     solver not in ['euler', 'heun']
     ir/circuit.py:400,604              _uses_edge_delay_buffer     delay without spread, dde_approx == 0, fixed step
     ir/circuit.py:1194                 SUPPORTS_EDGE_DELAY_BUFFER  -> NotImplementedError (after compilation of the graph)
     backend/computegraph.py:666        SUPPORTS_SPARSE_JACOBIAN    -> NotImplementedError (get_jacobian_func(sparse=True))
     backend/base/base_backend.py:678   _validate_solver            solver not in SUPPORTED_SOLVERS -> PyRatesException,
                                        called first thing in every _solve, i.e. only by `run`, after code generation
     frontend/template/operator.py:183  check_vname                 reserved names, reserved sub-strings
     frontend/template/operator.py:161  "More than one output specification"
     frontend/template/operator_graph.py:147  value updates that fit no operator
     ir/circuit.py:1067 + ir/abc.py:49  _verify_path / __getitem__ / __contains__ (with the hasattr fallback)
     ir/operator_graph.py:87            find_cycle -> PyRatesException
     frontend/template/circuit.py:1389  _add_input (warns, fix D13), 288 update_var (warns),
                                        1144 get_variable_positions (raises, fix D48), 785 apply(node_values=...)
                                        (warns for an unknown node, fix D49)
   The outcome of a request is a `result`: Ok (something is returned), Warn (a PyRatesWarning is emitted and
   something is returned), Err with the class of the exception. *)
From Coq Require Import List String Ascii Bool Arith.
Import ListNotations.
Open Scope string_scope.

Inductive errclass := EPyRates | ENotImpl | EOther.
Inductive result := Ok | Warn | Err (e : errclass).

Definition errclass_eqb (a b : errclass) : bool :=
  match a, b with EPyRates, EPyRates | ENotImpl, ENotImpl | EOther, EOther => true | _, _ => false end.
Definition result_eqb (a b : result) : bool :=
  match a, b with Ok, Ok | Warn, Warn => true | Err x, Err y => errclass_eqb x y | _, _ => false end.
Definition is_ok (r : result) : bool := match r with Ok => true | _ => false end.
(* first failure wins *)
Definition andthen (r : result) (k : result) : result := match r with Ok => k | _ => r end.

(* =====================================================================================================
   Part 1 — the configuration matrix
   ===================================================================================================== *)
Inductive backend := BDefault | BTorch | BJax | BFortran.
Inductive solver := SEuler | SHeun | SScipy | SDiffrax | SOther.      (* SOther: any other string *)
Inductive delay := DNone | DDiscrete | DSpread | DPast.
(* DDiscrete: an edge with `delay`; DSpread: `delay` and `spread`; DPast: `past(x, tau)` in an equation *)
Inductive entry := ERun | EFunc | EJac.                              (* run / get_run_func / get_jacobian_func *)
Record config := mkc { be : backend; so : solver; vec : bool; dl : delay; sparse : bool; inplace : bool; en : entry }.

Definition all_backends := [BDefault; BTorch; BJax; BFortran].
Definition all_solvers := [SEuler; SHeun; SScipy; SDiffrax; SOther].
Definition all_delays := [DNone; DDiscrete; DSpread; DPast].
Definition all_entries := [ERun; EFunc; EJac].
Definition all_bools := [false; true].
Definition all_configs : list config :=
  flat_map (fun b => flat_map (fun s => flat_map (fun v => flat_map (fun d => flat_map (fun sp =>
  flat_map (fun ip => map (fun e => mkc b s v d sp ip e) all_entries) all_bools) all_bools) all_delays) all_bools)
  all_solvers) all_backends.

Definition backend_eqb (a b : backend) : bool :=
  match a, b with BDefault, BDefault | BTorch, BTorch | BJax, BJax | BFortran, BFortran => true | _, _ => false end.
Definition solver_eqb (a b : solver) : bool :=
  match a, b with SEuler, SEuler | SHeun, SHeun | SScipy, SScipy | SDiffrax, SDiffrax | SOther, SOther => true
  | _, _ => false end.
Definition delay_eqb (a b : delay) : bool :=
  match a, b with DNone, DNone | DDiscrete, DDiscrete | DSpread, DSpread | DPast, DPast => true | _, _ => false end.
Definition entry_eqb (a b : entry) : bool :=
  match a, b with ERun, ERun | EFunc, EFunc | EJac, EJac => true | _, _ => false end.

(* ---- Impl: class attributes of the backends ---- *)
Definition SUPPORTED_SOLVERS (b : backend) : list solver :=
  match b with
  | BDefault => [SEuler; SHeun; SScipy]                 (* base_backend.py:241 *)
  | BTorch => [SEuler; SScipy]                          (* torch_backend.py:57 *)
  | BJax => [SEuler; SHeun; SScipy; SDiffrax]           (* jax_backend.py:85 *)
  | BFortran => [SEuler; SHeun; SScipy]                 (* inherited *)
  end.
Definition SUPPORTS_EDGE_DELAY_BUFFER (b : backend) : bool := match b with BJax => false | _ => true end.
Definition SUPPORTS_SPARSE_JACOBIAN (b : backend) : bool := match b with BJax => false | _ => true end.

(* ---- Impl: the checks, in the order in which the code reaches them ---- *)
Definition is_integration_adaptive (s : solver) : bool := match s with SEuler | SHeun => false | _ => true end.
Definition uses_edge_delay_buffer (c : config) : bool :=
  delay_eqb (dl c) DDiscrete && negb (is_integration_adaptive (so c)).
Definition validate_backend_args (c : config) : result :=
  if vec c && backend_eqb (be c) BFortran then Err EPyRates else Ok.
Definition delay_buffer_check (c : config) : result :=
  if uses_edge_delay_buffer c && negb (SUPPORTS_EDGE_DELAY_BUFFER (be c)) then Err ENotImpl else Ok.
Definition sparse_check (c : config) : result :=
  if sparse c && negb (SUPPORTS_SPARSE_JACOBIAN (be c)) then Err ENotImpl else Ok.
Definition validate_solver (c : config) : result :=
  if existsb (solver_eqb (so c)) (SUPPORTED_SOLVERS (be c)) then Ok else Err EPyRates.

(* ONE-LINE MODEL SWITCH (read by harness/c20.py): false = the code as it is (finding F6: get_run_func and
   get_jacobian_func never validate `solver=`, it only decides whether the integration counts as adaptive: a solver the
   backend does not have still yields a function); true = the code with
   /verif/fixes/proposed_fix_C20_solver_in_get_run_func.diff (the backend's _validate_solver is called after the
   compilation of the graph, before the function is generated). *)
Definition fixed_F6 : bool := true.
Definition entry_solver_check (f6 : bool) (c : config) : result :=
  if f6 && negb (entry_eqb (en c) ERun) then validate_solver c else Ok.
(* the guards alone *)
Definition accepts_gen (f6 : bool) (c : config) : result :=
  andthen (validate_backend_args c) (andthen (delay_buffer_check c) (andthen (entry_solver_check f6 c)
    (match en c with ERun => validate_solver c | EFunc => Ok | EJac => sparse_check c end))).
Definition accepts := accepts_gen fixed_F6.

(* Loud failures downstream of the guards, observed on the probe models of harness/c20.py (two nodes, one
   operator, mutual edges).  They are not guards (numpy / torch / jax / f2py exceptions, class EOther) but they are
   what the code does today, so the outcome model contains them; a request that crashes returns no numbers. *)
Definition uses_history (c : config) : bool :=
  delay_eqb (dl c) DPast || (delay_eqb (dl c) DDiscrete && is_integration_adaptive (so c)).
(* while the function is generated (before the solver is validated) *)
Definition crash_gen (c : config) : bool :=
  backend_eqb (be c) BFortran && (negb (inplace c) || entry_eqb (en c) EJac || uses_history c).
(* when the generated function is first called (for `run`: inside _solve, after the solver is validated) *)
Definition crash_call (c : config) : bool :=
  (negb (entry_eqb (en c) EJac) && negb (inplace c) && negb (vec c))
  || (entry_eqb (en c) EJac && vec c && delay_eqb (dl c) DPast)
  || (backend_eqb (be c) BJax && entry_eqb (en c) ERun && uses_history c
      && (solver_eqb (so c) SEuler || solver_eqb (so c) SHeun || solver_eqb (so c) SDiffrax)).
(* Fortran: the only downstream failure is the f2py compilation (crash_gen), provided every compiled model gets its own
   module name — under one name a process keeps returning the first model's routine (D29), which then fails at the call *)
Definition crash (b : bool) : result := if b then Err EOther else Ok.

Definition outcome_gen (f6 : bool) (c : config) : result :=
  andthen (validate_backend_args c) (andthen (delay_buffer_check c) (andthen (entry_solver_check f6 c)
   (andthen (crash (crash_gen c))
    (match en c with
     | ERun => andthen (validate_solver c) (crash (crash_call c))
     | EFunc => crash (crash_call c)
     | EJac => andthen (sparse_check c) (crash (crash_call c))
     end)))).
Definition outcome := outcome_gen fixed_F6.

(* ---- Impl: what `_solve` does with a solver name when nothing validates it (the if-chains) ---- *)
Inductive method := MEuler | MHeun | MScipy | MDiffrax.
Definition solve_dispatch (b : backend) (s : solver) : method :=
  match b with
  | BJax => match s with SDiffrax => MDiffrax | SScipy => MScipy | SEuler => MEuler | _ => MHeun end   (* jax_backend.py:221-241 *)
  | _ => match s with SEuler => MEuler | SHeun => MHeun | _ => MScipy end                              (* base_backend.py:694-706 *)
  end.
Definition named_method (s : solver) : option method :=
  match s with SEuler => Some MEuler | SHeun => Some MHeun | SScipy => Some MScipy | SDiffrax => Some MDiffrax
  | SOther => None end.

(* ---- Spec: which combinations are really implemented ---- *)
(* a solver is implemented for a backend when the backend has a native integration routine of that name:
   torch has no tensor-native Heun (the inherited numpy one severs autograd), diffrax exists for jax only *)
Definition implemented (b : backend) (s : solver) : Prop :=
  match s, b with
  | SEuler, _ | SScipy, _ => True
  | SHeun, BTorch => False
  | SHeun, _ => True
  | SDiffrax, BJax => True
  | _, _ => False
  end.
Definition mutable_arrays (b : backend) : Prop := b <> BJax.
Definition fixed_step (s : solver) : Prop := s = SEuler \/ s = SHeun.
(* the solver must be one the backend has for EVERY entry point: the property speaks of "returning a function or a result" *)
Definition Supported (c : config) : Prop :=
  implemented (be c) (so c) /\
  (vec c = true -> be c <> BFortran) /\
  (dl c = DDiscrete -> fixed_step (so c) -> mutable_arrays (be c)) /\     (* ring buffer is updated in place *)
  (en c = EJac -> sparse c = true -> mutable_arrays (be c)).             (* csr_matrix cannot take tracers *)
(* the decidable form used by the exhaustive sweep and the correspondence run *)
Definition implementedb (b : backend) (s : solver) : bool :=
  match s, b with
  | SEuler, _ | SScipy, _ => true
  | SHeun, BTorch => false
  | SHeun, _ => true
  | SDiffrax, BJax => true
  | _, _ => false
  end.
Definition supportedb (c : config) : bool :=
  implementedb (be c) (so c) &&
  implb (vec c) (negb (backend_eqb (be c) BFortran)) &&
  implb (delay_eqb (dl c) DDiscrete && (solver_eqb (so c) SEuler || solver_eqb (so c) SHeun)) (negb (backend_eqb (be c) BJax)) &&
  implb (entry_eqb (en c) EJac && sparse c) (negb (backend_eqb (be c) BJax)).

(* =====================================================================================================
   Part 2 — names (strings)
   ===================================================================================================== *)
Fixpoint prefixb (p s : string) : bool :=
  match p with
  | EmptyString => true
  | String a p' => match s with EmptyString => false | String b s' => Ascii.eqb a b && prefixb p' s' end
  end.
(* Python: `p in s` *)
Fixpoint containsb (p s : string) : bool :=
  prefixb p s || match s with EmptyString => false | String _ s' => containsb p s' end.
Definition mem (x : string) (l : list string) : bool := existsb (String.eqb x) l.

Definition disallowed_names : list string :=
  ["y"; "dy"; "source_idx"; "target_idx";
   "pi"; "I"; "E"; "S"; "Q"; "O"; "N"; "oo"; "zoo"; "nan";
   "beta"; "gamma"; "Beta"; "Gamma";
   "exp"; "log"; "sin"; "cos"; "tan"; "cot"; "sec"; "csc"; "sinh"; "cosh"; "tanh"; "sqrt"; "abs"].
Definition disallowed_name_parts : list string := ["_buffer"; "_delays"; "_maxdelay"; "_idx"; "_hist"].

(* Impl: operator.py:183-228 *)
Definition check_vname (v : string) : result :=
  if mem v disallowed_names then Err EPyRates
  else if existsb (fun p => containsb p v) disallowed_name_parts then Err EPyRates
  else Ok.
(* Spec *)
Definition Reserved (v : string) : Prop :=
  In v disallowed_names \/ exists p pre suf, In p disallowed_name_parts /\ v = pre ++ p ++ suf.

(* ---- variable declarations of one operator: OperatorTemplate.apply, operator.py:141-170 ---- *)
Inductive vtype := VInput | VOutput | VPlain.
Definition vardecl := (string * vtype)%type.
Fixpoint scan_vars (vars : list vardecl) (have_output : bool) : result :=
  match vars with
  | [] => Ok
  | (n, t) :: r =>
      match check_vname n with
      | Ok => match t with
              | VOutput => if have_output then Err EPyRates else scan_vars r true
              | _ => scan_vars r have_output
              end
      | e => e
      end
  end.
Definition is_output (d : vardecl) : bool := match snd d with VOutput => true | _ => false end.
Definition count_outputs (vars : list vardecl) : nat := List.length (filter is_output vars).

(* ---- identifiers of the equations against the declared names (the parser raises KeyError) ---- *)
Definition check_equation (declared used : list string) : result :=
  if forallb (fun x => mem x declared) used then Ok else Err EOther.

(* ---- node-level values against the operators of the node: operator_graph.py:121-152 ---- *)
(* updates are grouped by operator name, every operator of the node pops its group, what is left is an error *)
Definition leftovers (op_names : list string) (updates : list (string * string)) : list (string * string) :=
  filter (fun u => negb (mem (fst u) op_names)) updates.
Definition node_apply (op_names : list string) (updates : list (string * string)) : result :=
  match leftovers op_names updates with [] => Ok | _ => Err EPyRates end.

(* =====================================================================================================
   Part 3 — networks and paths
   ===================================================================================================== *)
Definition opd := (string * list string)%type.           (* operator name, its variable names *)
Definition noded := (string * list opd)%type.            (* node name, its operators *)
Definition network := list noded.
Definition path := list string.                          (* "a/b/c".split("/") *)

Fixpoint lookup {A} (k : string) (l : list (string * A)) : option A :=
  match l with [] => None | (k', a) :: r => if String.eqb k k' then Some a else lookup k r end.

(* Spec: the path names a node / an operator of a node / a variable of an operator of a node *)
Definition Present (net : network) (p : path) : Prop :=
  match p with
  | [n] => exists ops, In (n, ops) net
  | [n; o] => exists ops vars, In (n, ops) net /\ In (o, vars) ops
  | [n; o; v] => exists ops vars, In (n, ops) net /\ In (o, vars) ops /\ In v vars
  | _ => False
  end.
Definition presentb (net : network) (p : path) : bool :=
  match p with
  | [n] => match lookup n net with Some _ => true | None => false end
  | [n; o] => match lookup n net with Some ops => match lookup o ops with Some _ => true | None => false end | None => false end
  | [n; o; v] => match lookup n net with
                 | Some ops => match lookup o ops with Some vars => mem v vars | None => false end
                 | None => false end
  | _ => false
  end.
(* dictionaries have unique keys *)
Fixpoint nodupb (l : list string) : bool :=
  match l with [] => true | x :: r => negb (mem x r) && nodupb r end.
Definition wf_netb (net : network) : bool :=
  nodupb (map fst net) && forallb (fun nd => nodupb (map fst (snd nd))) net.
Definition WFnet (net : network) : Prop :=
  NoDup (map fst net) /\ forall n ops, In (n, ops) net -> NoDup (map fst ops).

(* Impl: NetworkGraph._verify_path -> `path in self` -> AbstractBaseIR.__getitem__ (ir/abc.py:49-82):
     key = next(it); item = graph.nodes[key]["node"]
     for key in it: item = item.getitem_from_iterator(key, it)     -- OperatorGraph: var = next(it) (consumed, `key`
                                                                     stays the operator name); nodes[key]["operator"]
                                                                     or nodes[key]["operator"].variables[var]
     except KeyError: if hasattr(self, key): item = getattr(self, key) else raise
   `attrs` are the attribute names of the circuit object (dir()).  A fourth component is looked up on a variable
   dictionary: AttributeError (not caught by __contains__). *)
(* ONE-LINE MODEL SWITCH (read by harness/c20.py too): false = the code as it is (attribute fallback, finding F3);
   true = the code with /verif/fixes/proposed_fix_C20_F3.diff applied (`__contains__` resolves strictly). *)
Definition fixed_F3 : bool := true.
Definition key_fallback (fixed : bool) (attrs : list string) (key : string) : result :=
  if negb fixed && mem key attrs then Ok else Err EPyRates.
Definition verify_path_gen (fixed : bool) (attrs : list string) (net : network) (p : path) : result :=
  match p with
  | [] => Err EOther
  | n :: rest =>
      match lookup n net with
      | None => key_fallback fixed attrs n
      | Some ops =>
          match rest with
          | [] => Ok
          | o :: rest' =>
              match lookup o ops with
              | None => key_fallback fixed attrs o
              | Some vars =>
                  match rest' with
                  | [] => Ok
                  | v :: rest'' => if mem v vars then (match rest'' with [] => Ok | _ => Err EOther end)
                                   else key_fallback fixed attrs o
                  end
              end
          end
      end
  end.
Definition verify_path := verify_path_gen fixed_F3.

(* Impl, frontend route (CircuitTemplate.apply / collect_edges / _group_edges): an edge endpoint that does not
   resolve raises KeyError before the IR-level _verify_path is reached *)
Definition edge_endpoint (net : network) (p : path) : result :=
  if presentb net p && Nat.eqb (List.length p) 3 then Ok else Err EOther.
(* _add_input (circuit.py:1398, after fix D13) and update_var (circuit.py:288): get_nodes(...) == [] -> warn *)
Definition add_input (net : network) (p : path) : result :=
  if presentb net p && Nat.eqb (List.length p) 3 then Ok else Warn.
Definition add_input_before_D13 (net : network) (p : path) : result := Ok.
Definition update_var (net : network) (p : path) : result :=
  if presentb net p && Nat.eqb (List.length p) 3 then Ok else Warn.
(* run(outputs={...}) -> get_variable_positions (circuit.py:1163-1200, after fix D48): an output whose nodes are not
   found raises PyRatesException *)
Definition resolve_outputs (net : network) (outs : list path) : result :=
  if forallb (fun p => presentb net p && Nat.eqb (List.length p) 3) outs then Ok else Err EPyRates.
(* before D48 the key was dropped from the maps; when nothing was left the DataFrame constructor raised ValueError *)
Definition resolve_outputs_before_D48 (net : network) (outs : list path) : result :=
  match filter (fun p => presentb net p && Nat.eqb (List.length p) 3) outs with [] => Err EOther | _ => Ok end.
(* apply(node_values={'n/o/v': x}) (circuit.py:785-797 -> NodeTemplate.apply -> leftovers):
   targets = get_nodes(n): the node itself, every node for the broadcast `all`, [] for an unknown name;
   targets == [] -> PyRatesWarning (fix D49), the value is skipped; then node by node, in declaration order:
   unknown operator -> PyRatesException; unknown variable -> KeyError *)
Definition node_targets (net : network) (n : string) : list (list opd) :=
  if String.eqb n "all" then map snd net
  else match lookup n net with Some ops => [ops] | None => [] end.
Definition node_value_on (o v : string) (ops : list opd) : result :=
  match lookup o ops with
  | None => Err EPyRates
  | Some vars => if mem v vars then Ok else Err EOther
  end.
Fixpoint first_failure (rs : list result) : result :=
  match rs with [] => Ok | r :: rest => andthen r (first_failure rest) end.
Definition node_value (net : network) (p : path) : result :=
  match p with
  | [n; o; v] =>
      match node_targets net n with
      | [] => Warn
      | ts => first_failure (map (node_value_on o v) ts)
      end
  | _ => Err EOther
  end.
Definition node_value_before_D49 (net : network) (p : path) : result :=
  match p with
  | [n; o; v] => first_failure (map (node_value_on o v) (node_targets net n))
  | _ => Err EOther
  end.

(* ---- hierarchical circuits (CircuitTemplate(circuits={...}), depth >= 1): a node is addressed by
        <circuit>/.../<node>/<op>/<var>.  get_nodes / get_node_template walk the circuit levels with `net[level]`:
        a circuit level that does not exist raises KeyError (class D31 of C06) before anything else is looked at; below
        the circuit levels the flat rules apply to the addressed sub-circuit. ---- *)
Definition hnode := (list string * list opd)%type.       (* full key of the node: circuit levels ++ [node name] *)
Definition hnetwork := list hnode.
Fixpoint list_eqb (a b : list string) : bool :=
  match a, b with
  | [], [] => true
  | x :: a', y :: b' => String.eqb x y && list_eqb a' b'
  | _, _ => false
  end.
Definition circuit_known (hnet : hnetwork) (cp : list string) : bool :=
  existsb (fun nd => list_eqb (firstn (List.length cp) (removelast (fst nd))) cp) hnet.
(* the flat network of the sub-circuit addressed by the circuit levels cp *)
Definition subnet (hnet : hnetwork) (cp : list string) : network :=
  flat_map (fun nd => if list_eqb (removelast (fst nd)) cp then [(last (fst nd) "", snd nd)] else []) hnet.
Inductive hkind := HEdge | HInput | HUpdate | HNodeValue | HOutput.
Definition flat_probe_result (k : hkind) (depth : nat) (net : network) (p : path) : result :=
  match k with
  | HEdge => edge_endpoint net p
  | HInput => add_input net p          (* since D89 inputs work at any depth (before: AttributeError at depth >= 2, D30) *)
  | HUpdate => update_var net p
  | HNodeValue => node_value net p
  | HOutput => resolve_outputs net [p]
  end.
(* ONE-LINE MODEL SWITCH (read by harness/c20.py): false = the code as it is (finding F4: a node_values key that is too
   short for the hierarchy and whose node part names a CIRCUIT is dropped silently: get_nodes returns the circuit name,
   no node consumes the value); true = the code with /verif/fixes/proposed_fix_C20_F4.diff (warns). *)
Definition fixed_F4 : bool := true.
(* `*node_id, op, var = key.split('/')`: the node part of a key *)
Definition node_part (p : path) : list string := removelast (removelast p).
Definition too_short (depth : nat) (p : path) : bool := Nat.ltb (List.length (node_part p)) (S depth).
Definition names_circuit (hnet : hnetwork) (nid : list string) : bool :=
  match nid with [] => false | _ => circuit_known hnet nid end.
Definition nowhere : path := [""; ""; ""].
(* after D73 a circuit level that does not exist behaves like a node that does not exist (the addressed sub-network is
   empty): output -> PyRatesException (D48), input / update_var / node_values -> warning (D13, D49), edge -> KeyError.
   Since D87 a key that is too short for the hierarchy (its node part names a circuit, or nothing) matches no node either
   and is treated the same way; before D79 a too-short node_values key that names a circuit was dropped silently (F4). *)
Definition is_node_value (k : hkind) : bool := match k with HNodeValue => true | _ => false end.
Definition hier_result_gen (fixed4 : bool) (k : hkind) (depth : nat) (hnet : hnetwork) (p : path) : result :=
  if too_short depth p then
    if names_circuit hnet (node_part p) && is_node_value k && negb fixed4 then Ok
    else flat_probe_result k depth [] nowhere
  else flat_probe_result k depth (subnet hnet (firstn depth p)) (skipn depth p).
Definition hier_result := hier_result_gen fixed_F4.

(* =====================================================================================================
   Part 4 — the operator graph of a node: ir/operator_graph.py:52-95
   ===================================================================================================== *)
Record opdecl := mko { oname : string; oinputs : list string; ooutput : string }.
(* edge p -> q when the output variable of p is an input variable of q *)
Definition feeds (p q : opdecl) : bool := mem (ooutput p) (oinputs q).
Definition op_edges (ops : list opdecl) : list (string * string) :=
  flat_map (fun p => map (fun q => (oname p, oname q)) (filter (feeds p) ops)) ops.
Definition ready (edges : list (string * string)) (remaining : list string) (v : string) : bool :=
  negb (existsb (fun e => String.eqb (snd e) v && mem (fst e) remaining) edges).
(* elimination of operators without unprocessed predecessors — the order in which
   CircuitIR._parse_op_layers_into_computegraph (ir/circuit.py:1402-1412) consumes the operators *)
Fixpoint kahn (fuel : nat) (edges : list (string * string)) (remaining : list string) : option (list string) :=
  match remaining with
  | [] => Some []
  | _ => match fuel with
         | 0 => None
         | S f => match find (ready edges remaining) remaining with
                  | None => None
                  | Some v => option_map (cons v) (kahn f edges (remove string_dec v remaining))
                  end
         end
  end.
Definition toposort (nodes : list string) (edges : list (string * string)) : option (list string) :=
  kahn (List.length nodes) edges nodes.
Definition check_op_graph (ops : list opdecl) : result :=
  match toposort (map oname ops) (op_edges ops) with Some _ => Ok | None => Err EPyRates end.
(* Spec: a non-empty set of operators each of which has a predecessor in the set (every cycle is one) *)
Definition CyclicSet (nodes : list string) (edges : list (string * string)) (S : list string) : Prop :=
  S <> [] /\ incl S nodes /\ forall s, In s S -> exists u, In u S /\ In (u, s) edges.

(* =====================================================================================================
   Part 5 — one type for everything that is probed on the real code
   ===================================================================================================== *)
(* ---- the operators of an edge template: ir/edge.py:99-115 (EdgeIR.output): after the cycle check of the operator graph,
        exactly one operator without successor (the output operator of the edge) ---- *)
Definition is_sink (ops : list opdecl) (p : opdecl) : bool := negb (existsb (feeds p) ops).
Definition count_sinks (ops : list opdecl) : nat := List.length (filter (is_sink ops) ops).
Definition check_edge_template (ops : list opdecl) : result :=
  match check_op_graph ops with
  | Ok => if Nat.eqb (count_sinks ops) 1 then Ok else Err EPyRates
  | e => e
  end.

(* =====================================================================================================
   Part 4b — option values as the strings the caller passes (None = Python None)
   base_backend.py:_validate_solver `solver not in self.SUPPORTED_SOLVERS`; the if-chains of `_solve` (base 694-706,
   jax 221-241) and is_integration_adaptive compare with `==`; computegraph.py:233-250 selects the backend class by
   an if-chain whose else-branch is the numpy backend; float_precision is handed to numpy.dtype; `method=` to
   scipy.integrate.solve_ivp.
   ===================================================================================================== *)
Inductive optkind := OSolver (b : backend) | OBackend | OPrecision | OMethod.
Definition optval := option string.
Definition str_is (v : optval) (s : string) : bool := match v with Some x => String.eqb x s | None => false end.
Definition method_name (m : method) : string :=
  match m with MEuler => "euler" | MHeun => "heun" | MScipy => "scipy" | MDiffrax => "diffrax" end.
Definition solver_names (b : backend) : list string :=
  match b with
  | BDefault | BFortran => ["euler"; "heun"; "scipy"]
  | BTorch => ["euler"; "scipy"]
  | BJax => ["euler"; "heun"; "scipy"; "diffrax"]
  end.
(* validation and dispatch are the SAME relation on strings: membership by ==, comparison by == *)
Definition validate_solver_str (b : backend) (v : optval) : bool :=
  match v with Some s => mem s (solver_names b) | None => false end.
Definition solve_dispatch_str (b : backend) (v : optval) : method :=
  match b with
  | BJax => if str_is v "diffrax" then MDiffrax else if str_is v "scipy" then MScipy
            else if str_is v "euler" then MEuler else MHeun
  | _ => if str_is v "euler" then MEuler else if str_is v "heun" then MHeun else MScipy
  end.
Definition is_integration_adaptive_str (v : optval) : bool := negb (str_is v "euler" || str_is v "heun").
(* what the string asks for *)
Definition requested_method (v : optval) : option method :=
  if str_is v "euler" then Some MEuler else if str_is v "heun" then Some MHeun
  else if str_is v "scipy" then Some MScipy else if str_is v "diffrax" then Some MDiffrax else None.
Definition method_implemented (b : backend) (m : method) : bool :=
  match m, b with
  | MEuler, _ | MScipy, _ => true
  | MHeun, BTorch => false
  | MHeun, _ => true
  | MDiffrax, BJax => true
  | MDiffrax, _ => false
  end.
Definition solver_of_string (s : string) : solver :=
  if String.eqb s "euler" then SEuler else if String.eqb s "heun" then SHeun
  else if String.eqb s "scipy" then SScipy else if String.eqb s "diffrax" then SDiffrax else SOther.

(* backend selection *)
Inductive bclass := CBase | CTorch | CJax | CFortran | CJulia | CMatlab.
Definition bclass_name (c : bclass) : string :=
  match c with CBase => "BaseBackend" | CTorch => "TorchBackend" | CJax => "JaxBackend" | CFortran => "FortranBackend"
  | CJulia => "JuliaBackend" | CMatlab => "MatlabBackend" end.
Definition select_backend (v : optval) : bclass :=
  match v with
  | None => CBase
  | Some s => if String.eqb s "torch" then CTorch else if String.eqb s "jax" then CJax
              else if String.eqb s "fortran" then CFortran else if String.eqb s "julia" then CJulia
              else if String.eqb s "matlab" then CMatlab else CBase
  end.
(* the names the documentation of run / get_run_func lists ('default' or 'numpy', 'torch', 'jax', 'fortran', 'julia',
   'matlab'; the parameter defaults to None) *)
Definition documented_backend (v : optval) : option bclass :=
  match v with
  | None => Some CBase
  | Some s => if String.eqb s "torch" then Some CTorch else if String.eqb s "jax" then Some CJax
              else if String.eqb s "fortran" then Some CFortran else if String.eqb s "julia" then Some CJulia
              else if String.eqb s "matlab" then Some CMatlab
              else if String.eqb s "default" || String.eqb s "numpy" then Some CBase else None
  end.
(* ONE-LINE MODEL SWITCH (read by harness/c20.py): false = the code as it is (finding F5: a backend name that is not one
   of the documented ones — 'Torch', 'JAX', 'jaxx', 'tensorflow' — silently selects the numpy backend);
   true = the code with /verif/fixes/proposed_fix_C20_F5.diff (PyRatesException). *)
Definition fixed_F5 : bool := true.
Definition backend_result (fixed : bool) (v : optval) : result :=
  match select_backend v with
  | CJulia => Err EPyRates               (* _validate_backend_args: julia_path missing *)
  | CMatlab => Err EOther                (* the matlab engine is not installed here: ModuleNotFoundError *)
  | CBase => match documented_backend v with
             | None => if fixed then Err EPyRates else Ok
             | Some _ => Ok end
  | _ => Ok
  end.
(* numpy.dtype(float_precision) for the names the generator uses *)
Definition dtype_of (v : optval) : option string :=
  match v with
  | None => None
  | Some s => if String.eqb s "float64" || String.eqb s "double" || String.eqb s "float" then Some "float64"
              else if String.eqb s "float32" then Some "float32"
              else if String.eqb s "float16" then Some "float16" else None
  end.
Definition scipy_methods : list string := ["RK45"; "RK23"; "DOP853"; "Radau"; "BDF"; "LSODA"].
Definition scipy_method_of (v : optval) : option string :=
  match v with Some s => if mem s scipy_methods then Some s else None | None => None end.

Definition option_result_gen (fixed5 : bool) (k : optkind) (v : optval) : result :=
  match k with
  | OSolver b => if validate_solver_str b v then Ok else Err EPyRates
  | OBackend => backend_result fixed5 v
  | OPrecision => match dtype_of v with Some _ => Ok | None => Err EOther end
  | OMethod => match scipy_method_of v with Some _ => Ok | None => Err EOther end
  end.
Definition option_result := option_result_gen fixed_F5.
(* what runs when the request is accepted *)
Definition option_effect (k : optkind) (v : optval) : option string :=
  match k with
  | OSolver b => Some (method_name (solve_dispatch_str b v))
  | OBackend => Some (bclass_name (select_backend v))
  | OPrecision => dtype_of v
  | OMethod => scipy_method_of v
  end.
(* what the value asks for (None: it is not a value this option has) *)
Definition option_requested (k : optkind) (v : optval) : option string :=
  match k with
  | OSolver b => match requested_method v with
                 | Some m => if method_implemented b m then Some (method_name m) else None
                 | None => None end
  | OBackend => option_map bclass_name (documented_backend v)
  | OPrecision => dtype_of v
  | OMethod => scipy_method_of v
  end.

(* a model with one plain `delay` edge and one `delay`+`spread` edge from two different source variables
   (`first_plain`: the plain-delay edge is processed first).  One ring buffer in the network is enough for
   `_uses_edge_delay_buffer`, so the guards treat it like DDiscrete, vectorized or not (since D114 the plain delay keeps
   its ring buffer also when vectorization merges it into one edge group with the spread edge). *)
Definition mixed_config (b : backend) (s : solver) (v : bool) (e : entry) : config := mkc b s v DDiscrete false true e.
(* since D115 the vectorized compilation of this model also works with an adaptive solver (DDE history path), so the
   model behaves like the other discrete-delay rows of the matrix in every respect *)
Definition mixed_outcome (b : backend) (s : solver) (v : bool) (first_plain : bool) (e : entry) : result :=
  outcome (mixed_config b s v e).

(* ---- the flag `_uses_edge_delay_buffer` over the sequence of delayed projections in the order in which they are processed
        (node declaration order for edges, list order for Connectivity objects): the code sets it to True in the ring-buffer
        branch and never resets it (ir/circuit.py:400-412, 604-612); the independently seeded changes C20-m1/m3/m5 ASSIGNED
        it on every call, so that the last projection decided ---- *)
Inductive dkind := KPlain | KSpread.
Definition needs_ring (k : dkind) : bool := match k with KPlain => true | KSpread => false end.
Definition flag_sticky (ks : list dkind) : bool := existsb needs_ring ks.
Definition flag_assigned (ks : list dkind) : bool := match rev ks with [] => false | k :: _ => needs_ring k end.
Definition mixed_kinds (first_plain : bool) : list dkind := if first_plain then [KPlain; KSpread] else [KSpread; KPlain].

(* the same mixture through the PopulationTemplate / Connectivity API (NetworkGraph._add_matrix_delay): one population
   projecting onto itself through a plain-delay matrix connection and a delay+spread one, in either order.  The
   guards alone decide (an adaptive solver uses the ODE cascade, no history); on Fortran the probe model does not
   survive f2py (class EOther). *)
Definition pop_config (b : backend) (s : solver) (v : bool) (e : entry) : config := mkc b s v DDiscrete false true e.
Definition pop_outcome (b : backend) (s : solver) (v : bool) (first_plain : bool) (e : entry) : result :=
  andthen (validate_backend_args (pop_config b s v e))
          (if backend_eqb b BFortran
           then andthen (entry_solver_check fixed_F6 (pop_config b s v e)) (Err EOther)   (* refused before f2py is reached *)
           else accepts (pop_config b s v e)).

Inductive probe :=
  | PConfig (c : config)
  | PMixed (b : backend) (s : solver) (v : bool) (first_plain : bool) (e : entry)
  | PPopMixed (b : backend) (s : solver) (v : bool) (first_plain : bool) (e : entry)
  | PVname (v : string)
  | PVars (vars : list vardecl)
  | PEquation (declared used : list string)
  | PNodeApply (op_names : list string) (updates : list (string * string))
  | PVerifyPath (attrs : list string) (net : network) (p : path)
  | PEdge (net : network) (p : path)
  | PInput (net : network) (p : path)
  | PUpdate (net : network) (p : path)
  | POutputs (net : network) (outs : list path)
  | PNodeValue (net : network) (p : path)
  | POpGraph (ops : list opdecl)
  | PHier (k : hkind) (depth : nat) (hnet : hnetwork) (p : path)
  | POption (k : optkind) (v : optval)
  | PEdgeTemplate (ops : list opdecl).

Definition impl (p : probe) : result :=
  match p with
  | PConfig c => outcome c
  | PMixed b s v fp e => mixed_outcome b s v fp e
  | PPopMixed b s v fp e => pop_outcome b s v fp e
  | PVname v => check_vname v
  | PVars vars => scan_vars vars false
  | PEquation d u => check_equation d u
  | PNodeApply ns us => node_apply ns us
  | PVerifyPath attrs net p => verify_path attrs net p
  | PEdge net p => edge_endpoint net p
  | PInput net p => add_input net p
  | PUpdate net p => update_var net p
  | POutputs net outs => resolve_outputs net outs
  | PNodeValue net p => node_value net p
  | POpGraph ops => check_op_graph ops
  | PHier k depth hnet p => hier_result k depth hnet p
  | POption k v => option_result k v
  | PEdgeTemplate ops => check_edge_template ops
  end.

Definition Path3 (net : network) (p : path) : Prop := Present net p /\ List.length p = 3.
(* a node-level value: `n/o/v` names a variable that is present; the broadcast `all/o/v` one that some node carries *)
Definition NodeValueTarget (net : network) (p : path) : Prop :=
  match p with
  | [n; o; v] => if String.eqb n "all" then exists m, Path3 net [m; o; v] else Path3 net p
  | _ => False
  end.
(* Spec: the request is supported / the model is well-formed *)
Definition WellFormed (p : probe) : Prop :=
  match p with
  | PConfig c => Supported c
  | PMixed b s v _ e => Supported (mixed_config b s v e)
  | PPopMixed b s v _ e => Supported (pop_config b s v e)
  | PVname v => ~ Reserved v
  | PVars vars => (forall n t, In (n, t) vars -> ~ Reserved n) /\ count_outputs vars <= 1
  | PEquation d u => forall x, In x u -> In x d
  | PNodeApply ns us => forall o v, In (o, v) us -> In o ns
  | PVerifyPath _ net p => Present net p
  | PEdge net p | PInput net p | PUpdate net p => Path3 net p
  | PNodeValue net p => NodeValueTarget net p
  | POutputs net outs => forall o, In o outs -> Path3 net o
  | POpGraph ops => ~ exists S, CyclicSet (map oname ops) (op_edges ops) S
  | PHier k depth hnet p =>      (* the key has depth + 3 components and what follows the circuit levels is present
                                    in the sub-circuit they address *)
      too_short depth p = false /\
      match k with
      | HNodeValue => NodeValueTarget (subnet hnet (firstn depth p)) (skipn depth p)
      | _ => Path3 (subnet hnet (firstn depth p)) (skipn depth p)
      end
  | POption k v =>               (* the value is one the option has, and what runs is what it asks for *)
      option_requested k v <> None /\ option_effect k v = option_requested k v
  | PEdgeTemplate ops => (~ exists S, CyclicSet (map oname ops) (op_edges ops) S) /\ count_sinks ops = 1
  end.
Definition path3b (net : network) (p : path) : bool := presentb net p && Nat.eqb (List.length p) 3.
Definition node_value_targetb (net : network) (p : path) : bool :=
  match p with
  | [n; o; v] => if String.eqb n "all" then existsb (fun nd => path3b net [fst nd; o; v]) net else path3b net p
  | _ => false
  end.
Definition wellformedb (p : probe) : bool :=
  match p with
  | PConfig c => supportedb c
  | PMixed b s v _ e => supportedb (mixed_config b s v e)
  | PPopMixed b s v _ e => supportedb (pop_config b s v e)
  | PVname v => is_ok (check_vname v)
  | PVars vars => forallb (fun d => is_ok (check_vname (fst d))) vars && Nat.leb (count_outputs vars) 1
  | PEquation d u => forallb (fun x => mem x d) u
  | PNodeApply ns us => forallb (fun u => mem (fst u) ns) us
  | PVerifyPath _ net p => presentb net p
  | PEdge net p | PInput net p | PUpdate net p => path3b net p
  | PNodeValue net p => node_value_targetb net p
  | POutputs net outs => forallb (path3b net) outs
  | POpGraph ops => match toposort (map oname ops) (op_edges ops) with Some _ => true | None => false end
  | PHier k depth hnet p =>
      negb (too_short depth p) &&
      match k with
      | HNodeValue => node_value_targetb (subnet hnet (firstn depth p)) (skipn depth p)
      | _ => path3b (subnet hnet (firstn depth p)) (skipn depth p)
      end
  | POption k v =>
      match option_requested k v, option_effect k v with
      | Some r, Some e => String.eqb e r
      | _, _ => false
      end
  | PEdgeTemplate ops =>
      match toposort (map oname ops) (op_edges ops) with Some _ => Nat.eqb (count_sinks ops) 1 | None => false end
  end.

(* representation invariant of the probe (dictionary keys are unique) *)
Definition WFprobe (p : probe) : Prop :=
  match p with
  | PVerifyPath _ net _ | PEdge net _ | PInput net _ | PUpdate net _ | POutputs net _ | PNodeValue net _ => WFnet net
  | PHier _ depth hnet p => WFnet (subnet hnet (firstn depth p))
  | _ => True
  end.
Definition wfprobeb (p : probe) : bool :=
  match p with
  | PVerifyPath _ net _ | PEdge net _ | PInput net _ | PUpdate net _ | POutputs net _ | PNodeValue net _ => wf_netb net
  | PHier _ depth hnet p => wf_netb (subnet hnet (firstn depth p))
  | _ => true
  end.

(* Guard: the class of requests outside of which the code is known NOT to be loud (known finding F3) *)
(* no component of the path is an attribute name of the circuit object *)
Definition guard_path_not_attr (p : probe) : bool :=
  match p with PVerifyPath attrs _ pa => fixed_F3 || forallb (fun k => negb (mem k attrs)) pa | _ => true end.
(* F4: not (a node_values key too short for the hierarchy whose node part names a circuit) *)
Definition guard_node_value_not_circuit (p : probe) : bool :=
  match p with
  | PHier HNodeValue depth hnet pa => fixed_F4 || negb (too_short depth pa && names_circuit hnet (node_part pa))
  | _ => true end.
(* F5: a backend name is one of the documented ones *)
Definition guard_backend_documented (p : probe) : bool :=
  match p with
  | POption OBackend v => fixed_F5 || match documented_backend v with Some _ => true | None => false end
  | _ => true end.
(* F6: the solver is validated at this entry point (run), or it is one the backend has *)
Definition g6 (f6 : bool) (c : config) : bool := f6 || entry_eqb (en c) ERun || implementedb (be c) (so c).
Definition guard_solver_checked_at_entry (p : probe) : bool :=
  match p with
  | PConfig c => g6 fixed_F6 c
  | PMixed b s v _ e => g6 fixed_F6 (mixed_config b s v e)
  | PPopMixed b s v _ e => g6 fixed_F6 (pop_config b s v e)
  | _ => true end.
Definition guard (p : probe) : bool :=
  guard_path_not_attr p && guard_node_value_not_circuit p && guard_backend_documented p && guard_solver_checked_at_entry p.

(* what the property demands of an observed outcome: a request that is not well-formed must not return quietly;
   a warning is enough for an input / update_var addressed to a missing variable, and for a node-level value
   addressed to a node that does not exist (an operator that does not exist on an existing node must raise) *)
Definition warn_suffices (p : probe) : bool :=
  match p with
  | PInput _ _ | PUpdate _ _ => true
  | PNodeValue net (n :: _) => match node_targets net n with [] => true | _ => false end
  | PHier HInput _ _ _ | PHier HUpdate _ _ _ => true
  | PHier HNodeValue depth hnet p =>
      too_short depth p ||
      match skipn depth p with
      | n :: _ => match node_targets (subnet hnet (firstn depth p)) n with [] => true | _ => false end
      | [] => false
      end
  | _ => false
  end.
Definition meets_spec (p : probe) (observed : result) : bool :=
  match observed with
  | Ok => wellformedb p
  | Warn => wellformedb p || warn_suffices p
  | Err _ => true
  end.
Definition loud_enough (p : probe) (r : result) : Prop :=
  match r with Ok => False | Warn => warn_suffices p = true | Err _ => True end.
