(* PyLib.v — Python-shaped primitives used by the code that harness/py2v.py (E2) generates into coq/gen/.
   int -> Z, str -> string, list -> list, dict[str,int] -> association list in insertion order,
   a partial operation (KeyError) -> option; `while` -> fuelled Fixpoint (emitted by the translator).
   The lemmas at the end are what the *Equiv.v files need about these primitives. *)
From Coq Require Import ZArith List Bool String Ascii DecimalString DecimalZ Lia.
Import ListNotations.

(* option monad used for partial operations *)
Definition py_bind {A B} (x : option A) (f : A -> option B) : option B :=
  match x with Some a => f a | None => None end.

(* str(int) / f"{n}" for an int: decimal digits, leading '-' for negatives *)
Definition py_str_Z (z : Z) : string := NilEmpty.string_of_int (Z.to_int z).

(* dict[str,int]: insertion-ordered association list, keys unique by construction of py_dset *)
Definition dict := list (string * Z).
Fixpoint py_dget (d : dict) (k : string) : option Z :=
  match d with
  | [] => None
  | (k', v) :: d' => if String.eqb k' k then Some v else py_dget d' k
  end.
Fixpoint py_dset (d : dict) (k : string) (v : Z) : dict :=
  match d with
  | [] => [(k, v)]
  | (k', v') :: d' => if String.eqb k' k then (k', v) :: d' else (k', v') :: py_dset d' k v
  end.
Definition py_keys (d : dict) : list string := map fst d.
Fixpoint py_in_str (k : string) (l : list string) : bool :=
  match l with [] => false | x :: l' => if String.eqb x k then true else py_in_str k l' end.
Definition py_din (d : dict) (k : string) : bool := py_in_str k (py_keys d).

(* enumerate(l) *)
Definition py_enumerate {A} (l : list A) : list (Z * A) := combine (map Z.of_nat (seq 0 (List.length l))) l.

(* ---------------------------------------------------------------------------------------------- lemmas *)
Lemma py_str_Z_inj a b : py_str_Z a = py_str_Z b -> a = b.
Proof.
  unfold py_str_Z. intros H.
  assert (E : Some (Z.to_int a) = Some (Z.to_int b)) by (rewrite <- !NilEmpty.isi; now rewrite H).
  injection E as E. rewrite <- (DecimalZ.of_to a), <- (DecimalZ.of_to b). now rewrite E.
Qed.

Lemma append_inj_l (p a b : string) : (p ++ a = p ++ b)%string -> a = b.
Proof. induction p as [|c p IH]; cbn; intros H; [exact H|]. injection H as H. auto. Qed.

Lemma append_length (a b : string) : String.length (a ++ b) = (String.length a + String.length b)%nat.
Proof. induction a as [|c a IH]; cbn; [reflexivity|]. now rewrite IH. Qed.

Lemma py_in_str_In k l : py_in_str k l = true <-> In k l.
Proof.
  induction l as [|x l IH]; cbn; [split; [discriminate|tauto]|].
  destruct (String.eqb_spec x k) as [->|N]; [tauto|]. rewrite IH. split; [auto|]. intros [E|E]; [contradiction|exact E].
Qed.

Lemma py_din_In d k : py_din d k = true <-> In k (py_keys d).
Proof. apply py_in_str_In. Qed.

Lemma py_dget_in d k : py_din d k = true -> exists v, py_dget d k = Some v.
Proof.
  unfold py_din, py_keys. induction d as [|[k' v'] d IH]; cbn; [discriminate|].
  destruct (String.eqb k' k); [eauto|exact IH].
Qed.

(* assigning to a key that exists keeps the key list; a new key is appended at the end *)
Lemma py_dset_keys_in d k v : In k (py_keys d) -> py_keys (py_dset d k v) = py_keys d.
Proof.
  unfold py_keys. induction d as [|[k' v'] d IH]; cbn; [tauto|].
  destruct (String.eqb_spec k' k) as [->|N]; cbn; [reflexivity|].
  intros [E|E]; [contradiction|]. now rewrite IH.
Qed.
Lemma py_dset_keys_new d k v : ~ In k (py_keys d) -> py_keys (py_dset d k v) = py_keys d ++ [k].
Proof.
  unfold py_keys. induction d as [|[k' v'] d IH]; cbn; [reflexivity|].
  destruct (String.eqb_spec k' k) as [->|N]; cbn; [tauto|].
  intros H. rewrite IH; [reflexivity|tauto].
Qed.
Lemma py_dset_keys_incl d k v x : In x (py_keys d) -> In x (py_keys (py_dset d k v)).
Proof.
  unfold py_keys. induction d as [|[k' v'] d IH]; cbn; [tauto|].
  destruct (String.eqb k' k); cbn; tauto.
Qed.
Lemma py_dset_keys_has d k v : In k (py_keys (py_dset d k v)).
Proof.
  unfold py_keys. induction d as [|[k' v'] d IH]; cbn; [auto|].
  destruct (String.eqb_spec k' k) as [->|N]; cbn; auto.
Qed.

(* ---------------------------------------------------------------------------------------------- str operations
   Defined on the character list of the string (la / sla are the stdlib conversions), so that the *Equiv.v files
   can relate them to hand models written over `list ascii`. *)
Definition la : string -> list ascii := list_ascii_of_string.
Definition sla : list ascii -> string := string_of_list_ascii.
Fixpoint la_prefixb (p s : list ascii) : bool :=
  match p, s with
  | [], _ => true
  | a :: p', b :: s' => Ascii.eqb a b && la_prefixb p' s'
  | _ :: _, [] => false
  end.
(* s.find(t): index of the leftmost occurrence, -1 when there is none ("".find("") = 0) *)
Fixpoint la_find (t s : list ascii) : option nat :=
  if la_prefixb t s then Some 0%nat else
  match s with [] => None | _ :: s' => option_map S (la_find t s') end.
Definition py_find (s t : string) : Z :=
  match la_find (la t) (la s) with Some i => Z.of_nat i | None => (-1)%Z end.
(* `p in s` for two str: substring test ("" is in every string) *)
Fixpoint la_contains (p s : list ascii) : bool :=
  la_prefixb p s || match s with [] => false | _ :: s' => la_contains p s' end.
Definition py_contains (p s : string) : bool := la_contains (la p) (la s).
(* slice bounds: negative bounds count from the end, everything is clamped to [0, len] *)
Definition py_norm (len : nat) (i : Z) : nat :=
  if (i <? 0)%Z then Z.to_nat (Z.max 0 (i + Z.of_nat len)) else Nat.min len (Z.to_nat i).
Definition py_slice (s : string) (lo hi : option Z) : string :=
  let l := la s in let n := List.length l in
  let a := match lo with Some i => py_norm n i | None => 0%nat end in
  let b := match hi with Some i => py_norm n i | None => n end in
  sla (firstn (b - a) (skipn a l)).
(* s[i]: negative index wraps once; out of range = IndexError = None *)
Definition py_index (s : string) (i : Z) : option string :=
  let l := la s in
  let j := if (i <? 0)%Z then (i + Z.of_nat (List.length l))%Z else i in
  if (j <? 0)%Z then None else
  match nth_error l (Z.to_nat j) with Some c => Some (sla [c]) | None => None end.
(* a % b on ints (sign of the divisor, like Z.modulo); b = 0 raises ZeroDivisionError = None *)
Definition py_mod (a b : Z) : option Z := if (b =? 0)%Z then None else Some (a mod b)%Z.

(* ---------------------------------------------------------------------------------------------- list[str], dict[str,str] *)
(* s.split(c) for a one-character separator: never the empty list ("".split("/") = [""]) *)
Fixpoint la_split (c : ascii) (cur : list ascii) (s : list ascii) : list (list ascii) :=
  match s with
  | [] => [rev cur]
  | x :: s' => if Ascii.eqb x c then rev cur :: la_split c [] s' else la_split c (x :: cur) s'
  end.
Definition py_split_char (s : string) (c : ascii) : list string := map sla (la_split c [] (la s)).
Fixpoint py_join (sep : string) (l : list string) : string :=
  match l with
  | [] => ""%string
  | x :: l' => match l' with [] => x | _ => (x ++ sep ++ py_join sep l')%string end
  end.
(* l[a:b] and l[i] on lists, same bound rules as for str *)
Definition py_lslice {A} (l : list A) (lo hi : option Z) : list A :=
  let n := List.length l in
  let a := match lo with Some i => py_norm n i | None => 0%nat end in
  let b := match hi with Some i => py_norm n i | None => n end in
  firstn (b - a) (skipn a l).
Definition py_lindex {A} (l : list A) (i : Z) : option A :=
  let j := if (i <? 0)%Z then (i + Z.of_nat (List.length l))%Z else i in
  if (j <? 0)%Z then None else nth_error l (Z.to_nat j).
Definition sdict := list (string * string).
Fixpoint py_sget (d : sdict) (k : string) : option string :=
  match d with [] => None | (k', v) :: d' => if String.eqb k' k then Some v else py_sget d' k end.
Definition py_sin (d : sdict) (k : string) : bool := match py_sget d k with Some _ => true | None => false end.

(* ---------------------------------------------------------------------------------------------- ranges, printing of list[int] *)
(* list(range(a, b)) / list(np.arange(a, b)) for ints *)
Definition py_range (a b : Z) : list Z := map (fun k => (a + Z.of_nat k)%Z) (seq 0 (Z.to_nat (b - a))).
(* str([1, 2, 3]) = "[1, 2, 3]" *)
Definition py_str_list_Z (l : list Z) : string := ("[" ++ py_join ", " (map py_str_Z l) ++ "]")%string.
