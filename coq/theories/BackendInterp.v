(* BackendInterp.v — 1-D interpolation of extrinsic inputs: the specification (numpy `interp` semantics, which the
   default backend and — through `jax.numpy.interp` — the jax backend call directly) and executable models of the
   two helpers that PyRates itself writes, AS CODED NOW:

   torch   (pyrates/backend/torch/torch_funcs.py, source string `interp`, exec'ed into the generated module):
       n = x.shape[0]
       i2 = clamp(searchsorted(x, x_new, right=True), 1, n-1)
       i1 = i2 - 1
       alpha = clamp((x_new - x[i1]) / (x[i2] - x[i1]), 0.0, 1.0)
       return y[i1] + alpha*(y[i2] - y[i1])

   Fortran (pyrates/backend/fortran/fortran_funcs.py:get_interp_def, emitted as `finterp_<k>`; 1-based arrays):
       s = size(x)
       if (x_new < x(1)) then            finterp = y(1)
       else if (x_new > x(s)) then       finterp = y(s)
       else
         do n = 1, s ; if (x(n) > x_new) exit ; end do          ! n = s+1 when the loop runs to completion
         if (n == 1) then                finterp = y(1)
         else if (n == s+1) then         finterp = y(s)
         else  x_inc = (x_new - x(n-1)) / (x(n) - x(n-1)) ;  finterp = y(n-1) + x_inc*(y(n) - y(n-1))

   `interp_rows(t, time, inp) = array([interp(t, time, inp[:, k]) for k in range(inp.shape[1])])` (base and jax).

   Numbers are canonical rationals (Qc); IEEE rounding is outside the model.  Definitions only. *)
From Coq Require Import List ZArith QArith Qcanon Bool Arith.
From PV Require Import History.
Import ListNotations.
Open Scope Qc_scope.

(* ------------------------------------------------------------------------------------------------ Spec *)
(* the straight line through (xa,ya), (xb,yb), evaluated at q *)
Definition lerp1 (xa ya xb yb q : Qc) : Qc := ya + (q - xa) / (xb - xa) * (yb - ya).

Fixpoint interp_from (xa ya : Qc) (rest : list (Qc * Qc)) (q : Qc) : Qc :=
  match rest with
  | [] => ya                                                   (* at or right of the last grid point: clamp *)
  | (xb, yb) :: rest' => if Qcltb q xb then lerp1 xa ya xb yb q else interp_from xb yb rest' q
  end.

(* interp_np xs ys q  =  numpy.interp(q, xs, ys) for an increasing grid xs *)
Definition interp_np (xs ys : list Qc) (q : Qc) : Qc :=
  match combine xs ys with
  | [] => 0
  | (x0, y0) :: rest => if Qcleb q x0 then y0 (* left of the grid: clamp *) else interp_from x0 y0 rest q
  end.

(* ------------------------------------------------------------------------------------------------ torch *)
(* torch.searchsorted(x, q, right=True) on a sorted 1-D tensor: the number of leading entries <= q *)
Fixpoint searchsorted_right (xs : list Qc) (q : Qc) : nat :=
  match xs with
  | [] => O
  | x :: xs' => if Qcleb x q then S (searchsorted_right xs' q) else O
  end.

(* torch.clamp(v, lo, hi) = min(max(v, lo), hi) *)
Definition clamp_nat (v lo hi : nat) : nat := Nat.min (Nat.max v lo) hi.
Definition Qcmaxb (a b : Qc) : Qc := if Qcleb a b then b else a.
Definition Qcminb (a b : Qc) : Qc := if Qcleb a b then a else b.
Definition clamp_q (v lo hi : Qc) : Qc := Qcminb (Qcmaxb v lo) hi.

Definition interp_torch (xs ys : list Qc) (q : Qc) : Qc :=
  let n := length xs in
  let i2 := clamp_nat (searchsorted_right xs q) 1 (n - 1) in
  let i1 := (i2 - 1)%nat in
  let alpha := clamp_q ((q - nth i1 xs 0) / (nth i2 xs 0 - nth i1 xs 0)) 0 1 in
  nth i1 ys 0 + alpha * (nth i2 ys 0 - nth i1 ys 0).

(* ------------------------------------------------------------------------------------------------ Fortran *)
(* the search loop `do n = 1, s; if (x(n) > x_new) exit; end do` started at counter value n *)
Fixpoint first_gt (xs : list Qc) (q : Qc) (n : nat) : nat :=
  match xs with
  | [] => n
  | x :: xs' => if Qcltb q x then n else first_gt xs' q (S n)
  end.

(* 1-based element access x(i) *)
Definition at1 (l : list Qc) (i : nat) : Qc := nth (i - 1) l 0.

Definition interp_fortran (xs ys : list Qc) (q : Qc) : Qc :=
  let s := length xs in
  if Qcltb q (at1 xs 1) then at1 ys 1
  else if Qcltb (at1 xs s) q then at1 ys s
  else
    let n := first_gt xs q 1 in
    if (n =? 1)%nat then at1 ys 1
    else if (n =? s + 1)%nat then at1 ys s
    else
      let x_inc := (q - at1 xs (n - 1)) / (at1 xs n - at1 xs (n - 1)) in
      at1 ys (n - 1) + x_inc * (at1 ys n - at1 ys (n - 1)).

(* ------------------------------------------------------------------------------------------------ interp_rows *)
(* inp is a matrix given by its rows (one row per grid point); column k = inp[:, k] *)
Definition column (k : nat) (m : list row) : list Qc := map (fun r => nth k r 0) m.
Definition ncols (m : list row) : nat := length (hd [] m).

(* the helper, parametric in the scalar `interp` the backend binds (numpy.interp / jax.numpy.interp) *)
Definition interp_rows_with (interp1 : list Qc -> list Qc -> Qc -> Qc) (q : Qc) (xs : list Qc) (m : list row) : row :=
  map (fun k => interp1 xs (column k m) q) (seq 0 (ncols m)).
Definition interp_rows := interp_rows_with interp_np.

(* Spec of interp_rows: interpolate whole rows (vector form of the same three cases) *)
Fixpoint interp_rows_from (xa : Qc) (ra : row) (rest : list (Qc * row)) (q : Qc) : row :=
  match rest with
  | [] => ra
  | (xb, rb) :: rest' => if Qcltb q xb then vadd ra (vscale ((q - xa) / (xb - xa)) (vsub rb ra))
                         else interp_rows_from xb rb rest' q
  end.
Definition interp_rows_spec (q : Qc) (xs : list Qc) (m : list row) : row :=
  match combine xs m with
  | [] => []
  | (x0, r0) :: rest => if Qcleb q x0 then r0 else interp_rows_from x0 r0 rest q
  end.

(* grids *)
Fixpoint increasing (l : list Qc) : Prop :=
  match l with
  | [] => True
  | x :: l' => match l' with [] => True | y :: _ => x < y end /\ increasing l'
  end.
Fixpoint increasingb (l : list Qc) : bool :=
  match l with
  | [] => true
  | x :: l' => match l' with [] => true | y :: _ => Qcltb x y end && increasingb l'
  end.
Definition rect (w : nat) (m : list row) : Prop := forall r, In r m -> length r = w.
Definition rectb (w : nat) (m : list row) : bool := forallb (fun r => (length r =? w)%nat) m.
