(* JacobianReal.v — the instance K := R: the symbolic derivative D of Jacobian.v, with the rules PyRates/sympy use for
   sigmoid / exp / sin / cos / tanh, is the derivative in the sense of real analysis (Coquelicot `is_derive`).
   Real analysis: the theorems of this file depend on the axioms of the standard library's real numbers. *)
From Coq Require Import Reals List Lra RealField.
From Coquelicot Require Import Coquelicot.
From PV Require Import Jacobian JacobianProofs.
Local Open Scope R_scope.

Definition sigmoid (v : R) : R := / (1 + exp (- v)).
Definition R_fn (f : fn) (v : R) : R :=
  match f with
  | FId => v | FSig => sigmoid v | FAbs => Rabs v | FSign => sign v
  | FExp => exp v | FSin => sin v | FCos => cos v | FTanh => tanh v
  end.
Definition R_fn2 (g : fn2) (u v : R) : R := match g with FMax => Rmax u v | FMin => Rmin u v end.
Definition RO : ops R := mkops R 0 1 Rplus Rminus Rmult Ropp R_fn R_fn2 (/ 2).

Lemma RO_ring : ring_theory (o0 RO) (o1 RO) (oadd RO) (omul RO) (osub RO) (oopp RO) eq.
Proof. exact RTheory. Qed.

(* absv and sign are not differentiable at 0: the analytic statement is about the smooth functions *)
Definition smoothf (f : fn) : bool := match f with FAbs | FSign => false | _ => true end.
Fixpoint smooth (e : expr R) : bool :=
  match e with
  | Cst _ | At _ => true
  | Add a b | Sub a b | Mul a b => smooth a && smooth b
  | Neg a | PowN a _ => smooth a
  | Fn f a => smoothf f && smooth a
  | Fn2 _ _ _ => false          (* max / min are not differentiable at a tie *)
  end.

Lemma is_derive_eq (f : R -> R) x l l' : l = l' -> is_derive f x l -> is_derive f x l'.
Proof. intros ->; auto. Qed.

Lemma exp_sum_pos v : 0 < exp v + exp (- v).
Proof. generalize (exp_pos v) (exp_pos (- v)). lra. Qed.

Lemma sigmoid_derive v : is_derive sigmoid v (sigmoid v * (1 - sigmoid v)).
Proof.
  unfold sigmoid. auto_derive.
  - generalize (exp_pos (- v)). lra.
  - generalize (exp_pos (- v)). intro H. field. lra.
Qed.

Lemma tanh_derive v : is_derive tanh v (1 - tanh v * (tanh v * 1)).
Proof.
  unfold tanh, sinh, cosh. auto_derive.
  - generalize (exp_sum_pos v). lra.
  - generalize (exp_sum_pos v). intro H. field. lra.
Qed.

(* every function rule of D (`dfnI`) is the derivative of the function *)
Lemma fn_derive f v : smoothf f = true -> is_derive (R_fn f) v (dfnI RO f v).
Proof.
  destruct f; cbn [smoothf R_fn dfnI RO ofn o0 o1 omul osub oopp kpow]; intro H; try discriminate.
  - apply (is_derive_id v).
  - apply sigmoid_derive.
  - apply is_derive_exp.
  - apply is_derive_sin.
  - apply is_derive_cos.
  - apply tanh_derive.
Qed.

Lemma kpow_pow v k : kpow RO v k = v ^ k.
Proof. induction k; cbn; [reflexivity|]. now rewrite IHk. Qed.
Lemma ofnat_INR k : ofnat RO k = INR k.
Proof. induction k; [reflexivity|]. rewrite S_INR. cbn [ofnat RO oadd o1]. rewrite IHk. ring. Qed.

Lemma eval_ext (r1 r2 : atom -> R) e : (forall a, r1 a = r2 a) -> eval RO (fun c => c) r1 e = eval RO (fun c => c) r2 e.
Proof. intro H. induction e; cbn [eval]; congruence. Qed.
Lemma upd_same (r : atom -> R) x a : upd r x (r x) a = r a.
Proof. unfold upd. destruct (atom_eqb a x) eqn:E; [|reflexivity]. apply atom_eqb_eq in E. now subst. Qed.

Lemma pow_tangent0 (b p : R) : INR 0 * b * p = 0.
Proof. cbn. ring. Qed.
Lemma pow_tangent (n b p : R) : n * b * p = n * p * b.
Proof. ring. Qed.
Lemma scal_R (a b : R) : scal a b = b * a.
Proof. unfold scal; cbn. unfold mult; cbn. ring. Qed.

Notation evR := (eval RO (fun c : R => c)).
Notation evDR := (eval (dual_ops RO) (dinj RO)).

Lemma dual_is_derive r x e : smooth e = true ->
  is_derive (fun v => evR (upd r x v) e) (r x) (snd (evDR (seed RO r x) e)).
Proof.
  assert (Hfst : forall e', evR (upd r x (r x)) e' = fst (evDR (seed RO r x) e')).
  { intro e'. rewrite (D_dual R RO RO_ring). cbn [fst]. apply eval_ext, upd_same. }
  induction e as [c|a|e1 IH1 e2 IH2|e1 IH1 e2 IH2|e1 IH1 e2 IH2|e1 IH1|e1 IH1 k|f e1 IH1|g e1 IH1 e2 IH2]; cbn [smooth eval]; intro Hs.
  - apply (is_derive_const c (r x)).
  - unfold seed, upd. cbn [snd]. destruct (atom_eqb a x).
    + apply (is_derive_id (r x)).
    + apply (is_derive_const (r a) (r x)).
  - apply andb_prop in Hs as [H1 H2]. apply (is_derive_plus _ _ _ _ _ (IH1 H1) (IH2 H2)).
  - apply andb_prop in Hs as [H1 H2]. apply (is_derive_minus _ _ _ _ _ (IH1 H1) (IH2 H2)).
  - apply andb_prop in Hs as [H1 H2].
    eapply is_derive_eq; [|apply (is_derive_mult _ _ _ _ _ (IH1 H1) (IH2 H2)); intros n m; apply Rmult_comm].
    cbn [dual_ops omul snd RO oadd]. now rewrite !Hfst.
  - apply (is_derive_opp _ _ _ (IH1 Hs)).
  - eapply is_derive_ext; [intro t; symmetry; apply kpow_pow|].
    eapply is_derive_eq; [|apply (is_derive_pow _ k _ _ (IH1 Hs))].
    rewrite (kpow_dual R RO RO_ring). cbn [snd]. rewrite Hfst. destruct k as [|k'].
    + apply pow_tangent0.
    + rewrite ofnat_INR, kpow_pow. cbn [pred RO omul]. apply pow_tangent.
  - apply andb_prop in Hs as [Hf Hs].
    eapply is_derive_eq; [|apply (is_derive_comp (R_fn f) _ _ _ _ (fn_derive f _ Hf) (IH1 Hs))].
    cbn [dual_ops ofn snd fst RO omul]. rewrite Hfst. apply scal_R.
  - discriminate.
Qed.

(* D is the derivative: for every smooth expression, every environment r and every atom x (a state variable now, or a
   delayed state), v |-> eval (r with x := v) e is differentiable at r x with derivative eval r (D e x) *)
Theorem D_correct r x e : smooth e = true ->
  is_derive (fun v => evR (upd r x v) e) (r x) (evR r (D RO e x)).
Proof. intro Hs. rewrite (D_value R RO RO_ring). now apply dual_is_derive. Qed.

(* and for a whole right-hand side with its algebraic intermediates expanded (what get_jacobian_func differentiates) *)
Corollary D_correct_expanded l r x e : smooth (expand l e) = true ->
  is_derive (fun v => evR (run_algs RO (fun c => c) l (upd r x v)) e) (r x) (evR r (D RO (expand l e) x)).
Proof.
  intro Hs. eapply is_derive_ext; [intro t; apply expand_eval|]. now apply D_correct.
Qed.
