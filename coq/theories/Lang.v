(* Lang.v — C05: the equation language of PyRates as a formal object.
   Definitions only (proofs: LangProofs.v).

   Spec side  : characters -> tokens (`tokenize`) -> AST (`parse_toks`, fuelled precedence climbing, the Python/sympy
                precedences: + - < * / < unary minus < ^ ** (right associative, exponent may carry a unary minus)) ->
                value over Qc (`eval`).  `parse` + `eval` decide what a spelling means.
   Printers   : `pr` (AST -> tokens, minimal parentheses + redundant ones chosen by an oracle) and `render`
                (tokens -> characters, blanks and ^ / ** chosen by oracles).
   Impl side  : models of the PyRates-authored string handling:
                `split_equation` / `_preprocess_expr_str` (pyrates/backend/parser.py:363-416,615-681)   -> `classify`
                `_process_func_call` (pyrates/backend/computegraph.py:1531-1539)                           -> `process_func_call`
   sympy itself is not modelled (tie: correspondence run of harness/c05.py). *)
From Coq Require Import List ZArith QArith Qcanon Bool Arith Ascii String.
Import ListNotations.
Open Scope char_scope.
Open Scope list_scope.

Definition str := list ascii.
Definition s2l (s : string) : str := list_ascii_of_string s.
Definition mkq (num : Z) (den : positive) : Qc := Q2Qc (num # den).

(* ------------------------------------------------------------------------------------------------ characters *)
Definition code (c : ascii) : nat := nat_of_ascii c.
Definition is_digit (c : ascii) : bool := (48 <=? code c)%nat && (code c <=? 57)%nat.
Definition is_alpha (c : ascii) : bool :=
  ((65 <=? code c)%nat && (code c <=? 90)%nat) || ((97 <=? code c)%nat && (code c <=? 122)%nat) || (code c =? 95)%nat.
Definition is_idchar (c : ascii) : bool := is_alpha c || is_digit c.
Definition is_space (c : ascii) : bool := (code c =? 32)%nat || (code c =? 9)%nat.

Fixpoint str_eqb (a b : str) : bool :=
  match a, b with
  | [], [] => true
  | x :: a', y :: b' => Ascii.eqb x y && str_eqb a' b'
  | _, _ => false
  end.

(* ------------------------------------------------------------------------------------------------ tokens *)
Inductive tok :=
| TNum (ip fp : str)      (* digits before / after the decimal point *)
| TId (x : str)
| TPlus | TMinus | TMul | TDiv | TPow | TLp | TRp | TComma.

Definition tok_eqb (a b : tok) : bool :=
  match a, b with
  | TNum i f, TNum i' f' => str_eqb i i' && str_eqb f f'
  | TId x, TId y => str_eqb x y
  | TPlus, TPlus | TMinus, TMinus | TMul, TMul | TDiv, TDiv | TPow, TPow | TLp, TLp | TRp, TRp | TComma, TComma => true
  | _, _ => false
  end.

Definition wf_id (x : str) : bool :=
  match x with [] => false | c :: cs => is_alpha c && forallb is_idchar cs end.
(* Python rejects integer literals with a leading zero ("02"); so does the parser below *)
Definition lead0 (ip fp : str) : bool :=
  match ip, fp with c :: _ :: _, [] => Ascii.eqb c "0" | _, _ => false end.
Definition wf_num (ip fp : str) : bool :=
  match ip with [] => false | _ => forallb is_digit ip && forallb is_digit fp && negb (lead0 ip fp) end.
Definition wf_tok (t : tok) : bool :=
  match t with TNum ip fp => wf_num ip fp | TId x => wf_id x | _ => true end.

Definition single (c : ascii) : option tok :=
  if Ascii.eqb c "+" then Some TPlus else if Ascii.eqb c "-" then Some TMinus
  else if Ascii.eqb c "/" then Some TDiv else if Ascii.eqb c "^" then Some TPow
  else if Ascii.eqb c "(" then Some TLp else if Ascii.eqb c ")" then Some TRp
  else if Ascii.eqb c "," then Some TComma else None.

(* the tokenizer: a one-pass state machine; None = a character or number form outside the modelled language
   (`2x`, `[`, `<` ... ); exponent literals 1e-3 and `.5` are read as their decimal digits *)
Inductive lstate :=
| S0 | SId (acc : str) | SNum (ip : str) | SFrac (ip fp : str) | SStar
| SDot                                            (* a leading `.` : digits must follow (.5) *)
| SExp0 (ip fp : str)                             (* after e / E : sign or digit must follow *)
| SExpS (ip fp : str) (neg : bool)                (* after the sign : digit must follow *)
| SExp (ip fp : str) (neg : bool) (ds : str).     (* exponent digits *)

Definition is_e (c : ascii) : bool := Ascii.eqb c "e" || Ascii.eqb c "E".

(* m.f e+-n as plain decimal digits: the token of 2.5e-1 is TNum "0" "25" (a literal is its decimal value) *)
Fixpoint strip0 (ip : str) : str :=
  match ip with c :: (_ :: _) as r => if Ascii.eqb c "0" then strip0 r else ip | _ => ip end.
Definition exp_num (ip fp : str) (neg : bool) (ds : str) : tok :=
  let n := Z.to_nat ((fix dv (acc : Z) (l : str) : Z :=
                        match l with [] => acc | c :: r => dv (10 * acc + Z.of_nat (nat_of_ascii c - 48))%Z r end) 0%Z ds) in
  if neg then
    let z := repeat "0" n ++ ip in
    let k := (List.length z - n)%nat in
    TNum (strip0 (firstn k z)) (skipn k z ++ fp)
  else
    let f := fp ++ repeat "0" n in
    TNum (strip0 (ip ++ firstn n f)) (skipn n fp).

Definition start (c : ascii) : option (list tok * lstate) :=
  if is_space c then Some ([], S0)
  else if is_alpha c then Some ([], SId [c])
  else if is_digit c then Some ([], SNum [c])
  else if Ascii.eqb c "*" then Some ([], SStar)
  else if Ascii.eqb c "." then Some ([], SDot)
  else match single c with Some t => Some ([t], S0) | None => None end.

Definition emit (t : tok) (r : option (list tok * lstate)) : option (list tok * lstate) :=
  match r with Some (o, s) => Some (t :: o, s) | None => None end.

Definition step (st : lstate) (c : ascii) : option (list tok * lstate) :=
  match st with
  | S0 => start c
  | SId acc => if is_idchar c then Some ([], SId (acc ++ [c])) else emit (TId acc) (start c)
  | SNum ip => if is_digit c then Some ([], SNum (ip ++ [c]))
               else if Ascii.eqb c "." then Some ([], SFrac ip [])
               else if is_e c then Some ([], SExp0 ip [])
               else if is_alpha c then None
               else emit (TNum ip []) (start c)
  | SFrac ip fp => if is_digit c then Some ([], SFrac ip (fp ++ [c]))
                   else if is_e c then Some ([], SExp0 ip fp)
                   else if is_alpha c || Ascii.eqb c "." then None
                   else emit (TNum ip fp) (start c)
  | SStar => if Ascii.eqb c "*" then Some ([TPow], S0) else emit TMul (start c)
  | SDot => if is_digit c then Some ([], SFrac ["0"] [c]) else None
  | SExp0 ip fp => if is_digit c then Some ([], SExp ip fp false [c])
                   else if Ascii.eqb c "+" then Some ([], SExpS ip fp false)
                   else if Ascii.eqb c "-" then Some ([], SExpS ip fp true)
                   else None
  | SExpS ip fp neg => if is_digit c then Some ([], SExp ip fp neg [c]) else None
  | SExp ip fp neg ds => if is_digit c then Some ([], SExp ip fp neg (ds ++ [c]))
                         else if is_alpha c || Ascii.eqb c "." then None
                         else emit (exp_num ip fp neg ds) (start c)
  end.

Definition flush (st : lstate) : option (list tok) :=
  match st with
  | S0 => Some [] | SId acc => Some [TId acc] | SNum ip => Some [TNum ip []] | SFrac ip fp => Some [TNum ip fp]
  | SStar => Some [TMul] | SExp ip fp neg ds => Some [exp_num ip fp neg ds]
  | SDot | SExp0 _ _ | SExpS _ _ _ => None
  end.

Fixpoint lex (st : lstate) (s : str) : option (list tok) :=
  match s with
  | [] => flush st
  | c :: s' => match step st c with
               | None => None
               | Some (o, st') => match lex st' s' with None => None | Some ts => Some (o ++ ts) end
               end
  end.
Definition tokenize (s : str) : option (list tok) := lex S0 s.

(* ------------------------------------------------------------------------------------------------ AST *)
Inductive expr :=
| Num (ip fp : str)
| Var (x : str)
| Neg (a : expr)
| Add (a b : expr) | Sub (a b : expr) | Mul (a b : expr) | Div (a b : expr)
| Pow (a b : expr)
| Call (f : str) (args : list expr).

(* ------------------------------------------------------------------------------------------------ parser *)
Definition pres := option (expr * list tok).

Fixpoint pE (n : nat) (ts : list tok) {struct n} : pres :=
  match n with O => None | S n =>
    match pT n ts with Some (a, r) => pEl n a r | None => None end
  end
with pEl (n : nat) (acc : expr) (ts : list tok) {struct n} : pres :=
  match n with O => None | S n =>
    match ts with
    | TPlus :: r => match pT n r with Some (b, r') => pEl n (Add acc b) r' | None => None end
    | TMinus :: r => match pT n r with Some (b, r') => pEl n (Sub acc b) r' | None => None end
    | _ => Some (acc, ts)
    end
  end
with pT (n : nat) (ts : list tok) {struct n} : pres :=
  match n with O => None | S n =>
    match pU n ts with Some (a, r) => pTl n a r | None => None end
  end
with pTl (n : nat) (acc : expr) (ts : list tok) {struct n} : pres :=
  match n with O => None | S n =>
    match ts with
    | TMul :: r => match pU n r with Some (b, r') => pTl n (Mul acc b) r' | None => None end
    | TDiv :: r => match pU n r with Some (b, r') => pTl n (Div acc b) r' | None => None end
    | _ => Some (acc, ts)
    end
  end
with pU (n : nat) (ts : list tok) {struct n} : pres :=
  match n with O => None | S n =>
    match ts with
    | TMinus :: r => match pU n r with Some (a, r') => Some (Neg a, r') | None => None end
    | TPlus :: r => pU n r                          (* unary plus: +x is x *)
    | _ => pP n ts
    end
  end
with pP (n : nat) (ts : list tok) {struct n} : pres :=
  match n with O => None | S n =>
    match pA n ts with
    | Some (a, TPow :: r) => match pU n r with Some (b, r') => Some (Pow a b, r') | None => None end
    | other => other
    end
  end
with pA (n : nat) (ts : list tok) {struct n} : pres :=
  match n with O => None | S n =>
    match ts with
    | TNum ip fp :: r => if lead0 ip fp then None else Some (Num ip fp, r)
    | TId x :: TLp :: TRp :: r => Some (Call x [], r)
    | TId x :: TLp :: r => match pArgs n r with Some (args, r') => Some (Call x args, r') | None => None end
    | TId x :: r => Some (Var x, r)
    | TLp :: r => match pE n r with Some (e, TRp :: r') => Some (e, r') | _ => None end
    | _ => None
    end
  end
with pArgs (n : nat) (ts : list tok) {struct n} : option (list expr * list tok) :=
  match n with O => None | S n =>
    match pE n ts with
    | Some (e, TComma :: r) => match pArgs n r with Some (es, r') => Some (e :: es, r') | None => None end
    | Some (e, TRp :: r) => Some ([e], r)
    | _ => None
    end
  end.

Definition fuel_for (ts : list tok) : nat := 16 * List.length ts + 16.
Definition parse_toks (ts : list tok) : option expr :=
  match pE (fuel_for ts) ts with Some (e, []) => Some e | _ => None end.
Definition parse (s : str) : option expr :=
  match tokenize s with Some ts => parse_toks ts | None => None end.

(* ------------------------------------------------------------------------------------------------ evaluation *)
Fixpoint digits_val (acc : Z) (ds : str) : Z :=
  match ds with [] => acc | c :: r => digits_val (10 * acc + Z.of_nat (code c - 48)) r end.
Definition num_val (ip fp : str) : Qc :=
  mkq (digits_val 0 (ip ++ fp)) (Z.to_pos (10 ^ Z.of_nat (List.length fp))).

Definition oadd (a b : option Qc) : option Qc := match a, b with Some x, Some y => Some (x + y)%Qc | _, _ => None end.
Definition osub (a b : option Qc) : option Qc := match a, b with Some x, Some y => Some (x - y)%Qc | _, _ => None end.
Definition omul (a b : option Qc) : option Qc := match a, b with Some x, Some y => Some (x * y)%Qc | _, _ => None end.
Definition oneg (a : option Qc) : option Qc := match a with Some x => Some (- x)%Qc | None => None end.
Definition qc_is_zero (x : Qc) : bool := Qeq_bool (this x) 0.
Definition odiv (a b : option Qc) : option Qc :=
  match a, b with Some x, Some y => if qc_is_zero y then None else Some (x / y)%Qc | _, _ => None end.
(* integer exponents only (None otherwise: outside the exactly decidable fragment) *)
Definition opow (a b : option Qc) : option Qc :=
  match a, b with
  | Some x, Some y =>
      match Qden (this y) with
      | 1%positive =>
          let z := Qnum (this y) in
          if (0 <=? z)%Z then Some (Qcpower x (Z.to_nat z))
          else if qc_is_zero x then None else Some (/ Qcpower x (Z.to_nat (- z)))%Qc
      | _ => None
      end
  | _, _ => None
  end.

(* the only call with an exact meaning here: index(v, k) on a vector variable (the helper whose rendering is
   done by string surgery in the generated code) *)
Definition nat_of_digits (ds : str) : nat := Z.to_nat (digits_val 0 ds).

(* evaluation context: scalars, vectors, matrices, and the component that is observed (numpy broadcasting of scalars
   against 1-d arrays is component-wise, so a vector-valued right-hand side is its components) *)
Record ectx := { sc : str -> option Qc; vec : str -> option (list Qc); mat : str -> option (list (list Qc)); comp : nat }.

Definition is_f (f : str) (name : string) : bool := str_eqb f (s2l name).
Definition nth2 (m : list (list Qc)) (i j : nat) : option Qc :=
  match nth_error m i with Some row => nth_error row j | None => None end.

Definition var_val (cx : ectx) (x : str) : option Qc :=
  match sc cx x with
  | Some q => Some q
  | None => match vec cx x with Some l => nth_error l (comp cx) | None => None end
  end.

(* the exact two-argument functions of the language: maxi / mini (numpy maximum / minimum) *)
Definition qc_le (x y : Qc) : bool := Qle_bool (this x) (this y).
Definition fn2 (f : str) (a b : option Qc) : option Qc :=
  match a, b with
  | Some x, Some y =>
      if is_f f "maxi" then Some (if qc_le x y then y else x)
      else if is_f f "mini" then Some (if qc_le x y then x else y)
      else None
  | _, _ => None
  end.

(* the exact one-argument functions: absv (numpy abs) and round (numpy round: half to even) *)
Definition round_half_even (q : Qc) : Qc :=
  let n := Qnum (this q) in let d := Zpos (Qden (this q)) in
  let fl := (n / d)%Z in let r2 := (2 * (n - fl * d))%Z in
  let z := if (r2 <? d)%Z then fl else if (d <? r2)%Z then (fl + 1)%Z else if Z.even fl then fl else (fl + 1)%Z in
  mkq z 1.
Definition fn1 (f : str) (a : option Qc) : option Qc :=
  match a with
  | Some x =>
      if is_f f "no_op" || is_f f "identity" then Some x
      else if is_f f "absv" then Some (if qc_le 0%Qc x then x else (- x)%Qc)
      else if is_f f "round" then Some (round_half_even x)
      else None
  | None => None
  end.
Definition to_nat (a : option Qc) : option nat :=
  match a with
  | Some q => match Qden (this q) with 1%positive => if (0 <=? Qnum (this q))%Z then Some (Z.to_nat (Qnum (this q))) else None | _ => None end
  | None => None
  end.
Definition range_at (cx : ectx) (v : str) (i j : option nat) : option Qc :=
  match vec cx v, i, j with
  | Some l, Some a, Some b => if (a + comp cx <? b)%nat then nth_error l (a + comp cx) else None
  | _, _, _ => None
  end.

Fixpoint eval (cx : ectx) (e : expr) : option Qc :=
  match e with
  | Num ip fp => Some (num_val ip fp)
  | Var x => var_val cx x
  | Neg a => oneg (eval cx a)
  | Add a b => oadd (eval cx a) (eval cx b)
  | Sub a b => osub (eval cx a) (eval cx b)
  | Mul a b => omul (eval cx a) (eval cx b)
  | Div a b => odiv (eval cx a) (eval cx b)
  | Pow a b => opow (eval cx a) (eval cx b)
  | Call f [Var v] =>
      if is_f f "index_axis" then match vec cx v with Some l => nth_error l (comp cx) | None => None end
      else fn1 f (var_val cx v)
  | Call f [a] => fn1 f (eval cx a)                 (* pass-through marker, absv, round *)
  | Call f [Var v; Num ip []] =>
      if is_f f "index" then
        match vec cx v with
        | Some l => nth_error l (nat_of_digits ip)                                   (* v[i] *)
        | None => match mat cx v with Some m => nth2 m (nat_of_digits ip) (comp cx) | None => None end   (* A[i] *)
        end
      else fn2 f (var_val cx v) (Some (num_val ip []))
  | Call f [a; b] => fn2 f (eval cx a) (eval cx b)
  | Call f [Var v; Num i []; Num j []] =>
      if is_f f "index_2d" then match mat cx v with Some m => nth2 m (nat_of_digits i) (nat_of_digits j) | None => None end
      else if is_f f "index_range" then range_at cx v (Some (nat_of_digits i)) (Some (nat_of_digits j))   (* v[i:j] *)
      else if is_f f "index_axis" then                                               (* index_axis(A, i, 1) = A[:, i] *)
        if (nat_of_digits j =? 1)%nat then match mat cx v with Some m => nth2 m (comp cx) (nat_of_digits i) | None => None end
        else None
      else None
  | Call f [Var v; a; b] =>                                                          (* v[a:b] with computed bounds *)
      if is_f f "index_range" then range_at cx v (to_nat (eval cx a)) (to_nat (eval cx b)) else None
  | Call _ _ => None
  end.

Fixpoint lookup {A} (l : list (str * A)) (x : str) : option A :=
  match l with [] => None | (k, v) :: r => if str_eqb k x then Some v else lookup r x end.

Definition mkctx (env : list (str * Qc)) (venv : list (str * list Qc)) (menv : list (str * list (list Qc))) (k : nat) : ectx :=
  {| sc := lookup env; vec := lookup venv; mat := lookup menv; comp := k |}.
Definition eval_ctx (cx : ectx) (s : str) : option Qc :=
  match parse s with Some e => eval cx e | None => None end.
Definition eval_string (env : list (str * Qc)) (venv : list (str * list Qc)) (s : str) : option Qc :=
  eval_ctx (mkctx env venv [] 0) s.

(* sums / products written as lists of terms / factors *)
Fixpoint sum_of (a : expr) (l : list expr) : expr := match l with [] => a | b :: r => sum_of (Add a b) r end.
Fixpoint prod_of (a : expr) (l : list expr) : expr := match l with [] => a | b :: r => prod_of (Mul a b) r end.
Definition sum_list (l : list expr) : expr := match l with [] => Num ["0"] [] | a :: r => sum_of a r end.
Definition prod_list (l : list expr) : expr := match l with [] => Num ["1"] [] | a :: r => prod_of a r end.

(* ------------------------------------------------------------------------------------------------ well-formed ASTs *)
Fixpoint wf_expr (e : expr) : bool :=
  match e with
  | Num ip fp => wf_num ip fp
  | Var x => wf_id x
  | Neg a => wf_expr a
  | Add a b | Sub a b | Mul a b | Div a b | Pow a b => wf_expr a && wf_expr b
  | Call f args => wf_id f && (fix all (l : list expr) : bool := match l with [] => true | a :: r => wf_expr a && all r end) args
  end.

(* expressions without calls: the operator subset *)
Fixpoint no_call (e : expr) : bool :=
  match e with
  | Num _ _ | Var _ => true
  | Neg a => no_call a
  | Add a b | Sub a b | Mul a b | Div a b | Pow a b => no_call a && no_call b
  | Call _ _ => false
  end.

(* ------------------------------------------------------------------------------------------------ printers *)
(* level of the nonterminal that yields the constructor: 0 additive, 1 multiplicative, 2 unary minus, 3 power, 4 atom *)
Definition natlvl (e : expr) : nat :=
  match e with Add _ _ | Sub _ _ => 0 | Mul _ _ | Div _ _ => 1 | Neg _ => 2 | Pow _ _ => 3 | _ => 4 end.

(* parenthesisation oracle: number of redundant pairs of parentheses around the sub-expression at a path *)
Definition pstyle := list nat -> nat.
Definition sub (i : nat) (ps : pstyle) : pstyle := fun p => ps (i :: p).

Fixpoint wrap (k : nat) (ts : list tok) : list tok :=
  match k with O => ts | S k => TLp :: wrap k ts ++ [TRp] end.

Fixpoint pr (lvl : nat) (ps : pstyle) (e : expr) {struct e} : list tok :=
  wrap (ps [] + (if (natlvl e <? lvl)%nat then 1 else 0))
    match e with
    | Num ip fp => [TNum ip fp]
    | Var x => [TId x]
    | Neg a => TMinus :: pr 2 (sub 0 ps) a
    | Add a b => pr 0 (sub 0 ps) a ++ TPlus :: pr 1 (sub 1 ps) b
    | Sub a b => pr 0 (sub 0 ps) a ++ TMinus :: pr 1 (sub 1 ps) b
    | Mul a b => pr 1 (sub 0 ps) a ++ TMul :: pr 2 (sub 1 ps) b
    | Div a b => pr 1 (sub 0 ps) a ++ TDiv :: pr 2 (sub 1 ps) b
    | Pow a b => pr 4 (sub 0 ps) a ++ TPow :: pr 2 (sub 1 ps) b
    | Call f args =>
        TId f :: TLp ::
        (fix go (i : nat) (l : list expr) {struct l} : list tok :=
           match l with
           | [] => [TRp]
           | a :: l' => pr 0 (sub i ps) a ++ match l' with [] => go (S i) l' | _ => TComma :: go (S i) l' end
           end) 0%nat args
    end.

(* character level: blanks before token i (sp i), and the spelling of the power operator at token i (pw i) *)
Definition wordy (t : tok) : bool := match t with TNum _ _ | TId _ => true | _ => false end.
Definition need_sep (t u : tok) : bool :=
  (wordy t && wordy u) || match t, u with TMul, TMul | TMul, TPow => true | _, _ => false end.
Definition tok_text (pw : bool) (t : tok) : str :=
  match t with
  | TNum ip [] => ip
  | TNum ip fp => ip ++ "." :: fp
  | TId x => x
  | TPlus => ["+"] | TMinus => ["-"] | TMul => ["*"] | TDiv => ["/"]
  | TPow => if pw then ["*"; "*"] else ["^"]
  | TLp => ["("] | TRp => [")"] | TComma => [","]
  end.
Definition blanks (n : nat) : str := repeat " " n.

Fixpoint render (sp : nat -> nat) (pw : nat -> bool) (i : nat) (prev : option tok) (ts : list tok) : str :=
  match ts with
  | [] => blanks (sp i)
  | t :: r =>
      blanks (sp i + match prev with Some p => if need_sep p t then 1 else 0 | None => 0 end)
      ++ tok_text (pw i) t ++ render sp pw (S i) (Some t) r
  end.

Record style := { st_par : pstyle; st_sp : nat -> nat; st_pw : nat -> bool }.
Definition print (s : style) (e : expr) : str := render (st_sp s) (st_pw s) 0 None (pr 0 (st_par s) e).

(* canonical fully explicit text (used to hand the Coq reading of a string back to the harness) *)
Definition plain : style := {| st_par := fun _ => 0%nat; st_sp := fun _ => 0%nat; st_pw := fun _ => true |}.
Definition full : style := {| st_par := fun _ => 1%nat; st_sp := fun _ => 0%nat; st_pw := fun _ => true |}.

(* ------------------------------------------------------------------------------------------------ Python str helpers *)
Fixpoint prefix (p s : str) : bool :=
  match p, s with
  | [], _ => true
  | a :: p', b :: s' => Ascii.eqb a b && prefix p' s'
  | _ :: _, [] => false
  end.

(* str.find *)
Fixpoint find (p s : str) : option nat :=
  if prefix p s then Some 0%nat
  else match s with [] => None | _ :: s' => option_map S (find p s') end.
Definition contains (p s : str) : bool := match find p s with Some _ => true | None => false end.

(* s.split(p, maxsplit=1) when p occurs *)
Fixpoint split_first (p s : str) : option (str * str) :=
  if prefix p s then Some ([], skipn (List.length p) s)
  else match s with
       | [] => None
       | c :: s' => match split_first p s' with Some (l, r) => Some (c :: l, r) | None => None end
       end.

(* str.replace(old, new) for non-empty old: left to right, non-overlapping *)
Fixpoint replace_fuel (n : nat) (old new s : str) : str :=
  match n with
  | O => s
  | S n => if prefix old s then new ++ replace_fuel n old new (skipn (List.length old) s)
           else match s with [] => [] | c :: s' => c :: replace_fuel n old new s' end
  end.
(* str.replace('', new): new before every character and at the end *)
Fixpoint intersperse (new s : str) : str := match s with [] => new | c :: s' => new ++ c :: intersperse new s' end.
Definition py_replace (old new s : str) : str :=
  match old with [] => intersperse new s | _ => replace_fuel (S (List.length s)) old new s end.

Fixpoint remove_char (c : ascii) (s : str) : str :=
  match s with [] => [] | x :: s' => if Ascii.eqb x c then remove_char c s' else x :: remove_char c s' end.
Fixpoint remove_first_char (c : ascii) (s : str) : str :=
  match s with [] => [] | x :: s' => if Ascii.eqb x c then s' else x :: remove_first_char c s' end.

(* ------------------------------------------------------------------------------------------------ Impl: lhs forms *)
(* split_equation (pyrates/backend/parser.py): the loop over ['+=', '-=', '*=', '/='] with its `elif '=' in expr` arm,
   as the code is: `-=`, `*=`, `/=` are reached only when the `=` arm declines (a lone comparison), so `x -= 1` is
   split at "= " into ("x -", "1", "=") *)
Definition not_assign_only (s : str) : bool :=
  existsb (fun na => contains na s && negb (contains ["="] (py_replace na [] s)))
          [s2l "<="; s2l ">="; s2l "=="; s2l "!="].

Definition assign_type (s : str) : option str :=
  if contains (s2l "+=") s then Some (s2l "+=")
  else if negb (contains ["="] s) then None
  else if negb (not_assign_only s) then Some ["="]
  else if contains (s2l "-=") s then Some (s2l "-=")
  else if contains (s2l "*=") s then Some (s2l "*=")
  else if contains (s2l "/=") s then Some (s2l "/=")
  else None.

Definition split4 (a s : str) : option (str * str) :=
  if contains (" " :: a ++ [" "]) s then split_first (" " :: a ++ [" "]) s
  else if contains (" " :: a) s then split_first (" " :: a) s
  else if contains (a ++ [" "]) s then split_first (a ++ [" "]) s
  else split_first a s.

Definition split_equation (s : str) : option (str * str * str) :=
  match assign_type s with
  | None => None
  | Some a => match split4 a s with Some (l, r) => Some (l, r, a) | None => None end
  end.

Record eqn := { e_lhs : str; e_key : str; e_de : bool; e_rhs : str; e_asg : str }.
(* CRaises: before repair D154 the third notation (`dx/dt = ...`) called str.replace(..., count=1), a TypeError on the
   pinned interpreter (Python 3.12);  CValueError: a differential equation with an augmented assignment;
   COut: no assignment can be found even after the `x = <expr>` completion *)
Inductive cres := CEqn (e : eqn) | CRaises | CValueError | COut.

Definition before (p s : str) : str := match split_first p s with Some (l, _) => l | None => s end.

Definition mk_eqn (lhs1 rhs : str) (de : bool) (a : str) : cres :=
  if de && negb (str_eqb a ["="]) then CValueError
  else CEqn {| e_lhs := remove_char " " lhs1; e_key := remove_char " " (before ["("] lhs1); e_de := de; e_rhs := rhs; e_asg := a |}.

(* _preprocess_expr_str, left-hand side part (the x(t-d) rewrite of the right-hand side is C10's subject);
   leib = the repair D154 is in the tree *)
Definition classify_split (leib : bool) (lhs rhs a : str) : cres :=
  if contains (s2l "d/dt") lhs then
    mk_eqn (match split_first ["*"] lhs with Some (_, r) => remove_char "*" r | None => [] end) rhs true a
  else if contains ["'"] lhs then mk_eqn (py_replace ["'"] [] lhs) rhs true a
  else if contains ["d"] lhs && contains (s2l "/dt") lhs then
    (if leib then mk_eqn (remove_first_char "d" (before (s2l "/dt") lhs)) rhs true a else CRaises)
  else mk_eqn lhs rhs false a.

Definition classify_gen (leib : bool) (s : str) : cres :=
  match split_equation s with
  | Some (l, r, a) => classify_split leib l r a
  | None =>                                   (* an expression without assignment is completed to `x = <expr>` *)
      match split_equation (s2l "x = " ++ s) with
      | Some (l, r, a) => classify_split leib l r a
      | None => COut
      end
  end.
(* the code as it is (D154 landed in round 7); classify_gen false = the tree before that repair *)
Definition classify : str -> cres := classify_gen true.

(* check_vname (pyrates/frontend/template/operator.py): names that a variable may not have *)
Definition reserved_names : list str :=
  map s2l ["y"; "dy"; "source_idx"; "target_idx"; "pi"; "I"; "E"; "S"; "Q"; "O"; "N"; "oo"; "zoo"; "nan";
           "beta"; "gamma"; "Beta"; "Gamma"; "exp"; "log"; "sin"; "cos"; "tan"; "cot"; "sec"; "csc";
           "sinh"; "cosh"; "tanh"; "sqrt"; "abs"]%string.
Definition reserved_parts : list str := map s2l ["_buffer"; "_delays"; "_maxdelay"; "_idx"; "_hist"]%string.
Definition vname_ok (v : str) : bool :=
  negb (existsb (str_eqb v) reserved_names) && negb (existsb (fun p => contains p v) reserved_parts).

(* ------------------------------------------------------------------------------------------------ Impl: call surgery *)
(* ComputeGraph._process_func_call(expr, func, replacement):
     start = expr.find(func + "("); end = expr[start:].find(")") + 1; expr.replace(expr[start:start+end], replacement)
   Every call site first tests `func( in expr`; None = that precondition is violated. *)
Definition process_func_call (expr func repl : str) : option str :=
  match find (func ++ ["("]) expr with
  | None => None
  | Some st =>
      let tail := skipn st expr in
      match find [")"] tail with
      | None => Some (py_replace [] repl expr)
      | Some j => Some (py_replace (firstn (S j) tail) repl expr)
      end
  end.

(* the identity/no_op branch of _expr_to_str after the repair D41: the marker call is replaced by its first argument
   in parentheses *)
Definition identity_surgery (expr var : str) : option str :=
  process_func_call expr (s2l "identity") ("(" :: var ++ [")"]).

Fixpoint balanced_from (d : nat) (s : str) : bool :=
  match s with
  | [] => (d =? 0)%nat
  | c :: s' => if Ascii.eqb c "(" then balanced_from (S d) s'
               else if Ascii.eqb c ")" then match d with O => false | S d' => balanced_from d' s' end
               else balanced_from d s'
  end.
Definition balanced (s : str) : bool := balanced_from 0 s.

(* outcome of the generated code for a helper call f(arg1, rest...) whose rendering goes through the surgery:
   the text of the call as sympy prints it is f ++ "(" ++ arg1 ++ rest ++ ")".  *)
Inductive outcome := Ok (s : str) | ErrSyntax | ErrKey.
Definition atomic_text (s : str) : bool := forallb is_idchar s.

(* guards of the recorded findings *)
Fixpoint has_call (e : expr) : bool :=
  match e with
  | Num _ _ | Var _ => false
  | Neg a => has_call a
  | Add a b | Sub a b | Mul a b | Div a b | Pow a b => has_call a || has_call b
  | Call _ _ => true
  end.
(* F1: a helper call inside a divisor (sympy prints x/f(..) but hands 1/f(..) to the textual replacement) *)
Fixpoint no_call_in_divisor (e : expr) : bool :=
  match e with
  | Num _ _ | Var _ | Call _ _ => true
  | Neg a => no_call_in_divisor a
  | Div a b => no_call_in_divisor a && negb (has_call b)
  | Add a b | Sub a b | Mul a b | Pow a b => no_call_in_divisor a && no_call_in_divisor b
  end.
Fixpoint mentions (x : str) (e : expr) : bool :=
  match e with
  | Num _ _ => false
  | Var y => str_eqb x y
  | Neg a => mentions x a
  | Add a b | Sub a b | Mul a b | Div a b | Pow a b => mentions x a || mentions x b
  | Call _ args => (fix any (l : list expr) : bool := match l with [] => false | a :: r => mentions x a || any r end) args
  end.
(* F4 (= C01-D22b): the duplicated variable `dup` is relabelled dup_v1 while the operator also owns a user variable dup_v1 *)
Definition no_label_chain (dup : str) (e : expr) : bool := negb (mentions dup e && mentions (dup ++ s2l "_v1") e).
(* F5: two summands q*B^a and q*B^b (same cofactor q, same base B, different exponents): sympy's subs() finds the
   smaller product inside the larger one when the parser replaces sub-expressions by graph symbols *)
Fixpoint expr_eqb (a b : expr) {struct a} : bool :=
  match a, b with
  | Num i f, Num i' f' => str_eqb i i' && str_eqb f f'
  | Var x, Var y => str_eqb x y
  | Neg x, Neg y => expr_eqb x y
  | Add x1 x2, Add y1 y2 | Sub x1 x2, Sub y1 y2 | Mul x1 x2, Mul y1 y2 | Div x1 x2, Div y1 y2 | Pow x1 x2, Pow y1 y2 =>
      expr_eqb x1 y1 && expr_eqb x2 y2
  | Call f xs, Call g ys =>
      str_eqb f g && (fix all2 (l : list expr) (m : list expr) {struct l} : bool :=
                        match l, m with [] , [] => true | x :: l', y :: m' => expr_eqb x y && all2 l' m' | _, _ => false end) xs ys
  | _, _ => false
  end.
Fixpoint sum_terms (neg : bool) (e : expr) : list (bool * expr) :=
  match e with
  | Add a b => sum_terms neg a ++ sum_terms neg b
  | Sub a b => sum_terms neg a ++ sum_terms (negb neg) b
  | Neg a => sum_terms (negb neg) a
  | _ => [(neg, e)]
  end.
Definition shared_pair (t u : bool * expr) : bool :=
  match snd t, snd u with
  | Mul q (Pow B (Num a [])), Mul q' (Pow B' (Num a' [])) =>
      Bool.eqb (fst t) (fst u) && expr_eqb q q' && expr_eqb B B' && negb (str_eqb a a')
  | _, _ => false
  end.
Fixpoint no_shared_in (l : list (bool * expr)) : bool :=
  match l with [] => true | t :: r => negb (existsb (shared_pair t) r) && no_shared_in r end.
Fixpoint no_shared_cofactor_powers (e : expr) : bool :=
  no_shared_in (sum_terms false e) &&
  match e with
  | Num _ _ | Var _ | Call _ _ => true
  | Neg a => no_shared_cofactor_powers a
  | Add a b | Sub a b | Mul a b | Div a b | Pow a b => no_shared_cofactor_powers a && no_shared_cofactor_powers b
  end.
Definition guard_shared (s : str) : bool := match parse s with Some e => no_shared_cofactor_powers e | None => true end.
(* F6: index_range with literal bounds that select exactly one element (a one-element slice written into a one-element state
   variable: the generated `dy[k] = ...` receives a sequence) *)
Fixpoint no_unit_slice (e : expr) : bool :=
  match e with
  | Num _ _ | Var _ => true
  | Neg a => no_unit_slice a
  | Add a b | Sub a b | Mul a b | Div a b | Pow a b => no_unit_slice a && no_unit_slice b
  | Call f [Var _; Num i []; Num j []] =>
      negb (is_f f "index_range" && (nat_of_digits j =? S (nat_of_digits i))%nat)
  | Call _ args => (fix all (l : list expr) : bool := match l with [] => true | a :: r => no_unit_slice a && all r end) args
  end.
Definition guard_unit_slice (s : str) : bool := match parse s with Some e => no_unit_slice e | None => true end.
(* F7 (Fortran backend): a variable-free sub-expression that is not a literal and whose value is not an integer (1/8, 7/2, 2^-3):
   sympy prints it as a quotient of integer literals, which Fortran divides as integers *)
Fixpoint closed (e : expr) : bool :=
  match e with
  | Num _ _ => true
  | Var _ | Call _ _ => false
  | Neg a => closed a
  | Add a b | Sub a b | Mul a b | Div a b | Pow a b => closed a && closed b
  end.
Definition is_integer (q : option Qc) : bool :=
  match q with Some x => match Qden (this x) with 1%positive => true | _ => false end | None => true end.
Fixpoint no_const_fraction (e : expr) : bool :=
  match e with
  | Num _ _ | Var _ | Call _ _ => true
  | Neg a => if closed e then is_integer (eval (mkctx [] [] [] 0) e) else no_const_fraction a
  | Add a b | Sub a b | Mul a b | Div a b | Pow a b =>
      if closed e then is_integer (eval (mkctx [] [] [] 0) e) else no_const_fraction a && no_const_fraction b
  end.
Definition guard_const_fraction (s : str) : bool := match parse s with Some e => no_const_fraction e | None => true end.
Definition guard_divisor (s : str) : bool := match parse s with Some e => no_call_in_divisor e | None => true end.
Definition guard_chain (dup s : str) : bool := match parse s with Some e => no_label_chain dup e | None => true end.

(* decidable comparison helpers for the correspondence run *)
Definition ostr_eqb (a b : option str) : bool :=
  match a, b with Some x, Some y => str_eqb x y | None, None => true | _, _ => false end.
Definition oq_eqb (a b : option Qc) : bool :=
  match a, b with Some x, Some y => Qeq_bool (this x) (this y) | None, None => true | _, _ => false end.
Definition eqn_eqb (a : cres) (lhs key : str) (de : bool) (rhs asg : str) : bool :=
  match a with
  | CEqn e => str_eqb (e_lhs e) lhs && str_eqb (e_key e) key && Bool.eqb (e_de e) de && str_eqb (e_rhs e) rhs && str_eqb (e_asg e) asg
  | _ => false
  end.
