(* MutationProofs.v — proofs about Mutation.v (C14): every listed operation only EXTENDS the store, hence the denotation
   of every template that existed before is unchanged (frame); outputs equal the specification's when no bookkeeping
   written by an earlier call is read by a later one; the bookkeeping defects are exhibited by computed witnesses. *)
From Coq Require Import List String Arith Bool QArith Qcanon Lia.
From PV Require Import Heap Values ValuesProofs Mutation.
Import ListNotations.
Open Scope nat_scope.

(* ------------------------------------------------------------------ deepcopy only appends (copy_*_extends: ValuesProofs) *)
Lemma deepcopy_heap_extends d r h : extends h (deepcopy_heap d r h).
Proof.
  unfold deepcopy_heap. destruct (copy_circ d h [] r) as [[[h' m'] c']|] eqn:E; [|apply extends_refl].
  eapply copy_circ_extends; eauto.
Qed.

(* ------------------------------------------------------------------ frame: each operation, then any sequence *)
Lemma mstep_extends fx fe f98 d r s o : op_ok fe f98 o = true -> extends (fst s) (fst (fst (mstep_gen fx fe f98 d r s o))).
Proof.
  unfold op_ok. intros G. apply andb_true_iff in G as [G1 G2].
  destruct s as [h b]. destruct o; cbn; try apply extends_refl; try apply deepcopy_heap_extends; try apply extends_app.
  - destruct q; try apply extends_refl. destruct f98; [apply extends_refl|discriminate].
  - destruct f98; [|discriminate]. match goal with |- context [sub_circ ?a ?b ?c ?e] => destruct (sub_circ a b c e) as [[d' c']|] end; cbn; apply extends_refl.
  - destruct (lookup h r) as [[| |ch es0]|]; cbn; try apply extends_refl. apply extends_app.
  - destruct fe; [|discriminate]. destruct (lookup h r) as [[| |ch es0]|]; cbn; try apply extends_refl.
    destruct (edges_update es0 s t upd); cbn; apply extends_app.
Qed.
Lemma mrun_extends fx fe f98 d r : forall ops s, ops_ok fe f98 ops = true ->
  extends (fst s) (fst (fst (mrun_gen fx fe f98 d r s ops))).
Proof.
  induction ops as [|o ops IH]; intros s G; cbn; [apply extends_refl|].
  cbn in G. apply andb_true_iff in G as [Ho Hr].
  pose proof (mstep_extends fx fe f98 d r s o Ho) as H1. destruct (mstep_gen fx fe f98 d r s o) as [s1 out]. cbn in H1.
  pose proof (IH s1 Hr) as H2. destruct (mrun_gen fx fe f98 d r s1 ops) as [s2 outs]. cbn in *. eapply extends_trans; eauto.
Qed.
Theorem frame_step fx fe f98 d r s o : op_ok fe f98 o = true ->
  forall d' c t, abs d' (fst s) c = Some t -> abs d' (fst (fst (mstep_gen fx fe f98 d r s o))) c = Some t.
Proof. intros. eapply abs_extends; eauto. now apply mstep_extends. Qed.
Theorem frame_sequence fx fe f98 d r ops s : ops_ok fe f98 ops = true ->
  forall d' c t, abs d' (fst s) c = Some t -> abs d' (fst (fst (mrun_gen fx fe f98 d r s ops))) c = Some t.
Proof. intros. eapply abs_extends; eauto. now apply mrun_extends. Qed.
Lemma ops_ok_all_fixed ops : ops_ok true true ops = true.
Proof. induction ops; cbn; auto. Qed.

(* ------------------------------------------------------------------ outputs *)
Lemma abs_root_edges d h r t : abs d h r = Some t -> exists ch, lookup h r = Some (OCirc ch (root_edges t)).
Proof.
  destruct d; cbn; destruct (lookup h r) as [[| |ch es]|]; try discriminate.
  - destruct (mapM _ ch); [|discriminate]. intros [= <-]. cbn. eauto.
  - destruct (mapM _ ch); [|discriminate]. intros [= <-]. cbn. eauto.
Qed.
Lemma read_equiv d r h t q : abs d h r = Some t -> read d r h q = tread t q.
Proof.
  intros H. destruct q as [pat|n| |s tg]; cbn.
  - now rewrite (get_nodes_equiv d h r t pat H).
  - pose proof (get_node_template_equiv d h r t n H) as G. destruct (get_node_template d h r n).
    + destruct G as (a & -> & ->). reflexivity.
    + now rewrite G.
  - now rewrite (collect_edges_equiv d h r t H).
  - destruct (abs_root_edges _ _ _ _ H) as (ch & ->). reflexivity.
Qed.

(* ------------------------------------------------------------------ since fix D74 (bookkeeping on the deep copy) the
   bookkeeping of `self` never changes: every operation of every sequence returns what the unchanged denotation says
   (sequences without derive-and-edit, or all sequences once the edge dictionaries are no longer shared) *)
Lemma first_edge_update es s t upd : match edges_update es s t upd with Some _ => first_edge es s t <> None | None => first_edge es s t = None end.
Proof.
  induction es as [|[[s' t'] a] es IH]; cbn; [reflexivity|]. destruct (String.eqb s s' && String.eqb t t'); [discriminate|].
  destruct (edges_update es s t upd); assumption.
Qed.
Lemma sub_circ_equiv : forall p d h r t, abs d h r = Some t ->
  match sub_circ d h r p with
  | Some (d', c) => exists s, tsub t p = Some s /\ abs d' h c = Some s
  | None => tsub t p = None
  end.
Proof.
  induction p as [|k rest IH]; intros d h r t H.
  - cbn. exists t. split; [reflexivity|assumption].
  - cbn [sub_circ tsub]. destruct d as [|d].
    + cbn in H. destruct (lookup h r) as [[| |ch es]|]; try discriminate.
      destruct (mapM (lift (node_den h)) ch); [|discriminate]. injection H as <-. reflexivity.
    + cbn in H. destruct (lookup h r) as [[| |ch es]|]; try discriminate.
      destruct (mapM (lift (abs d h)) ch) as [ss|] eqn:M; [|discriminate]. injection H as <-.
      destruct (dget k ch) as [cc|] eqn:G.
      * destruct (lift_dget_Some _ _ _ _ _ M G) as (s & Hs & ->). now apply IH.
      * now rewrite (lift_dget_None _ _ _ _ M G).
Qed.
Lemma outputs_refine_fixed fe f98 d r t : forall ops h, abs d h r = Some t -> ops_ok fe f98 ops = true ->
  snd (mrun_gen true fe f98 d r (h, book0) ops) = map (mstepS d t) ops.
Proof.
  induction ops as [|o ops IH]; intros h H G; [reflexivity|]. cbn [mrun_gen map].
  cbn in G. apply andb_true_iff in G as [Go Hr]. unfold op_ok in Go. apply andb_true_iff in Go as [Go1 Go2].
  assert (Hd : abs d (deepcopy_heap d r h) r = Some t) by (eapply abs_extends; eauto; apply deepcopy_heap_extends).
  destruct o as [q|p| | |es|sv tv upd|o|jac vec|vec|]; cbn [mstep_gen].
  - assert (Hq : (match q with QEdges => if f98 then h else collect_mut d h r | _ => h end) = h).
    { destruct q; try reflexivity. destruct f98; [reflexivity|discriminate]. }
    rewrite Hq. specialize (IH h H Hr). destruct (mrun_gen true fe f98 d r (h, book0) ops). cbn in *. rewrite IH. now rewrite (read_equiv d r h t q H).
  - assert (f98 = true) as -> by (destruct f98; [reflexivity|discriminate]).
    pose proof (sub_circ_equiv p d h r t H) as SC. destruct (sub_circ d h r p) as [[d' c]|].
    + destruct SC as (s & Ht & Hs). specialize (IH h H Hr). destruct (mrun_gen true fe true d r (h, book0) ops). cbn in *.
      rewrite IH, Ht. now rewrite (collect_edges_equiv d' h c s Hs).
    + specialize (IH h H Hr). destruct (mrun_gen true fe true d r (h, book0) ops). cbn in *. rewrite IH, SC. reflexivity.
  - specialize (IH h H Hr). destruct (mrun_gen true fe f98 d r (h, book0) ops). cbn in *. now rewrite IH.
  - specialize (IH _ Hd Hr). destruct (mrun_gen true fe f98 d r (deepcopy_heap d r h, book0) ops). cbn in *. now rewrite IH.
  - destruct (abs_root_edges _ _ _ _ H) as (ch & E). rewrite E. cbn iota beta.
    assert (He : abs d (h ++ [OCirc ch (root_edges t ++ es)]) r = Some t) by (eapply abs_extends; [exact H|apply extends_app]).
    specialize (IH _ He Hr). unfold heap in *. match goal with |- context [mrun_gen ?f ?g ?k ?a ?b ?c ?e] => destruct (mrun_gen f g k a b c e) eqn:Em end.
    try rewrite Em in IH. cbn in *. now rewrite IH.
  - assert (fe = true) as -> by (destruct fe; [reflexivity|discriminate]).
    destruct (abs_root_edges _ _ _ _ H) as (ch & E). rewrite E. cbn iota beta.
    assert (He : abs d (h ++ [OCirc ch (root_edges t)]) r = Some t) by (eapply abs_extends; [exact H|apply extends_app]).
    specialize (IH _ He Hr). pose proof (first_edge_update (root_edges t) sv tv upd) as FE.
    destruct (edges_update (root_edges t) sv tv upd); unfold heap in *;
      match goal with |- context [mrun_gen ?f ?g ?k ?a ?b ?c ?e] => destruct (mrun_gen f g k a b c e) eqn:Em end;
      try rewrite Em in IH; cbn in *; rewrite IH; destruct (first_edge (root_edges t) sv tv); congruence.
  - assert (He : abs d (h ++ [o]) r = Some t) by (eapply abs_extends; [exact H|apply extends_app]).
    specialize (IH _ He Hr). unfold heap in *. match goal with |- context [mrun_gen ?f ?g ?k ?a ?b ?c ?e] => destruct (mrun_gen f g k a b c e) eqn:Em end.
    try rewrite Em in IH. cbn in *. now rewrite IH.
  - specialize (IH _ Hd Hr). destruct (mrun_gen true fe f98 d r (deepcopy_heap d r h, book0) ops). cbn in *. now rewrite IH.
  - specialize (IH _ Hd Hr). destruct (mrun_gen true fe f98 d r (deepcopy_heap d r h, book0) ops). cbn in *. now rewrite IH.
  - specialize (IH _ Hd Hr). destruct (mrun_gen true fe f98 d r (deepcopy_heap d r h, book0) ops). cbn in *. rewrite IH.
    now rewrite (observe_equiv d r h t [] [] H).
Qed.
Corollary outputs_refine_head d r t ops h : abs d h r = Some t -> ops_ok fixed_shared_edge_dicts fixed_D98 ops = true ->
  snd (mrun d r (h, book0) ops) = map (mstepS d t) ops.
Proof. intros H G. exact (outputs_refine_fixed fixed_shared_edge_dicts fixed_D98 d r t ops h H G). Qed.
Corollary outputs_refine_all d r t ops h : abs d h r = Some t -> snd (mrun_gen true true true d r (h, book0) ops) = map (mstepS d t) ops.
Proof. intros H. apply (outputs_refine_fixed true true d r t ops h H). apply ops_ok_all_fixed. Qed.
Corollary outputs_refine_now d r t ops h : abs d h r = Some t -> snd (mrun d r (h, book0) ops) = map (mstepS d t) ops.
Proof. intros H. apply outputs_refine_head; [exact H|]. apply ops_ok_all_fixed. Qed.
