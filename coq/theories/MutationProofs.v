(* MutationProofs.v — proofs about Mutation.v (C14): every listed operation only EXTENDS the store, hence the denotation
   of every template that existed before is unchanged (frame); outputs equal the specification's when no bookkeeping
   written by an earlier call is read by a later one; the bookkeeping defects are exhibited by computed witnesses. *)
From Coq Require Import List String Arith Bool QArith Qcanon Lia.
From PV Require Import Heap Values ValuesProofs Mutation.
Import ListNotations.
Open Scope nat_scope.

(* ------------------------------------------------------------------ deepcopy only appends *)
Lemma copy_ops_m_extends : forall ops h m h2 m2 r', copy_ops_m h m ops = Some (h2, m2, r') -> extends h h2.
Proof.
  induction ops as [|[oid vs] ops IH]; intros h m h2 m2 r' H; cbn in H.
  - injection H as <- _ _. apply extends_refl.
  - destruct (mget oid m).
    + destruct (copy_ops_m h m ops) as [[[h3 m3] r3]|] eqn:E; [|discriminate]. injection H as <- _ _. eauto.
    + destruct (lookup h oid) as [[n e dd| |]|]; try discriminate.
      destruct (copy_ops_m (h ++ [OOp n e dd]) ((oid, List.length h) :: m) ops) as [[[h3 m3] r3]|] eqn:E; [|discriminate].
      injection H as <- _ _. eapply extends_trans; [apply extends_app|eauto].
Qed.
Lemma copy_node_m_extends h m nid h2 m2 nid' : copy_node_m h m nid = Some (h2, m2, nid') -> extends h h2.
Proof.
  unfold copy_node_m. destruct (mget nid m).
  - intros [= <- _ _]. apply extends_refl.
  - destruct (lookup h nid) as [[|ops|]|]; try discriminate.
    destruct (copy_ops_m h m ops) as [[[h3 m3] r3]|] eqn:E; [|discriminate]. intros [= <- _ _].
    eapply extends_trans; [eapply copy_ops_m_extends; eauto|apply extends_app].
Qed.
Lemma copy_children_extends f : (forall h m c h2 m2 c', f h m c = Some (h2, m2, c') -> extends h h2) ->
  forall ch h m h2 m2 ch', copy_children f h m ch = Some (h2, m2, ch') -> extends h h2.
Proof.
  intros Hf. induction ch as [|[n c] ch IH]; intros h m h2 m2 ch' H; cbn in H.
  - injection H as <- _ _. apply extends_refl.
  - destruct (f h m c) as [[[h1 m1] c1]|] eqn:E; [|discriminate].
    destruct (copy_children f h1 m1 ch) as [[[h3 m3] r3]|] eqn:E2; [|discriminate]. injection H as <- _ _.
    eapply extends_trans; eauto.
Qed.
Lemma copy_circ_extends d : forall h m c h2 m2 c', copy_circ d h m c = Some (h2, m2, c') -> extends h h2.
Proof.
  induction d as [|d IH]; intros h m c h2 m2 c' H; cbn in H.
  - destruct (mget c m); [injection H as <- _ _; apply extends_refl|].
    destruct (lookup h c) as [[| |ch es]|]; try discriminate.
    destruct (copy_children copy_node_m h m ch) as [[[h3 m3] r3]|] eqn:E; [|discriminate]. injection H as <- _ _.
    eapply extends_trans; [eapply copy_children_extends; [|eauto]|apply extends_app].
    intros. eapply copy_node_m_extends; eauto.
  - destruct (mget c m); [injection H as <- _ _; apply extends_refl|].
    destruct (lookup h c) as [[| |ch es]|]; try discriminate.
    destruct (copy_children (copy_circ d) h m ch) as [[[h3 m3] r3]|] eqn:E; [|discriminate]. injection H as <- _ _.
    eapply extends_trans; [eapply copy_children_extends; [|eauto]|apply extends_app]. exact IH.
Qed.
Lemma deepcopy_heap_extends d r h : extends h (deepcopy_heap d r h).
Proof.
  unfold deepcopy_heap. destruct (copy_circ d h [] r) as [[[h' m'] c']|] eqn:E; [|apply extends_refl].
  eapply copy_circ_extends; eauto.
Qed.

(* ------------------------------------------------------------------ frame: each operation, then any sequence *)
Lemma mstep_extends fx d r s o : extends (fst s) (fst (fst (mstep_gen fx d r s o))).
Proof.
  destruct s as [h b]. destruct o; cbn; try apply extends_refl; try apply deepcopy_heap_extends; try apply extends_app.
  destruct (lookup h r) as [[| |ch es0]|]; cbn; try apply extends_refl. apply extends_app.
Qed.
Lemma mrun_extends fx d r : forall ops s, extends (fst s) (fst (fst (mrun_gen fx d r s ops))).
Proof.
  induction ops as [|o ops IH]; intros s; cbn; [apply extends_refl|].
  pose proof (mstep_extends fx d r s o) as H1. destruct (mstep_gen fx d r s o) as [s1 out]. cbn in H1.
  pose proof (IH s1) as H2. destruct (mrun_gen fx d r s1 ops) as [s2 outs]. cbn in *. eapply extends_trans; eauto.
Qed.
Theorem frame_step fx d r s o : forall d' c t, abs d' (fst s) c = Some t -> abs d' (fst (fst (mstep_gen fx d r s o))) c = Some t.
Proof. intros. eapply abs_extends; eauto. apply mstep_extends. Qed.
Theorem frame_sequence fx d r ops s : forall d' c t, abs d' (fst s) c = Some t -> abs d' (fst (fst (mrun_gen fx d r s ops))) c = Some t.
Proof. intros. eapply abs_extends; eauto. apply mrun_extends. Qed.

(* ------------------------------------------------------------------ outputs *)
Lemma abs_root_edges d h r t : abs d h r = Some t -> exists ch, lookup h r = Some (OCirc ch (root_edges t)).
Proof.
  destruct d; cbn; destruct (lookup h r) as [[| |ch es]|]; try discriminate.
  - destruct (mapM _ ch); [|discriminate]. intros [= <-]. cbn. eauto.
  - destruct (mapM _ ch); [|discriminate]. intros [= <-]. cbn. eauto.
Qed.
Lemma read_equiv d r h t q : abs d h r = Some t -> read d r h q = tread t q.
Proof.
  intros H. destruct q as [pat|n| |s tg]; cbn.
  - now rewrite (get_nodes_equiv d h r t pat H).
  - pose proof (get_node_template_equiv d h r t n H) as G. destruct (get_node_template d h r n).
    + destruct G as (a & -> & ->). reflexivity.
    + now rewrite G.
  - now rewrite (collect_edges_equiv d h r t H).
  - destruct (abs_root_edges _ _ _ _ H) as (ch & ->). reflexivity.
Qed.

(* the bookkeeping reached along a guard-satisfying prefix *)
Definition book_rel (seen_run : bool) (seen_c : option bool) (b : book) : Prop :=
  match seen_run, seen_c with
  | false, None => b = book0
  | false, Some v => b = mkBook (SDecl v) (negb v)
  | true, None => si b = false
  | true, Some _ => False
  end.

Lemma outputs_refine d r t : forall ops h b sr sc, abs d h r = Some t -> book_rel sr sc b -> carry_free sr sc ops = true ->
  snd (mrun_gen false d r (h, b) ops) = map (mstepS d t) ops.
Proof.
  induction ops as [|o ops IH]; intros h b sr sc H R G; [reflexivity|].
  cbn [mrun_gen map].
  assert (Hd : abs d (deepcopy_heap d r h) r = Some t) by (eapply abs_extends; eauto; apply deepcopy_heap_extends).
  destruct o as [q| | |es|o|jac vec|vec|]; cbn [mstep_gen carry_free] in *.
  - specialize (IH h b sr sc H R G). destruct (mrun_gen false d r (h, b) ops). cbn in *. rewrite IH. now rewrite (read_equiv d r h t q H).
  - specialize (IH h b sr sc H R G). destruct (mrun_gen false d r (h, b) ops). cbn in *. now rewrite IH.
  - specialize (IH _ b sr sc Hd R G). destruct (mrun_gen false d r (deepcopy_heap d r h, b) ops). cbn in *. now rewrite IH.
  - destruct (abs_root_edges _ _ _ _ H) as (ch & E). rewrite E. cbn iota beta.
    assert (He : abs d (h ++ [OCirc ch (root_edges t ++ es)]) r = Some t) by (eapply abs_extends; [exact H|apply extends_app]).
    specialize (IH _ b sr sc He R G). unfold heap in *. match goal with |- context [mrun_gen ?f ?a ?b ?c ?e] => destruct (mrun_gen f a b c e) eqn:Em end. try rewrite Em in IH. cbn in *. now rewrite IH.
  - assert (He : abs d (h ++ [o]) r = Some t) by (eapply abs_extends; [exact H|apply extends_app]).
    specialize (IH _ b sr sc He R G). unfold heap in *. match goal with |- context [mrun_gen ?f ?a ?b ?c ?e] => destruct (mrun_gen f a b c e) eqn:Em end.
    try rewrite Em in IH. cbn in *. now rewrite IH.
  - apply andb_true_iff in G as [G G3]. apply andb_true_iff in G as [G1 G2]. apply negb_true_iff in G1. subst sr.
    assert (Ho : compile_out b vec = YDeclared /\ book_rel false (Some vec) (compile_book b vec)).
    { destruct sc as [v'|]; cbn in R; subst b.
      - apply eqb_prop in G2 as ->. unfold compile_book, compile_out. cbn. rewrite eqb_reflx. cbn. destruct vec; cbn; auto.
      - unfold compile_book, compile_out. cbn. auto. }
    destruct Ho as (Ho & R'). rewrite Ho. specialize (IH _ _ false (Some vec) Hd R' G3).
    destruct (mrun_gen false d r (deepcopy_heap d r h, compile_book b vec) ops). cbn in *. now rewrite IH.
  - apply andb_true_iff in G as [G1 G2]. destruct sc; [discriminate|].
    assert (Hs : si b = false) by (destruct sr; cbn in R; [assumption|now subst b]).
    assert (R' : book_rel true None (run_book b vec)) by (unfold run_book; rewrite Hs; reflexivity).
    rewrite Hs. specialize (IH _ _ true None Hd R' G2).
    destruct (mrun_gen false d r (deepcopy_heap d r h, run_book b vec) ops). cbn in *. now rewrite IH.
  - specialize (IH _ b sr sc Hd R G). destruct (mrun_gen false d r (deepcopy_heap d r h, b) ops). cbn in *. rewrite IH.
    now rewrite (observe_equiv d r h t [] [] H).
Qed.
Theorem outputs_refine_guard d r t ops h : abs d h r = Some t -> no_state_carry ops = true ->
  snd (mrun_gen false d r (h, book0) ops) = map (mstepS d t) ops.
Proof. intros H G. eapply outputs_refine; eauto. reflexivity. Qed.

(* run(in_place=False) never reads the bookkeeping values: any number of runs (and reads / copies) give the Spec's results *)
Fixpoint only_runs_and_reads (ops : list mop) : bool :=
  match ops with [] => true | MCompile _ _ :: _ => false | _ :: r => only_runs_and_reads r end.
Lemma only_runs_carry_free : forall ops sr, only_runs_and_reads ops = true -> carry_free sr None ops = true.
Proof. induction ops as [|o ops IH]; intros sr H; [reflexivity|]. destruct o; cbn in *; try discriminate; auto. Qed.
Corollary repeated_runs_identical d r t ops h : abs d h r = Some t -> only_runs_and_reads ops = true ->
  snd (mrun_gen false d r (h, book0) ops) = map (mstepS d t) ops.
Proof. intros H G. apply outputs_refine_guard; [assumption|]. now apply only_runs_carry_free. Qed.

(* ------------------------------------------------------------------ with the proposed repair (bookkeeping on the deep copy)
   the bookkeeping of `self` never changes, and the full statement holds for every sequence *)
Lemma outputs_refine_fixed d r t : forall ops h, abs d h r = Some t ->
  snd (mrun_gen true d r (h, book0) ops) = map (mstepS d t) ops.
Proof.
  induction ops as [|o ops IH]; intros h H; [reflexivity|]. cbn [mrun_gen map].
  assert (Hd : abs d (deepcopy_heap d r h) r = Some t) by (eapply abs_extends; eauto; apply deepcopy_heap_extends).
  destruct o as [q| | |es|o|jac vec|vec|]; cbn [mstep_gen].
  - specialize (IH h H). destruct (mrun_gen true d r (h, book0) ops). cbn in *. rewrite IH. now rewrite (read_equiv d r h t q H).
  - specialize (IH h H). destruct (mrun_gen true d r (h, book0) ops). cbn in *. now rewrite IH.
  - specialize (IH _ Hd). destruct (mrun_gen true d r (deepcopy_heap d r h, book0) ops). cbn in *. now rewrite IH.
  - destruct (abs_root_edges _ _ _ _ H) as (ch & E). rewrite E. cbn iota beta.
    assert (He : abs d (h ++ [OCirc ch (root_edges t ++ es)]) r = Some t) by (eapply abs_extends; [exact H|apply extends_app]).
    specialize (IH _ He). unfold heap in *. match goal with |- context [mrun_gen ?f ?a ?b ?c ?e] => destruct (mrun_gen f a b c e) eqn:Em end.
    try rewrite Em in IH. cbn in *. now rewrite IH.
  - assert (He : abs d (h ++ [o]) r = Some t) by (eapply abs_extends; [exact H|apply extends_app]).
    specialize (IH _ He). unfold heap in *. match goal with |- context [mrun_gen ?f ?a ?b ?c ?e] => destruct (mrun_gen f a b c e) eqn:Em end.
    try rewrite Em in IH. cbn in *. now rewrite IH.
  - specialize (IH _ Hd). destruct (mrun_gen true d r (deepcopy_heap d r h, book0) ops). cbn in *. now rewrite IH.
  - specialize (IH _ Hd). destruct (mrun_gen true d r (deepcopy_heap d r h, book0) ops). cbn in *. now rewrite IH.
  - specialize (IH _ Hd). destruct (mrun_gen true d r (deepcopy_heap d r h, book0) ops). cbn in *. rewrite IH.
    now rewrite (observe_equiv d r h t [] [] H).
Qed.
