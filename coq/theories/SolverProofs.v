(* SolverProofs.v — proofs about Solver.v (storage cadence, refinement of run() to the Euler/Heun iterates,
   time axis, cutoff, numpy rounding). *)
From Coq Require Import List ZArith QArith Qcanon Qround Bool Arith Lia ZifyBool Lqa.
From PV Require Import History HistoryProofs Solver.
Import ListNotations.
Local Open Scope nat_scope.

(* ------------------------------------------------------------------------------------------------ *)
Section LoopProofs.
  Variable Y : Type.
  Variable C : Type.
  Variable step : C -> nat -> Y -> Y * C.

  Lemma traj_S t0 i y c k :
    traj step t0 i y c (S k) = let '(y1, c1) := traj step t0 i y c k in step c1 (i + k + t0) y1.
  Proof.
    revert i y c; induction k as [|k IH]; intros i y c.
    - cbn [traj]. replace (i + 0 + t0) with (i + t0) by lia. destruct (step c (i + t0) y); reflexivity.
    - cbn [traj] in *. destruct (step c (i + t0) y) as [y' c'].
      specialize (IH (S i) y' c'). cbn [traj] in IH. rewrite IH.
      replace (S i + k + t0) with (i + S k + t0) by lia. reflexivity.
  Qed.

  (* stored rows = states at the stored indices, in order *)
  Theorem loop_rows ss t0 : forall todo i y c rec,
    fst (fst (loop step ss t0 i todo y c rec)) =
    rec ++ map (fun j => fst (traj step t0 i y c (j - i))) (stored ss i todo).
  Proof.
    induction todo as [|todo IH]; intros i y c rec.
    - cbn. now rewrite app_nil_r.
    - cbn [loop]. destruct (step c (i + t0) y) as [y' c'] eqn:Es.
      rewrite IH. unfold stored. cbn [seq filter].
      assert (Hmap : map (fun j => fst (traj step t0 (S i) y' c' (j - S i))) (filter (fun j => j mod ss =? 0) (seq (S i) todo))
                   = map (fun j => fst (traj step t0 i y c (j - i))) (filter (fun j => j mod ss =? 0) (seq (S i) todo))).
      { apply map_ext_in. intros j Hj. apply filter_In in Hj as [Hj _]. apply in_seq in Hj.
        replace (j - i) with (S (j - S i)) by lia. cbn [traj]. now rewrite Es. }
      rewrite Hmap. destruct (i mod ss =? 0).
      + cbn [map]. replace (i - i) with 0 by lia. cbn [traj fst]. now rewrite <- app_assoc.
      + reflexivity.
  Qed.

  Lemma loop_length ss t0 todo i y c rec :
    length (fst (fst (loop step ss t0 i todo y c rec))) = length rec + length (stored ss i todo).
  Proof. rewrite loop_rows, app_length, map_length. reflexivity. Qed.

  (* the bounded loop (as coded) is the unbounded one followed by a length test *)
  Theorem loopE_loop ss cap t0 : forall todo i y c rec, length rec <= cap ->
    loopE step ss cap t0 i todo y c rec =
    (let r := fst (fst (loop step ss t0 i todo y c rec)) in if length r <=? cap then Some r else None).
  Proof.
    induction todo as [|todo IH]; intros i y c rec Hle.
    - cbn. destruct (length rec <=? cap) eqn:E; [reflexivity|lia].
    - cbn [loopE loop]. destruct (i mod ss =? 0) eqn:Em.
      + destruct (length rec <? cap) eqn:El.
        * destruct (step c (i + t0) y) as [y' c']. apply IH. rewrite app_length. cbn. lia.
        * destruct (step c (i + t0) y) as [y' c']. cbn zeta.
          rewrite loop_length, app_length. cbn [length].
          destruct (length rec + 1 + length (stored ss (S i) todo) <=? cap) eqn:E; [lia|reflexivity].
      + destruct (step c (i + t0) y) as [y' c']. apply IH. exact Hle.
  Qed.
End LoopProofs.

(* ------------------------------------------------------------------------------------------------ *)
(* the stored indices are the multiples of store_step below `steps`: ceil(steps/store_step) of them *)
Lemma filter_none_between ss r : forall m a,
  (forall j, In j (seq a m) -> r * ss < j < r * ss + ss) -> filter (fun j => j mod ss =? 0) (seq a m) = [].
Proof.
  induction m as [|m IHm]; intros a Ha; [reflexivity|]. cbn [seq filter].
  assert (Hin : r * ss < a < r * ss + ss) by (apply Ha; left; reflexivity).
  assert (Hss : ss <> 0) by lia.
  assert ((a mod ss =? 0) = false) as ->.
  { apply Nat.eqb_neq. replace a with ((a - r * ss) + r * ss) by lia.
    rewrite Nat.mod_add by lia. rewrite Nat.mod_small by lia. lia. }
  apply IHm. intros j Hj. apply Ha. right. exact Hj.
Qed.

Lemma stored_multiples ss rows : ss <> 0 -> stored ss 0 (rows * ss) = map (fun k => k * ss) (seq 0 rows).
Proof.
  intros Hss. induction rows as [|r IH].
  - reflexivity.
  - replace (S r * ss) with (r * ss + ss) by lia. unfold stored in *.
    rewrite seq_app, filter_app, IH, seq_S, map_app. f_equal. cbn [map plus].
    destruct ss as [|s]; [congruence|]. cbn [seq filter].
    rewrite Nat.mod_mul by lia. cbn [Nat.eqb]. f_equal.
    apply (filter_none_between (S s) r). intros j Hj. apply in_seq in Hj. lia.
Qed.

Lemma cdiv_spec n ss : ss <> 0 ->
  cdiv n ss = if n mod ss =? 0 then n / ss else S (n / ss).
Proof.
  intros Hss. unfold cdiv.
  pose proof (Nat.div_mod n ss Hss) as Hdm. pose proof (Nat.mod_upper_bound n ss Hss) as Hub.
  destruct (n mod ss =? 0) eqn:E.
  - apply Nat.eqb_eq in E. rewrite E in Hdm.
    symmetry. apply (Nat.div_unique _ _ _ (ss - 1)); [lia|]. rewrite Hdm at 1. lia.
  - apply Nat.eqb_neq in E.
    symmetry. apply (Nat.div_unique _ _ _ (n mod ss - 1)); [lia|]. rewrite Hdm at 1. lia.
Qed.

Theorem stored_cdiv ss n : ss <> 0 -> stored ss 0 n = map (fun k => k * ss) (seq 0 (cdiv n ss)).
Proof.
  intros Hss. rewrite cdiv_spec by assumption.
  pose proof (Nat.div_mod n ss Hss) as Hdm. pose proof (Nat.mod_upper_bound n ss Hss) as Hub.
  set (q := n / ss) in *. set (r := n mod ss) in *.
  assert (Hn : n = q * ss + r) by lia. rewrite Hn at 1.
  unfold stored. rewrite seq_app, filter_app. fold (stored ss 0 (q * ss)). rewrite stored_multiples by assumption.
  cbn [plus]. destruct r as [|r'].
  - cbn. now rewrite app_nil_r.
  - cbn [Nat.eqb]. rewrite (seq_S q 0), map_app. f_equal. cbn [seq filter map plus].
    replace (q * ss + 0) with (q * ss) by lia.
    rewrite Nat.mod_mul by assumption. cbn [Nat.eqb]. f_equal.
    apply (filter_none_between ss q). intros j Hj. apply in_seq in Hj. lia.
Qed.

(* ------------------------------------------------------------------------------------------------ *)
(* the solvers *)
Section SolveProofs.
  Variable C : Type.
  Variable f : C -> nat -> row -> row * C.

  Lemma loop_is_traj step ss t0 steps (y0 : row) (c0 : C) : ss <> 0 ->
    fst (fst (loop step ss t0 0 steps y0 c0 [])) =
    map (fun k => fst (traj step t0 0 y0 c0 (k * ss))) (seq 0 (cdiv steps ss)).
  Proof.
    intros Hss. rewrite loop_rows. cbn [app]. rewrite stored_cdiv by assumption. rewrite map_map.
    apply map_ext. intros k. now rewrite Nat.sub_0_r.
  Qed.

  (* what _solve_euler/_solve_heun return, in the three possible situations *)
  Theorem solve_rows s T dt dts y0 c0 t0 :
    1 <= rnd (dts / dt) -> cdiv (rnd (T / dt)) (rnd (dts / dt)) = rnd (T / dts) ->
    solve f s T dt dts y0 c0 t0 =
    Rows (map (fun k => fst (traj (step_of f s dt) t0 0 y0 c0 (k * rnd (dts / dt)))) (seq 0 (rnd (T / dts)))).
  Proof.
    intros Hss Hfit. unfold solve.
    destruct (rnd (dts / dt) =? 0) eqn:E0; [lia|].
    rewrite loopE_loop by (cbn; lia). cbn zeta.
    rewrite loop_is_traj by lia. rewrite map_length, seq_length, Hfit, Nat.leb_refl.
    unfold finish. now rewrite map_length, seq_length, Nat.eqb_refl.
  Qed.

  Theorem solve_index_error s T dt dts y0 c0 t0 :
    1 <= rnd (dts / dt) -> rnd (T / dts) < cdiv (rnd (T / dt)) (rnd (dts / dt)) ->
    solve f s T dt dts y0 c0 t0 = ErrIndex.
  Proof.
    intros Hss Hfit. unfold solve.
    destruct (rnd (dts / dt) =? 0) eqn:E0; [lia|].
    rewrite loopE_loop by (cbn; lia). cbn zeta.
    rewrite loop_is_traj by lia. rewrite map_length, seq_length.
    destruct (cdiv (rnd (T / dt)) (rnd (dts / dt)) <=? rnd (T / dts)) eqn:E; [lia|reflexivity].
  Qed.

  Theorem solve_short s T dt dts y0 c0 t0 :
    1 <= rnd (dts / dt) -> cdiv (rnd (T / dt)) (rnd (dts / dt)) < rnd (T / dts) ->
    exists rec, solve f s T dt dts y0 c0 t0 = Short rec (rnd (T / dts) - cdiv (rnd (T / dt)) (rnd (dts / dt))) /\
                length rec = cdiv (rnd (T / dt)) (rnd (dts / dt)).
  Proof.
    intros Hss Hfit. unfold solve.
    destruct (rnd (dts / dt) =? 0) eqn:E0; [lia|].
    rewrite loopE_loop by (cbn; lia). cbn zeta.
    rewrite loop_is_traj by lia. rewrite map_length, seq_length.
    destruct (cdiv (rnd (T / dt)) (rnd (dts / dt)) <=? rnd (T / dts)) eqn:E; [|lia].
    eexists. unfold finish. rewrite map_length, seq_length.
    destruct (cdiv (rnd (T / dt)) (rnd (dts / dt)) =? rnd (T / dts)) eqn:E'; [lia|].
    split; [reflexivity|]. now rewrite map_length, seq_length.
  Qed.

  Theorem solve_zero_div s T dt dts y0 c0 t0 :
    rnd (dts / dt) = 0 -> 1 <= rnd (T / dt) -> solve f s T dt dts y0 c0 t0 = ErrZeroDiv.
  Proof.
    intros H0 H1. unfold solve. rewrite H0. cbn [Nat.eqb].
    destruct (rnd (T / dt) =? 0) eqn:E; [lia|reflexivity].
  Qed.

  Lemma rows_fit_true T dt dts : rows_fit T dt dts = true ->
    1 <= rnd (dts / dt) /\ cdiv (rnd (T / dt)) (rnd (dts / dt)) = rnd (T / dts).
  Proof. unfold rows_fit. intros H. apply andb_prop in H as [H1 H2]. split; lia. Qed.

  (* C03, solver level: under the guards the record is the list of iterates at the multiples of store_step *)
  Theorem solve_partial s T dt dts y0 c0 t0 :
    rows_fit T dt dts = true ->
    solve f s T dt dts y0 c0 t0 = Rows (spec_rows f s T dt dts y0 c0 t0).
  Proof.
    intros Hfit. apply rows_fit_true in Hfit as [H1 H2].
    rewrite solve_rows by assumption. reflexivity.
  Qed.

  Theorem spec_rows_length s T dt dts y0 c0 t0 : length (spec_rows f s T dt dts y0 c0 t0) = rnd (T / dts).
  Proof. unfold spec_rows. now rewrite map_length, seq_length. Qed.

  Theorem spec_rows_nth s T dt dts y0 c0 t0 k : k < rnd (T / dts) ->
    nth k (spec_rows f s T dt dts y0 c0 t0) [] = fst (traj (step_of f s dt) t0 0 y0 c0 (k * rnd (dts / dt))).
  Proof.
    intros Hk. unfold spec_rows.
    set (g := fun k => fst (traj (step_of f s dt) t0 0 y0 c0 (k * rnd (dts / dt)))).
    rewrite (nth_indep _ [] (g 0)) by (now rewrite map_length, seq_length).
    rewrite map_nth.
    now rewrite seq_nth by assumption.
  Qed.

  Theorem spec_rows_first s T dt dts y0 c0 t0 : 1 <= rnd (T / dts) ->
    nth 0 (spec_rows f s T dt dts y0 c0 t0) [] = y0.
  Proof. intros H. rewrite spec_rows_nth by lia. reflexivity. Qed.

  (* the time argument of the right-hand side in step number j (counted from 0) is j + t0 *)
  Theorem traj_step_time step t0 (y0 : row) (c0 : C) j :
    traj step t0 0 y0 c0 (S j) = let '(y1, c1) := traj step t0 0 y0 c0 j in step c1 (j + t0) y1.
  Proof. rewrite traj_S. reflexivity. Qed.

  (* ---------------------------------------------------------------------------------------------- *)
  (* run(): time axis, cutoff, frame *)
  Lemma combine_map_seq {A B} (a : nat -> A) (b : nat -> B) l :
    combine (map a l) (map b l) = map (fun k => (a k, b k)) l.
  Proof. induction l as [|x l IH]; cbn; [reflexivity|now rewrite IH]. Qed.

  Lemma filter_map {A B} (h : A -> B) (p : B -> bool) l :
    filter p (map h l) = map h (filter (fun x => p (h x)) l).
  Proof. induction l as [|x l IH]; cbn; [reflexivity|]. destruct (p (h x)); cbn; now rewrite IH. Qed.

  Lemma frame_of_maps cutoff d cols (g : nat -> row) n :
    frame cutoff (times n d) cols (map g (seq 0 n)) =
    map (fun k => (NtoQc k * d)%Qc :: pick cols (g k)) (filter (fun k => Qcleb cutoff (NtoQc k * d)%Qc) (seq 0 n)).
  Proof.
    unfold frame, times. rewrite combine_map_seq, filter_map, map_map. cbn [fst snd]. reflexivity.
  Qed.

  Theorem run_partial s T dt dts cutoff cols y0 c0 :
    let d := match dts with Some d => d | None => dt end in
    rows_fit T dt d = true -> frame_ok T d = true ->
    run_model f s T dt dts cutoff cols y0 c0 = Rows (spec_run f s T dt dts cutoff cols y0 c0).
  Proof.
    intros d Hfit Hok. unfold run_model, spec_run. fold d.
    rewrite solve_partial by assumption. unfold frame_ok in Hok.
    destruct (rnd (T / d) =? 0) eqn:E0; [lia|].
    unfold spec_rows. now rewrite frame_of_maps.
  Qed.

  (* the loud classes of run() *)
  Theorem run_index_error s T dt dts cutoff cols y0 c0 :
    let d := match dts with Some d => d | None => dt end in
    1 <= rnd (d / dt) -> rnd (T / d) < cdiv (rnd (T / dt)) (rnd (d / dt)) ->
    run_model f s T dt dts cutoff cols y0 c0 = ErrIndex.
  Proof. intros d H1 H2. unfold run_model. fold d. now rewrite solve_index_error. Qed.

  (* what the Spec says, spelled out: which rows, in which order, with which time stamp *)
  Theorem spec_run_rows s T dt dts cutoff cols y0 c0 r :
    let d := match dts with Some d => d | None => dt end in
    In r (spec_run f s T dt dts cutoff cols y0 c0) <->
    exists k, k < rnd (T / d) /\ (cutoff <= NtoQc k * d)%Qc /\
              r = (NtoQc k * d)%Qc :: pick cols (fst (traj (step_of f s dt) 0 0 y0 c0 (k * rnd (d / dt)))).
  Proof.
    intros d. unfold spec_run. fold d. rewrite in_map_iff. split.
    - intros [k [Hr Hk]]. apply filter_In in Hk as [Hk Hc]. apply in_seq in Hk. apply Qcleb_true in Hc.
      exists k. repeat split; [lia|assumption|now symmetry].
    - intros [k [Hk [Hc Hr]]]. exists k. split; [now symmetry|]. apply filter_In. split.
      + apply in_seq. lia.
      + now apply Qcleb_true.
  Qed.

  Lemma filter_all {A} (p : A -> bool) l : (forall x, In x l -> p x = true) -> filter p l = l.
  Proof.
    induction l as [|x l IH]; intros H; cbn; [reflexivity|].
    rewrite (H x) by (now left). f_equal. apply IH. intros y Hy. apply H. now right.
  Qed.

  Lemma NtoQc_nonneg k : (0 <= NtoQc k)%Qc.
  Proof.
    unfold NtoQc, ZtoQc, Qcle. cbn [this Q2Qc]. rewrite !Qred_correct. unfold Qle. cbn. lia.
  Qed.

  Theorem spec_run_no_cutoff s T dt dts cutoff cols y0 c0 :
    let d := match dts with Some d => d | None => dt end in
    (cutoff <= 0)%Qc -> (0 <= d)%Qc -> length (spec_run f s T dt dts cutoff cols y0 c0) = rnd (T / d).
  Proof.
    intros d Hc Hd. unfold spec_run. fold d. rewrite map_length.
    rewrite filter_all; [now rewrite seq_length|].
    intros k _. apply Qcleb_true.
    apply Qcle_trans with 0%Qc; [assumption|].
    replace 0%Qc with (0 * d)%Qc by ring.
    apply Qcmult_le_compat_r; [apply NtoQc_nonneg|assumption].
  Qed.
End SolveProofs.

(* ------------------------------------------------------------------------------------------------ *)
(* the step formulas, for a right-hand side without hidden state *)
Section PureSteps.
  Variable g : nat -> row -> row.
  Definition pure_rhs (c : unit) (t : nat) (y : row) : row * unit := (g t y, c).

  Theorem euler_step_formula dt t y :
    fst (euler_step pure_rhs dt tt t y) = vadd y (vscale dt (g t y)).
  Proof. reflexivity. Qed.

  Theorem heun_step_formula dt t y :
    fst (heun_step pure_rhs dt tt t y) =
    vadd y (vscale (dt / Q2Qc 2)%Qc (vadd (g t y) (g t (vadd y (vscale dt (g t y)))))).
  Proof. reflexivity. Qed.

  (* what the loop computed before fix D36 when the right-hand side returns its own buffer (generated code) *)
  Theorem heun_step_before_D36_formula dt t y :
    fst (heun_step_before_D36 pure_rhs dt tt t y) =
    let r2 := g t (vadd y (vscale dt (g t y))) in vadd y (vscale (dt / Q2Qc 2)%Qc (vadd r2 r2)).
  Proof. reflexivity. Qed.
End PureSteps.

(* ------------------------------------------------------------------------------------------------ *)
(* time axis *)
Theorem times_length n d : length (times n d) = n.
Proof. unfold times. now rewrite map_length, seq_length. Qed.

Theorem times_nth n d k : k < n -> nth k (times n d) 0%Qc = (NtoQc k * d)%Qc.
Proof.
  intros Hk. unfold times. set (g := fun k => (NtoQc k * d)%Qc).
  rewrite (nth_indep _ 0%Qc (g 0)) by (now rewrite map_length, seq_length).
  rewrite map_nth. now rewrite seq_nth by assumption.
Qed.

(* the axis before fix D05 is the same list exactly when T = n*dts *)
Theorem times_linspace_eq n d T : n <> 0 -> (NtoQc n * d)%Qc = T -> times_linspace n T = times n d.
Proof.
  intros Hn HT. unfold times_linspace, times. apply map_ext. intros k. f_equal. subst T.
  assert (Hnz : NtoQc n <> 0%Qc).
  { unfold NtoQc, ZtoQc. intros H. apply (proj1 (Q2Qc_eq_iff _ 0%Q)) in H.
    unfold Qeq in H. cbn in H. lia. }
  field. exact Hnz.
Qed.

(* ------------------------------------------------------------------------------------------------ *)
(* boolean comparison is reflexive (used to turn computed inequalities into <>) *)
Lemma row_eqb_refl r : row_eqb r r = true.
Proof.
  unfold row_eqb. rewrite Nat.eqb_refl. cbn [andb]. induction r as [|x r IH]; [reflexivity|].
  cbn. rewrite IH, andb_true_r. apply Qeq_bool_iff. reflexivity.
Qed.

Lemma rows_eqb_refl l : rows_eqb l l = true.
Proof.
  unfold rows_eqb. rewrite Nat.eqb_refl. cbn [andb]. induction l as [|x l IH]; [reflexivity|].
  cbn. now rewrite row_eqb_refl, IH.
Qed.

Lemma outcome_eqb_refl o : outcome_eqb o o = true.
Proof. destruct o; cbn; try reflexivity; rewrite rows_eqb_refl; [reflexivity|]. now rewrite Nat.eqb_refl. Qed.

Lemma outcome_neq a b : outcome_eqb a b = false -> a <> b.
Proof. intros H E. subst b. rewrite outcome_eqb_refl in H. discriminate. Qed.

(* ------------------------------------------------------------------------------------------------ *)
(* witnesses: x' = -x/2 + 1/4 (two uncoupled copies for the third one) *)
Definition wit_rhs : lin_rhs := {| mA := [[mkq (-1) 2]]; vb := [mkq 1 4]; vn := [mkq 0 1]; vt := [mkq 0 1] |}.
Definition wit_rhs2 : lin_rhs :=
  {| mA := [[mkq (-1) 2; mkq 0 1]; [mkq 0 1; mkq (-1) 1]]; vb := [mkq 1 4; mkq 0 1]; vn := [mkq 0 1; mkq 0 1];
     vt := [mkq 0 1; mkq 0 1] |}.

(* T = 5/8, dt = 1/8, dts = 1/4: 5 steps store at i = 0, 2, 4 but round(2.5) = 2 rows are allocated: IndexError *)
Lemma refuted_index_error :
  run_model (lin_f wit_rhs) Euler (mkq 5 8) (mkq 1 8) (Some (mkq 1 4)) (mkq 0 1) [0] [mkq 1 1] 0 = ErrIndex /\
  rows_fit (mkq 5 8) (mkq 1 8) (mkq 1 4) = false.
Proof. split; vm_compute; reflexivity. Qed.

(* what fix D36 changed: x' = -x/2 + 1/4, x = 1, dt = 1/4: Heun gives 241/256, the aliased loop gave 121/128 *)
Lemma heun_before_D36_differs :
  row_eqb (fst (heun_step (lin_f wit_rhs) (mkq 1 4) 0 0 [mkq 1 1])) [mkq 241 256] = true /\
  row_eqb (fst (heun_step_before_D36 (lin_f wit_rhs) (mkq 1 4) 0 0 [mkq 1 1])) [mkq 121 128] = true.
Proof. split; vm_compute; reflexivity. Qed.

(* one stored sample, two requested columns: the 1-row frame (before fix D62: ValueError from the DataFrame constructor) *)
Lemma single_row_after_D62 :
  outcome_eqb (run_model (lin_f wit_rhs2) Euler (mkq 1 8) (mkq 1 8) None (mkq 0 1) [0; 1] [mkq 1 1; mkq 2 1] 0)
              (Rows [[mkq 0 1; mkq 1 1; mkq 2 1]]) = true /\
  rows_fit (mkq 1 8) (mkq 1 8) (mkq 1 8) = true /\ frame_ok (mkq 1 8) (mkq 1 8) = true.
Proof. repeat split; vm_compute; reflexivity. Qed.

(* what fix D05 changed: T = 1, dts = 3/8 (dt = 1/8): rows are the states at 0, 3/8, 3/4; linspace said 0, 1/3, 2/3 *)
Lemma linspace_axis_differs :
  map (fun q => Qeq_bool (this (fst q)) (this (snd q))) (combine (times_linspace 3 (mkq 1 1)) (times 3 (mkq 3 8))) = [true; false; false] /\
  rows_fit (mkq 1 1) (mkq 1 8) (mkq 3 8) = true.
Proof. split; vm_compute; reflexivity. Qed.

(* ------------------------------------------------------------------------------------------------ *)
(* numpy round / Python round on the quotients T/dt, T/dts, dts/dt: nearest integer, ties to even *)
Section Rounding.
Local Open Scope Qc_scope.
Lemma thisP x y : (this (x + y) == this x + this y)%Q.
Proof. unfold Qcplus, Q2Qc. cbn [this]. apply Qred_correct. Qed.
Lemma thisO x : (this (- x) == - this x)%Q.
Proof. unfold Qcopp, Q2Qc. cbn [this]. apply Qred_correct. Qed.
Lemma thisM x y : (this (x - y) == this x - this y)%Q.
Proof. unfold Qcminus. rewrite thisP, thisO. reflexivity. Qed.
Lemma thisZ z : (this (ZtoQc z) == inject_Z z)%Q.
Proof. apply Qred_correct. Qed.
Lemma thisH : (this half == 1 # 2)%Q.
Proof. apply Qred_correct. Qed.
Ltac toQ := unfold Qcle, Qclt in *; rewrite ?thisP, ?thisM, ?thisZ, ?thisH in *; change (inject_Z 1) with 1%Q in *.

Theorem round_half_even_close q :
  ZtoQc (round_half_even q) - half <= q /\ q <= ZtoQc (round_half_even q) + half.
Proof.
  pose proof (Qfloor_le (this q)) as H1. pose proof (Qlt_floor (this q)) as H2.
  rewrite inject_Z_plus in H2. change (inject_Z 1) with 1%Q in *. unfold round_half_even.
  set (fl := Qfloor (this q)) in *.
  destruct (q - ZtoQc fl ?= half) eqn:E.
  - apply Qceq_alt in E. apply (f_equal this) in E.
    assert (E' : (this q - inject_Z fl == 1 # 2)%Q) by (rewrite <- thisH, <- E, thisM, thisZ; reflexivity).
    destruct (Z.even fl); toQ; try rewrite inject_Z_plus; change (inject_Z 1) with 1%Q in *; split; lra.
  - apply Qclt_alt in E. toQ. split; lra.
  - apply Qcgt_alt in E. toQ. rewrite inject_Z_plus. change (inject_Z 1) with 1%Q in *. split; lra.
Qed.

Theorem round_half_even_tie z :
  round_half_even (ZtoQc z + half) = if Z.even z then z else (z + 1)%Z.
Proof.
  unfold round_half_even.
  assert (Hf : Qfloor (this (ZtoQc z + half)) = z).
  { assert (Hq : (this (ZtoQc z + half) == inject_Z z + (1 # 2))%Q) by (rewrite thisP, thisZ, thisH; reflexivity).
    rewrite (Qfloor_comp _ _ Hq).
    pose proof (Qfloor_le (inject_Z z + (1 # 2))) as H1. pose proof (Qlt_floor (inject_Z z + (1 # 2))) as H2.
    set (fl := Qfloor (inject_Z z + (1 # 2))) in *.
    assert (inject_Z fl <= inject_Z z + (1#2))%Q by exact H1.
    rewrite inject_Z_plus in H2. change (inject_Z 1) with 1%Q in *.
    assert (fl <= z)%Z. { apply Z.lt_succ_r. rewrite Zlt_Qlt. unfold Z.succ. rewrite inject_Z_plus. change (inject_Z 1) with 1%Q in *. lra. }
    assert (z <= fl)%Z. { apply Z.lt_succ_r. rewrite Zlt_Qlt. unfold Z.succ. rewrite inject_Z_plus. change (inject_Z 1) with 1%Q in *. lra. }
    lia. }
  rewrite Hf.
  replace (ZtoQc z + half - ZtoQc z) with half by ring.
  assert ((half ?= half) = Eq) as -> by (apply Qceq_alt; reflexivity). reflexivity.
Qed.

Theorem round_half_even_nearest q z :
  ZtoQc z - half < q -> q < ZtoQc z + half -> round_half_even q = z.
Proof.
  intros Ha Hb. destruct (round_half_even_close q) as [H1 H2].
  set (r := round_half_even q) in *. toQ.
  assert (r < z + 1)%Z. { rewrite Zlt_Qlt. rewrite inject_Z_plus. change (inject_Z 1) with 1%Q in *. lra. }
  assert (z < r + 1)%Z. { rewrite Zlt_Qlt. rewrite inject_Z_plus. change (inject_Z 1) with 1%Q in *. lra. }
  lia.
Qed.

Theorem round_half_even_int z : round_half_even (ZtoQc z) = z.
Proof. apply round_half_even_nearest; toQ; lra. Qed.
End Rounding.

(* ------------------------------------------------------------------------------------------------ *)
(* dts = m*dt (the property's quantifier): every allocated row is written; the outcome is Rows or IndexError *)
Section NeverShort.
Local Open Scope Qc_scope.
Ltac toQ' := unfold Qcle, Qclt in *; rewrite ?thisP, ?thisM, ?thisZ, ?thisH in *; change (inject_Z 1) with 1%Q in *.

Lemma thisMul x y : (this (x * y) == this x * this y)%Q.
Proof. unfold Qcmult, Q2Qc. cbn [this]. apply Qred_correct. Qed.

Lemma NtoQc_nonzero m : (1 <= m)%nat -> NtoQc m <> 0.
Proof.
  intros Hm H. unfold NtoQc, ZtoQc in H. apply (proj1 (Q2Qc_eq_iff _ 0%Q)) in H. unfold Qeq in H. cbn in H. lia.
Qed.

Lemma round_nonneg x : 0 <= x -> (0 <= round_half_even x)%Z.
Proof.
  intros Hx. destruct (round_half_even_close x) as [_ H2]. toQ'.
  assert (H : (-1 < round_half_even x)%Z). { rewrite Zlt_Qlt. change (this (Q2Qc 0)) with 0%Q in Hx. change (inject_Z (-1)) with (-1 # 1)%Q. lra. }
  lia.
Qed.

Lemma cdiv_mul_ge n m : (1 <= m)%nat -> (n <= cdiv n m * m)%nat.
Proof.
  intros Hm. rewrite cdiv_spec by lia.
  pose proof (Nat.div_mod n m ltac:(lia)) as Hdm. pose proof (Nat.mod_upper_bound n m ltac:(lia)) as Hub.
  destruct (n mod m =? 0)%nat eqn:E; nia.
Qed.

(* the number of allocated rows never exceeds the number of stores when the sampling step is m steps *)
Theorem round_div_le_cdiv x m : 0 <= x -> (1 <= m)%nat -> (rnd (x / NtoQc m) <= cdiv (rnd x) m)%nat.
Proof.
  intros Hx Hm. destruct (Nat.eq_dec m 1) as [->|Hm1].
  - assert (Hq : x / NtoQc 1 = x) by (change (NtoQc 1) with 1; field; discriminate).
    rewrite Hq. unfold cdiv. rewrite Nat.div_1_r. lia.
  - unfold rnd. set (w := x / NtoQc m). set (r := round_half_even w). set (n := round_half_even x).
    pose proof (round_nonneg x Hx) as Hn0. fold n in Hn0.
    pose proof (cdiv_mul_ge (Z.to_nat n) m Hm) as Hk. set (k := cdiv (Z.to_nat n) m) in *.
    destruct (Z_le_gt_dec r (Z.of_nat k)) as [Hle|Hgt]; [lia|]. exfalso.
    assert (Hxw : x = w * NtoQc m) by (unfold w; field; now apply NtoQc_nonzero).
    destruct (round_half_even_close w) as [Hw1 _]. fold r in Hw1.
    destruct (round_half_even_close x) as [_ Hx2]. fold n in Hx2.
    apply (f_equal this) in Hxw. 
    assert (Hxw' : (this x == this w * inject_Z (Z.of_nat m))%Q) by (rewrite Hxw, thisMul; unfold NtoQc; rewrite thisZ; reflexivity).
    toQ'.
    assert (Hr : (inject_Z (Z.of_nat k) + 1 <= inject_Z r)%Q).
    { change 1%Q with (inject_Z 1). rewrite <- inject_Z_plus. rewrite <- Zle_Qle. lia. }
    assert (Hnk : (inject_Z n <= inject_Z (Z.of_nat k) * inject_Z (Z.of_nat m))%Q).
    { rewrite <- inject_Z_mult. rewrite <- Zle_Qle. lia. }
    assert (Hm2 : (2 <= inject_Z (Z.of_nat m))%Q).
    { change 2%Q with (inject_Z 2). rewrite <- Zle_Qle. lia. }
    assert (Hmul : ((inject_Z (Z.of_nat k) + (1 # 2)) * inject_Z (Z.of_nat m) <= this w * inject_Z (Z.of_nat m))%Q).
    { apply Qmult_le_compat_r; lra. }
    set (mq := inject_Z (Z.of_nat m)) in *. set (kq := inject_Z (Z.of_nat k)) in *.
    assert (Hexp : ((kq + (1 # 2)) * mq == kq * mq + (1 # 2) * mq)%Q) by ring.
    rewrite Hexp in Hmul. set (P := (kq * mq)%Q) in *. lra.
Qed.
Lemma thisInv x : (this (/ x) == / this x)%Q.
Proof. unfold Qcinv, Q2Qc. cbn [this]. apply Qred_correct. Qed.

Lemma Qcdiv_nonneg a b : 0 <= a -> 0 < b -> 0 <= a / b.
Proof.
  intros Ha Hb. unfold Qcdiv. unfold Qcle, Qclt in *. rewrite thisMul, thisInv.
  change (this (Q2Qc 0)) with 0%Q in *. apply Qle_shift_div_l; [exact Hb|]. lra.
Qed.

Theorem rows_never_short T dt dts : sampling_multiple dt dts = true -> 0 <= T -> 0 < dt ->
  (rnd (T / dts) <= cdiv (rnd (T / dt)) (rnd (dts / dt)))%nat.
Proof.
  intros Hm HT Hdt. unfold sampling_multiple in Hm. apply andb_prop in Hm as [Hm1 Hm2].
  set (m := rnd (dts / dt)) in *. apply Nat.leb_le in Hm1.
  assert (Hd : NtoQc m * dt = dts) by (apply Qc_is_canon; now apply Qeq_bool_iff).
  assert (Hdt0 : dt <> 0) by (intros ->; now apply (Qclt_not_eq _ _ Hdt)).
  assert (Hq : T / dts = T / dt / NtoQc m) by (rewrite <- Hd; field; split; [exact Hdt0|now apply NtoQc_nonzero]).
  rewrite Hq. apply round_div_le_cdiv; [now apply Qcdiv_nonneg|exact Hm1].
Qed.

(* under the property's quantifier (dts = m*dt, m >= 1) the solvers either return the iterates or raise IndexError *)
Theorem solve_rows_or_index_error {C} (f : C -> nat -> row -> row * C) s T dt dts y0 c0 t0 :
  sampling_multiple dt dts = true -> 0 <= T -> 0 < dt ->
  (rows_fit T dt dts = true /\ solve f s T dt dts y0 c0 t0 = Rows (spec_rows f s T dt dts y0 c0 t0)) \/
  (rows_fit T dt dts = false /\ solve f s T dt dts y0 c0 t0 = ErrIndex).
Proof.
  intros Hm HT Hdt. pose proof (rows_never_short T dt dts Hm HT Hdt) as Hle.
  unfold sampling_multiple in Hm. apply andb_prop in Hm as [Hm1 _]. apply Nat.leb_le in Hm1.
  destruct (Nat.eq_dec (cdiv (rnd (T / dt)) (rnd (dts / dt))) (rnd (T / dts))) as [E|E].
  - left. assert (Hfit : rows_fit T dt dts = true).
    { unfold rows_fit. apply andb_true_intro. split; [now apply Nat.leb_le|now apply Nat.eqb_eq]. }
    split; [exact Hfit|now apply solve_partial].
  - right. split.
    + unfold rows_fit. apply andb_false_intro2. now apply Nat.eqb_neq.
    + apply solve_index_error; [exact Hm1|lia].
Qed.
End NeverShort.
