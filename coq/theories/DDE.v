(* DDE.v — executable model (Impl) of how PyRates compiles and runs delayed terms, and the specification (Spec).
   Definitions only; proofs are in DDEProofs.v.

   Code modelled (pyrates at the commit under /repo):
     parser.py:_preprocess_dde_syntax      x(t-d) -> past(x, d) unless x is a known function name       [rewrite]
     computegraph.py:_expr_to_str           'past(' in expr_str: delay = parameter object or float literal,
                                            replacement = _get_var_hist(var, delay)                       [comp_factor]
     computegraph.py:_get_var_hist          _state_var_hist[var][delay] = f'{var}_hist{len(...[var])}'    [get_var_hist]
     computegraph.py:to_func (433-446)      for var, delays: idx = _state_var_indices[var];
                                            for delay, v_hist: add_var_hist(...)                           [emit]
     base_backend.py:add_var_hist           fixed step:  lhs = hist(t*<repr(float(dt))>-d)[idx]
                                            adaptive  :  lhs = hist(t-d)[idx]                              [t_emit, hist_val]
     base_backend.py:_solve_euler           rhs = func(i, y, hist,...); y += dt*rhs; hist.update((i+1)*dt, y)  [euler_impl]
     base_backend.py:DDEHistory             History.v (init / update / query)

   Right-hand sides are sums of monomials  coef * f1 * ... * fk  with factors
     FVar x (state variable), FPar p (parameter), FPast x d (delayed state variable), FReal c = real(t-c),
     FSign c = sign(t-c)  (calls of function names that the x(t-d) rewrite must leave alone; t is the raw first
     argument of the generated function: the step counter for fixed-step solvers, the time for adaptive ones).
   A delay is a float literal (dictionary key = its value) or a parameter (dictionary key = the parameter object,
   so two parameters with equal values are different keys).

   Repaired in /repo and modelled as repaired: D38 (textual replace in _expr_to_str missed " - c*past(...)" and rewrote
   part of a longer sibling summand), D39 (step size written with `{dt:.10e}`; now repr(float(dt)), exact), D40 (edge delay
   exactly 1.0 compiled without delay).  The behaviour before these repairs is kept as impl_eval_before_fix /
   edge_factor_before_fix for the documented `_before_fix_refuted` lemmas only.
   Open finding C10-F4: delays of the edges leaving one source variable are dropped when the largest of them does not
   exceed step_size (guard edge_delay_above_step). *)
From Coq Require Import List ZArith QArith Qcanon Bool Arith.
From PV Require Import History.
Import ListNotations.
Open Scope Qc_scope.

Inductive dkey := DLit (q : Qc) | DPar (p : nat).     (* DPar p: delay parameter p (own name space, values dpar) *)
Inductive factor := FVar (x : nat) | FPar (p : nat) | FPast (x : nat) (d : dkey) | FReal (c : Qc) | FSign (c : Qc).
Definition term := (Qc * list factor)%type.
Definition rhs := list term.
Definition model := list rhs.            (* one right-hand side per state variable *)

Definition Qc_eqb (a b : Qc) : bool := Qeq_bool (this a) (this b).
Definition dkey_eqb (a b : dkey) : bool :=
  match a, b with
  | DLit p, DLit q => Qc_eqb p q
  | DPar p, DPar q => (p =? q)%nat
  | _, _ => false
  end.

(* ---------------------------------------------------------------- time axis *)
(* emode: the step size and the step size as it stands in the generated code (they differed before D39) *)
Inductive emode := EAdaptive | EFixed (dt dt_emit : Qc).
Definition t_emit (md : emode) (t : Qc) : Qc := match md with EAdaptive => t | EFixed _ de => t * de end.
Definition t_true (md : emode) (t : Qc) : Qc := match md with EAdaptive => t | EFixed dt _ => t * dt end.
Definition dt_fmt_exact (md : emode) : bool := match md with EAdaptive => true | EFixed dt de => Qc_eqb de dt end.
Inductive mode := Adaptive | Fixed (dt : Qc).
Definition emit_now (md : mode) : emode := match md with Adaptive => EAdaptive | Fixed dt => EFixed dt dt end.

Definition sgn (q : Qc) : Qc := if Qcltb 0 q then 1 else if Qcltb q 0 then (-(1)) else 0.
Definition prodq (l : list Qc) : Qc := fold_right Qcmult 1 l.
Definition sumq (l : list Qc) : Qc := fold_right Qcplus 0 l.

(* ---------------------------------------------------------------- allocation of history variables *)
Definition table := list (nat * list dkey).          (* _state_var_hist: var -> delays in insertion order *)

Fixpoint find_d (d : dkey) (l : list dkey) : option nat :=
  match l with
  | [] => None
  | d' :: l' => if dkey_eqb d d' then Some O else option_map S (find_d d l')
  end.

Definition alloc_in (l : list dkey) (d : dkey) : list dkey * nat :=
  match find_d d l with Some k => (l, k) | None => (l ++ [d], length l) end.

(* returns the new table and the number k of the history variable x_hist<k> *)
Fixpoint get_var_hist (tb : table) (x : nat) (d : dkey) : table * nat :=
  match tb with
  | [] => ([(x, [d])], O)
  | (x', l) :: tb' =>
      if (x =? x')%nat then let '(l', k) := alloc_in l d in ((x', l') :: tb', k)
      else let '(tb2, k) := get_var_hist tb' x d in ((x', l) :: tb2, k)
  end.

Fixpoint assoc (tb : table) (x : nat) : option (list dkey) :=
  match tb with
  | [] => None
  | (x', l) :: tb' => if (x =? x')%nat then Some l else assoc tb' x
  end.

(* the delay that the history variable x_hist<k> stands for *)
Definition slot (tb : table) (x k : nat) : option dkey :=
  match assoc tb x with Some l => nth_error l k | None => None end.

Inductive cfactor := CVar (x : nat) | CPar (p : nat) | CHist (x k : nat) | CReal (c : Qc) | CSign (c : Qc).
Definition cterm := (Qc * list cfactor)%type.
Definition crhs := list cterm.

Definition comp_factor (tb : table) (f : factor) : table * cfactor :=
  match f with
  | FVar x => (tb, CVar x)
  | FPar p => (tb, CPar p)
  | FPast x d => let '(tb', k) := get_var_hist tb x d in (tb', CHist x k)
  | FReal c => (tb, CReal c)
  | FSign c => (tb, CSign c)
  end.

Fixpoint comp_factors (tb : table) (fs : list factor) : table * list cfactor :=
  match fs with
  | [] => (tb, [])
  | f :: fs' => let '(tb1, c) := comp_factor tb f in let '(tb2, cs) := comp_factors tb1 fs' in (tb2, c :: cs)
  end.

Fixpoint comp_rhs (tb : table) (r : rhs) : table * crhs :=
  match r with
  | [] => (tb, [])
  | (c, fs) :: r' => let '(tb1, cfs) := comp_factors tb fs in let '(tb2, cr) := comp_rhs tb1 r' in (tb2, (c, cfs) :: cr)
  end.

Fixpoint comp_model (tb : table) (m : model) : table * list crhs :=
  match m with
  | [] => (tb, [])
  | r :: m' => let '(tb1, cr) := comp_rhs tb r in let '(tb2, cm) := comp_model tb1 m' in (tb2, cr :: cm)
  end.

Definition compile (m : model) : table * list crhs := comp_model [] m.

(* the emitted lines  x_hist<k> = hist(t_time - d)[idx]  as data (variable, k, delay, index) *)
Fixpoint enum_from {A} (i : nat) (l : list A) : list (nat * A) :=
  match l with [] => [] | a :: l' => (i, a) :: enum_from (S i) l' end.

(* ---------------------------------------------------------------- guards *)
Definition has_past (fs : list factor) : bool :=
  existsb (fun f => match f with FPast _ _ => true | _ => false end) fs.
Definition rhs_ok (r : rhs) : bool :=
  (length r <=? 1)%nat || forallb (fun cf : term => negb (has_past (snd cf)) || Qcleb 0 (fst cf)) r.
Definition no_neg_past_in_sum (m : model) : bool := forallb rhs_ok m.

(* second trigger of the same textual replace: the printed text of one summand occurs inside the printed text of another
   summand that has a further delayed factor (k*past(g,a) + k*past(g,a)*past(v,b)): replacing the first rewrites part of
   the second, whose own replacement then fails and leaves a raw past(...) behind.  Over-approximated by: a summand with
   >= 2 distinct delayed factors shares no (variable, delay) pair with another summand of the same right-hand side. *)
Definition term_keys (cf : term) : list (nat * dkey) :=
  flat_map (fun f => match f with FPast x d => [(x, d)] | _ => [] end) (snd cf).
Definition key_eqb (a b : nat * dkey) : bool := (fst a =? fst b)%nat && dkey_eqb (snd a) (snd b).
Definition two_distinct (ks : list (nat * dkey)) : bool := existsb (fun a => existsb (fun b => negb (key_eqb a b)) ks) ks.
Definition shares (k1 k2 : list (nat * dkey)) : bool := existsb (fun a => existsb (key_eqb a) k2) k1.
Definition rhs_share_ok (r : rhs) : bool :=
  forallb (fun i => let kb := term_keys (nth i r (0, [])) in
                    negb (two_distinct kb) ||
                    forallb (fun j => (i =? j)%nat || negb (shares kb (term_keys (nth j r (0, []))))) (seq 0 (length r)))
          (seq 0 (length r)).
Definition no_shared_past (m : model) : bool := forallb rhs_share_ok m.
Definition past_terms_printable (m : model) : bool := no_neg_past_in_sum m && no_shared_past m.

Section Eval.
  Variable hist : Qc -> list Qc.          (* ANY history function *)
  Variable pos : nat -> nat.              (* slot of a state variable in y (_state_var_indices) *)
  Variable par : nat -> Qc.               (* parameter values at call time *)
  Variable dpar : nat -> Qc.              (* values of the delay parameters (DPar p) *)

  Definition dval (d : dkey) : Qc := match d with DLit q => q | DPar p => dpar p end.

  (* ---------- Spec: a delayed term is component pos(x) of hist(t - tau), t in time units *)
  Definition past_val (tt : Qc) (x : nat) (d : dkey) : Qc := nth (pos x) (hist (tt - dval d)) 0.

  Definition fval (md : emode) (t : Qc) (y : list Qc) (f : factor) : Qc :=
    match f with
    | FVar x => nth (pos x) y 0
    | FPar p => par p
    | FPast x d => past_val (t_true md t) x d
    | FReal c => t - c
    | FSign c => sgn (t - c)
    end.
  Definition term_val md t y (cf : term) : Qc := fst cf * prodq (map (fval md t y) (snd cf)).
  Definition rhs_val md t y (r : rhs) : Qc := sumq (map (term_val md t y) r).
  Definition spec_eval_e (m : model) (md : emode) t y : list Qc := map (rhs_val md t y) m.
  Definition spec_eval (m : model) (md : mode) t y : list Qc := spec_eval_e m (emit_now md) t y.

  (* ---------- Impl: evaluation of the generated function *)
  Definition emit (tb : table) : list (nat * nat * dkey * nat) :=
    flat_map (fun xl => map (fun kd => (fst xl, fst kd, snd kd, pos (fst xl))) (enum_from 0 (snd xl))) tb.

  (* value bound to x_hist<k> by its line; an unbound name cannot occur in compiled code (0 is a placeholder) *)
  Definition hist_val (tb : table) (md : emode) (t : Qc) (x k : nat) : Qc :=
    match slot tb x k with
    | Some d => nth (pos x) (hist (t_emit md t - dval d)) 0
    | None => 0
    end.

  Definition cfval (tb : table) md t (y : list Qc) (c : cfactor) : Qc :=
    match c with
    | CVar x => nth (pos x) y 0
    | CPar p => par p
    | CHist x k => hist_val tb md t x k
    | CReal c => t - c
    | CSign c => sgn (t - c)
    end.
  Definition cterm_val tb md t y (cf : cterm) : Qc := fst cf * prodq (map (cfval tb md t y) (snd cf)).
  Definition crhs_val tb md t y (r : crhs) : Qc := sumq (map (cterm_val tb md t y) r).

  (* Impl: the generated function as the code is now *)
  Definition impl_eval (m : model) (md : mode) t y : list Qc :=
    let '(tb, cm) := compile m in map (crhs_val tb (emit_now md) t y) cm.

  (* before D38/D39: None = the compilation did not deliver these delayed terms (TypeError, or silently another
     variable at another delay); the emitted step size could differ from the step size *)
  Definition impl_eval_before_fix (m : model) (md : emode) t y : option (list Qc) :=
    if past_terms_printable m then
      let '(tb, cm) := compile m in Some (map (crhs_val tb md t y) cm)
    else None.
End Eval.

(* ---------------------------------------------------------------- delayed edges under an adaptive solver
   circuit.py:_preprocess_edge_operations / _collect_delays_from_edges / _add_edge_buffer (DDE branch, vectorize=False):
   the edges leaving one source variable get buffers only if their largest delay exceeds step_size
   (add_delay = max_delay > self.step_size); then every edge gets  <var>_buffered = past(var, d)  (before D40 a delay
   of exactly 1.0 was written as the undelayed variable).  Delays not above the (initial) step size are dropped (finding C10-F4). *)
Definition edge := (nat * nat * nat * Qc)%type.      (* source state variable, target equation, weight parameter, delay *)
Definition e_src (e : edge) : nat := fst (fst (fst e)).
Definition e_delay (e : edge) : Qc := snd e.
Definition Qcmaxb (a b : Qc) : Qc := if Qcleb a b then b else a.
Definition max_delay_from (es : list edge) (s : nat) : Qc :=
  fold_right (fun e acc => if (e_src e =? s)%nat then Qcmaxb (e_delay e) acc else acc) 0 es.

Definition edge_factor_impl (step : Qc) (es : list edge) (e : edge) : factor :=
  if Qcltb step (max_delay_from es (e_src e)) then FPast (e_src e) (DLit (e_delay e)) else FVar (e_src e).
(* before D40 *)
Definition edge_factor_before_fix (step : Qc) (es : list edge) (e : edge) : factor :=
  if Qcltb step (max_delay_from es (e_src e))
  then (if Qc_eqb (e_delay e) 1 then FVar (e_src e) else FPast (e_src e) (DLit (e_delay e)))
  else FVar (e_src e).
Definition edge_factor_spec (e : edge) : factor := FPast (e_src e) (DLit (e_delay e)).

Fixpoint app_nth (m : model) (i : nat) (tm : term) : model :=
  match m, i with
  | [], _ => []
  | r :: m', O => (r ++ [tm]) :: m'
  | r :: m', S i' => r :: app_nth m' i' tm
  end.
Definition add_edges (fac : edge -> factor) (es : list edge) (base : model) : model :=
  fold_left (fun m e => app_nth m (snd (fst (fst e))) (1, [FPar (snd (fst e)); fac e])) es base.

Definition edge_delay_not_one (es : list edge) : bool := forallb (fun e => negb (Qc_eqb (e_delay e) 1)) es.
Definition edge_delay_above_step (step : Qc) (es : list edge) : bool :=
  forallb (fun e => Qcltb step (max_delay_from es (e_src e))) es.

(* ---------------------------------------------------------------- run: Euler + DDEHistory (method of steps) *)
Definition qn (i : nat) : Qc := Q2Qc (inject_Z (Z.of_nat i)).

(* ---------------------------------------------------------------- vector-valued variables (vectorize=True: n structurally
   equal nodes merged, every variable a vector of n units; variable x occupies y[start x : start x + n]).  The generated line is
       x_hist<k> = hist(t_time - d)[start x : start x + n]         for a literal delay d
       x_hist<k> = hist(t_time - d1[0])[start x : start x + n]     for a delay PARAMETER d1 (base_backend._process_delay:
                                                                   f"{delay}[{start_idx}]" when the parameter has a shape)
   i.e. unit u reads component start x + u, and a per-unit delay parameter is read at unit 0 for every unit (finding C10-F5).
   All other operations are element-wise, so unit u evaluates the scalar model with pos x := start x + u, par p := par p u. *)
Section Vec.
  Variable hist : Qc -> list Qc.
  Variable start : nat -> nat.
  Variable par dpar : nat -> nat -> Qc.   (* parameter p of unit u *)
  Variable n : nat.
  (* result: one row per unit, one entry per variable; dy[start x + u] is entry x of row u *)
  Definition vspec_eval (m : model) md t y : list (list Qc) :=
    map (fun u => spec_eval hist (fun x => (start x + u)%nat) (fun p => par p u) (fun p => dpar p u) m md t y) (seq 0 n).
  Definition vimpl_eval (m : model) md t y : list (list Qc) :=
    map (fun u => impl_eval hist (fun x => (start x + u)%nat) (fun p => par p u) (fun p => dpar p 0%nat) m md t y) (seq 0 n).
End Vec.
(* the behaviour with /verif/fixes/proposed_fix_C10_F5.diff: compilation is refused (None) when a delay parameter differs
   between the units *)
Definition vimpl_eval_checked (uniform : bool) hist start par dpar n (m : model) md t y : option (list (list Qc)) :=
  if uniform then Some (vimpl_eval hist start par dpar n m md t y) else None.
(* the behaviour with /verif/fixes/proposed_fix_C10_F5_perunit.diff (default backend): one history lookup per distinct delay
   value, unit u reads hist(t_time - d_u)[start x + u] *)
Definition vimpl_eval_perunit hist (start : nat -> nat) (par dpar : nat -> nat -> Qc) (n : nat) (m : model) md t y : list (list Qc) :=
  map (fun u => impl_eval hist (fun x => (start x + u)%nat) (fun p => par p u) (fun p => dpar p u) m md t y) (seq 0 n).
(* parameter tables given as lists: row p = the values of parameter p over the units *)
Definition tab (l : list (list Qc)) (p u : nat) : Qc := nth u (nth p l []) 0.
(* guard of finding C10-F5, for parameter tables given as lists (row p = values of delay parameter p over the units) *)
Definition delays_uniform (dps : list (list Qc)) : bool :=
  forallb (fun r => forallb (fun v => Qc_eqb v (nth 0 r 0)) r) dps.

(* one step of the fixed-step solvers, given the right-hand side F at the current step (time AND history fixed):
     _solve_euler : y += dt * F(y)
     _solve_heun  : rhs = F(y); y_0 = y + dt*rhs; y += dt/2 * (rhs + F(y_0))     (both stages are evaluated with the same
                    step counter, so both read hist(i*dt - tau); the history is updated once per step) *)
Inductive scheme := Euler | Heun.
Definition step_y (sc : scheme) (dt : Qc) (F : row -> list Qc) (y : row) : row :=
  match sc with
  | Euler => vadd y (vscale dt (F y))
  | Heun => let k1 := F y in let y0 := vadd y (vscale dt k1) in vadd y (vscale (dt / (1 + 1)) (vadd k1 (F y0)))
  end.

Section Run.
  Variable sc : scheme.
  Variable pos : nat -> nat.
  Variable par : nat -> Qc.
  Variable dpar : nat -> Qc.              (* values of the delay parameters (DPar p) *)
  Variable m : model.
  Variable dt : Qc.
  Variable junk : nat -> list row.        (* arbitrary content of freshly allocated buffer rows *)

  (* Impl: _solve_euler / _solve_heun with has_dde; returns the recorded rows (store_step = 1) *)
  Fixpoint loop_impl (n i : nat) (y : row) (h : hist) : option (list row) :=
    match n with
    | O => Some []
    | S n' =>
        let y' := step_y sc dt (impl_eval (query h) pos par dpar m (Fixed dt) (qn i)) y in
        match update h (junk i) (qn (S i) * dt) y' with
        | None => None
        | Some h' => match loop_impl n' (S i) y' h' with None => None | Some r => Some (y :: r) end
        end
    end.
  Definition run_impl (cap n : nat) (y0 : row) : option (list row) :=
    loop_impl n 0 y0 (init y0 0 cap true (junk 0)).

  (* Spec: the method-of-steps recurrence; the history is the piecewise-linear interpolant of the steps so far,
     constant y0 before the start *)
  Fixpoint loop_spec (n i : nat) (y : row) (recs : list (Qc * row)) : list row :=
    match n with
    | O => []
    | S n' =>
        let y' := step_y sc dt (spec_eval (interp recs) pos par dpar m (Fixed dt) (qn i)) y in
        y :: loop_spec n' (S i) y' (recs ++ [(qn (S i) * dt, y')])
    end.
  Definition run_spec (n : nat) (y0 : row) : list row := loop_spec n 0 y0 [(0, y0)].

  (* the records the recurrence has produced after n steps *)
  Fixpoint spec_recs (n i : nat) (y : row) (recs : list (Qc * row)) : list (Qc * row) :=
    match n with
    | O => recs
    | S n' =>
        let y' := step_y sc dt (spec_eval (interp recs) pos par dpar m (Fixed dt) (qn i)) y in
        spec_recs n' (S i) y' (recs ++ [(qn (S i) * dt, y')])
    end.
End Run.

(* ---------------------------------------------------------------- which rows DDEHistory.__call__ reads (for the adaptive run,
   where the arithmetic is floating point but the bookkeeping is exact): 0 = before/at the first record -> row 0,
   1 = at/after the last record -> last row, 2 = between -> rows idx and idx+1 *)
Definition qcase (tsl : list Qc) (t : Qc) : nat * nat :=
  if Qcleb t (hd 0 tsl) then (0%nat, 0%nat)
  else if Qcleb (last tsl 0) t then (1%nat, (length tsl - 1)%nat)
  else (2%nat, (bisect_right tsl t - 1)%nat).
(* replay of a recorded sequence of update times (None) and query times (Some t): the row selection of every query
   against the update times recorded so far *)
Fixpoint qcases (tsl : list Qc) (ops : list (bool * Qc)) : list (nat * nat) :=
  match ops with
  | [] => []
  | (true, t) :: ops' => qcases (tsl ++ [t]) ops'
  | (false, t) :: ops' => qcase tsl t :: qcases tsl ops'
  end.
(* the adaptive path feeds every output time twice (solout at the end of one integrate() segment and at the start of the
   next): update times are only weakly increasing *)
Fixpoint weak_incrb (l : list Qc) : bool :=
  match l with
  | [] => true
  | x :: l' => match l' with [] => true | y :: _ => Qcleb x y end && weak_incrb l'
  end.
Fixpoint op_update_times (ops : list (bool * Qc)) : list Qc :=
  match ops with [] => [] | (true, t) :: o => t :: op_update_times o | (false, _) :: o => op_update_times o end.

(* ---------------------------------------------------------------- the rewrite x(t-d) -> past(x, d) on tokens *)
Inductive tok := TId (s : nat) | TLp | TRp | TMinus | TComma | TOther (c : nat).
Definition tok_eqb (a b : tok) : bool :=
  match a, b with
  | TId s, TId s' => (s =? s')%nat | TLp, TLp => true | TRp, TRp => true | TMinus, TMinus => true
  | TComma, TComma => true | TOther c, TOther c' => (c =? c')%nat | _, _ => false
  end.
Definition is_rp (a : tok) : bool := match a with TRp => true | _ => false end.

(* [^)]+ : the longest non-empty prefix without ')' ; returns (prefix, rest starting at the ')') *)
Fixpoint span_no_rp (l : list tok) : list tok * list tok :=
  match l with
  | [] => ([], [])
  | a :: l' => if is_rp a then ([], l) else let '(p, r) := span_no_rp l' in (a :: p, r)
  end.

Section Rewrite.
  Variable t_id past_id : nat.            (* the identifiers `t` and `past` *)
  Variable excluded : nat -> bool.        (* _DDE_EXCLUDE *)

  (* one left-to-right pass of re.sub with pattern (\w+)\(\s*t\s*-\s*([^)]+)\) on a token list (white space is not a token) *)
  Fixpoint rewrite_fuel (fuel : nat) (l : list tok) : list tok :=
    match fuel with
    | O => l
    | S fuel' =>
        match l with
        | TId f :: TLp :: TId t' :: TMinus :: rest =>
            if (t' =? t_id)%nat then
              match span_no_rp rest with
              | (d :: ds, TRp :: rest') =>
                  if excluded f then TId f :: TLp :: TId t' :: TMinus :: (d :: ds) ++ TRp :: rewrite_fuel fuel' rest'
                  else TId past_id :: TLp :: TId f :: TComma :: (d :: ds) ++ TRp :: rewrite_fuel fuel' rest'
              | _ => TId f :: rewrite_fuel fuel' (TLp :: TId t' :: TMinus :: rest)
              end
            else TId f :: rewrite_fuel fuel' (TLp :: TId t' :: TMinus :: rest)
        | a :: l' => a :: rewrite_fuel fuel' l'
        | [] => []
        end
    end.
  Definition rewrite (l : list tok) : list tok := rewrite_fuel (S (length l)) l.
End Rewrite.

(* ---------------------------------------------------------------- helpers for the correspondence run *)
Definition polyval (cs : list Qc) (t : Qc) : Qc := fold_right (fun c acc => c + t * acc) 0 cs.
Definition polyhist (css : list (list Qc)) (t : Qc) : list Qc := map (fun cs => polyval cs t) css.
Definition lookup_nat (l : list nat) (i : nat) : nat := nth i l O.
Definition lookup_q (l : list Qc) (i : nat) : Qc := nth i l 0.
Definition orow_eqb (a : option row) (b : row) : bool := match a with Some r => row_eqb r b | None => false end.
Fixpoint rows_eqb (a b : list row) : bool :=
  match a, b with
  | [], [] => true
  | x :: a', y :: b' => row_eqb x y && rows_eqb a' b'
  | _, _ => false
  end.
Definition orows_eqb (a : option (list row)) (b : list row) : bool := match a with Some r => rows_eqb r b | None => false end.
