(* Interp.v — specification of numpy.interp(x, xp, fp) for an increasing grid xp: clamp to fp[0] / fp[-1] outside
   the grid, linear between neighbouring grid points; and of numpy.linspace(a, b, n) in exact arithmetic.
   Self-contained (no other theory file is imported).  Definitions only. *)
From Coq Require Import List ZArith QArith Qcanon Bool Arith.
Import ListNotations.

Definition qleb (a b : Qc) : bool := Qle_bool a b.
Definition qltb (a b : Qc) : bool := negb (Qle_bool b a).

(* numpy: slope = (fp[j+1]-fp[j])/(xp[j+1]-xp[j]);  slope*(x - xp[j]) + fp[j] *)
Definition lin (xa ya xb yb x : Qc) : Qc := ((yb - ya) / (xb - xa) * (x - xa) + ya)%Qc.

Fixpoint interp_from (xa ya : Qc) (rest : list (Qc * Qc)) (x : Qc) : Qc :=
  match rest with
  | [] => ya                                              (* at or right of the last grid point *)
  | (xb, yb) :: rest' => if qltb x xb then lin xa ya xb yb x else interp_from xb yb rest' x
  end.

Definition interp_np (x : Qc) (xp fp : list Qc) : Qc :=
  match combine xp fp with
  | [] => 0%Qc
  | (x0, y0) :: rest => if qleb x x0 then y0 else interp_from x0 y0 rest x
  end.

Definition nq (n : nat) : Qc := Q2Qc (inject_Z (Z.of_nat n)).

(* np.linspace(a, b, n): a + k*(b-a)/(n-1) for k < n; a single point a when n = 1 *)
Definition linspace (a b : Qc) (n : nat) : list Qc :=
  match n with
  | O => []
  | S O => [a]
  | _ => map (fun k => (a + nq k * ((b - a) / nq (n - 1)))%Qc) (seq 0 n)
  end.

Fixpoint increasing (l : list Qc) : Prop :=
  match l with
  | [] => True
  | x :: l' => match l' with [] => True | y :: _ => (x < y)%Qc end /\ increasing l'
  end.
