(* Backends.v — executable models of the backend hooks through which the four installed backends (NumPy 'default',
   PyTorch, JAX, Fortran) differ, and of the solver overrides.  Definitions only; proofs in BackendsProofs.v.

   (i)  index hooks (pyrates/backend/base/base_backend.py:_process_idx / create_index_str, fortran_backend.py,
        _one_based.py):
          int i                -> f"{i + self._start_idx}"
          tuple (a, b)         -> f"{a + self._start_idx}:{b}"
          ComputeVar v         -> shifts v.value by _start_idx the FIRST time id(v) is seen (_offsetted_var_ids), returns v.name
          "a:b" (1-based mixin)-> parsed with _start_idx temporarily 0, then formatted as the tuple (a, b)
          apply=False          -> Fortran / mixin set _start_idx = 0 around the call
        A target language with index base 0 (Python) reads `lo:hi` as the half-open range, a language with base 1
        (Fortran, Julia, Matlab) as the closed range.
        roll: numpy/torch/jax `roll(v, k)`; Fortran registers `cshift` and FortranBackend.expr_to_str negates the shift.
   (iii) solvers: BaseBackend._solve_euler/_solve_heun (Python loop, `i % store_step == 0` cadence, t = i + t0),
        TorchBackend._solve_euler (same loop), JaxBackend._solve_euler/_solve_heun (lax.scan outer over stored samples,
        inner over store_step updates; the Heun corrector is evaluated at t + 1).
        The default (in-place) vector field returns its `dy` buffer.  Since fix_D36 `_solve_heun` copies the first slope
            rhs = np.array(func(step, y, *args)); y_0 = y + dt * rhs; y += dt/2 * (rhs + func(step, y_0, *args))
        Before that fix `rhs` WAS the buffer and was overwritten by the second call (`alias = true` below models the
        old loop; the current code is `alias = false`). *)
From Coq Require Import List ZArith QArith Qcanon Bool Arith Qround.
From PV Require Import History.
Import ListNotations.
Open Scope nat_scope.

(* ================================================================================================ (i) indices *)
(* rendered index expressions *)
Definition render_idx (base i : nat) : nat := i + base.
Definition render_range (base a b : nat) : nat * nat := (a + base, b).

(* what a rendered expression denotes in a language with index base `base` (0-based positions of the elements) *)
Definition lang_elem (base s : nat) : nat := s - base.
Definition lang_range (base lo hi : nat) : list nat :=
  if (base =? 0)%nat then seq lo (hi - lo)                 (* Python  lo:hi  half-open *)
  else seq (lo - base) (hi + 1 - lo).                      (* Fortran lo:hi  closed, 1-based *)

(* the mixin's handling of a string range "a:b": both ends parsed with start 0, then the tuple rule *)
Definition process_int (start i : nat) : nat := i + start.
Definition process_str_range (start a b : nat) : nat * nat :=
  let a0 := process_int 0 a in let b0 := process_int 0 b in render_range start a0 b0.
(* create_index_str(idx, apply=False): the offset is switched off around the call *)
Definition create_index_noapply (start i : nat) : nat := process_int 0 i.

(* ComputeVar bookkeeping.  A backend state: the value of every ComputeVar (by id) and the set of ids already shifted. *)
Record pstate := { vals : nat -> Z; offsetted : list nat }.
Definition memb (i : nat) (l : list nat) : bool := existsb (Nat.eqb i) l.
Definition process_var (start : Z) (st : pstate) (id : nat) : pstate :=
  if negb (start =? 0)%Z && negb (memb id (offsetted st))
  then {| vals := fun j => if (j =? id)%nat then (vals st j + start)%Z else vals st j; offsetted := id :: offsetted st |}
  else st.
Definition process_vars (start : Z) (st : pstate) (calls : list nat) : pstate := fold_left (process_var start) calls st.
Definition fresh_state (v : nat -> Z) : pstate := {| vals := v; offsetted := [] |}.

(* roll / cshift on lists *)
Definition zmodn (k : Z) (n : nat) : nat := Z.to_nat (k mod Z.of_nat n).
(* numpy.roll(v, k): the last (k mod n) elements move to the front *)
Definition roll {A} (v : list A) (k : Z) : list A :=
  let n := length v in let r := zmodn k n in skipn (n - r) v ++ firstn (n - r) v.
(* Fortran cshift(v, s): circular shift to the left by s: result(i) = v(1 + modulo(i - 1 + s, n)) *)
Definition cshift {A} (v : list A) (s : Z) : list A :=
  let n := length v in let r := zmodn s n in skipn r v ++ firstn r v.
(* what the Fortran backend emits for `roll(v, k)` after expr_to_str: cshift(v, -k) *)
Definition fortran_roll {A} (v : list A) (k : Z) : list A := cshift v (- k).

(* ================================================================================================ (iii) solvers *)
Section Solvers.
  Variable St : Type.
  (* one update of the state at step counter t *)
  Variable upd : Z -> St -> St.

  (* BaseBackend._solve_euler / _solve_heun / TorchBackend._solve_euler:
       for i in range(steps): if i % store_step == 0: state_rec[idx] = y; idx += 1
                              step = i + t0;  y = upd(step, y)
     `rec` is the list of rows written so far (the real buffer has round(T/dts) rows: C03 is about that). *)
  Fixpoint base_loop (ss : nat) (t0 : Z) (n i : nat) (y : St) (rec : list St) : list St :=
    match n with
    | O => rec
    | S n' =>
        let rec' := if (i mod ss =? 0)%nat then rec ++ [y] else rec in
        base_loop ss t0 n' (S i) (upd (Z.of_nat i + t0)%Z y) rec'
    end.
  Definition base_solve (steps ss : nat) (t0 : Z) (y0 : St) : list St := base_loop ss t0 steps 0 y0 [].

  (* JaxBackend: inner scan = store_step updates, carry (t, y), t incremented by 1;
     outer scan = store_steps blocks, each emits the y it STARTED with. *)
  Fixpoint scan_inner (k : nat) (t : Z) (y : St) : Z * St :=
    match k with
    | O => (t, y)
    | S k' => scan_inner k' (t + 1)%Z (upd t y)
    end.
  Fixpoint scan_outer (ss m : nat) (t : Z) (y : St) : list St :=
    match m with
    | O => []
    | S m' => let '(t', y') := scan_inner ss t y in y :: scan_outer ss m' t' y'
    end.
  Definition jax_solve (store_steps ss : nat) (t0 : Z) (y0 : St) : list St := scan_outer ss store_steps t0 y0.

  (* Spec: row k is the state after k*store_step updates *)
  Fixpoint iter_from (t : Z) (j : nat) (y : St) : St :=
    match j with
    | O => y
    | S j' => iter_from (t + 1)%Z j' (upd t y)
    end.
  Definition spec_rows (ss m : nat) (t0 : Z) (y0 : St) : list St := map (fun k => iter_from t0 (k * ss) y0) (seq 0 m).
End Solvers.
Arguments base_loop {St}. Arguments base_solve {St}. Arguments scan_inner {St}. Arguments scan_outer {St}.
Arguments jax_solve {St}. Arguments iter_from {St}. Arguments spec_rows {St}.

(* number of rows the Python loop writes: ceil(steps / store_step) *)
Definition cdiv (a b : nat) : nat := (a + b - 1) / b.

Open Scope Qc_scope.
Definition two : Qc := Q2Qc (2 # 1).
Definition half : Qc := Q2Qc (1 # 2).
(* updates built from a right-hand side f : step counter -> state -> derivative *)
Definition rhs := Z -> row -> row.
Definition euler_upd (f : rhs) (dt : Qc) (t : Z) (y : row) : row := vadd y (vscale dt (f t y)).
(* jax:  y + dt * rhs  — the same expression *)

(* base Heun; alias = false is the code as it is now; alias = true the loop before fix_D36 when func returns its buffer *)
Definition heun_base_upd (alias : bool) (f : rhs) (dt : Qc) (t : Z) (y : row) : row :=
  let k1 := f t y in
  let y_0 := vadd y (vscale dt k1) in
  let k2 := f t y_0 in
  vadd y (vscale (dt / two) (vadd (if alias then k2 else k1) k2)).
(* jax Heun: k2 = func(t + 1, y_pred);  y + 0.5 * dt * (k1 + k2) *)
Definition heun_jax_upd (f : rhs) (dt : Qc) (t : Z) (y : row) : row :=
  let k1 := f t y in
  let y_pred := vadd y (vscale dt k1) in
  let k2 := f (t + 1)%Z y_pred in
  vadd y (vscale (half * dt) (vadd k1 k2)).
(* Spec: Heun's method *)
Definition heun_spec_upd (f : rhs) (dt : Qc) (t : Z) (y : row) : row :=
  let k1 := f t y in
  vadd y (vscale (dt / two) (vadd k1 (f t (vadd y (vscale dt k1))))).

(* linear test systems used by the correspondence run:  y' = M y + u[t - base] * b   (u: extrinsic input samples,
   read as `inp_input[t]`; the Fortran backend starts t at 1 and reads inp_input(t)) *)
Record linsys := { mat : list row; inw : row; usamp : list Qc }.
Definition dot (a b : row) : Qc := fold_right Qcplus 0 (map (fun p => fst p * snd p) (combine a b)).
Definition lin_rhs (base : Z) (s : linsys) : rhs :=
  fun t y => vadd (map (fun r => dot r y) (mat s)) (vscale (nth (Z.to_nat (t - base)) (usamp s) 0) (inw s)).
Definition time_free (s : linsys) : bool := forallb (fun w => Qeq_bool (this w) 0) (inw s).

Inductive solver := Euler | Heun.
Inductive backend := BDefault | BTorch | BJax | BFortran.
Definition idx_base (b : backend) : Z := match b with BFortran => 1%Z | _ => 0%Z end.

(* Impl: what `run` computes on backend b *)
Definition run_impl (b : backend) (sv : solver) (s : linsys) (dt : Qc) (steps ss : nat) (y0 : row) : list row :=
  let f := lin_rhs (idx_base b) s in
  match b, sv with
  | BJax, Euler => jax_solve (euler_upd f dt) (cdiv steps ss) ss (idx_base b) y0
  | BJax, Heun => jax_solve (heun_jax_upd f dt) (cdiv steps ss) ss (idx_base b) y0
  | _, Euler => base_solve (euler_upd f dt) steps ss (idx_base b) y0
  | _, Heun => base_solve (heun_base_upd false f dt) steps ss (idx_base b) y0
  end.
(* the Python loop before fix_D36 (seeded-bug reference) *)
Definition run_impl_preD36 (s : linsys) (dt : Qc) (steps ss : nat) (y0 : row) : list row :=
  base_solve (heun_base_upd true (lin_rhs 0 s) dt) steps ss 0%Z y0.
(* Spec: explicit Euler / Heun on the model, rows every store_step steps, indices 0-based *)
Definition run_spec (sv : solver) (s : linsys) (dt : Qc) (steps ss : nat) (y0 : row) : list row :=
  let f := lin_rhs 0 s in
  spec_rows (match sv with Euler => euler_upd f dt | Heun => heun_spec_upd f dt end) ss (cdiv steps ss) 0%Z y0.

(* guard of the Heun finding D16: the jax corrector reads the input sample of the NEXT step *)
Definition heun_time_free (b : backend) (sv : solver) (s : linsys) : bool :=
  match sv, b with Heun, BJax => time_free s | _, _ => true end.

(* ================================================================================================ polynomial networks *)
(* Spec used by the cross-backend function stream: a scalar network; every node carries one operator
     x' = P(x, v, k, inp),  v' = Q(x, v, k, inp),   inp = sum over incoming edges of weight * x(source)
   P, Q are polynomials given as lists of monomials coef * x^a v^b k^c inp^d. *)
Record mono := { coef : Qc; ex : nat; ev : nat; ek : nat; ei : nat }.
Definition poly := list mono.
Fixpoint qpow (a : Qc) (n : nat) : Qc := match n with O => 1 | S n' => a * qpow a n' end.
Definition eval_mono (x v k i : Qc) (m : mono) : Qc := coef m * qpow x (ex m) * qpow v (ev m) * qpow k (ek m) * qpow i (ei m).
Definition eval_poly (x v k i : Qc) (p : poly) : Qc := fold_right Qcplus 0 (map (eval_mono x v k i) p).
Record pnode := { px : poly; pv : poly; kval : Qc }.
Record pnet := { pnodes : list pnode; pedges : list (nat * nat * Qc) (* source, target, weight *) }.
(* state: per node (x, v) *)
Definition node_input (net : pnet) (st : list (Qc * Qc)) (j : nat) : Qc :=
  fold_right Qcplus 0 (map (fun e => let '(s, t, w) := e in if (t =? j)%nat then w * fst (nth s st (0, 0)) else 0) (pedges net)).
Definition net_deriv (net : pnet) (st : list (Qc * Qc)) : list (Qc * Qc) :=
  map (fun jn => let '(j, nd) := jn in
                 let '(x, v) := nth j st (0, 0) in
                 let i := node_input net st j in
                 (eval_poly x v (kval nd) i (px nd), eval_poly x v (kval nd) i (pv nd)))
      (combine (seq 0 (length (pnodes net))) (pnodes net)).

(* ================================================================================================ vectorized helpers *)
(* PyRates-authored helper functions emitted for vectorized / population circuits (base_funcs.py, same text in jax_funcs.py
   and torch_funcs.py):
     wsum(weight, coupling) = einsum('ij,ij->i', weight, coupling)      row i: sum_j W[i][j] * X[i][j]
     broadcast_pre(x)  = x.reshape(1, -1)   (since fix_D92; before: x[None, :])   the source vector as a row, repeated for every target unit
     broadcast_post(x) = x.reshape(-1, 1)   (since fix_D92; before: x[:, None])   the target vector as a column, repeated for every source unit
   (reshape also accepts the 0-d value of a one-unit population; the denoted (1,m) / (n,1) operand is the same)
   A coupling edge template c(u_s, u_t) is emitted as  wsum(W, c(broadcast_pre(src), broadcast_post(tgt)))  with numpy
   broadcasting of the (1,m) and (n,1) operands to (n,m). *)
Definition wsum (W X : list row) : row := map (fun p => dot (fst p) (snd p)) (combine W X).
Definition broadcast_pre (x : row) (n : nat) : list row := repeat x n.
Definition broadcast_post (x : row) (m : nat) : list row := map (fun xi => repeat xi m) x.
Definition mat_map2 (c : Qc -> Qc -> Qc) (A B : list row) : list row :=
  map (fun p => map (fun q => c (fst q) (snd q)) (combine (fst p) (snd p))) (combine A B).
Definition coupling_input (c : Qc -> Qc -> Qc) (W : list row) (pre post : row) : row :=
  wsum W (mat_map2 c (broadcast_pre pre (length post)) (broadcast_post post (length pre))).
(* Spec: target unit i receives sum_j W[i][j] * c(source_j, target_i) *)
Definition coupling_spec (c : Qc -> Qc -> Qc) (W : list row) (pre post : row) : row :=
  map (fun p => fold_right Qcplus 0 (map (fun q => fst q * c (snd q) (snd p)) (combine (fst p) pre))) (combine W post).
Definition matvec (W : list row) (x : row) : row := map (fun r => dot r x) W.

(* slice assignment  buf[lo:lo+len(vals)] = vals  (in place)  /  buf = buf.at[lo:hi].set(vals)  (jax): the same array value *)
Definition set_range (buf : row) (lo : nat) (vals : row) : row :=
  firstn lo buf ++ vals ++ skipn (lo + length vals) buf.
Definition apply_updates (buf : row) (us : list (nat * row)) : row := fold_left (fun b u => set_range b (fst u) (snd u)) us buf.
(* the two vector-field conventions: (value of the caller's dy argument after the call, returned array) *)
Definition inplace_call (dy : row) (us : list (nat * row)) : row * row := let r := apply_updates dy us in (r, r).
Definition functional_call (dy : row) (us : list (nat * row)) : row * row := (dy, apply_updates dy us).
(* consecutive slices starting at position `at_` *)
Fixpoint consecutive (at_ : nat) (us : list (nat * row)) : Prop :=
  match us with [] => True | (lo, vals) :: us' => lo = at_ /\ consecutive (at_ + length vals) us' end.
Definition total_len (us : list (nat * row)) : nat := fold_right (fun u n => length (snd u) + n)%nat 0%nat us.

(* the ring buffer of a discrete delay:  buf[:] = roll(buf, 1); buf[0] = x;  delayed = buf[d] *)
Definition ring_push (buf : row) (x : Qc) : row := set_nth (roll buf 1) 0 x.
Definition ring_step (d : nat) (buf : row) (x : Qc) : row * Qc := let b := ring_push buf x in (b, nth d b 0).
(* in place: the buffer argument is mutated, the next call sees the pushed buffer *)
Fixpoint ring_run_inplace (d : nat) (buf : row) (xs : list Qc) : list Qc :=
  match xs with [] => [] | x :: xs' => let '(b, o) := ring_step d buf x in o :: ring_run_inplace d b xs' end.
(* functional update on an immutable argument (what a jax translation would do): every call starts from the same buffer *)
Definition ring_run_unthreaded (d : nat) (buf : row) (xs : list Qc) : list Qc := map (fun x => snd (ring_step d buf x)) xs.
(* Spec: the value pushed d calls ago, the initial buffer before that *)
Definition ring_spec (d : nat) (buf : row) (xs : list Qc) : list Qc :=
  map (fun k => if (d <=? k)%nat then nth (k - d) xs 0 else nth (d - k - 1) buf 0) (seq 0 (length xs)).

(* population systems of the correspondence run: units x' = eta - a*x + s_in, connections with optional coupling template *)
Record conn := { csrc : nat; ctgt : nat; cW : list row; ckind : nat }.
Record popsys := { psizes : list nat; petas : list row; pavals : list row; pconns : list conn }.
Fixpoint split_by (sizes : list nat) (y : row) : list row :=
  match sizes with [] => [] | n :: s' => firstn n y :: split_by s' (skipn n y) end.
Definition cfun (k : nat) : Qc -> Qc -> Qc :=
  match k with 1%nat => fun s t => s - t | 2%nat => fun s t => s * t + s | _ => fun s _ => s end.
Definition conn_input (cin : (Qc -> Qc -> Qc) -> list row -> row -> row -> row) (c : conn) (xs : list row) : row :=
  let pre := nth (csrc c) xs [] in let post := nth (ctgt c) xs [] in
  match ckind c with O => matvec (cW c) pre | k => cin (cfun k) (cW c) pre post end.
Definition pop_rhs_with cin (s : popsys) : rhs := fun _ y =>
  let xs := split_by (psizes s) y in
  concat (map (fun t =>
            let own := vadd (nth t (petas s) []) (map (fun p => - (fst p) * snd p) (combine (nth t (pavals s) []) (nth t xs []))) in
            fold_left vadd (map (fun c => conn_input cin c xs) (filter (fun c => (ctgt c =? t)%nat) (pconns s))) own)
          (seq 0 (length (psizes s)))).
Definition pop_rhs := pop_rhs_with coupling_input.            (* as generated: wsum over broadcast operands *)
Definition pop_rhs_spec := pop_rhs_with coupling_spec.        (* as the user reads it *)
Definition pop_run_impl (b : backend) (s : popsys) (dt : Qc) (steps ss : nat) (y0 : row) : list row :=
  match b with
  | BJax => jax_solve (euler_upd (pop_rhs s) dt) (cdiv steps ss) ss 0%Z y0
  | _ => base_solve (euler_upd (pop_rhs s) dt) steps ss 0%Z y0
  end.
Definition pop_run_spec (s : popsys) (dt : Qc) (steps ss : nat) (y0 : row) : list row :=
  spec_rows (euler_upd (pop_rhs_spec s) dt) ss (cdiv steps ss) 0%Z y0.
Definition pop_wf (s : popsys) : bool :=
  forallb (fun c => (length (cW c) =? nth (ctgt c) (psizes s) 0)%nat) (pconns s).
(* ================================================================================================ sigmoid *)
(* base_funcs / Fortran helper text / the numpy stand-ins of torch and jax:  1/(1 + exp(-x));
   torch.sigmoid and jax.nn.sigmoid are the logistic function exp(x)/(1 + exp(x)).  E stands for exp. *)
Definition sigmoid_base (E : Qc -> Qc) (x : Qc) : Qc := 1 / (1 + E (- x)).
Definition sigmoid_logistic (E : Qc -> Qc) (x : Qc) : Qc := E x / (1 + E x).
Definition sigmoid_fortran_vec (E : Qc -> Qc) (xs : row) : row := map (fun x => 1 / (1 + E (- x))) xs.   (* do n=1,s: f(n) = 1/(1+exp(-x(n))) *)

(* ================================================================================================ user-level roll equations *)
(* x' = -a*x + k*roll(x, n1) + g*roll(z, n2),  z' = x - a*roll(z, n3)  on vector variables of one node (vectorize=False);
   rl is the backend's rendering of roll: numpy/torch/jax `roll`, Fortran `cshift` with the negated shift *)
Definition vmul (c : Qc) (a : row) : row := vscale c a.
Definition roll_net_deriv (rl : row -> Z -> row) (a k g : Qc) (n1 n2 n3 : Z) (x z : row) : row * row :=
  (vadd (vadd (vmul (- a) x) (vmul k (rl x n1))) (vmul g (rl z n2)), vadd x (vmul (- a) (rl z n3))).
Definition roll_of (b : backend) : row -> Z -> row := match b with BFortran => fortran_roll | _ => roll end.

(* ================================================================================================ named constants *)
(* `pi` in an equation: numpy.pi / torch.pi / jax.numpy.pi are the float64 nearest to pi.  The Fortran module declares
   `double precision :: PI = 4.0d0*atan(1.0d0)` since fix D108 (commit 8594124).  Before, `4.0*atan(1.0)` was a single-precision
   expression, i.e. float32(pi) widened (pi_f32 below; switch value false models that tree). *)
Definition fixed_fortran_pi : bool := true.
Definition pi_f64 : Qc := Q2Qc (884279719003555 # 281474976710656).
Definition pi_f32 : Qc := Q2Qc (13176795 # 4194304).
(* the switch as an explicit argument, so that the before-fix statement is about a real value (not a false hypothesis) *)
Definition backend_pi_gen (fixed : bool) (b : backend) : Qc :=
  match b with BFortran => if fixed then pi_f64 else pi_f32 | _ => pi_f64 end.
Definition backend_pi (b : backend) : Qc := backend_pi_gen fixed_fortran_pi b.
(* `E`: numpy.e / torch.e / jax.numpy.e, and `double precision :: E = exp(1.0d0)` in the Fortran module since fix D111 (before, an equation with E did not compile there) *)
Definition e_f64 : Qc := Q2Qc (6121026514868073 # 2251799813685248).
Definition is_fortran (b : backend) : bool := match b with BFortran => true | _ => false end.
(* guard of the finding: the model uses pi and the backend is Fortran *)
Definition fortran_pi_free (b : backend) (uses_pi : bool) : bool := fixed_fortran_pi || negb (uses_pi && is_fortran b).

(* ================================================================================================ step-count cadence *)
(* steps = int(np.round(T/dt)), store_steps = int(np.round(T/dts)), store_step = int(np.round(dts/dt)) in every fixed-step loop
   (base, torch, jax).  np.round is round-half-to-even; the code applies it to the FLOAT quotient, the model to the exact rational. *)
Definition round_half_even (q : Qc) : Z :=
  let f := Qfloor (this q) in
  let r := (q - Q2Qc (inject_Z f))%Qc in
  if Qcltb r half then f else if Qcltb half r then (f + 1)%Z else if Z.even f then f else (f + 1)%Z.
Definition cadence (T dt dts : Qc) : nat * nat * nat :=
  (Z.to_nat (round_half_even (T / dt)%Qc), Z.to_nat (round_half_even (T / dts)%Qc), Z.to_nat (round_half_even (dts / dt)%Qc)).
