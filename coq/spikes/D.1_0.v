From Coq Require Import List ZArith Lia Bool Arith.
Import ListNotations.
Open Scope Z_scope.

(* an edge after grouping: target unit, source unit, weight *)
Definition edge := (nat * nat * Z)%type.

Definition upd2 (W : nat -> nat -> Z) (r c : nat) (v : Z) : nat -> nat -> Z :=
  fun r' c' => if (Nat.eqb r r' && Nat.eqb c c')%bool then v else W r' c'.

(* as coded: weight_mat[row, col] = w   (overwrite) *)
Definition build_set (es : list edge) : nat -> nat -> Z :=
  fold_left (fun W e => let '(t, s, w) := e in upd2 W t s w) es (fun _ _ => 0).
(* repaired: weight_mat[row, col] += w *)
Definition build_add (es : list edge) : nat -> nat -> Z :=
  fold_left (fun W e => let '(t, s, w) := e in upd2 W t s (W t s + w)) es (fun _ _ => 0).

Fixpoint sumf (f : nat -> Z) (l : list nat) : Z :=
  match l with [] => 0 | x :: l' => f x + sumf f l' end.

Definition matvec_row (W : nat -> nat -> Z) (cols : list nat) (x : nat -> Z) (r : nat) : Z :=
  sumf (fun c => W r c * x c) cols.

(* Spec: what the user wrote *)
Fixpoint edge_sum (es : list edge) (x : nat -> Z) (u : nat) : Z :=
  match es with
  | [] => 0
  | (t, s, w) :: es' => (if Nat.eqb t u then w * x s else 0) + edge_sum es' x u
  end.

Lemma build_add_entry : forall es W0 r c,
  fold_left (fun W e => let '(t, s, w) := e in upd2 W t s (W t s + w)) es W0 r c
  = W0 r c + edge_sum es (fun s => if Nat.eqb s c then 1 else 0) r.
Proof.
  induction es as [|[[t s] w] es IH]; intros W0 r c; cbn [fold_left edge_sum].
  - lia.
  - rewrite IH. unfold upd2.
    destruct (Nat.eqb_spec t r) as [->|Hn]; cbn [andb].
    + destruct (Nat.eqb_spec s c) as [->|Hc]; cbn [andb]; lia.
    + lia.
Qed.

Lemma sumf_indicator : forall cols (g : nat -> Z) s, NoDup cols -> In s cols ->
  sumf (fun c => (if Nat.eqb s c then 1 else 0) * g c) cols = g s.
Proof.
  induction cols as [|a cols IH]; intros g s Hnd Hin; [inversion Hin|].
  inversion Hnd as [|? ? Hna Hnd']; subst. cbn [sumf].
  destruct Hin as [->|Hin].
  - rewrite Nat.eqb_refl.
    assert (sumf (fun c => (if Nat.eqb s c then 1 else 0) * g c) cols = 0) as ->.
    { clear IH Hnd Hnd'. induction cols as [|b cols IH2]; cbn [sumf]; [reflexivity|].
      destruct (Nat.eqb_spec s b) as [->|Hb]; [exfalso; apply Hna; left; reflexivity|].
      rewrite IH2; [lia|]. intro H; apply Hna; right; exact H. }
    lia.
  - destruct (Nat.eqb_spec s a) as [->|Hsa]; [contradiction|].
    rewrite IH by assumption. lia.
Qed.

Lemma sumf_add f g l : sumf (fun c => f c + g c) l = sumf f l + sumf g l.
Proof. induction l; cbn [sumf]; lia. Qed.
Lemma sumf_scal k f l : sumf (fun c => k * f c) l = k * sumf f l.
Proof. induction l; cbn [sumf]; lia. Qed.
Lemma sumf_ext f g l : (forall c, In c l -> f c = g c) -> sumf f l = sumf g l.
Proof. induction l; cbn [sumf]; intros H; [reflexivity|]. rewrite H, IHl; auto with datatypes. Qed.
Lemma sumf_zero l : sumf (fun _ => 0) l = 0.
Proof. induction l; cbn [sumf]; lia. Qed.

(* main: repaired matrix path = edge sum, for any number of edges, parallel edges included *)
Theorem matvec_add_is_edge_sum : forall es cols x u,
  NoDup cols -> (forall t s w, In (t, s, w) es -> In s cols) ->
  matvec_row (build_add es) cols x u = edge_sum es x u.
Proof.
  intros es cols x u Hnd Hcov. unfold matvec_row, build_add.
  rewrite (sumf_ext _ (fun c => edge_sum es (fun s => if Nat.eqb s c then 1 else 0) u * x c)).
  2:{ intros c _. rewrite build_add_entry. lia. }
  induction es as [|[[t s] w] es IH]; cbn [edge_sum].
  - rewrite (sumf_ext _ (fun _ => 0)) by (intros; lia). apply sumf_zero.
  - rewrite (sumf_ext _ (fun c => (if Nat.eqb t u then w * (if Nat.eqb s c then 1 else 0) else 0) * x c
                                + edge_sum es (fun s0 => if Nat.eqb s0 c then 1 else 0) u * x c)) by (intros; lia).
    rewrite sumf_add. rewrite IH by (intros; eapply Hcov; right; eauto). f_equal.
    destruct (Nat.eqb_spec t u) as [->|Hn].
    + rewrite (sumf_ext _ (fun c => (if Nat.eqb s c then 1 else 0) * (w * x c))) by (intros; destruct (Nat.eqb s c); lia).
      apply sumf_indicator; [assumption|]. eapply Hcov; left; reflexivity.
    + rewrite (sumf_ext _ (fun _ => 0)) by (intros; lia). apply sumf_zero.
Qed.

(* as coded: refuted by two parallel edges *)
Example matvec_set_refuted : exists es cols x u,
  NoDup cols /\ matvec_row (build_set es) cols x u <> edge_sum es x u.
Proof.
  exists [(0%nat,0%nat,2); (0%nat,0%nat,3)], [0%nat], (fun _ => 1), 0%nat. split.
  - repeat constructor; intros [].
  - vm_compute. discriminate.
Qed.
Print Assumptions matvec_add_is_edge_sum.
