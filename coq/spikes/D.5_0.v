From Coq Require Import List ZArith QArith Qcanon Lia Bool Arith.
Require Import History.
Import ListNotations.
Open Scope Qc_scope.

(* strictly increasing times *)
Fixpoint incr (l : list Qc) : Prop :=
  match l with
  | [] => True
  | x :: l' => match l' with [] => True | y :: _ => x < y end /\ incr l'
  end.

Lemma Qcleb_true a b : Qcleb a b = true <-> a <= b.
Proof. unfold Qcleb, Qcle. apply Qle_bool_iff. Qed.
Lemma Qcleb_false a b : Qcleb a b = false <-> b < a.
Proof.
  split; intro H.
  - destruct (Qclt_le_dec b a) as [Hlt|Hle]; [exact Hlt|]. apply Qcleb_true in Hle. congruence.
  - destruct (Qcleb a b) eqn:E; [|reflexivity]. apply Qcleb_true in E. exfalso. eapply Qclt_not_le; eauto.
Qed.

Lemma incr_head_lt x l y : incr (x :: l) -> In y l -> x < y.
Proof.
  revert x; induction l as [|z l IH]; intros x H Hin; [inversion Hin|].
  cbn [incr] in H. destruct H as [Hxz Hrest]. destruct Hin as [->|Hin]; [exact Hxz|].
  eapply Qclt_trans; [exact Hxz|]. apply IH; assumption.
Qed.

(* bisect_right on an increasing list: position i with ts[i] <= t < ts[i+1] *)
Lemma bisect_spec : forall l i t, incr l -> (S i < length l)%nat ->
  nth i l 0 <= t -> t < nth (S i) l 0 -> bisect_right l t = S i.
Proof.
  induction l as [|x l IH]; intros i t Hinc Hlen Hlo Hhi; [cbn in Hlen; lia|].
  cbn [bisect_right].
  destruct i as [|i].
  - cbn [nth] in Hlo, Hhi. apply Qcleb_true in Hlo. rewrite Hlo. f_equal.
    destruct l as [|y l]; [cbn in Hlen; lia|]. cbn [nth] in Hhi. cbn [bisect_right].
    apply Qcleb_false in Hhi. now rewrite Hhi.
  - cbn [nth] in Hlo, Hhi. cbn [length] in Hlen.
    assert (Hx : x <= t).
    { apply Qclt_le_weak. eapply Qclt_le_trans; [|exact Hlo].
      eapply incr_head_lt; [exact Hinc|]. apply nth_In. lia. }
    apply Qcleb_true in Hx. rewrite Hx. f_equal.
    apply IH; try assumption; [|lia]. cbn [incr] in Hinc. tauto.
Qed.

Lemma incr_tail x l : incr (x :: l) -> incr l.
Proof. cbn [incr]. tauto. Qed.

Lemma incr_nth_lt : forall l i j, incr l -> (i < j)%nat -> (j < length l)%nat -> nth i l 0 < nth j l 0.
Proof.
  induction l as [|x l IH]; intros i j Hinc Hij Hj; [cbn in Hj; lia|].
  destruct j as [|j]; [lia|]. cbn [length] in Hj. destruct i as [|i].
  - cbn [nth]. eapply incr_head_lt; [exact Hinc|]. apply nth_In. lia.
  - cbn [nth]. apply IH; [eapply incr_tail; eauto | lia | lia].
Qed.

Lemma last_is_nth {A} : forall (l : list A) d, last l d = nth (length l - 1) l d.
Proof.
  induction l as [|x [|y l] IH]; intros d; try reflexivity.
  change (last (x :: y :: l) d) with (last (y :: l) d). rewrite IH.
  cbn [length]. replace (S (S (length l)) - 1)%nat with (S (S (length l) - 1)) by lia. reflexivity.
Qed.

Lemma nth_firstn_lt' {A} : forall (l : list A) k i d, (i < k)%nat -> nth i (firstn k l) d = nth i l d.
Proof.
  induction l as [|x l IH]; intros k i d H; [now rewrite firstn_nil|].
  destruct k as [|k]; [lia|]. destruct i as [|i]; [reflexivity|]. cbn [firstn nth]. apply IH. lia.
Qed.

(* the interpolation case of the property: strictly between two neighbouring records *)
Theorem query_between h i t : Inv h -> incr (ts h) -> (S i < n h)%nat ->
  nth i (ts h) 0 <= t -> t < nth (S i) (ts h) 0 -> hd 0 (ts h) < t ->
  query h t = let ta := nth i (ts h) 0 in let tb := nth (S i) (ts h) 0 in
              let ya := nth i (recorded h) [] in let yb := nth (S i) (recorded h) [] in
              vadd ya (vscale ((t - ta) / (tb - ta)) (vsub yb ya)).
Proof.
  intros (Hlen & Hcap & H1) Hinc Hi Hlo Hhi Hfirst. unfold query.
  apply Qcleb_false in Hfirst. rewrite Hfirst.
  assert (Hlast : Qcleb (last (ts h) 0) t = false).
  { apply Qcleb_false. rewrite last_is_nth, Hlen.
    destruct (Nat.eq_dec (S i) (n h - 1)) as [E|E]; [now rewrite <- E|].
    eapply Qclt_trans; [exact Hhi|]. apply incr_nth_lt; [assumption|lia|lia]. }
  rewrite Hlast.
  rewrite (bisect_spec (ts h) i t) by (try assumption; lia).
  replace (S i - 1)%nat with i by lia. cbn zeta.
  unfold recorded. rewrite !nth_firstn_lt' by lia. reflexivity.
Qed.

(* exactly y_i at t = t_i (0 < i < n-1): alpha = 0 *)
Theorem query_at_record h i : Inv h -> incr (ts h) -> (0 < i)%nat -> (S i < n h)%nat ->
  (forall a b : row, length a = length b -> vadd a (vscale 0 (vsub b a)) = a) ->
  length (nth i (recorded h) []) = length (nth (S i) (recorded h) []) ->
  query h (nth i (ts h) 0) = nth i (recorded h) [].
Proof.
  intros HI Hinc H0 Hi Hzero Hshape.
  rewrite (query_between h i) ; try assumption.
  - cbn zeta. replace (nth i (ts h) 0 - nth i (ts h) 0) with 0 by ring.
    unfold Qcdiv. rewrite Qcmult_0_l. apply Hzero. exact Hshape.
  - apply Qcle_refl.
  - destruct HI as (Hlen & _). apply incr_nth_lt; [assumption|lia|lia].
  - destruct HI as (Hlen & _ & H1). destruct (ts h) as [|x l] eqn:E; [cbn in Hlen; lia|]. cbn [hd].
    rewrite <- E in *. replace x with (nth 0 (ts h) 0) by now rewrite E.
    apply incr_nth_lt; [assumption|lia|lia].
Qed.
Print Assumptions query_between.
