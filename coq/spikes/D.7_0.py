"""Spike: fail-closed Python-ast -> Gallina for a tiny imperative subset (ints, lists, for-enumerate, if, aug-assign, append)."""
import ast, sys, textwrap, inspect
class Unsupported(Exception): pass
def expr(e, env):
    if isinstance(e, ast.Constant) and isinstance(e.value, int): return f"({e.value})%Z"
    if isinstance(e, ast.Name): return env.get(e.id, e.id)
    if isinstance(e, ast.BinOp):
        op = {ast.Add:'+', ast.Sub:'-', ast.Mult:'*'}.get(type(e.op))
        if not op: raise Unsupported(ast.dump(e.op))
        return f"({expr(e.left,env)} {op} {expr(e.right,env)})%Z"
    if isinstance(e, ast.Subscript) and isinstance(e.slice, ast.Constant):   # tuple field blocked[0]
        return f"(nthZ {expr(e.value,env)} {e.slice.value})"
    if isinstance(e, ast.Compare):
        # chained a <= b <= c
        parts=[]; left=e.left
        for op,right in zip(e.ops, e.comparators):
            sym = {ast.LtE:'<=?', ast.Lt:'<?', ast.Eq:'=?'}.get(type(op))
            if not sym: raise Unsupported(ast.dump(op))
            parts.append(f"({expr(left,env)} {sym} {expr(right,env)})%Z"); left=right
        return "(" + " && ".join(parts) + ")"
    raise Unsupported(ast.dump(e))
def block(stmts, state, env):
    """returns Gallina expr computing the new state tuple after stmts; state = ordered list of mutable locals"""
    if not stmts: return tup(state, env)
    s, rest = stmts[0], stmts[1:]
    if isinstance(s, ast.Assign) and len(s.targets)==1 and isinstance(s.targets[0], ast.Name):
        v = s.targets[0].id
        if v not in state: raise Unsupported('assign to non-state '+v)
        return f"let {v} := {expr(s.value, env)} in\n{block(rest, state, env)}"
    if isinstance(s, ast.AugAssign) and isinstance(s.target, ast.Name):
        v = s.target.id; op = {ast.Add:'+', ast.Sub:'-'}[type(s.op)]
        return f"let {v} := ({v} {op} {expr(s.value, env)})%Z in\n{block(rest, state, env)}"
    if isinstance(s, ast.If) and not s.orelse:
        inner = block(s.body, state, env)
        return f"let '{tup(state,env)} := (if {expr(s.test, env)} then\n{inner}\n else {tup(state,env)}) in\n{block(rest, state, env)}"
    if isinstance(s, ast.Expr) and isinstance(s.value, ast.Call) and isinstance(s.value.func, ast.Attribute) and s.value.func.attr=='append':
        lst = s.value.func.value.id
        return f"let {lst} := ({lst} ++ [{expr(s.value.args[0], env)}]) in\n{block(rest, state, env)}"
    raise Unsupported(ast.dump(s))
def tup(state, env): return "(" + ", ".join(state) + ")"
def translate(src, name):
    fn = ast.parse(textwrap.dedent(src)).body[0]
    args = [a.arg for a in fn.args.args if a.arg != 'self']
    body = fn.body
    if isinstance(body[0], ast.Expr) and isinstance(body[0].value, ast.Constant): body = body[1:]   # docstring
    # pattern: inits; for i,_ in enumerate(arg): ...; return out
    inits = []; i = 0
    while isinstance(body[i], ast.Assign):
        t = body[i].targets[0].id; v = body[i].value
        if isinstance(v, ast.List) and not v.elts: inits.append((t, '[]'))
        else: inits.append((t, expr(v, {})))
        i += 1
    loop = body[i]; ret = body[i+1]
    if not (isinstance(loop, ast.For) and isinstance(loop.iter, ast.Call) and loop.iter.func.id=='enumerate'): raise Unsupported('loop shape')
    idx, elt = [e.id for e in loop.target.elts]; seq = loop.iter.args[0].id
    locals_in_loop = sorted({n.id for st in loop.body for n in ast.walk(st) if isinstance(n, ast.Name) and isinstance(n.ctx, ast.Store)} - {t for t,_ in inits})
    state = [t for t,_ in inits]
    # loop-local temporaries become let-bound but must be part of if-state: include them in state with dummy init
    full = state + locals_in_loop
    step = block(loop.body, full, {})
    out = []
    out.append("Section Gen.\n" + "\n".join(f"Variable {a} : list Z." for a in args))
    out.append(f"Definition {name}_step (st : {' * '.join(['Z' if t!='out' else 'list Z' for t in full]) }) ({idx} : Z) : _ :=\n  let '{tup(full,{})} := st in\n{step}.")
    init_tuple = "(" + ", ".join([v for _,v in inits] + ['0%Z']*len(locals_in_loop)) + ")"
    retv = ret.value.id
    proj = f"let '{tup(full,{})} := r in {retv}"
    out.append(f"Definition {name} : list Z :=\n  let r := fold_left {name}_step (map Z.of_nat (seq 0 (length {seq}))) {init_tuple} in {proj}.\nEnd Gen.")
    return "\n".join(out)
if __name__ == '__main__':
    sys.path.insert(0, sys.argv[1])
    from pyrates.backend.fortran.fortran_backend import FortranBackend
    src = inspect.getsource(FortranBackend._auto_param_indices)
    print("From Coq Require Import ZArith List Bool. Import ListNotations. Open Scope Z_scope.\nDefinition nthZ (l : list Z) (i : nat) := nth i l 0.\n")
    print(translate(src, 'auto_param_indices'))
