From Coq Require Import List ZArith QArith Qcanon Lia Arith Field.
Import ListNotations.
Open Scope Qc_scope.

(* chain z_k' = a (z_{k-1} - z_k), k = 1..n, z_0 = u *)
Definition chain_rhs (a : Qc) (u : Qc) (z : list Qc) : list Qc :=
  map (fun p => a * (fst p - snd p)) (combine (u :: z) z).

Definition of_nat (k : nat) : Qc := Q2Qc (inject_Z (Z.of_nat k)).

(* unit steady-state gain: all stages equal to the constant input is an equilibrium, and the only one when a <> 0 *)
Lemma equilibrium_is_u a u : forall z, a <> 0 -> Forall (fun d => d = 0) (chain_rhs a u z) -> Forall (fun x => x = u) z.
Proof.
  intros z Ha. revert u. induction z as [|x z IH]; intros u H; [constructor|].
  unfold chain_rhs in H. cbn [combine map fst snd] in H. inversion H as [|? ? Hx Hrest]; subst.
  assert (x = u).
  { destruct (Qcmult_integral _ _ Hx) as [Ha0|Hd]; [contradiction|].
    apply (f_equal (fun q => q + x)) in Hd. ring_simplify in Hd. symmetry. exact Hd. }
  subst x. constructor; [reflexivity|]. apply IH. exact Hrest.
Qed.

(* mean delay: with the ramp input u(t) = t, z_k(t) = t - k/a solves the chain: derivative 1 = a (z_{k-1} - z_k) *)
Theorem ramp_lag a t (k : Qc) : a <> 0 ->
  a * ((t - k / a) - (t - (k + 1) / a)) = 1.
Proof. intros Ha. field. exact Ha. Qed.
(* hence the n-th stage lags the ramp by n/a; with a = n/d that is exactly d *)
Theorem lag_is_d (n : nat) d : d <> 0 -> of_nat n <> 0 -> of_nat n / (of_nat n / d) = d.
Proof. intros Hd Hn. field. split; assumption. Qed.
Print Assumptions ramp_lag.
