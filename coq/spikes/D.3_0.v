From Coq Require Import List Arith Lia.
Import ListNotations.

Section Solver.
  Variable Y : Type.                         (* state vector *)
  Variable C : Type.                         (* hidden state of the compiled function (ring buffers, ...) *)
  Variable step : C -> nat -> Y -> Y * C.    (* one integrator step: euler or heun around the stateful rhs *)

  (* for i in range(steps): if i % store_step == 0: rec.append(y); (y, c) = step c (i + t0) y *)
  Fixpoint loop (store_step t0 : nat) (i todo : nat) (y : Y) (c : C) (rec : list Y) : list Y * Y * C :=
    match todo with
    | O => (rec, y, c)
    | S todo' =>
        let rec' := if (i mod store_step =? 0) then rec ++ [y] else rec in
        let '(y', c') := step c (i + t0) y in
        loop store_step t0 (S i) todo' y' c' rec'
    end.

  (* the trajectory itself *)
  Fixpoint traj (t0 : nat) (i : nat) (y : Y) (c : C) (k : nat) : Y * C :=
    match k with
    | O => (y, c)
    | S k' => let '(y', c') := step c (i + t0) y in traj t0 (S i) y' c' k'
    end.

  Lemma traj_S t0 i y c k :
    traj t0 i y c (S k) = let '(y1, c1) := traj t0 i y c k in step c1 (i + k + t0) y1.
  Proof.
    revert i y c; induction k as [|k IH]; intros i y c.
    - cbn [traj]. replace (i + 0 + t0) with (i + t0) by lia. destruct (step c (i + t0) y); reflexivity.
    - cbn [traj] in *. destruct (step c (i + t0) y) as [y' c'].
      specialize (IH (S i) y' c'). cbn [traj] in IH. rewrite IH.
      replace (S i + k + t0) with (i + S k + t0) by lia. reflexivity.
  Qed.

  (* stored rows = states at the multiples of store_step, in order *)
  Definition stored (ss i todo : nat) : list nat := filter (fun j => j mod ss =? 0) (seq i todo).

  Theorem loop_rows ss t0 : ss <> 0 -> forall todo i y c rec,
    let '(rec', _, _) := loop ss t0 i todo y c rec in
    rec' = rec ++ map (fun j => fst (traj t0 i y c (j - i))) (stored ss i todo).
  Proof.
    intros Hss. induction todo as [|todo IH]; intros i y c rec.
    - cbn. now rewrite app_nil_r.
    - cbn [loop]. destruct (step c (i + t0) y) as [y' c'] eqn:Es.
      specialize (IH (S i) y' c' (if i mod ss =? 0 then rec ++ [y] else rec)).
      destruct (loop ss t0 (S i) todo y' c' _) as [[rec' yy] cc]. rewrite IH.
      unfold stored. cbn [seq filter].
      assert (Hmap : map (fun j => fst (traj t0 (S i) y' c' (j - S i))) (filter (fun j => j mod ss =? 0) (seq (S i) todo))
                   = map (fun j => fst (traj t0 i y c (j - i))) (filter (fun j => j mod ss =? 0) (seq (S i) todo))).
      { apply map_ext_in. intros j Hj. apply filter_In in Hj as [Hj _]. apply in_seq in Hj.
        replace (j - i) with (S (j - S i)) by lia. cbn [traj]. now rewrite Es. }
      rewrite Hmap. destruct (i mod ss =? 0).
      + cbn [map]. replace (i - i) with 0 by lia. cbn [traj fst]. now rewrite <- app_assoc.
      + reflexivity.
  Qed.

  (* when steps = rows * store_step there are exactly `rows` rows and row k is the state after k*store_step steps *)
  Lemma stored_multiples ss rows : ss <> 0 -> stored ss 0 (rows * ss) = map (fun k => k * ss) (seq 0 rows).
  Proof.
    intros Hss. induction rows as [|r IH].
    - reflexivity.
    - replace (S r * ss) with (r * ss + ss) by lia. unfold stored in *.
      rewrite seq_app, filter_app, IH, seq_S, map_app. f_equal. cbn [map plus].
      destruct ss as [|s]; [congruence|]. cbn [seq filter].
      rewrite Nat.mod_mul by lia. cbn [Nat.eqb].
      f_equal.
      assert (forall m a, (forall j, In j (seq a m) -> r * S s < j < r * S s + S s) ->
                          filter (fun j => j mod S s =? 0) (seq a m) = []) as Hnone.
      { induction m as [|m IHm]; intros a Ha; [reflexivity|]. cbn [seq filter].
        assert (Hin : r * S s < a < r * S s + S s) by (apply Ha; left; reflexivity).
        assert ((a mod S s =? 0) = false) as ->.
        { apply Nat.eqb_neq. replace a with ((a - r * S s) + r * S s) by lia.
          rewrite Nat.mod_add by lia. rewrite Nat.mod_small by lia. lia. }
        apply IHm. intros j Hj. apply Ha. right. exact Hj. }
      apply Hnone. intros j Hj. apply in_seq in Hj. lia.
  Qed.

  Theorem rows_spec ss t0 rows y0 c0 : ss <> 0 ->
    let '(rec, _, _) := loop ss t0 0 (rows * ss) y0 c0 [] in
    rec = map (fun k => fst (traj t0 0 y0 c0 (k * ss))) (seq 0 rows).
  Proof.
    intros Hss. pose proof (loop_rows ss t0 Hss (rows * ss) 0 y0 c0 []) as H.
    destruct (loop ss t0 0 (rows * ss) y0 c0 []) as [[rec yy] cc]. rewrite H. cbn [app].
    rewrite stored_multiples by assumption. rewrite map_map. apply map_ext. intros k. now rewrite Nat.sub_0_r.
  Qed.
End Solver.
Print Assumptions rows_spec.
