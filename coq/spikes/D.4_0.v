From Coq Require Import List ZArith QArith Qcanon Lia Bool Arith.
Import ListNotations.

(* K := Qc, Leibniz equality *)
Definition row := list Qc.
Definition vadd (a b : row) := map (fun p => (fst p + snd p)%Qc) (combine a b).
Definition vsub (a b : row) := map (fun p => (fst p - snd p)%Qc) (combine a b).
Definition vscale (c : Qc) (a : row) := map (fun x => (c * x)%Qc) a.

Definition Qcleb (a b : Qc) : bool := Qle_bool a b.

Record hist := { ts : list Qc; buf : list row; n : nat; growable : bool }.
(* capacity = length buf ; rows beyond n are arbitrary (np.empty) *)

Inductive res (A : Type) := Ok (a : A) | Err.
Arguments Ok {A}. Arguments Err {A}.

Definition set_nth {A} (l : list A) (i : nat) (x : A) : list A := firstn i l ++ x :: skipn (S i) l.

Definition grow (h : hist) (junk : list row) : hist :=
  (* new buffer of twice the capacity: first n rows copied, rest arbitrary *)
  {| ts := ts h; buf := firstn (n h) (buf h) ++ firstn (2 * length (buf h) - n h) (junk ++ repeat [] (2 * length (buf h))); n := n h; growable := growable h |}.

Definition update (h : hist) (junk : list row) (t : Qc) (y : row) : res hist :=
  let h' := if (length (buf h) <=? n h)%nat then (if growable h then Some (grow h junk) else None) else Some h in
  match h' with
  | None => Err
  | Some h1 => Ok {| ts := ts h1 ++ [t]; buf := set_nth (buf h1) (n h1) y; n := S (n h1); growable := growable h1 |}
  end.

Fixpoint bisect_right (l : list Qc) (t : Qc) : nat :=
  match l with
  | [] => O
  | x :: l' => if Qcleb x t then S (bisect_right l' t) else O
  end.
(* NB: on a sorted list this equals Python's bisect_right *)

Definition query (h : hist) (t : Qc) : row :=
  let t0 := hd 0%Qc (ts h) in
  let tl := last (ts h) 0%Qc in
  if Qcleb t t0 then nth 0 (buf h) []
  else if Qcleb tl t then nth (n h - 1) (buf h) []
  else
    let idx := (bisect_right (ts h) t - 1)%nat in
    let ta := nth idx (ts h) 0%Qc in
    let tb := nth (S idx) (ts h) 0%Qc in
    let alpha := ((t - ta) / (tb - ta))%Qc in
    let ya := nth idx (buf h) [] in
    let yb := nth (S idx) (buf h) [] in
    vadd ya (vscale alpha (vsub yb ya)).

(* ---------- abstract view and invariant ---------- *)
Definition recorded (h : hist) : list row := firstn (n h) (buf h).
Definition Inv (h : hist) : Prop := length (ts h) = n h /\ (n h <= length (buf h))%nat /\ (1 <= n h)%nat.

Lemma set_nth_length {A} (l : list A) i x : (i < length l)%nat -> length (set_nth l i x) = length l.
Proof.
  intros H. unfold set_nth. rewrite app_length. cbn [length]. rewrite firstn_length, skipn_length. lia.
Qed.

Lemma firstn_set_nth {A} (l : list A) i x : (i < length l)%nat -> firstn (S i) (set_nth l i x) = firstn i l ++ [x].
Proof.
  revert i; induction l as [|a l IH]; intros i H; cbn [length] in H; [lia|].
  destruct i as [|i].
  - reflexivity.
  - unfold set_nth in *. cbn [firstn skipn app]. f_equal. apply IH. lia.
Qed.

Lemma grow_inv h junk : Inv h -> Inv (grow h junk) /\ recorded (grow h junk) = recorded h /\ (n h < length (buf (grow h junk)) \/ length (buf h) = 0)%nat.
Proof.
  intros (Ht & Hn & H1). unfold grow, recorded, Inv; cbn [ts buf n].
  assert (Hl : length (firstn (n h) (buf h)) = n h) by (rewrite firstn_length; lia).
  assert (Hj : length (firstn (2 * length (buf h) - n h) (junk ++ repeat [] (2 * length (buf h)))) = (2 * length (buf h) - n h)%nat).
  { rewrite firstn_length, app_length, repeat_length. lia. }
  repeat split; try assumption.
  - rewrite app_length, Hl, Hj. lia.
  - rewrite firstn_app, Hl. replace (n h - n h)%nat with 0%nat by lia. cbn [firstn]. rewrite app_nil_r.
    rewrite firstn_firstn. f_equal. lia.
  - left. rewrite app_length, Hl, Hj. lia.
Qed.

Theorem update_inv h junk t y h' : Inv h -> update h junk t y = Ok h' ->
  Inv h' /\ recorded h' = recorded h ++ [y] /\ ts h' = ts h ++ [t].
Proof.
  intros HI. unfold update.
  destruct (length (buf h) <=? n h)%nat eqn:Ecap.
  - destruct (growable h); [|discriminate].
    destruct (grow_inv h junk HI) as ((Ht & Hn & H1) & Hrec & Hcap).
    assert (Hts : ts (grow h junk) = ts h) by reflexivity.
    assert (Hnn : n (grow h junk) = n h) by reflexivity.
    destruct HI as (Ht0 & Hn0 & H10).
    assert (Hlt : (n (grow h junk) < length (buf (grow h junk)))%nat).
    { destruct Hcap as [Hc|Hc]; [rewrite Hnn; exact Hc|]. apply Nat.leb_le in Ecap. lia. }
    remember (grow h junk) as h1. intros [= <-].
    unfold Inv, recorded; cbn [ts buf n]. repeat split.
    + rewrite app_length. cbn. lia.
    + rewrite set_nth_length; lia.
    + lia.
    + rewrite firstn_set_nth by exact Hlt. fold (recorded h1). now rewrite Hrec.
    + now rewrite Hts.
  - intros [= <-]. cbn [ts buf n growable]. apply Nat.leb_gt in Ecap.
    destruct HI as (Ht0 & Hn0 & H10). unfold Inv, recorded; cbn [ts buf n]. repeat split.
    + rewrite app_length. cbn. lia.
    + rewrite set_nth_length; lia.
    + lia.
    + now rewrite firstn_set_nth.
Qed.

(* bounded history refuses and leaves the state alone (no new state is produced) *)
Theorem bounded_refuses h junk t y : growable h = false -> (length (buf h) <= n h)%nat -> update h junk t y = Err.
Proof. intros Hg Hc. unfold update. apply Nat.leb_le in Hc. now rewrite Hc, Hg. Qed.

Print Assumptions update_inv.
