From Coq Require Import List ZArith Lia Arith.
Import ListNotations.
Open Scope Z_scope.

(* buf[:] = roll(buf, 1); buf[0] = x; out = buf[d]   with len buf = d+1 *)
Definition call (buf : list Z) (x : Z) : list Z := x :: removelast buf.
Definition read (d : nat) (buf : list Z) : Z := nth d buf 0.

(* inputs as a function of the call number *)
Fixpoint run (xs : nat -> Z) (c : nat) (buf0 : list Z) : list Z :=
  match c with O => buf0 | S c' => call (run xs c' buf0) (xs c') end.

Lemma removelast_length {A} (l : list A) : length (removelast l) = pred (length l).
Proof. induction l as [|a [|b l] IH]; cbn in *; auto. Qed.

Lemma nth_removelast (l : list Z) j : (S j < length l)%nat -> nth j (removelast l) 0 = nth j l 0.
Proof.
  revert j; induction l as [|a [|b l] IH]; intros j H; cbn in *; try lia.
  destruct j; [reflexivity|]. apply IH. cbn. lia.
Qed.

Lemma run_length xs c d : length (run xs c (repeat 0 (S d))) = S d.
Proof.
  induction c; cbn [run]; [apply repeat_length|].
  unfold call. cbn [length]. rewrite removelast_length, IHc. reflexivity.
Qed.

Lemma run_nth xs d : forall c j, (j <= d)%nat ->
  nth j (run xs c (repeat 0 (S d))) 0 = if (j <? c)%nat then xs (c - 1 - j)%nat else 0.
Proof.
  induction c as [|c IH]; intros j Hj.
  - cbn [run]. destruct (j <? 0)%nat eqn:E; [apply Nat.ltb_lt in E; lia|].
    apply nth_repeat.
  - cbn [run]. unfold call. destruct j as [|j].
    + cbn. replace (c - 0 - 0)%nat with c by lia. reflexivity.
    + cbn [nth]. rewrite nth_removelast by (rewrite run_length; lia).
      rewrite IH by lia.
      destruct (Nat.ltb_spec j c), (Nat.ltb_spec (S j) (S c)); try lia; try reflexivity.
      f_equal; lia.
Qed.

(* the value read at call number c (0-based) is the input of call c-d, zero before *)
Theorem ring_delay xs d c :
  read d (run xs (S c) (repeat 0 (S d))) = if (d <=? c)%nat then xs (c - d)%nat else 0.
Proof.
  unfold read. rewrite run_nth by lia.
  destruct (Nat.ltb_spec d (S c)), (Nat.leb_spec d c); try lia; try reflexivity.
  f_equal; lia.
Qed.
Print Assumptions ring_delay.
