From Coq Require Import ZArith List Bool Lia.
Require Import Gen_auto.
Import ListNotations.
Open Scope Z_scope.

(* hand model used by the property theorems *)
Definition slot (i : Z) : Z := if i <? 9 then i + 1 else i + 6.
Definition slots (n : nat) : list Z := map (fun k => slot (Z.of_nat k)) (seq 0 n).

(* invariant of the generated loop: before iteration k the increment is 1 (k <= 9) or 6 (k > 9) *)
Definition inc_at (k : Z) : Z := if k <=? 9 then 1 else 6.

Lemma step_spec k out idx0 :
  0 <= k ->
  auto_param_indices_step [10; 15] (inc_at k, out, idx0) k = (inc_at (k + 1), out ++ [slot k], slot k).
Proof.
  intros Hk. unfold auto_param_indices_step, inc_at, slot, nthZ. cbn [nth].
  destruct (k <=? 9) eqn:E9; destruct (k <? 9) eqn:E8; destruct (k + 1 <=? 9) eqn:E10;
    repeat match goal with
    | |- context [(?a <=? ?b) && (?c <=? ?d)] => destruct (a <=? b) eqn:?; destruct (c <=? d) eqn:?; cbn [andb]
    end; try reflexivity; try lia;
    repeat match goal with
    | H : (_ <=? _) = true |- _ => apply Z.leb_le in H
    | H : (_ <=? _) = false |- _ => apply Z.leb_gt in H
    | H : (_ <? _) = true |- _ => apply Z.ltb_lt in H
    | H : (_ <? _) = false |- _ => apply Z.ltb_ge in H
    end; try lia; repeat f_equal; lia.
Qed.

Lemma fold_spec : forall m k0 out idx0, exists idx',
  fold_left (auto_param_indices_step [10; 15]) (map Z.of_nat (seq k0 m)) (inc_at (Z.of_nat k0), out, idx0)
  = (inc_at (Z.of_nat (k0 + m)), out ++ map (fun k => slot (Z.of_nat k)) (seq k0 m), idx').
Proof.
  induction m as [|m IH]; intros k0 out idx0.
  - exists idx0. cbn. now rewrite app_nil_r, Nat.add_0_r.
  - cbn [seq map fold_left]. rewrite step_spec by lia.
    replace (Z.of_nat k0 + 1) with (Z.of_nat (S k0)) by lia.
    destruct (IH (S k0) (out ++ [slot (Z.of_nat k0)]) (slot (Z.of_nat k0))) as [idx' H]. exists idx'. rewrite H.
    rewrite <- app_assoc. cbn [app]. replace (S k0 + m)%nat with (k0 + S m)%nat by lia. reflexivity.
Qed.

(* the regenerated function equals the hand model, for every number of parameters *)
Theorem gen_equiv (args : list Z) : auto_param_indices args [10; 15] = slots (length args).
Proof.
  unfold auto_param_indices, slots.
  change (1, [], 0) with (inc_at (Z.of_nat 0), @nil Z, 0).
  destruct (fold_spec (length args) 0 [] 0) as [idx' H]. rewrite H. reflexivity.
Qed.

(* properties of the hand model *)
Theorem slots_avoid_reserved n : Forall (fun s => ~ (10 <= s <= 14)) (slots n).
Proof.
  unfold slots. apply Forall_forall. intros s Hs. apply in_map_iff in Hs as (k & <- & _).
  unfold slot. destruct (Z.of_nat k <? 9) eqn:E; [apply Z.ltb_lt in E|apply Z.ltb_ge in E]; lia.
Qed.
Theorem slot_increasing i j : 0 <= i < j -> slot i < slot j.
Proof.
  intros H. unfold slot. destruct (i <? 9) eqn:Ei, (j <? 9) eqn:Ej;
  repeat match goal with H : (_ <? _) = true |- _ => apply Z.ltb_lt in H | H : (_ <? _) = false |- _ => apply Z.ltb_ge in H end; lia.
Qed.
Print Assumptions gen_equiv.
