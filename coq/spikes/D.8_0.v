From Coq Require Import List Ascii Bool Arith Lia.
Import ListNotations.

Section Replace.
  Definition str := list ascii.
  Variable isd : ascii -> bool.                 (* membership in allowed_follow_ops *)
  Variables term rep : str.
  Hypothesis term_nonempty : term <> [].
  Hypothesis term_nodelim : forallb (fun c => negb (isd c)) term = true.
  Let n := length term.

  Fixpoint prefixb (p s : str) : bool :=
    match p, s with
    | [], _ => true
    | a :: p', b :: s' => Ascii.eqb a b && prefixb p' s'
    | _ :: _, [] => false
    end.

  Fixpoint find (s : str) : option nat :=
    if prefixb term s then Some 0 else
    match s with [] => None | _ :: s' => option_map S (find s') end.

  Definition follow_ok (rest : str) : bool := match rest with [] => true | c :: _ => isd c end.
  Definition pd_of (prev : option ascii) : bool := match prev with None => true | Some c => isd c end.

  (* ---- the repaired loop of parser.replace (no rhs_only / lhs_only), suffix-returning form ---- *)
  Fixpoint loop (fuel : nat) (prev : option ascii) (s : str) : option str :=
    match find s with
    | None => Some s
    | Some idx =>
      match fuel with
      | O => None
      | S f =>
        let follow := idx + n in
        let before := match idx with O => prev | S i => nth_error s i end in
        let ok := follow_ok (skipn follow s) && pd_of before in
        let out := if ok then firstn idx s ++ rep else firstn follow s in
        match loop f (nth_error s (follow - 1)) (skipn follow s) with
        | Some r => Some (out ++ r)
        | None => None
        end
      end
    end.

  (* ---- specification: one left-to-right scan; an occurrence is replaced iff it is a whole word ---- *)
  Fixpoint scan (pd : bool) (skip : nat) (s : str) : str :=
    match s with
    | [] => []
    | c :: s' =>
      match skip with
      | S k => scan (isd c) k s'
      | O => if pd && prefixb term s && follow_ok (skipn n s)
             then rep ++ scan (isd c) (n - 1) s'
             else c :: scan (isd c) 0 s'
      end
    end.

  (* ---------------- lemmas ---------------- *)
  Lemma prefixb_app p r : prefixb p (p ++ r) = true.
  Proof. induction p; cbn; [reflexivity|]. now rewrite Ascii.eqb_refl. Qed.

  Lemma prefixb_split p s : prefixb p s = true -> s = p ++ skipn (length p) s.
  Proof.
    revert s; induction p as [|a p IH]; intros s H; [reflexivity|].
    destruct s as [|b s]; [discriminate|]. cbn in H. apply andb_prop in H as [Hab Hp].
    apply Ascii.eqb_eq in Hab. subst b. cbn. f_equal. now apply IH.
  Qed.

  (* skipping k characters of a word w: no output, pd becomes isd of the last skipped char *)
  Lemma scan_skip : forall (w : str) pd r, w <> [] ->
    scan pd (length w) (w ++ r) = scan (isd (last w "000"%char)) 0 r.
  Proof.
    induction w as [|c w IH]; intros pd r Hne; [congruence|].
    destruct w as [|d w].
    - cbn. reflexivity.
    - cbn [length app scan]. change (scan (isd c) (length (d :: w)) ((d :: w) ++ r) = scan (isd (last (c :: d :: w) "000"%char)) 0 r).
      rewrite IH by discriminate. reflexivity.
  Qed.

  Lemma nodelim_last w d : w <> [] -> forallb (fun c => negb (isd c)) w = true -> isd (last w d) = false.
  Proof.
    induction w as [|c w IH]; intros Hne H; [congruence|]. cbn in H. apply andb_prop in H as [Hc Hw].
    destruct w as [|e w]; [cbn; now apply negb_true_iff in Hc|]. change (isd (last (e :: w) d) = false). apply IH; [discriminate|exact Hw].
  Qed.

  (* copying through a word without delimiters that is entered with pd = false: nothing can be replaced inside *)
  Lemma scan_copy_nodelim : forall (w : str) r, forallb (fun c => negb (isd c)) w = true ->
    scan false 0 (w ++ r) = w ++ scan (match w with [] => false | _ => false end) 0 r.
  Proof.
    induction w as [|c w IH]; intros r H; [reflexivity|].
    cbn in H. apply andb_prop in H as [Hc Hw]. apply negb_true_iff in Hc.
    cbn [app scan andb]. rewrite Hc. rewrite IH by exact Hw. destruct w; reflexivity.
  Qed.

  (* before the first occurrence nothing matches *)
  Lemma find_none_scan : forall s pd, find s = None -> scan pd 0 s = s.
  Proof.
    induction s as [|c s IH]; intros pd H; [reflexivity|].
    cbn [find] in H. destruct (prefixb term (c :: s)) eqn:Ep; [discriminate|].
    destruct (find s) eqn:Ef; [discriminate|]. cbn [scan]. rewrite Ep, andb_false_r. cbn [andb]. now rewrite IH.
  Qed.

  Definition pd_after (pd : bool) (pre : str) : bool := match pre with [] => pd | _ => isd (last pre "000"%char) end.

  Lemma scan_copy_nodelim' (w r : str) : forallb (fun c => negb (isd c)) w = true ->
    scan false 0 (w ++ r) = w ++ scan false 0 r.
  Proof. intros H. rewrite scan_copy_nodelim by exact H. destruct w; reflexivity. Qed.

  Lemma find_spec : forall s idx, find s = Some idx ->
    prefixb term (skipn idx s) = true /\ (forall j, j < idx -> prefixb term (skipn j s) = false).
  Proof.
    induction s as [|c s IH]; intros idx H; cbn [find] in H.
    - destruct (prefixb term []) eqn:E; [|discriminate]. injection H as <-. split; [exact E|intros; lia].
    - destruct (prefixb term (c :: s)) eqn:E.
      + injection H as <-. split; [exact E|intros; lia].
      + destruct (find s) as [i|] eqn:Ef; [|discriminate]. injection H as <-.
        destruct (IH i eq_refl) as [Hp Hn]. split; [exact Hp|].
        intros j Hj. destruct j as [|j]; [exact E|]. cbn [skipn]. apply Hn. lia.
  Qed.

  Lemma copy_prefix : forall pre r pd,
    (forall j, j < length pre -> prefixb term (skipn j (pre ++ r)) = false) ->
    scan pd 0 (pre ++ r) = pre ++ scan (pd_after pd pre) 0 r.
  Proof.
    induction pre as [|c pre IH]; intros r pd H; [reflexivity|].
    cbn [app scan]. pose proof (H 0 ltac:(cbn; lia)) as H0. cbn [skipn app] in H0. rewrite H0, andb_false_r. cbn [andb].
    rewrite IH.
    - f_equal. destruct pre as [|d pre]; reflexivity.
    - intros j Hj. apply (H (S j)). cbn [length]. lia.
  Qed.

  Lemma nth_error_last {A} : forall (l : list A) i d, S i <= length l -> nth_error l i = Some (last (firstn (S i) l) d).
  Proof.
    induction l as [|x l IH]; intros i d H; [cbn in H; lia|].
    destruct i as [|i]; [reflexivity|]. cbn [nth_error]. cbn [length] in H.
    rewrite (IH i d) by lia. cbn [firstn]. destruct l as [|y l]; [cbn in H; lia|]. reflexivity.
  Qed.

  Lemma prefixb_length p s : prefixb p s = true -> length p <= length s.
  Proof.
    revert s; induction p as [|a p IH]; intros s H; [cbn; lia|].
    destruct s as [|b s]; [discriminate|]. cbn in H. apply andb_prop in H as [_ H]. cbn. apply IH in H. lia.
  Qed.

  Lemma skipn_skipn' {A} : forall a b (l : list A), skipn a (skipn b l) = skipn (b + a) l.
  Proof. intros a b; revert a; induction b as [|b IH]; intros a l; [reflexivity|]. destruct l; [now rewrite !skipn_nil|]. cbn [skipn plus]. apply IH. Qed.

  Lemma last_app_cons {A} : forall (l : list A) x l' d, last (l ++ x :: l') d = last (x :: l') d.
  Proof.
    induction l as [|y l IH]; intros x l' d; [reflexivity|].
    cbn [app]. specialize (IH x l' d). destruct (l ++ x :: l') eqn:E; [destruct l; discriminate|].
    cbn [last]. exact IH.
  Qed.

  Lemma term_split : exists c tw, term = c :: tw.
  Proof. destruct term as [|c tw]; [congruence|eauto]. Qed.

  (* scanning over an occurrence: replaced iff word boundaries on both sides *)
  Lemma scan_occurrence pd rest :
    scan pd 0 (term ++ rest) =
      (if follow_ok rest && pd then rep else term) ++ scan (isd (last term "000"%char)) 0 rest.
  Proof.
    destruct term_split as (c & tw & Et).
    assert (Hn : n = S (length tw)) by (unfold n; rewrite Et; reflexivity).
    assert (Hskip : skipn n (term ++ rest) = rest).
    { unfold n. rewrite skipn_app, skipn_all, Nat.sub_diag. reflexivity. }
    assert (Hlast : isd (last term "000"%char) = false) by (apply nodelim_last; assumption).
    assert (Happ : term ++ rest = c :: (tw ++ rest)) by (rewrite Et; reflexivity).
    pose proof (prefixb_app term rest) as Hp.
    assert (Hnd : isd c = false /\ forallb (fun c => negb (isd c)) tw = true).
    { pose proof term_nodelim as H. rewrite Et in H. cbn [forallb] in H. apply andb_prop in H as [H1 H2].
      apply negb_true_iff in H1. tauto. }
    destruct Hnd as [Hcc Htw].
    rewrite Happ. cbn [scan]. rewrite <- Happ. rewrite Hp, Hskip, andb_true_r.
    rewrite (andb_comm pd (follow_ok rest)).
    destruct (follow_ok rest && pd) eqn:Eok.
    - rewrite Hn. cbn [Nat.sub]. rewrite Nat.sub_0_r. f_equal.
      destruct tw as [|d tw].
      + cbn [app length scan]. rewrite Et. reflexivity.
      + rewrite scan_skip by discriminate. rewrite Et. reflexivity.
    - rewrite Hcc, Hlast. rewrite Et at 1. cbn [app]. f_equal. apply scan_copy_nodelim'. exact Htw.
  Qed.

  Theorem loop_is_scan : forall fuel prev s, length s < fuel -> loop fuel prev s = Some (scan (pd_of prev) 0 s).
  Proof.
    induction fuel as [|f IH]; intros prev s Hlen; [lia|].
    cbn [loop]. destruct (find s) as [idx|] eqn:Ef.
    2:{ now rewrite find_none_scan. }
    destruct (find_spec s idx Ef) as [Hocc Hnone].
    pose proof (prefixb_split _ _ Hocc) as Hsplit. fold n in Hsplit. rewrite skipn_skipn' in Hsplit.
    pose proof (prefixb_length _ _ Hocc) as Hl. fold n in Hl. rewrite skipn_length in Hl.
    assert (Hidx : idx + n <= length s).
    { destruct term_split as (c & tw & Et). unfold n in *. rewrite Et in *. cbn [length] in *. lia. }
    set (pre := firstn idx s). set (rest := skipn (idx + n) s).
    assert (Hs : s = pre ++ term ++ rest).
    { unfold pre, rest. rewrite <- (firstn_skipn idx s) at 1. f_equal. exact Hsplit. }
    assert (Hprelen : length pre = idx) by (unfold pre; rewrite firstn_length; lia).
    (* the loop's `before` is the pd after copying the prefix *)
    assert (Hbefore : pd_of (match idx with O => prev | S i => nth_error s i end) = pd_after (pd_of prev) pre).
    { destruct idx as [|i]; [unfold pre; reflexivity|].
      rewrite (nth_error_last s i "000"%char) by lia. fold pre. unfold pd_after, pd_of.
      destruct pre; [cbn in Hprelen; lia|reflexivity]. }
    (* recursive call *)
    assert (Hprev' : pd_of (nth_error s (idx + n - 1)) = isd (last term "000"%char)).
    { destruct term_split as (c & tw & Et).
      assert (Hn : n = S (length tw)) by (unfold n; rewrite Et; reflexivity).
      replace (idx + n - 1) with (idx + length tw) by lia.
      rewrite (nth_error_last s (idx + length tw) "000"%char) by lia. cbn [pd_of]. f_equal.
      rewrite Hs at 1. replace (S (idx + length tw)) with (length pre + n) by lia.
      rewrite firstn_app, firstn_all2 by lia. replace (length pre + n - length pre) with n by lia.
      rewrite firstn_app. unfold n at 1 2. rewrite firstn_all, Nat.sub_diag. cbn [firstn]. rewrite app_nil_r.
      rewrite Et. apply last_app_cons. }
    rewrite IH by (unfold rest; rewrite skipn_length; destruct term_split as (c & tw & Et); unfold n in *; rewrite Et in *; cbn [length] in *; lia).
    f_equal. fold rest. rewrite Hprev'.
    (* the specification side *)
    replace (scan (pd_of prev) 0 s) with (scan (pd_of prev) 0 (pre ++ term ++ rest)) by (now rewrite <- Hs).
    rewrite copy_prefix.
    2:{ intros j Hj. rewrite <- Hs. apply Hnone. lia. }
    rewrite scan_occurrence. rewrite Hbefore.
    destruct (follow_ok rest && pd_after (pd_of prev) pre).
    - fold pre. now rewrite <- !app_assoc.
    - replace (firstn (idx + n) s) with (pre ++ term).
      + now rewrite <- !app_assoc.
      + rewrite Hs at 1. rewrite <- Hprelen. rewrite firstn_app, firstn_all2 by lia.
        replace (length pre + n - length pre) with n by lia. rewrite firstn_app. unfold n.
        rewrite firstn_all, Nat.sub_diag. cbn [firstn]. now rewrite app_nil_r.
  Qed.

End Replace.
Print Assumptions loop_is_scan.
