From Coq Require Import ZArith List Bool. Import ListNotations. Open Scope Z_scope.
Definition nthZ (l : list Z) (i : nat) := nth i l 0.

Section Gen.
Variable func_args : list Z.
Variable blocked : list Z.
Definition auto_param_indices_step (st : Z * list Z * Z) (i : Z) : _ :=
  let '(increment, out, idx) := st in
let idx := (i + increment)%Z in
let '(increment, out, idx) := (if (((nthZ blocked 0) <=? idx)%Z && (idx <=? (nthZ blocked 1))%Z) then
let idx := (idx - increment)%Z in
let increment := (increment + ((nthZ blocked 1) - (nthZ blocked 0))%Z)%Z in
let idx := (idx + increment)%Z in
(increment, out, idx)
 else (increment, out, idx)) in
let out := (out ++ [idx]) in
(increment, out, idx).
Definition auto_param_indices : list Z :=
  let r := fold_left auto_param_indices_step (map Z.of_nat (seq 0 (length func_args))) ((1)%Z, [], 0%Z) in let '(increment, out, idx) := r in out.
End Gen.
