#!/bin/bash
# Full .vo build of theories/ and gen/ (never -vos).  Property files are compiled by ./check itself so that
# their Print Assumptions output is captured on every run.
# usage: build.sh [-k]   (-k: keep going after a failing file so that the models still build when a proof breaks)
set -u
cd "$(dirname "$0")"
KEEP=""
[ "${1:-}" = "-k" ] && KEEP="-k"
{
  echo "-Q theories PV"
  echo "-Q gen PVG"
  ls theories/*.v 2>/dev/null
  ls gen/*.v 2>/dev/null
} > _CoqProject
coq_makefile -f _CoqProject -o Makefile.coq > /dev/null 2>&1 || exit 2
timeout 3000 make -f Makefile.coq -j"${VERIF_JOBS:-16}" $KEEP 2>&1
exit ${PIPESTATUS[0]}
