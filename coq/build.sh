#!/bin/bash
# Full .vo build (never -vos) of theories/ and gen/, or of the given targets (e.g. theories/History.vo) with their
# dependencies.  Property files are compiled by ./check itself so that their Print Assumptions output is captured.
# usage: build.sh [-k] [targets...]   (-k: keep going after a failing file so that models still build when a proof breaks)
set -u
cd "$(dirname "$0")"
KEEP=""
[ "${1:-}" = "-k" ] && { KEEP="-k"; shift; }
exec 9>/tmp/verif_coq_build.lock; flock 9
{
  echo "-Q theories PV"
  echo "-Q gen PVG"
  ls theories/*.v 2>/dev/null
  ls gen/*.v 2>/dev/null
} > _CoqProject.new
if ! cmp -s _CoqProject.new _CoqProject 2>/dev/null || [ ! -f Makefile.coq ]; then
  mv _CoqProject.new _CoqProject
  coq_makefile -f _CoqProject -o Makefile.coq > /dev/null 2>&1 || exit 2
else
  rm -f _CoqProject.new
fi
# per-file caps: a diverging proof script must fail (and be reported as a broken proof), not hold the build lock for an hour
ulimit -v 20000000 2>/dev/null
timeout 3000 make -f Makefile.coq COQC="timeout 900 coqc" -j"${VERIF_JOBS:-16}" $KEEP "$@" 2>&1
exit ${PIPESTATUS[0]}
