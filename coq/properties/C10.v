(* C10 — delayed terms read the true past of the trajectory.  Statements only; proofs are in DDEProofs.v. *)
From Coq Require Import List ZArith QArith Qcanon Bool Arith.
From PV Require Import History HistoryProofs DDE DDEProofs.
Import ListNotations.
Open Scope Qc_scope.

Theorem C10_partial : forall (hist : Qc -> list Qc) (pos : nat -> nat) (par : nat -> Qc) m md t y,
  past_terms_printable m = true -> dt_fmt_exact md = true ->
  impl_eval hist pos par m md t y = Some (spec_eval hist pos par m md t y).
Proof. exact dde_refines. Qed.
Print Assumptions C10_partial.
