(* C10 — delayed terms past(x,tau) / x(t-tau) / delayed edges read the true past of the trajectory.
   This file contains statements only; every proof is `exact <lemma of DDEProofs>` or a vm_compute witness. *)
From Coq Require Import List ZArith QArith Qcanon Bool Arith.
From PV Require Import History HistoryProofs DDE DDEProofs.
Import ListNotations.
Open Scope Qc_scope.

(* ------------------------------------------------------------------------------------------------------------
   The full statement, no guard: for EVERY history function, state layout, parameter values, model (any number of
   equations, terms and delayed factors), solver kind, time and state, the compiled function evaluates every delayed term as
   component pos(x) of hist(t - tau), t in time units (t for adaptive solvers, t*dt for fixed-step ones).
   HOW TO READ IT (independent review, DESIGN section 12): in this model "component pos(x)" is `nth (pos x)` on both sides and
   `t*dt` is definitional (emit_now sets dt_emit := dt since repair D39), so neither the index into hist(...) nor the t*dt
   conversion is PROVED here - both are tied to the code only by the correspondence run (seeded index / dt-factor bugs are
   caught there).  What the proof establishes is the allocation round trip: every past(x, d) is replaced by a history variable
   whose emitted line carries exactly the delay d of that occurrence, for any number of occurrences (C10_alloc_bijective,
   C10_past_occurrence).  The genuine refinement theorem of this file is C10_run_refines. *)
Theorem C10_full : forall (hist : Qc -> list Qc) (pos : nat -> nat) (par dpar : nat -> Qc) m md t y,
  impl_eval hist pos par dpar m md t y = spec_eval hist pos par dpar m md t y.
Proof. exact dde_full. Qed.
Print Assumptions C10_full.

(* Documentation of the behaviour before the repairs: it met the specification only inside two guards ... *)
Theorem C10_before_fix_partial : forall (hist : Qc -> list Qc) (pos : nat -> nat) (par dpar : nat -> Qc) m md t y,
  past_terms_printable m = true -> dt_fmt_exact md = true ->
  impl_eval_before_fix hist pos par dpar m md t y = Some (spec_eval_e hist pos par dpar m md t y).
Proof. exact before_fix_refines. Qed.
Print Assumptions C10_before_fix_partial.

(* ... D38:  z' = a + k0 - past(z, 1/2)  was not delivered.  NOTE: impl_eval_before_fix is `if guard then <current impl> else
   None`; this lemma therefore only shows None <> Some _ on a model outside the guard.  What the old code actually did there
   (TypeError, or silently reading a(t-k0)) is NOT modelled; it is documented by corpus/C10/F1_neg_past_*.json only. *)
Theorem C10_before_fix_refuted_printable : exists (hist : Qc -> list Qc) pos par dpar m md t y,
  impl_eval_before_fix hist pos par dpar m md t y <> Some (spec_eval_e hist pos par dpar m md t y).
Proof.
  exists (fun _ => [0; 0; 0]), (fun x => x), (fun _ => 0), (fun _ => 0),
         [[(-(1), [FPar 0; FVar 0])]; [(1, [FVar 0]); (1, [FPar 0]); (-(1), [FPast 1 (DLit (mkq 1 2))])]; [(1, [FVar 1])]],
         EAdaptive, 0, [0; 0; 0].
  vm_compute. intros H. discriminate H.
Qed.
Print Assumptions C10_before_fix_refuted_printable.

(* ... D39: a step size that did not survive '{dt:.10e}' (dt = 1/2 + 2^-40 was written as 5.0000000000e-01) *)
Theorem C10_before_fix_refuted_dt_format : exists (hist : Qc -> list Qc) pos par dpar m md t y,
  past_terms_printable m = true /\ impl_eval_before_fix hist pos par dpar m md t y <> Some (spec_eval_e hist pos par dpar m md t y).
Proof.
  exists (polyhist [[mkq 10 1; mkq 1 1]; [mkq 20 1; mkq 2 1]]), (fun x => x), (fun _ => 0), (fun _ => 0),
         [[(-(1), [FVar 0]); (1, [FPast 1 (DLit (mkq 1 4))])]; [(1, [FVar 0])]],
         (EFixed (mkq 549755813889 1099511627776) (mkq 1 2)), (mkq 8 1), [mkq 1 1; mkq 2 1].
  split; [vm_compute; reflexivity|]. intros H. apply orow_eqb_some in H. vm_compute in H. discriminate H.
Qed.
Print Assumptions C10_before_fix_refuted_dt_format.

(* every single occurrence: the history variable that replaces past(x, d) is bound to nth (pos x) (hist (t_time - d)) *)
Theorem C10_past_occurrence : forall (hist : Qc -> list Qc) pos (par dpar : nat -> Qc) m tb cm x d,
  compile m = (tb, cm) -> In (x, d) (past_keys m) ->
  exists k, slot tb x k = Some d /\
    forall (md : emode) t, hist_val hist pos dpar tb md t x k = nth (pos x) (hist (t_emit md t - dval dpar d)) 0.
Proof. exact past_occurrence. Qed.
Print Assumptions C10_past_occurrence.

(* one history variable per distinct (variable, delay); none spurious; different pairs never share a variable *)
Theorem C10_alloc_bijective : forall m tb cm, compile m = (tb, cm) ->
  (forall x d, In (x, d) (past_keys m) -> exists k, slot tb x k = Some d) /\
  (forall x k d, slot tb x k = Some d -> In (x, d) (past_keys m)) /\
  (forall x1 k1 d1 x2 k2 d2, slot tb x1 k1 = Some d1 -> slot tb x2 k2 = Some d2 ->
     ((x1, k1) = (x2, k2) <-> (x1, d1) = (x2, d2))).
Proof. exact alloc_bijective. Qed.
Print Assumptions C10_alloc_bijective.

(* ------------------------------------------------------------------------------------------------------------
   Vector-valued delayed variables (vectorize=True, n units): hist(t_time - d)[start x : start x + n].
   Unit u reads component start x + u of hist(t_time - tau_u). *)
Definition C10_vec_full_statement : Prop :=
  forall (hist : Qc -> list Qc) start (par dpar : nat -> nat -> Qc) n m md t y,
    vimpl_eval hist start par dpar n m md t y = vspec_eval hist start par dpar n m md t y.

(* partial: a delay PARAMETER must have the same value on all units (finding C10-F5: the code reads d[0] for every unit).
   NOTE: vimpl_eval and vspec_eval differ only in `dpar p 0` versus `dpar p u`, and the hypothesis equates exactly these: the
   statement is definitional up to dde_full; its content is that NOTHING ELSE distinguishes the vectorized code from the
   specification in this model. *)
Theorem C10_vec_partial : forall (hist : Qc -> list Qc) start (par dpar : nat -> nat -> Qc) n m md t y,
  (forall p u, (u < n)%nat -> dpar p u = dpar p 0%nat) ->
  vimpl_eval hist start par dpar n m md t y = vspec_eval hist start par dpar n m md t y.
Proof. exact vec_refines. Qed.
Print Assumptions C10_vec_partial.

(* the same under the decidable BOOLEAN guard delays_uniform that the correspondence run evaluates (delay-parameter tables as
   lists, rows covering all n units) *)
Theorem C10_vec_partial_bool : forall (hist : Qc -> list Qc) start (par : nat -> nat -> Qc) dps n m md t y,
  delays_uniform dps = true -> (forall r, In r dps -> (n <= length r)%nat) ->
  vimpl_eval hist start par (tab dps) n m md t y = vspec_eval hist start par (tab dps) n m md t y.
Proof. exact vec_refines_bool. Qed.
Print Assumptions C10_vec_partial_bool.

(* ---- NOT HEADLINE: the next two statements are about PROPOSED patches that are NOT applied to /repo
   (fixes/proposed_fix_C10_F5.diff, fixes/proposed_fix_C10_F5_perunit.diff).  They describe code that does not exist and
   only say what the model would prove if the corresponding one-line model switch (harness/c10.py VEC_DELAY_MODEL) were made.
   with the proposed repair (refuse non-uniform delay vectors) no guard is left *)
Theorem C10_vec_after_fix : forall (hist : Qc -> list Qc) start (par dpar : nat -> nat -> Qc) n m md t y (uniform : bool),
  (uniform = true -> forall p u, (u < n)%nat -> dpar p u = dpar p 0%nat) ->
  vimpl_eval_checked uniform hist start par dpar n m md t y =
  if uniform then Some (vspec_eval hist start par dpar n m md t y) else None.
Proof. exact vec_checked_refines. Qed.
Print Assumptions C10_vec_after_fix.

(* NOT HEADLINE, proposed and unapplied patch (fixes/proposed_fix_C10_F5_perunit.diff): with per-unit lookups the full vector
   statement would hold *)
Theorem C10_vec_after_perunit_fix : forall (hist : Qc -> list Qc) start (par dpar : nat -> nat -> Qc) n m md t y,
  vimpl_eval_perunit hist start par dpar n m md t y = vspec_eval hist start par dpar n m md t y.
Proof. exact vec_perunit_full. Qed.
Print Assumptions C10_vec_after_perunit_fix.

(* F5: two units, x' = x(t - d0) with d0 = (1, 2), hist(t) = (t, t): unit 1 must read hist(t-2) and reads hist(t-1) *)
Theorem C10_vec_refuted_delay_parameter : ~ C10_vec_full_statement.
Proof.
  intros H.
  specialize (H (fun t => [t; t]) (fun _ => 0%nat) (fun _ _ => 0) (fun _ u => match u with O => 1 | _ => 1 + 1 end) 2%nat
                [[(1, [FPast 0 (DPar 0)])]] Adaptive (mkq 5 1) [0; 0]).
  apply (f_equal (map (map this))) in H. vm_compute in H. discriminate H.
Qed.
Print Assumptions C10_vec_refuted_delay_parameter.

(* ------------------------------------------------------------------------------------------------------------
   Delayed edges under an adaptive solver become past(source, delay). *)
Definition C10_edges_full_statement : Prop :=
  forall step es base, add_edges (edge_factor_impl step es) es base = add_edges edge_factor_spec es base.

(* partial: one guard left (finding C10-F4).  NOTE: definitional - the guard forces the `if` branch of edge_factor_impl that IS
   edge_factor_spec; the statement records which edges the code delays, it is not a refinement proof. *)
Theorem C10_edges_partial : forall step es base, edge_delay_above_step step es = true ->
  add_edges (edge_factor_impl step es) es base = add_edges edge_factor_spec es base.
Proof. exact edges_refine. Qed.
Print Assumptions C10_edges_partial.

(* F4: delays not above step_size are dropped *)
Theorem C10_refuted_edge_delay_below_step : ~ C10_edges_full_statement.
Proof.
  intros H. specialize (H (mkq 1 8) [(1%nat, 2%nat, 0%nat, mkq 1 8)] [[]; []; []; []]).
  vm_compute in H. discriminate H.
Qed.
Print Assumptions C10_refuted_edge_delay_below_step.

(* before D40 a delay of exactly 1 was compiled without delay *)
Theorem C10_before_fix_refuted_edge_delay_one : exists step es base,
  edge_delay_above_step step es = true /\
  add_edges (edge_factor_before_fix step es) es base <> add_edges edge_factor_spec es base.
Proof.
  exists (mkq 1 8), [(1%nat, 2%nat, 0%nat, mkq 1 1)], [[]; []; []; []].
  split; [vm_compute; reflexivity|]. vm_compute. intros H. discriminate H.
Qed.
Print Assumptions C10_before_fix_refuted_edge_delay_one.

(* ------------------------------------------------------------------------------------------------------------
   run(solver='euler' | 'heun') (sc = Euler | Heun; Heun evaluates both stages with the same step counter, so both read
   hist(i*dt - tau)): the loop  y = step(func(i, ., hist), y); hist.update((i+1)*dt, y)  over the DDEHistory
   model (any initial capacity, any garbage in fresh buffer rows) IS the method-of-steps recurrence whose history is
   the piecewise-linear interpolant of the steps computed so far. *)
Theorem C10_run_refines : forall sc pos par dpar m dt junk, 0 < dt ->
  forall cap n y0, run_impl sc pos par dpar m dt junk cap n y0 = Some (run_spec sc pos par dpar m dt n y0).
Proof. exact run_refines. Qed.
Print Assumptions C10_run_refines.

(* the history of that recurrence: constant y0 up to the start ... *)
Theorem C10_prehistory : forall sc pos par dpar m dt n y0 t, t <= 0 ->
  interp (spec_recs sc pos par dpar m dt n 0 y0 [(0, y0)]) t = y0.
Proof. exact prehistory_constant. Qed.
Print Assumptions C10_prehistory.

(* ... recorded at the times (i+1)*dt, one record per step (what interp does between them is C19_between/C19_at_record) *)
Theorem C10_record_times : forall sc pos par dpar m dt n i y recs,
  times (spec_recs sc pos par dpar m dt n i y recs) = times recs ++ map (fun k => qn k * dt) (seq (S i) n).
Proof. exact spec_recs_times. Qed.
Print Assumptions C10_record_times.

(* ------------------------------------------------------------------------------------------------------------
   Adaptive run (scipy dopri5 + solout -> DDEHistory.update): the arithmetic is floating point, the bookkeeping is exact.
   Which rows a lookup reads is decided by qcase on the update times recorded so far (tie: the recorded (query, answer)
   pairs of a real run are recomputed from exactly these rows); that it is the interpolant is C19 (query_is_interp). *)
Theorem C10_query_rows : forall h t,
  query h t = match qcase (ts h) t with
              | (0%nat, _) => nth 0 (buf h) []
              | (1%nat, _) => nth (History.n h - 1) (buf h) []
              | (_, idx) => lerp (nth idx (ts h) 0) (nth idx (buf h) []) (nth (S idx) (ts h) 0) (nth (S idx) (buf h) []) t
              end.
Proof. exact query_by_qcase. Qed.
Print Assumptions C10_query_rows.

(* an interpolating lookup brackets t strictly on the right for ANY list of update times, so repeated update times (the
   adaptive path records every output time twice) never produce a zero-width interval *)
Theorem C10_lookup_interval_nonempty : forall tsl t idx, qcase tsl t = (2%nat, idx) ->
  nth idx tsl 0 <= t /\ t < nth (S idx) tsl 0.
Proof. exact qcase_between_bracket. Qed.
Print Assumptions C10_lookup_interval_nonempty.

Theorem C10_query_is_interpolant : forall h t, Inv h -> incr (ts h) ->
  query h t = interp (combine (ts h) (recorded h)) t.
Proof. exact query_is_interp. Qed.
Print Assumptions C10_query_is_interpolant.

(* ------------------------------------------------------------------------------------------------------------
   parser._preprocess_dde_syntax on token lists: a call f(t - d) whose delay d is non-empty and contains no ')' becomes
   past(f, d) unless f is a known function name, in which case it is left exactly as it was. *)
Theorem C10_rewrite_call : forall t_id past_id excluded fuel f d0 d rest,
  forallb (fun a => negb (is_rp a)) (d0 :: d) = true ->
  rewrite_fuel t_id past_id excluded (S fuel) (TId f :: TLp :: TId t_id :: TMinus :: (d0 :: d) ++ TRp :: rest) =
  if excluded f
  then TId f :: TLp :: TId t_id :: TMinus :: (d0 :: d) ++ TRp :: rewrite_fuel t_id past_id excluded fuel rest
  else TId past_id :: TLp :: TId f :: TComma :: (d0 :: d) ++ TRp :: rewrite_fuel t_id past_id excluded fuel rest.
Proof. exact rewrite_call. Qed.
Print Assumptions C10_rewrite_call.

(* x(t-d) + sin(t-c) with identifiers t=0, past=1, x=2, sin=3, d=4, c=5 and sin excluded *)
Example C10_rewrite_example :
  rewrite 0 1 (fun f => (f =? 3)%nat)
    [TId 2; TLp; TId 0; TMinus; TId 4; TRp; TOther 0; TId 3; TLp; TId 0; TMinus; TId 5; TRp] =
    [TId 1; TLp; TId 2; TComma; TId 4; TRp; TOther 0; TId 3; TLp; TId 0; TMinus; TId 5; TRp].
Proof. vm_compute. reflexivity. Qed.
Print Assumptions C10_rewrite_example.

(* non-vacuity: x' = -x + 2*z(t-1/2)*z(t-1/4) + v(t-d0), z' = x, v' = z with the delayed variables in slots 1 and 2,
   two delays on z, a parameter delay, fixed step 1/8 at step 8 (t = 1), hist = (10+t, 20+2t, 30+4t^2), d0 = 3/4:
   the function returns -1 + 2*21*(43/2) + (30+4/16) = 3729/4 *)
Example C10_nonvacuous :
  let m := [[(-(1), [FVar 0]); (mkq 2 1, [FPast 1 (DLit (mkq 1 2)); FPast 1 (DLit (mkq 1 4))]); (1, [FPast 2 (DPar 0)])];
            [(1, [FVar 0])]; [(1, [FVar 1])]] in
  let hist := polyhist [[mkq 10 1; mkq 1 1]; [mkq 20 1; mkq 2 1]; [mkq 30 1; 0; mkq 4 1]] in
  map fst (fst (compile m)) = [1%nat; 2%nat] /\
  impl_eval hist (fun x => x) (fun _ => 0) (fun _ => mkq 3 4) m (Fixed (mkq 1 8)) (mkq 8 1) [mkq 1 1; mkq 2 1; mkq 3 1]
    = [mkq 3729 4; mkq 1 1; mkq 2 1].
Proof. vm_compute. repeat split; reflexivity. Qed.
Print Assumptions C10_nonvacuous.
