(* C01 — the generated vector field equals the model the user wrote (vectorize=False).
   Statements only; every proof is `exact <lemma of EdgesProofs>`.
   Spec  = Net.deriv / Net.value  (Net.v: each state variable's derivative is its own equation, algebraic variables are
           their defining expressions, an input variable = Σ same-node producers + Σ over ALL edges of weight * source,
           or its default when nothing connects).
   Impl  = Edges.deriv_impl / value_impl (Edges.v: group edges -> merge per target variable keyed by SOURCE NODE ->
           per source node weight matrix by `+=` or indexed form -> sum of several sources -> wire producers + edge operator). *)
From Coq Require Import List String ZArith QArith Qcanon Bool Arith Permutation.
From PV Require Import Expr Net Edges EdgesProofs.
From PV Require Import PyLib LabelGen LabelGenEquiv.
Import ListNotations.
Open Scope Qc_scope.

(* The full-strength statement about the mechanism model (see HOW TO READ IT below). *)
Definition C01_full_statement : Prop :=
  forall n, wf n = true -> forall st pa v, deriv_impl n st pa v = deriv n st pa v.

(* HEADLINE.  For every network, every state vector, every parameter assignment and every variable, the mechanism model computes
   the Spec's derivative.  HOW TO READ IT (independent review, DESIGN.md section 12):
   * `deriv` and `deriv_impl` are the SAME evaluation skeleton (Net.deriv_with / value_with) and differ only in the rule for input
     variables.  "Each derivative is its own equation" and "an algebraic variable is its defining expression" therefore hold by
     construction of the model; the content of C01_full is the input layer — C01_input_layer: grouping, merging per target
     variable keyed by (source node, source variable), matrix `+=` / indexed forms, multi-source sum, wiring of same-node producers
     and the edge operator equal  Σ producers + Σ over ALL edges of weight * source, or the default.  That the real code evaluates
     equations and algebraic variables like the skeleton is decided by the correspondence run, supported by the separately proved
     (and NOT composed with deriv_impl) statements about hierarchy flattening, the order of _sort_var_updates and its uniqueness
     corollaries over flat names, and unique labels (C01_names).
   * the hypothesis `wf n = true` is not used by the proof (it is kept because the property speaks of well-formed models; the
     statement holds of every `net`).
   * no guard: D3 was repaired by fix D59 (switch fixed_D3; C01_before_fix_D59 is the real before-fix theorem).  The former
     name-clash guards are CONSTANTS since D83 / D84 (`guard_names := fixed_D22 || …`): the model never reads names, so Coq says
     nothing about "any legal variable names" beyond the isolated C01_label_clash_refuted / C01_substitute_input_term; that the
     generated names are fresh in the real code is decided by the correspondence run (names / labels regression streams, revert tests).
   * NOT covered by any theorem: equation text -> sympy -> printed source, the renaming between the model's per-operator names and
     the flat backend labels, the enumeration order of the state layout, and "the returned argument values are the declared or
     overridden values" (checked on every compiled model by the harness predicate Edges.values_ok only). *)
Theorem C01_full : forall n, wf n = true -> forall st pa v, deriv_impl n st pa v = deriv n st pa v.
Proof. exact (fun n _ => deriv_impl_full n). Qed.
Print Assumptions C01_full.

(* the content of C01_full: the input-variable layer, for ANY valuation sv of the sources *)
Theorem C01_input_layer : forall n pa sv v prods, input_impl n pa sv v prods = input_spec n pa sv v prods.
Proof. exact input_impl_full. Qed.
Print Assumptions C01_input_layer.

(* corollaries through the shared skeleton: the same statement without the unused hypothesis, and for every variable *)
Theorem C01_model_full : C01_full_statement.
Proof. exact (fun n _ => deriv_impl_full n). Qed.
Print Assumptions C01_model_full.

Theorem C01_full_values : forall n st pa v, value_impl n st pa v = value n st pa v.
Proof. exact value_impl_full. Qed.
Print Assumptions C01_full_values.

(* BEFORE fix D59 — a real theorem (the switch is a parameter of Edges.deriv_impl_gen, Coq evaluates the former mechanism):
   with _collect_from_edges keyed by the source node only, two different variables of ONE source node projecting to the same target
   variable delivered (w1+w2) * first variable: 17/8 where the Spec says 13/8.  The witness is the regression case
   corpus/C01/d3_witness.json; C01_switch_is_model ties the parameterised mechanism to the model used everywhere else. *)
Theorem C01_before_fix_D59 : exists n st pa v, wf n = true /\ deriv_impl_gen false n st pa v <> deriv n st pa v.
Proof. exact d3_before_fix. Qed.
Print Assumptions C01_before_fix_D59.

Theorem C01_switch_is_model : deriv_impl_gen fixed_D3 = deriv_impl.
Proof. exact deriv_impl_gen_is_model. Qed.
Print Assumptions C01_switch_is_model.

(* the repair, generically in the switch: with the merge keyed by (source node, source variable) the D3 guard holds of every
   network and the full statement follows (proved by an invariant of the grouping dict, not by computation) *)
Theorem C01_full_when_D3_fixed : fixed_D3 = true -> C01_full_statement.
Proof. exact (fun Hfix n _ => full_when_fixed Hfix n). Qed.
Print Assumptions C01_full_when_D3_fixed.

(* BOOK-KEEPING RECORDS, not results ---------------------------------------------------------------------------------- *)
(* conditional record: vacuous while the switch is true (its hypothesis is false); it is re-checked only when the switch is
   flipped back, which is how the revert test of D59 uses the model.  The real statement is C01_before_fix_D59 above. *)
Theorem C01_before_fix_D59_record : fixed_D3 = false -> exists n st pa v, wf n = true /\ guard_names n = true /\ guard_labels n = true /\
  deriv_impl n st pa v <> deriv n st pa v.
Proof. exact d3_refutes. Qed.
Print Assumptions C01_before_fix_D59_record.

(* definitional: guard_names / guard_labels are `fixed_D22 || …` / `fixed_D22b || …`, i.e. the constant `true` since D83 / D84;
   these two statements record that the switches are on and say nothing about the repairs themselves *)
Theorem C01_guards_trivial : forall n, guard_d3 n = true /\ guard n = true.
Proof. exact (fun n => conj (guard_d3_when_fixed eq_refl n) (guard_when_names_fixed eq_refl eq_refl n)). Qed.
Print Assumptions C01_guards_trivial.

Theorem C01_full_unconditional_when_names_fixed : fixed_D22 = true -> fixed_D22b = true ->
  forall n, wf n = true -> guard n = true /\ forall st pa v, deriv_impl n st pa v = deriv n st pa v.
Proof. exact (fun H1 H2 n _ => conj (guard_when_names_fixed H1 H2 n) (deriv_impl_full n)). Qed.
Print Assumptions C01_full_unconditional_when_names_fixed.

(* key lemmas, one per branch of _generate_edge_equation ------------------------------------------------------------ *)
(* matrix branch (`weight_mat[row, col] += w`, then matvec): equals the edge sum for ANY list of unit edges *)
Theorem C01_edge_sum_matrix : forall es cols x u,
  NoDup cols -> (forall e, In e es -> In (srcu e) cols) -> matvec_row (build_add es) cols x u = edge_sum es x u.
Proof. exact matvec_add_is_edge_sum. Qed.
Print Assumptions C01_edge_sum_matrix.

(* ... and with `=` instead of `+=` (the code before fix D02) it is refuted by two parallel edges *)
Theorem C01_matrix_overwrite_refuted : exists es cols x u,
  NoDup cols /\ matvec_row (build_set es) cols x u <> edge_sum es x u.
Proof. exact matvec_set_refuted. Qed.
Print Assumptions C01_matrix_overwrite_refuted.

(* indexed branch: correct because it is taken only when target_idx has no duplicates *)
Theorem C01_edge_sum_indexed : forall es x u, NoDup (map tgtu es) -> In u (map tgtu es) ->
  index_contrib es x u = Some (edge_sum es x u).
Proof. exact index_contrib_is_edge_sum. Qed.
Print Assumptions C01_edge_sum_indexed.

(* whichever branch the duplicate test selects *)
Theorem C01_edge_sum_any_branch : forall m x u,
  let es := zip3 (mtidx m) (msidx m) (mw m) in
  map tgtu es = mtidx m -> In u (mtidx m) -> contrib m x u = Some (edge_sum es x u).
Proof. exact contrib_is_edge_sum. Qed.
Print Assumptions C01_edge_sum_any_branch.

(* several source nodes: the sum of the per-source contributions is the sum over all grouped edges *)
Theorem C01_multi_source_sum : forall sv ges dflt, Forall aligned_g ges ->
  forallb (fun p : vid * list gedge => forallb (fun g => vid_eqb (gsrc g) (first_src (fst p) (snd p))) (snd p))
          (merge_groups ges) = true ->
  edge_value sv (collect_from_edges ges) dflt = osum (map (Gg sv) ges).
Proof. exact multi_source_sum. Qed.
Print Assumptions C01_multi_source_sum.

(* grouping loses nothing and counts nothing twice (any key, any list) *)
Theorem C01_grouping_preserves_sum : forall (A K : Type) (eqb : K -> K -> bool) (key : A -> K) (F : A -> option Qc) l,
  gsum F (group_by eqb key l) = osum (map F l).
Proof. exact (fun A K eqb key F l => gsum_group_by eqb key F l). Qed.
Print Assumptions C01_grouping_preserves_sum.

(* nothing connects: the declared default (a parameter) *)
Theorem C01_default_when_no_source : forall n pa sv v, in_edges n v = [] ->
  input_impl n pa sv v [] = Some (pa v) /\ input_spec n pa sv v [] = Some (pa v).
Proof. exact default_when_no_source. Qed.
Print Assumptions C01_default_when_no_source.

(* the _collect_ops rewrite `replace(eq, a, "(l1+...+lk)")` with fresh labels evaluates to the sum of the sources *)
Theorem C01_substitute_input_term : forall env env' a ls e, ls <> [] ->
  (forall y, In y (fv e) -> y <> a -> env' y = env y) ->
  eval env' (rewrite_input a ls e) = eval (fun y => if String.eqb y a then osum (map env' ls) else env y) e.
Proof. exact substitute_input_term. Qed.
Print Assumptions C01_substitute_input_term.

Theorem C01_label_clash_refuted : exists env env' a ls e,
  ls <> [] /\ eval env' (rewrite_input a ls e) <> eval (fun y => if String.eqb y a then osum (map env' ls) else env y) e.
Proof. exact label_clash_refuted. Qed.
Print Assumptions C01_label_clash_refuted.

(* layout (to_func 372-387): for any number of state variables of any sizes, the positions handed out are pairwise
   distinct, the ranges pairwise disjoint, and every variable gets one *)
Theorem C01_layout_NoDup : forall (A : Type) (vars : list (A * nat)) idx,
  NoDup (map (fun p => fst (snd p)) (layout_from idx vars)).
Proof. exact (fun A => @layout_positions_NoDup A). Qed.
Print Assumptions C01_layout_NoDup.

Theorem C01_layout_disjoint : forall (A : Type) (vars : list (A * nat)) idx,
  ForallOrdPairs (fun p q : A * (nat * nat) => (snd (snd p) <= fst (snd q))%nat) (layout_from idx vars).
Proof. exact (fun A => @layout_ranges_disjoint A). Qed.
Print Assumptions C01_layout_disjoint.

Theorem C01_layout_covers : forall (A : Type) (vars : list (A * nat)) idx, map fst (layout_from idx vars) = map fst vars.
Proof. exact (fun A => @layout_covers A). Qed.
Print Assumptions C01_layout_covers.

(* names (E2): `requests` threads ComputeGraph._generate_unique_label — the Gallina text REGENERATED from the current
   source by harness/py2v.py on every run — through its name table.  For ANY table and ANY sequence of requested labels
   (names of the shape x_v1 included) the call never fails, and the labels handed out (other than the deliberately
   shared "t") are pairwise distinct and differ from every name the table already held: two declared variables never
   end up on one compute-graph node.  (Before fix D04 this was false: LabelGenEquiv no longer compiles on that text.) *)
Theorem C01_names : forall ls names,
  exists rs names', requests names ls = Some (rs, names') /\
    List.length rs = List.length ls /\
    incl (py_keys names) (py_keys names') /\
    NoDup (filter not_time rs) /\
    (forall r, In r (filter not_time rs) -> ~ In r (py_keys names)).
Proof. exact unique_labels_distinct. Qed.
Print Assumptions C01_names.

(* hierarchy ------------------------------------------------------------------------------------------------------- *)
(* the denotation does not depend on the order of the edge list ... *)
Theorem C01_edge_order_irrelevant : forall N E1 E2, Permutation E1 E2 -> forall st pa v,
  deriv {| nnodes := N; nedges := E1 |} st pa v = deriv {| nnodes := N; nedges := E2 |} st pa v.
Proof. exact deriv_edge_order. Qed.
Print Assumptions C01_edge_order_irrelevant.

(* ... an edge declared inside the sub-circuit `sn` may equally be declared one level up under the path sn/..., at any
   depth (cequiv is a congruence for sub-circuit contexts, reflexive, symmetric, transitive) ... *)
Theorem C01_hoist_edge : forall ns l1 sn ns' subs' e es' l2 es,
  cequiv (Circ ns (l1 ++ (sn, Circ ns' subs' (e :: es')) :: l2) es)
         (Circ ns (l1 ++ (sn, Circ ns' subs' es') :: l2) (pedge (sn ++ "/") e :: es)).
Proof. exact hoist_edge. Qed.
Print Assumptions C01_hoist_edge.

Theorem C01_hierarchy_context : forall ns l1 sn c1 c2 l2 es, cequiv c1 c2 ->
  cequiv (Circ ns (l1 ++ (sn, c1) :: l2) es) (Circ ns (l1 ++ (sn, c2) :: l2) es).
Proof. exact cequiv_context. Qed.
Print Assumptions C01_hierarchy_context.

(* ... and equivalent templates have the same vector field: where an edge is declared in the hierarchy is irrelevant *)
Theorem C01_hierarchy_preserves_deriv : forall c1 c2, cequiv c1 c2 ->
  forall st pa v, deriv (flatten c1) st pa v = deriv (flatten c2) st pa v.
Proof. exact cequiv_deriv. Qed.
Print Assumptions C01_hierarchy_preserves_deriv.

(* evaluation order --------------------------------------------------------------------------------------------------- *)
(* _sort_var_updates (Edges.sort_updates): when it does not report mutually dependent updates, its output is a permutation
   of the updates in which no update reads the left-hand side of an update at the same or a later position (itself
   excepted), for any number of updates with pairwise distinct left-hand sides *)
Theorem C01_sort_topological : forall (A : Type) (lhs_of : A -> string) (deps_of : A -> list string) fuel rem out,
  sort_updates A lhs_of deps_of fuel rem = (out, true) -> NoDup (map lhs_of rem) ->
  Permutation rem out /\ topo_from A lhs_of deps_of out [].
Proof. exact sort_spec. Qed.
Print Assumptions C01_sort_topological.

(* running the assignments in that order leaves a memory that solves the algebraic equations: every assigned variable
   equals its defining expression evaluated in the FINAL memory (no stale read), nothing else is touched *)
Theorem C01_sorted_run_solves : forall prog out env, sort_assigns prog = (out, true) -> NoDup (map fst prog) ->
  (forall p, In p prog -> ~ In (fst p) (fv (snd p))) ->
  Permutation prog out /\
  (forall p, In p prog -> run_assigns out env (fst p) = eval (run_assigns out env) (snd p)) /\
  (forall x, ~ In x (map fst prog) -> run_assigns out env x = env x).
Proof. exact sorted_run_solves. Qed.
Print Assumptions C01_sorted_run_solves.

(* uniqueness: the memory left by the sorted run IS the recursive meaning of the assignments (whenever the recursive
   denotation is defined, i.e. always for acyclic systems), for any program, base memory and fuel ... *)
Theorem C01_sorted_run_is_recursive_value : forall prog out env, sort_assigns prog = (out, true) -> NoDup (map fst prog) ->
  (forall p, In p prog -> ~ In (fst p) (fv (snd p))) ->
  forall fuel x w, den_assigns prog env fuel x = Some w -> run_assigns out env x = Some w.
Proof. exact sorted_run_is_den. Qed.
Print Assumptions C01_sorted_run_is_recursive_value.

(* ... and at the level of networks: ANY memory that satisfies all equations simultaneously (state variables = state,
   constants = parameters, algebraic variables = their expressions, inputs = producers + all edges or the default) agrees
   with Net.value wherever value is defined — which Net.wf demands for every variable *)
Theorem C01_solution_is_value : forall n st pa M, solves n st pa M ->
  forall v w, value n st pa v = Some w -> M v = Some w.
Proof. exact solution_is_value. Qed.
Print Assumptions C01_solution_is_value.

(* non-vacuity: hierarchy depth 1, three nodes, a same-node producer, two parallel edges, two source nodes, an unconnected
   input with an overridden default — satisfies wf and every guard; v' = -1/8 + (3 + 3/4*1/2 - 9/16) + 2*4 = 171/16 *)
Example C01_nonvacuous :
  wf nonvac_net = true /\ guard nonvac_net = true /\
  oqc_eqb (deriv nonvac_net nonvac_state (declared_env nonvac_net) ("c2/T", "top", "v")%string) (Some (mkq 171 16)) = true /\
  oqc_eqb (deriv_impl nonvac_net nonvac_state (declared_env nonvac_net) ("c2/T", "top", "v")%string) (Some (mkq 171 16)) = true /\
  oqc_eqb (value nonvac_net nonvac_state (declared_env nonvac_net) ("c2/T", "top", "b")%string) (Some (mkq 4 1)) = true.
Proof. exact nonvac_values. Qed.
Print Assumptions C01_nonvacuous.
