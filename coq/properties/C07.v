(* C07 — parameter and initial-value overrides reach exactly their targets; nodes sharing template objects stay
   independent.  Statements only; every proof is `exact <lemma of ValuesProofs>` or a computed witness. *)
From Coq Require Import List String ZArith QArith Qcanon Bool Arith.
From PV Require Import Heap Values ValuesProofs.
Import ListNotations.
Open Scope nat_scope.

(* Full statement: for EVERY object store (template objects shared at will), every root circuit of any hierarchy
   depth d whose unfolding exists, and EVERY finite history of update_var (scalar / array values, wildcard patterns),
   edge-attribute updates and compilations with apply(node_values), the outputs of the implementation model (deepcopy,
   write, re-register into the circuit object found on the path) are the outputs of the specification (functional
   update of the addressed paths of the unshared tree, nothing else). *)
Definition C07_full_statement : Prop := forall d r ops h t, abs d h r = Some t ->
  snd (runI d r h ops) = snd (runS d t ops).

(* It holds when no CircuitTemplate object is reachable along two paths (NodeTemplate and OperatorTemplate objects may be
   shared freely), together with the simulation of the states. *)
Theorem C07_partial : forall d r ops h t, abs d h r = Some t -> no_shared_subcircuit t = true ->
  abs d (fst (runI d r h ops)) r = Some (fst (runS d t ops)) /\ snd (runI d r h ops) = snd (runS d t ops).
Proof. exact history_refines_guard. Qed.
Print Assumptions C07_partial.

Theorem C07_refines_NoDup : forall d r ops h t, abs d h r = Some t -> NoDup (circ_ids t) ->
  abs d (fst (runI d r h ops)) r = Some (fst (runS d t ops)) /\ snd (runI d r h ops) = snd (runS d t ops).
Proof. exact history_refines. Qed.
Print Assumptions C07_refines_NoDup.

(* D27: two names for one sub-circuit object; update_var('c1/A/op/k', 5) also changes c2/A/op/k (1/2 expected) *)
Definition d27_heap : heap :=
  [OOp "op" ["d/dt * x = k*r + g + u"%string]
       [("x"%string, Sc (mkq 1 4)); ("k"%string, Sc (mkq 1 2)); ("r"%string, Sc (mkq 2 1)); ("g"%string, Sc (mkq 1 1)); ("u"%string, Sc (mkq 0 1))];
   ONode [(0, [])];
   OCirc [("A"%string, 1); ("B"%string, 1)] [("A/op/x"%string, "B/op/u"%string, [("weight"%string, Sc (mkq 2 1))])];
   OCirc [("c1"%string, 2); ("c2"%string, 2)] [("c1/A/op/x"%string, "c2/B/op/u"%string, [("weight"%string, Sc (mkq 1 2))])]].
Definition d27_ops : list hop := [UpdVar ["c1"%string; "A"%string] "op" "k" (Sc (mkq 5 1)); Observe []].

Theorem C07_shared_subcircuit_refuted : ~ C07_full_statement.
Proof.
  intros H. destruct (abs 1 d27_heap 3) as [t|] eqn:E; [|vm_compute in E; discriminate].
  specialize (H 1 3 d27_ops d27_heap t E).
  apply (f_equal (probe (["c2"%string; "A"%string], "op"%string, "k"%string))) in H.
  vm_compute in E. injection E as <-. vm_compute in H. discriminate.
Qed.
Print Assumptions C07_shared_subcircuit_refuted.

(* what the specification does: a functional update at node path n is read back at n and nowhere else *)
Theorem C07_frame : forall n t a t' m, tset_node t n a = Some t' ->
  tget_node t' m = if same_addr t n m then Some a else tget_node t m.
Proof. exact tget_tset. Qed.
Print Assumptions C07_frame.

(* the mechanism: deepcopy of a node template yields a fresh object with the same content ... *)
Theorem C07_deepcopy_fresh : forall h nid a, node_den h nid = Some a ->
  exists h1 nid', copy_node h nid = Some (h1, nid') /\ extends h h1 /\ lookup h nid' = None /\ node_den h1 nid' = Some a.
Proof. exact copy_node_spec. Qed.
Print Assumptions C07_deepcopy_fresh.

(* ... and re-registering it writes one path of the tree, provided the circuit objects on the path are not shared *)
Theorem C07_add_node_template : forall d h c t n nid a,
  abs d h c = Some t -> NoDup (circ_ids t) -> node_den h nid = Some a ->
  match add_node_template d h c n nid with
  | Some h' => exists t', tset_node t n a = Some t' /\ abs d h' c = Some t' /\ circ_ids t' = circ_ids t /\
                          (forall i ob, lookup h i = Some ob -> ~ In i (circ_ids t) -> lookup h' i = Some ob)
  | None => tset_node t n a = None
  end.
Proof. exact add_node_template_equiv. Qed.
Print Assumptions C07_add_node_template.

(* non-vacuity: A and B hold the SAME NodeTemplate object (and one OperatorTemplate object); the guard holds;
   update_var('A/op/k', 5) then a per-node array on all/op/x: A.k = 5, B.k stays 1/2, x = 1, 2 in path order *)
Definition nv_heap : heap :=
  [OOp "op" ["d/dt * x = k*r + g + u"%string]
       [("x"%string, Sc (mkq 1 4)); ("k"%string, Sc (mkq 1 2)); ("r"%string, Sc (mkq 2 1)); ("g"%string, Sc (mkq 1 1)); ("u"%string, Sc (mkq 0 1))];
   ONode [(0, [])];
   OCirc [("A"%string, 1); ("B"%string, 1)] [("A/op/x"%string, "B/op/u"%string, [("weight"%string, Sc (mkq 2 1))])]].
Definition nv_ops : list hop :=
  [UpdVar ["A"%string] "op" "k" (Sc (mkq 5 1)); UpdVar ["all"%string] "op" "x" (Arr [mkq 1 1; mkq 2 1]); Observe []].
Example C07_nonvacuous :
  (exists t, abs 0 nv_heap 2 = Some t /\ no_shared_subcircuit t = true) /\
  let outs := snd (runI 0 2 nv_heap nv_ops) in
  probe (["A"%string], "op"%string, "k"%string) outs = 5%Z /\ probe (["B"%string], "op"%string, "k"%string) outs = 1%Z /\
  probe (["A"%string], "op"%string, "x"%string) outs = 1%Z /\ probe (["B"%string], "op"%string, "x"%string) outs = 2%Z.
Proof. split; [eexists; split; vm_compute; reflexivity | vm_compute; auto]. Qed.
Print Assumptions C07_nonvacuous.
