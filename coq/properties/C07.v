(* C07 — parameter and initial-value overrides reach exactly their targets; nodes sharing template objects stay
   independent.  Statements only; every proof is `exact <lemma of ValuesProofs>` or a computed witness. *)
(* What is and what is not a theorem here (independent review, DESIGN.md section 12): C07_full is a sharing / aliasing
   refinement — the store with its shared objects behaves like the unshared tree.  Impl and Spec differ in the path resolver
   (over the store / over the tree) and in the update operations.  They SHARE `overrides` / `pick` (distribution of array values
   in path order), `render` and `finish` (the compiled arguments and initial state show the overridden values) and `cast_val`
   (integer-declared constants): those three parts of the property hold by construction in the model and are decided by the
   correspondence run only. *)
From Coq Require Import List String ZArith QArith Qcanon Bool Arith.
From PV Require Import Heap Values ValuesProofs.
Import ListNotations.
Open Scope nat_scope.

(* Full statement: for EVERY object store (OperatorTemplate, NodeTemplate and CircuitTemplate objects shared at will), every
   root circuit of any hierarchy depth d whose unfolding exists, and EVERY finite history of update_var (scalar / array
   values of any length, wildcard patterns), edge-attribute updates, update_template (nodes / edges, with and without
   in_place — after fix D75 —, the user's variable following the returned object, the base templates left behind
   still compilable: ObserveBase) and compilations with apply(node_values, edge_values),
   the outputs of the implementation model are the outputs of the specification (functional update of the addressed
   paths of the unshared tree, nothing else). *)
Definition C07_full_statement (fixed : bool) : Prop := forall d r ops h t, abs d h r = Some t ->
  snd (runI_gen fixed d (init_state h r) ops) = snd (runS d t ops).
(* `fixed` = Values.fixed_D97: true = the code as it is since fix D97 (runI = runI_gen true: the dtype follows the value); false = the mechanism
   before the fix: a variable declared by a bare integer cast every value it was given to int. *)

(* Headline, the code as it is (fix D97 in): the full statement without hypothesis *)
Theorem C07_full : C07_full_statement fixed_D97.
Proof. exact history_outputs_head. Qed.
Print Assumptions C07_full.

(* the mechanism before fix D97 satisfied it only for histories in which no compilation hands a non-integral value to an
   integer-declared variable (decidable guard int_exact) *)
Theorem C07_partial_before_fix : forall fx d r ops h t, abs d h r = Some t -> fx = true \/ int_exact d t ops = true ->
  snd (runI_gen fx d (init_state h r) ops) = snd (runS d t ops).
Proof. exact history_outputs_guarded. Qed.
Print Assumptions C07_partial_before_fix.

(* the same, stated for the explicit switch value *)
Theorem C07_full_when_fixed : C07_full_statement true.
Proof. exact history_outputs_fixed. Qed.
Print Assumptions C07_full_when_fixed.

(* the sharing refinement holds for both mechanisms: store-based implementation = tree specification with the same cast rule;
   `sim` = the current template denotes the specification's current tree and every base template left behind by
   `c = c.update_template(...)` still denotes the tree it had (ObserveBase compiles them) *)
Theorem C07_refines : forall fx d ops st ss, sim d st ss ->
  sim d (fst (runI_gen fx d st ops)) (fst (runS_gen fx d ss ops)) /\ snd (runI_gen fx d st ops) = snd (runS_gen fx d ss ops).
Proof. exact history_refines. Qed.
Print Assumptions C07_refines.

(* each single operation refines its specification on every store *)
Theorem C07_update_template : forall d r h t inpl adds es, abs d h r = Some t ->
  match update_template d r h inpl adds es with
  | Some (h', r') => exists t', tupdate_template t adds es = Some t' /\ abs d h' r' = Some t'
  | None => tupdate_template t adds es = None
  end.
Proof. exact update_template_equiv. Qed.
Print Assumptions C07_update_template.

(* what the specification does: a functional update at node path n is read back at n and nowhere else *)
Theorem C07_frame : forall n t a t' m, tset_node t n a = Some t' ->
  tget_node t' m = if same_addr t n m then Some a else tget_node t m.
Proof. exact tget_tset. Qed.
Print Assumptions C07_frame.

(* the mechanism: deepcopy of a node template yields a fresh object with the same content, *)
Theorem C07_deepcopy_fresh : forall h nid a, node_den h nid = Some a ->
  exists h1 nid', copy_node h nid = Some (h1, nid') /\ extends h h1 /\ lookup h nid' = None /\ node_den h1 nid' = Some a.
Proof. exact copy_node_spec. Qed.
Print Assumptions C07_deepcopy_fresh.

(* deepcopy of a sub-circuit (memo dictionary: sharing inside the copy is preserved) yields fresh objects with the same
   denotation, none of which is an object that existed before, *)
Theorem C07_deepcopy_circuit_fresh : forall d h x t, abs d h x = Some t ->
  exists h1 m x', copy_circ d h [] x = Some (h1, m, x') /\ extends h h1 /\ List.length h <= x' /\
                  abs d h1 x' = Some t /\ suffix_closed h h1.
Proof. exact copy_circ_fresh. Qed.
Print Assumptions C07_deepcopy_circuit_fresh.

(* a circuit object is never below itself, *)
Theorem C07_acyclic : forall d h c t, abs d h c = Some t -> ~ In c (below d h c).
Proof. exact acyclic. Qed.
Print Assumptions C07_acyclic.

(* and re-registering a node template writes exactly one path of the tree; of the objects that existed before, only the
   circuit object it was called on is changed *)
Theorem C07_add_node_template : forall d h c t n nid a,
  abs d h c = Some t -> node_den h nid = Some a ->
  match add_node_template d h c n nid with
  | Some h' => exists t', tset_node t n a = Some t' /\ abs d h' c = Some t' /\
                          (forall i ob, lookup h i = Some ob -> i <> c -> lookup h' i = Some ob)
  | None => tset_node t n a = None
  end.
Proof. exact add_node_template_equiv. Qed.
Print Assumptions C07_add_node_template.

(* regression witness of D27 (repaired by D47): c1 and c2 are two names of ONE sub-circuit object;
   update_var('c1/A/op/k', 5) sets c1/A/op/k = 5 and leaves c2/A/op/k = 1/2 *)
Definition d27_heap : heap :=
  [OOp "op" ["d/dt * x = k*r + g + u"%string]
       [("x"%string, Sc (mkq 1 4)); ("k"%string, Sc (mkq 1 2)); ("r"%string, Sc (mkq 2 1)); ("g"%string, Sc (mkq 1 1)); ("u"%string, Sc (mkq 0 1))];
   ONode [(0, [])];
   OCirc [("A"%string, 1); ("B"%string, 1)] [("A/op/x"%string, "B/op/u"%string, [("weight"%string, Sc (mkq 2 1))])];
   OCirc [("c1"%string, 2); ("c2"%string, 2)] [("c1/A/op/x"%string, "c2/B/op/u"%string, [("weight"%string, Sc (mkq 1 2))])]].
Definition d27_ops : list hop := [UpdVar ["c1"%string; "A"%string] "op" "k" (Sc (mkq 5 1)); Observe [] []].
Example C07_shared_subcircuit_regression :
  let outs := snd (runI 1 (init_state d27_heap 3) d27_ops) in
  probe (["c1"%string; "A"%string], "op"%string, "k"%string) outs = 5%Z /\
  probe (["c2"%string; "A"%string], "op"%string, "k"%string) outs = 1%Z /\
  probe (["c1"%string; "B"%string], "op"%string, "k"%string) outs = 1%Z.
Proof. vm_compute. auto. Qed.
Print Assumptions C07_shared_subcircuit_regression.

(* non-vacuity: A and B hold the SAME NodeTemplate object (and one OperatorTemplate object);
   update_var('A/op/k', 5) then a per-node array on all/op/x: A.k = 5, B.k stays 1/2, x = 1, 2 in path order *)
Definition nv_heap : heap :=
  [OOp "op" ["d/dt * x = k*r + g + u"%string]
       [("x"%string, Sc (mkq 1 4)); ("k"%string, Sc (mkq 1 2)); ("r"%string, Sc (mkq 2 1)); ("g"%string, Sc (mkq 1 1)); ("u"%string, Sc (mkq 0 1))];
   ONode [(0, [])];
   OCirc [("A"%string, 1); ("B"%string, 1)] [("A/op/x"%string, "B/op/u"%string, [("weight"%string, Sc (mkq 2 1))])]].
Definition nv_ops : list hop :=
  [UpdVar ["A"%string] "op" "k" (Sc (mkq 5 1)); UpdVar ["all"%string] "op" "x" (Arr [mkq 1 1; mkq 2 1]); Observe [] []].
Example C07_nonvacuous :
  (exists t, abs 0 nv_heap 2 = Some t) /\
  let outs := snd (runI 0 (init_state nv_heap 2) nv_ops) in
  probe (["A"%string], "op"%string, "k"%string) outs = 5%Z /\ probe (["B"%string], "op"%string, "k"%string) outs = 1%Z /\
  probe (["A"%string], "op"%string, "x"%string) outs = 1%Z /\ probe (["B"%string], "op"%string, "x"%string) outs = 2%Z.
Proof. split; [eexists; vm_compute; reflexivity | vm_compute; auto]. Qed.
Print Assumptions C07_nonvacuous.

(* regression witness of the former finding C07-inplace-edge-map (repaired by D75): after
   update_template(edges=[B->A], in_place=True) the edge update (A->B, weight 64) reaches its target; the new edge has weight 8 *)
Definition ipe_ops : list hop :=
  [UpdTemplate true [] [("B/op/x"%string, "A/op/u"%string, [("weight"%string, Sc (mkq 8 1))])];
   UpdEdge "A/op/x" "B/op/u" [("weight"%string, Sc (mkq 64 1))]; Observe [] []].
Example C07_inplace_edges_regression :
  let outs := snd (runI 0 (init_state nv_heap 2) ipe_ops) in
  probe_w "A/op/x" "B/op/u" outs = 64%Z /\ probe_w "B/op/x" "A/op/u" outs = 8%Z.
Proof. vm_compute. auto. Qed.
Print Assumptions C07_inplace_edges_regression.

(* the base template is left alone: derived = base.update_template(edges=[..]) (not in place) shares the sub-circuit objects
   with base; derived.update_var('c1/A/op/k', 5) changes derived only (fix D47 copies the sub-circuit on the path) *)
Definition base_ops : list hop :=
  [UpdTemplate false [] [("c2/A/op/x"%string, "c1/B/op/u"%string, [("weight"%string, Sc (mkq 4 1))])];
   UpdVar ["c1"%string; "A"%string] "op" "k" (Sc (mkq 5 1)); ObserveBase 0].
Example C07_base_untouched :
  probe (["c1"%string; "A"%string], "op"%string, "k"%string) (snd (runI 1 (init_state d27_heap 3) base_ops)) = 1%Z /\
  probe (["c1"%string; "A"%string], "op"%string, "k"%string) (snd (runI 1 (init_state d27_heap 3) (base_ops ++ [Observe [] []]))) = 5%Z.
Proof. vm_compute. auto. Qed.
Print Assumptions C07_base_untouched.

(* former finding D97 (repaired; kept as `_before_fix` statement and regression witness): `tau` is declared by the integer 10; update_var('A/op/tau', 25/2) compiles
   A/op/tau = 12 (specification: 25/2); B keeps 10 *)
Definition int_heap : heap :=
  [OOp "op" ["d/dt * x = k*r + g + u"%string]
       [("x"%string, Sc (mkq 1 4)); ("k"%string, ScI 10); ("r"%string, Sc (mkq 2 1)); ("g"%string, Sc (mkq 1 1)); ("u"%string, Sc (mkq 0 1))];
   ONode [(0, [])];
   OCirc [("A"%string, 1); ("B"%string, 1)] []].
Definition int_ops : list hop := [UpdVar ["A"%string] "op" "k" (Sc (mkq 25 2)); Observe [] []].
Definition probe_den (k : okey) (outs : list hout) : positive :=
  match last outs ODone with
  | OObs ns _ => match ol_get ns k with Some (Sc q) => Qden (this q) | _ => 1%positive end
  | _ => 1%positive
  end.
Theorem C07_int_truncation_before_fix : ~ C07_full_statement false.
Proof.
  intros H. destruct (abs 0 int_heap 2) as [t|] eqn:E; [|vm_compute in E; discriminate].
  specialize (H 0 2 int_ops int_heap t E). apply (f_equal (probe (["A"%string], "op"%string, "k"%string))) in H.
  vm_compute in E. injection E as <-. vm_compute in H. discriminate.
Qed.
Print Assumptions C07_int_truncation_before_fix.
Example C07_int_truncation_witness :
  probe (["A"%string], "op"%string, "k"%string) (snd (runI_gen false 0 (init_state int_heap 2) int_ops)) = 12%Z /\
  probe (["A"%string], "op"%string, "k"%string) (snd (runI_gen true 0 (init_state int_heap 2) int_ops)) = 25%Z /\
  probe_den (["A"%string], "op"%string, "k"%string) (snd (runI_gen true 0 (init_state int_heap 2) int_ops)) = 2%positive /\
  probe (["B"%string], "op"%string, "k"%string) (snd (runI_gen false 0 (init_state int_heap 2) int_ops)) = 10%Z.
Proof. vm_compute. auto. Qed.
Print Assumptions C07_int_truncation_witness.
