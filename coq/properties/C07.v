From Coq Require Import List String Arith Bool QArith Qcanon.
From PV Require Import Heap Values ValuesProofs.
Import ListNotations.
Example C07_placeholder : 1 = 1. Proof. reflexivity. Qed.
Print Assumptions C07_placeholder.
