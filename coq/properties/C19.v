(* C19 — DDEHistory returns the piecewise-linear interpolant of what it was given.
   This file contains statements only; every proof is `exact <lemma of HistoryProofs / HistoryCont>`. *)
From Coq Require Import List ZArith QArith Qcanon Bool Arith.
From PV Require Import History HistoryProofs HistoryCont.
Import ListNotations.
Open Scope Qc_scope.

(* Full statement: for EVERY script of update/query operations with increasing update times, any initial
   capacity, growable or bounded, any garbage in the unused part of the buffer (junk), the outputs of the
   implementation model (pre-allocated buffer, doubling growth, bisect, refusal when bounded and full) are
   the outputs of the specification (list of accepted records + piecewise-linear interpolation). *)
Theorem C19_refines : forall y0 t0 cap g junk ops, incr (t0 :: update_times ops) ->
  snd (run (init y0 t0 cap g junk) ops) = snd (arun (ainit y0 t0 cap g) ops).
Proof. exact history_refines. Qed.
Print Assumptions C19_refines.

(* the invariant behind it: records survive any number of growth events, the new record is appended *)
Theorem C19_update_appends : forall h junk t y h', Inv h -> update h junk t y = Some h' ->
  Inv h' /\ recorded h' = recorded h ++ [y] /\ ts h' = ts h ++ [t] /\ growable h' = growable h /\
  (growable h = false -> length (buf h') = length (buf h)).
Proof. exact update_inv. Qed.
Print Assumptions C19_update_appends.

(* refusal: exactly when bounded and full; the state is then left unchanged (step returns h itself) *)
Theorem C19_refuses_iff : forall h junk t y,
  update h junk t y = None <-> (growable h = false /\ (length (buf h) <= n h)%nat).
Proof. exact update_none_iff. Qed.
Print Assumptions C19_refuses_iff.

Theorem C19_bounded_never_overwrites : forall ops a b, bound a = Some b -> (length (recs a) <= b)%nat ->
  (length (recs (fst (arun a ops))) <= b)%nat /\
  firstn (length (recs a)) (recs (fst (arun a ops))) = recs a.
Proof. exact bounded_never_exceeds. Qed.
Print Assumptions C19_bounded_never_overwrites.

(* what the specification returns: the four cases of the property text *)
Theorem C19_before : forall rs t, rs <> [] -> t <= hd 0 (times rs) -> interp rs t = hd [] (values rs).
Proof. exact interp_before. Qed.
Print Assumptions C19_before.

Theorem C19_after : forall rs t, rs <> [] -> incr (times rs) -> last (times rs) 0 <= t ->
  interp rs t = last (values rs) [].
Proof. exact interp_after. Qed.
Print Assumptions C19_after.

Theorem C19_at_record : forall rs i, incr (times rs) -> (i < length rs)%nat ->
  (forall j, (j < length rs)%nat -> length (nth j (values rs) []) = length (nth 0 (values rs) [])) ->
  interp rs (nth i (times rs) 0) = nth i (values rs) [].
Proof. exact interp_at_record. Qed.
Print Assumptions C19_at_record.

Theorem C19_between : forall rs i t, incr (times rs) -> (S i < length rs)%nat ->
  nth i (times rs) 0 <= t -> t < nth (S i) (times rs) 0 -> hd 0 (times rs) < t ->
  interp rs t = lerp (nth i (times rs) 0) (nth i (values rs) []) (nth (S i) (times rs) 0) (nth (S i) (values rs) []) t.
Proof. exact interp_between. Qed.
Print Assumptions C19_between.

(* consequences of the four cases (HistoryCont.v): the interpolant is continuous at every knot - the segment formula of
   C19_between taken at the end of its segment is the next record, so C19_between and C19_at_record agree there - and it
   never overshoots: between two records every component of the answer lies between the two recorded components *)
Theorem C19_continuous_at_knots : forall rs i, incr (times rs) -> (S i < length rs)%nat ->
  length (nth i (values rs) []) = length (nth (S i) (values rs) []) ->
  lerp (nth i (times rs) 0) (nth i (values rs) []) (nth (S i) (times rs) 0) (nth (S i) (values rs) [])
       (nth (S i) (times rs) 0) = nth (S i) (values rs) [].
Proof. exact interp_segment_meets_next. Qed.
Print Assumptions C19_continuous_at_knots.

Theorem C19_no_overshoot : forall rs i t k, incr (times rs) -> (S i < length rs)%nat ->
  nth i (times rs) 0 <= t -> t < nth (S i) (times rs) 0 -> hd 0 (times rs) < t ->
  length (nth i (values rs) []) = length (nth (S i) (values rs) []) -> (k < length (nth i (values rs) []))%nat ->
  let a := nth k (nth i (values rs) []) 0 in let b := nth k (nth (S i) (values rs) []) 0 in
  let v := nth k (interp rs t) 0 in
  (a <= b -> a <= v /\ v <= b) /\ (b <= a -> b <= v /\ v <= a).
Proof. exact interp_component_between. Qed.
Print Assumptions C19_no_overshoot.

(* the past is final (HistoryCont.v): whatever operations follow - accepted updates, refused updates, queries - a query
   before the last record present now is answered as it would be answered now; no monotonicity or shape hypothesis.
   Together with C19_refines this holds of the implementation model on every script with increasing update times. *)
Theorem C19_past_is_final : forall a ops t, recs a <> [] -> t < last (times (recs a)) 0 ->
  interp (recs (fst (arun a ops))) t = interp (recs a) t.
Proof. exact past_is_final. Qed.
Print Assumptions C19_past_is_final.

Theorem C19_append_keeps_past : forall rs ext t, rs <> [] -> t < last (times rs) 0 -> interp (rs ++ ext) t = interp rs t.
Proof. exact interp_past_stable. Qed.
Print Assumptions C19_append_keeps_past.

(* non-vacuity: a script that crosses two growth events (capacity 1 -> 2 -> 4), queries between records,
   satisfies the hypothesis and produces the interpolated value 5/2 at t = 3/2 *)
Example C19_nonvacuous :
  let ops := [Update (mkq 1 1) [mkq 2 1] []; Update (mkq 2 1) [mkq 3 1] [[mkq 9 1]]; Update (mkq 4 1) [mkq 7 1] [];
              Query (mkq 3 2); Query (mkq 3 1)] in
  incr (mkq 0 1 :: update_times ops) /\
  snd (run (init [mkq 1 1] (mkq 0 1) 1 true [[mkq 5 1]]) ops) =
    [ODone; ODone; ODone; OVal [mkq 5 2]; OVal [mkq 5 1]].
Proof. split; [apply incrb_incr; vm_compute; reflexivity | vm_compute; reflexivity]. Qed.
Print Assumptions C19_nonvacuous.
