(* C02 — all backends (NumPy 'default', PyTorch, JAX, Fortran) compute the same function for the same model.
   Statements only; every proof is `exact <lemma of BackendsProofs / BackendInterpProofs>`. *)
From Coq Require Import List ZArith QArith Qcanon Bool Arith.
From PV Require Import History Backends BackendsProofs BackendInterp BackendInterpProofs.
Import ListNotations.

(* ------------------------------------------------------------------------------------------------ (i) index hooks *)
(* a rendered scalar index denotes element i whatever the index base *)
Theorem C02_render_idx_commutes : forall base i, lang_elem base (render_idx base i) = i.
Proof. exact render_idx_commutes. Qed.
Print Assumptions C02_render_idx_commutes.

(* the rendered range denotes the elements a .. b-1 for base 0 (a:b half-open) and base 1 (a+1:b closed), all a, b *)
Theorem C02_render_range_commutes : forall base a b, (base <= 1)%nat ->
  lang_range base (fst (render_range base a b)) (snd (render_range base a b)) = seq a (b - a).
Proof. exact render_range_commutes. Qed.
Print Assumptions C02_render_range_commutes.

Theorem C02_range_base0_base1 : forall a b,
  lang_range 0 (fst (render_range 0 a b)) (snd (render_range 0 a b)) =
  lang_range 1 (fst (render_range 1 a b)) (snd (render_range 1 a b)).
Proof. exact range_base0_base1. Qed.
Print Assumptions C02_range_base0_base1.

(* emitting a:b unchanged for a 1-based language denotes other elements for every non-empty range *)
Theorem C02_range_without_offset_differs : forall a b, (a < b)%nat -> lang_range 1 a b <> seq a (b - a).
Proof. exact range_without_offset_differs. Qed.
Print Assumptions C02_range_without_offset_differs.

(* the mixin's "a:b" string path (parse with start 0, then format) is the tuple rule  [audit: a restatement of the definition, n + 0 = n] *)
Theorem C02_str_range : forall start a b, process_str_range start a b = render_range start a b.
Proof. exact process_str_range_ok. Qed.
Print Assumptions C02_str_range.

(* _offsetted_var_ids: any sequence of _process_idx calls shifts a ComputeVar exactly once *)
Theorem C02_shift_once : forall start v calls id,
  vals (process_vars start (fresh_state v) calls) id = (v id + (if memb id calls then start else 0))%Z.
Proof. exact process_vars_once. Qed.
Print Assumptions C02_shift_once.

(* Fortran cshift with the negated shift is numpy roll, for every list and every (also negative, also > length) k *)
Theorem C02_cshift_neg_roll : forall (A : Type) (v : list A) (k : Z), fortran_roll v k = roll v k.
Proof. exact @cshift_neg_roll. Qed.
Print Assumptions C02_cshift_neg_roll.

Theorem C02_roll_moves_elements : forall (A : Type) (v : list A) (k : Z) (i : nat) d, (i < length v)%nat ->
  nth (zmodn (Z.of_nat i + k) (length v)) (roll v k) d = nth i v d.
Proof. exact @roll_nth. Qed.
Print Assumptions C02_roll_moves_elements.

(* ------------------------------------------------------------------------------------------------ (ii) interp *)
Open Scope Qc_scope.
(* what the specification is: clamp outside the grid, the straight line between neighbouring grid points *)
Theorem C02_interp_spec_left : forall xs ys q, length xs = length ys -> xs <> [] -> q <= nth 0 xs 0 ->
  interp_np xs ys q = nth 0 ys 0.
Proof. exact interp_np_left. Qed.
Print Assumptions C02_interp_spec_left.

Theorem C02_interp_spec_right : forall xs ys q, length xs = length ys -> xs <> [] -> increasing xs ->
  nth (length xs - 1) xs 0 <= q -> interp_np xs ys q = nth (length xs - 1) ys 0.
Proof. exact interp_np_right. Qed.
Print Assumptions C02_interp_spec_right.

Theorem C02_interp_spec_between : forall xs ys q i, length xs = length ys -> increasing xs -> (S i < length xs)%nat ->
  nth i xs 0 <= q -> q < nth (S i) xs 0 ->
  interp_np xs ys q = lerp1 (nth i xs 0) (nth i ys 0) (nth (S i) xs 0) (nth (S i) ys 0) q.
Proof. exact interp_np_between. Qed.
Print Assumptions C02_interp_spec_between.

(* the torch helper as coded now (searchsorted / clamp form): every strictly increasing grid with >= 2 points, every query *)
Theorem C02_interp_torch_full : forall xs ys q, increasing xs -> length xs = length ys -> (2 <= length xs)%nat ->
  interp_torch xs ys q = interp_np xs ys q.
Proof. exact interp_torch_eq_np. Qed.
Print Assumptions C02_interp_torch_full.

(* the Fortran helper as coded now (first interval / search loop / last interval) *)
Theorem C02_interp_fortran_full : forall xs ys q, increasing xs -> length xs = length ys -> (1 <= length xs)%nat ->
  interp_fortran xs ys q = interp_np xs ys q.
Proof. exact interp_fortran_eq_np. Qed.
Print Assumptions C02_interp_fortran_full.

(* interp_rows = column-wise interp = interpolation of whole rows *)
Theorem C02_interp_rows_columnwise : forall q xs m k, (k < ncols m)%nat ->
  nth k (interp_rows q xs m) 0 = interp_np xs (column k m) q.
Proof. exact interp_rows_nth. Qed.
Print Assumptions C02_interp_rows_columnwise.

Theorem C02_interp_rows_full : forall q xs m w, rect w m -> length xs = length m -> m <> [] ->
  interp_rows q xs m = interp_rows_spec q xs m.
Proof. exact interp_rows_eq_spec. Qed.
Print Assumptions C02_interp_rows_full.

(* ------------------------------------------------------------------------------------------------ (iii) solvers *)
(* lax.scan outer/inner structure = the Python loop with its `i % store_step == 0` cadence: generic in the update
   function and the state type, any number of steps, any store_step >= 1, any start of the step counter *)
Theorem C02_jax_scan_eq_loop : forall (St : Type) (upd : Z -> St -> St) steps ss t0 y0, (1 <= ss)%nat ->
  base_solve upd steps ss t0 y0 = jax_solve upd (cdiv steps ss) ss t0 y0.
Proof. exact @jax_eq_base. Qed.
Print Assumptions C02_jax_scan_eq_loop.

Theorem C02_jax_scan_eq_loop_multiple : forall (St : Type) (upd : Z -> St -> St) store_steps ss t0 y0, (1 <= ss)%nat ->
  base_solve upd (store_steps * ss) ss t0 y0 = jax_solve upd store_steps ss t0 y0.
Proof. exact @jax_eq_base_multiple. Qed.
Print Assumptions C02_jax_scan_eq_loop_multiple.

(* both are "row k = state after k*store_step updates" *)
Theorem C02_loop_rows : forall (St : Type) (upd : Z -> St -> St) steps ss t0 y0, (1 <= ss)%nat ->
  base_solve upd steps ss t0 y0 = spec_rows upd ss (cdiv steps ss) t0 y0.
Proof. exact @base_solve_spec. Qed.
Print Assumptions C02_loop_rows.

(* Heun.  Full-strength statement (false: D16): *)
Definition C02_heun_full_statement : Prop := forall (f : rhs) dt steps ss t0 y0, (1 <= ss)%nat ->
  base_solve (heun_base_upd false f dt) steps ss t0 y0 = jax_solve (heun_jax_upd f dt) (cdiv steps ss) ss t0 y0.

Theorem C02_heun_partial : forall (f : rhs) dt steps ss t0 y0, (1 <= ss)%nat -> autonomous f ->
  base_solve (heun_base_upd false f dt) steps ss t0 y0 = jax_solve (heun_jax_upd f dt) (cdiv steps ss) ss t0 y0.
Proof. exact heun_jax_eq_base_autonomous. Qed.
Print Assumptions C02_heun_partial.

(* `run` on a linear system with an extrinsic input: every backend computes explicit Euler / Heun on the model (hence all
   backends agree) under the decidable guard heun_time_free (jax + heun needs a system without time-dependent input) *)
Definition C02_run_full_statement : Prop := forall b sv s dt steps ss y0, (1 <= ss)%nat ->
  run_impl b sv s dt steps ss y0 = run_spec sv s dt steps ss y0.

Theorem C02_run_partial : forall b sv s dt steps ss y0, (1 <= ss)%nat -> heun_time_free b sv s = true ->
  run_impl b sv s dt steps ss y0 = run_spec sv s dt steps ss y0.
Proof. exact run_impl_eq_spec. Qed.
Print Assumptions C02_run_partial.

Theorem C02_run_backends_agree : forall b1 b2 sv s dt steps ss y0, (1 <= ss)%nat ->
  heun_time_free b1 sv s = true -> heun_time_free b2 sv s = true ->
  run_impl b1 sv s dt steps ss y0 = run_impl b2 sv s dt steps ss y0.
Proof. exact run_backends_agree. Qed.
Print Assumptions C02_run_backends_agree.

(* D16: jax evaluates the Heun corrector at t+1.  Witness x' = u(t), u_k = (k+1)^2 *)
Theorem C02_heun_corrector_time_refuted :
  heun_time_free BJax Heun witness_time = false /\
  run_impl BJax Heun witness_time 1 2 1 [Q2Qc 0] <> run_spec Heun witness_time 1 2 1 [Q2Qc 0] /\
  run_impl BJax Heun witness_time 1 2 1 [Q2Qc 0] <> run_impl BDefault Heun witness_time 1 2 1 [Q2Qc 0].
Proof. exact heun_corrector_time_differs. Qed.
Print Assumptions C02_heun_corrector_time_refuted.

(* D36 (repaired by fix_D36): the loop that kept the shared dy buffer as first slope was not Heun, even for x' = x *)
Theorem C02_heun_alias_refuted :
  time_free witness_alias = true /\
  run_impl_preD36 witness_alias 1 2 1 [Q2Qc 1] <> run_spec Heun witness_alias 1 2 1 [Q2Qc 1].
Proof. exact heun_alias_differs. Qed.
Print Assumptions C02_heun_alias_refuted.

(* ------------------------------------------------------------------------------------------------ (iv) vectorized helpers *)
(* wsum(W, c(broadcast_pre(src), broadcast_post(tgt))) = for every target unit i: sum_j W[i][j] * c(src_j, tgt_i);
   any coupling function, any matrix and vector sizes *)
Theorem C02_wsum_broadcast_full : forall c W pre post, coupling_input c W pre post = coupling_spec c W pre post.
Proof. exact coupling_input_eq_spec. Qed.
Print Assumptions C02_wsum_broadcast_full.

(* in-place `dy[lo:hi] = e` on a stale buffer and jax's functional `dy = dy.at[lo:hi].set(e)` on a fresh one return the same
   array whenever the slices tile the state vector: the old content of dy never matters *)
Theorem C02_inplace_eq_functional : forall us dy1 dy2, consecutive 0 us -> total_len us = length dy1 -> length dy1 = length dy2 ->
  snd (inplace_call dy1 us) = snd (functional_call dy2 us) /\ snd (inplace_call dy1 us) = concat (map snd us).
Proof. exact conventions_agree. Qed.
Print Assumptions C02_inplace_eq_functional.

(* the roll-based delay buffer updated in place (buf[:] = roll(buf, 1); buf[0] = x; read buf[d]) is a delay of d calls *)
Theorem C02_ring_inplace_full : forall d xs buf, (d < length buf)%nat -> ring_run_inplace d buf xs = ring_spec d buf xs.
Proof. exact ring_inplace_is_delay. Qed.
Print Assumptions C02_ring_inplace_full.

(* the same update on an immutable argument that is not threaded into the next call is NOT a delay (why JaxBackend refuses
   the discrete-delay path: SUPPORTS_EDGE_DELAY_BUFFER = False) *)
Theorem C02_ring_unthreaded_refuted :
  ring_run_unthreaded 1 [Q2Qc 0; Q2Qc 0] [Q2Qc 1; Q2Qc 2; Q2Qc 3] <> ring_run_inplace 1 [Q2Qc 0; Q2Qc 0] [Q2Qc 1; Q2Qc 2; Q2Qc 3].
Proof. exact ring_unthreaded_differs. Qed.
Print Assumptions C02_ring_unthreaded_refuted.

(* population circuits (matvec and coupling-template connections): Euler rows on every backend = the weighted-sum model *)
Theorem C02_pop_run_full : forall b s dt steps ss y0, (1 <= ss)%nat ->
  pop_run_impl b s dt steps ss y0 = pop_run_spec s dt steps ss y0.
Proof. exact pop_run_eq_spec. Qed.
Print Assumptions C02_pop_run_full.

(* user-level roll(x, n) equations with any (also negative) literal shifts: every backend's rendering gives the numpy result *)
Theorem C02_roll_net_full : forall b a k g n1 n2 n3 x z,
  roll_net_deriv (roll_of b) a k g n1 n2 n3 x z = roll_net_deriv roll a k g n1 n2 n3 x z.
Proof. exact roll_net_backend_independent. Qed.
Print Assumptions C02_roll_net_full.

(* ------------------------------------------------------------------------------------------------ (v) sigmoid *)
(* the algebraic part: 1/(1+exp(-x)) (base def, Fortran helper text, numpy stand-ins of torch/jax) equals the logistic form
   exp(x)/(1+exp(x)) (torch.sigmoid, jax.nn.sigmoid) for ANY function E with E(-x)*E(x) = 1; value 1/2 at 0 *)
Theorem C02_sigmoid_forms : forall (E : Qc -> Qc) x, E (- x) * E x = 1 -> 1 + E x <> 0 -> 1 + E (- x) <> 0 ->
  sigmoid_base E x = sigmoid_logistic E x.
Proof. exact sigmoid_forms. Qed.
Print Assumptions C02_sigmoid_forms.

Theorem C02_sigmoid_symmetry : forall (E : Qc -> Qc) x, E (- x) * E x = 1 -> 1 + E x <> 0 -> 1 + E (- x) <> 0 ->
  sigmoid_base E (- x) = 1 - sigmoid_base E x.
Proof. exact sigmoid_symmetry. Qed.
Print Assumptions C02_sigmoid_symmetry.

Theorem C02_sigmoid_at_0 : forall (E : Qc -> Qc), E 0 = 1 -> sigmoid_base E 0 = Q2Qc (1 # 2).
Proof. exact sigmoid_at_0. Qed.
Print Assumptions C02_sigmoid_at_0.

(* [audit: restates the definition of sigmoid_fortran_vec; the Fortran helper text itself is tied by the tolerance stream only] *)
Theorem C02_sigmoid_fortran_elementwise : forall (E : Qc -> Qc) xs, sigmoid_fortran_vec E xs = map (sigmoid_base E) xs.
Proof. exact sigmoid_fortran_elementwise. Qed.
Print Assumptions C02_sigmoid_fortran_elementwise.

(* ------------------------------------------------------------------------------------------------ (vi) named constants *)
(* NOTE (audit): C02_pi_full and C02_pi_partial below only restate the model's constant table (closed by computation): that `pi` / `E`
   are the same float64 on every REAL backend is decided by the correspondence stream `consts` (bit-for-bit comparison) and by the revert
   tests of D108 / D111, not by a theorem.  They are kept as consistency records of the switch fixed_fortran_pi = true. *)
Definition C02_pi_full_statement : Prop := forall b, backend_pi b = pi_f64.

Theorem C02_pi_full : forall b, backend_pi b = pi_f64.
Proof. exact backend_pi_full. Qed.
Print Assumptions C02_pi_full.

Theorem C02_pi_partial : forall b, fortran_pi_free b true = true -> backend_pi b = pi_f64.
Proof. exact backend_pi_partial. Qed.
Print Assumptions C02_pi_partial.

(* before fix D108: stated over the explicit switch argument `false` (a real computation, not a hypothesis about the switch) *)
Theorem C02_pi_fortran_refuted_before_fix : backend_pi_gen false BFortran = pi_f32 /\ backend_pi_gen false BFortran <> pi_f64.
Proof. exact backend_pi_fortran_before_fix. Qed.
Print Assumptions C02_pi_fortran_refuted_before_fix.

(* ------------------------------------------------------------------------------------------------ (vii) step-count cadence *)
(* int(np.round(dts/dt)) on the exact quotient: a sampling step m*dt means m updates per stored row, for every step size (decimal or not);
   the code rounds the FLOAT quotient, which agrees with this whenever |float error| < 1/2 - the stream records any disagreement *)
Theorem C02_cadence_multiple : forall (dt : Qc) (m : Z), dt <> Q2Qc 0 -> round_half_even ((Q2Qc (inject_Z m) * dt) / dt)%Qc = m.
Proof. exact cadence_multiple. Qed.
Print Assumptions C02_cadence_multiple.

(* ------------------------------------------------------------------------------------------------ non-vacuity *)
(* a grid with uneven spacing, a query inside, outside and on a grid point: all three helpers give 5/2, 1, 7, 3;
   a time-free 2x2 linear system satisfies the guard and all four backends give the same three Heun rows *)
Example C02_nonvacuous :
  let xs := [mkq 0 1; mkq 1 1; mkq 3 1; mkq 4 1] in let ys := [mkq 1 1; mkq 3 1; mkq 2 1; mkq 7 1] in
  increasing xs /\
  map (interp_torch xs ys) [mkq 2 1; mkq (-1) 1; mkq 9 2; mkq 1 1] = [mkq 5 2; mkq 1 1; mkq 7 1; mkq 3 1] /\
  map (interp_fortran xs ys) [mkq 2 1; mkq (-1) 1; mkq 9 2; mkq 1 1] = [mkq 5 2; mkq 1 1; mkq 7 1; mkq 3 1] /\
  let s := {| mat := [[mkq (-1) 2; mkq 1 1]; [mkq 1 4; mkq 0 1]]; inw := [mkq 0 1; mkq 0 1]; usamp := [mkq 1 1; mkq 4 1] |} in
  heun_time_free BJax Heun s = true /\
  run_impl BJax Heun s (mkq 1 2) 5 2 [mkq 1 1; mkq 2 1] = run_impl BFortran Heun s (mkq 1 2) 5 2 [mkq 1 1; mkq 2 1] /\
  length (run_impl BJax Heun s (mkq 1 2) 5 2 [mkq 1 1; mkq 2 1]) = 3%nat /\
  fortran_roll [1; 2; 3; 4; 5]%nat 2 = [4; 5; 1; 2; 3]%nat.
Proof.
  cbv zeta. split; [apply increasingb_ok; vm_compute; reflexivity|].
  split; [vm_compute; reflexivity|]. split; [vm_compute; reflexivity|]. split; [vm_compute; reflexivity|].
  split; [vm_compute; reflexivity|]. split; vm_compute; reflexivity.
Qed.
Print Assumptions C02_nonvacuous.
