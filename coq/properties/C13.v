(* C13 — results do not depend on what the process did before (process-global caches).
   Statements only; every general proof is `exact <lemma of CachesProofs>`, every refutation a computed witness
   (the same witnesses are replayed on the real code: corpus/C13). *)
From Coq Require Import List String ZArith QArith Qcanon Bool Arith.
From PV Require Import Caches CachesProofs.
Import ListNotations.
Open Scope string_scope.

(* ---------------------------------------------------------------- the pool of the correspondence run *)
Definition E2 : expr := Add (Mul VK (Mul VX VX)) (Neg VR).
Definition N (l o : string) (e : expr) (k : Qc) (ov : option Qc) : mnode :=
  {| m_label := l; m_op := o; m_eq := e; m_kdef := k; m_over := ov |}.
Definition MD (ns : list mnode) (es : list (string * string * Qc)) : model := {| m_nodes := ns; m_edges := es |}.
Definition M0 := MD [N "A" "op" E1 (mkq 2 1) None] [].
Definition M1 := MD [N "A" "op" E2 (mkq 2 1) None] [].                       (* same operator name, another equation *)
Definition M2 := MD [N "A" "op" E1 (mkq 3 1) None] [].                       (* same operator name, another default *)
Definition M3 := MD [N "A" "oq" E1 (mkq 2 1) None; N "B" "oq" E1 (mkq 2 1) None] [("A", "B", mkq 2 1)].
Definition M4 := MD [N "A" "op" E1 (mkq 2 1) None; N "B" "op" E1 (mkq 2 1) (Some (mkq 3 1))] [("A", "B", mkq 2 1)].
Definition M5 := MD [N "A" "op" E1 (mkq 2 1) None; N "B" "op" E1 (mkq 2 1) None; N "C" "op" E1 (mkq 2 1) (Some (mkq 1 2))]
                    [("A", "B", mkq 2 1); ("B", "C", mkq 1 2); ("A", "C", mkq 3 2)].
Definition M7 := MD [N "A" "op" E1 (mkq 2 1) None; N "B" "op" E2 (mkq 3 1) None] [("A", "B", mkq 2 1)].
Definition M7' := MD [N "A" "op" E1 (mkq 2 1) None; N "B" "op" E1 (mkq 2 1) None] [("A", "B", mkq 2 1)].

(* ---------------------------------------------------------------- the full statement (false: see the refutations) *)
Definition C13_full_statement : Prop :=
  (forall h m vec, obs_of (run_hist h G0) m vec = obs_of G0 m vec) /\ (forall h, obs_of_yaml (run_hist h G0) = obs_of_yaml G0) /\
  (forall h m file, obs_of_fortran (run_hist h G0) m file = obs_of_fortran G0 m file).

(* ---------------------------------------------------------------- history independence under the computed guard
   READING GUIDE.  C13_partial / _frontend / _yaml / _fortran are FRAME lemmas: the guard CachesClean says `proj g = proj G0` (the caches
   a compilation reads are as in a fresh process), and the conclusion is that the compilation then behaves as in a fresh process.  The
   statements that carry content are: WHICH histories reach such a state (C13_disciplined: induction over the history), WHAT each API
   call does to each cache for every state (the reset theorems C13_clear_resets ... C13_cfc_resets_only, C13_compile_clear_resets,
   the frame theorems, C13_ext_mods_persist), C13_module_cache_harmless (invariant over all histories), C13_op_cache_key_fixed and
   C13_from_yaml_fixed (all models / all cache states), and the computed refutations.  Not in the model (covered by the fresh-
   interpreter streams of harness/c13.py only): parser._sympify_cache, ExpressionParser._constant_counter, the jax-side state. *)
(* for every history of API calls (any length, any models) after which the caches a compilation reads are as in a fresh
   process, every model compiles to the observable it has in a fresh process *)
Theorem C13_partial : forall h m vec, CachesClean h = true -> obs_of (run_hist h G0) m vec = obs_of G0 m vec.
Proof. exact partial_compile. Qed.
Print Assumptions C13_partial.

(* default-backend compilations read the frontend caches only (either value of the switch) *)
Theorem C13_partial_frontend : forall fx h m vec, frontend_clean (run_hist_with fx h G0) = true ->
  obs_of (run_hist_with fx h G0) m vec = obs_of G0 m vec.
Proof. exact partial_compile_frontend. Qed.
Print Assumptions C13_partial_frontend.

(* templates loaded from YAML additionally need an unmutated template cache *)
Theorem C13_partial_yaml : forall h, Compatible h = true -> obs_of_yaml (run_hist h G0) = obs_of_yaml G0.
Proof. exact partial_yaml. Qed.
Print Assumptions C13_partial_yaml.

(* the Fortran backend: the guard is  fixed_D29 || FortranClean  (fixed_D29 = the switch for the repair D96, fixes/fix_D96.diff:
   the extension module is named per generated source; true since /repo 8faa606, so the guard is trivially true and FortranClean is gone).
   NOTE, before D96 (switch false) history independence additionally needed that no extension module was imported before (never reset:
   see C13_ext_mods_persist). *)
Theorem C13_partial_fortran : forall h m file, CachesClean h = true -> (fixed_D29 || FortranClean h) = true ->
  obs_of_fortran (run_hist h G0) m file = obs_of_fortran G0 m file.
Proof. exact partial_fortran. Qed.
Print Assumptions C13_partial_fortran.

(* the two halves, for ANY state g and either value of the switch *)
Theorem C13_partial_fortran_before_fix : forall g m file, caches_clean g = true -> fortran_clean g = true ->
  obs_of_fortran_k false g m file = obs_of_fortran_k false G0 m file.
Proof. exact partial_fortran_before_fix. Qed.
Print Assumptions C13_partial_fortran_before_fix.

(* WITH the repair: no FortranClean, and not even the table of Python modules (D19): the frontend caches alone *)
Theorem C13_partial_fortran_fixed : forall g m file, frontend_clean g = true ->
  obs_of_fortran_k true g m file = obs_of_fortran_k true G0 m file.
Proof. exact partial_fortran_fixed. Qed.
Print Assumptions C13_partial_fortran_fixed.

(* the guard is exactly  proj g = proj G0 *)
Theorem C13_guard_is_projection : forall g, clean g = true <-> proj g = proj G0.
Proof. exact clean_proj. Qed.
Print Assumptions C13_guard_is_projection.

(* a syntactic sufficient condition: every compilation asks for clear=True and succeeds, every update_var on a cached
   template is followed by a call that drops the template cache *)
Theorem C13_disciplined : forall h, disciplined false h = true -> no_compile_error h G0 = true -> Compatible h = true.
Proof. exact disciplined_compatible. Qed.
Print Assumptions C13_disciplined.

(* ---------------------------------------------------------------- reset points (for ANY state g; fx = the switch fixed_clear) *)
Theorem C13_clear_resets : forall fx g h ob, handle g h = Some ob -> has_ir g ob = true ->
  frontend_clean (fst (step_with fx g (MClear h))) = true /\
  sys_py (mods (fst (step_with fx g (MClear h)))) = remove_s (file_of g ob) (sys_py (mods g)) /\
  template_cache (fst (step_with fx g (MClear h))) = template_cache g /\ snd (step_with fx g (MClear h)) = OAck.
Proof. exact clear_resets. Qed.
Print Assumptions C13_clear_resets.

(* NOTE, before the fix D78 (fixes/fix_D78.diff, in /repo since 5e21e90): circuit.clear() on a circuit without IR raised and reset nothing *)
Theorem C13_clear_without_ir_before_fix : forall g h, (forall ob, handle g h = Some ob -> has_ir g ob = false) ->
  step_with false g (MClear h) = (g, OErr "AttributeError").
Proof. exact clear_without_ir_before_fix. Qed.
Print Assumptions C13_clear_without_ir_before_fix.

Theorem C13_clear_without_ir_fixed : forall g h, (forall ob, handle g h = Some ob -> has_ir g ob = false) ->
  step_with true g (MClear h) = (clear_frontend g, OAck).
Proof. exact clear_without_ir_fixed. Qed.
Print Assumptions C13_clear_without_ir_fixed.

Theorem C13_uclear_resets : forall fx g h ob, handle g h = Some ob -> has_ir g ob = true ->
  frontend_clean (fst (step_with fx g (UClear h))) = true /\ template_cache (fst (step_with fx g (UClear h))) = None.
Proof. exact uclear_resets. Qed.
Print Assumptions C13_uclear_resets.

(* NOTE, before D78: pyrates.clear(c) on a circuit without IR was only clear_frontend_caches() *)
Theorem C13_uclear_without_ir_before_fix : forall g h, (forall ob, handle g h = Some ob -> has_ir g ob = false) ->
  fst (step_with false g (UClear h)) = cfc_with false true true g.
Proof. exact uclear_without_ir_before_fix. Qed.
Print Assumptions C13_uclear_without_ir_before_fix.

(* since D78 (the code as it is now, fixed_clear = true): pyrates.clear(c) resets every frontend cache whatever the circuit holds *)
Theorem C13_uclear_fixed : forall g h,
  frontend_clean (fst (step_with true g (UClear h))) = true /\ template_cache (fst (step_with true g (UClear h))) = None.
Proof. exact uclear_fixed. Qed.
Print Assumptions C13_uclear_fixed.

(* before D78 (fx = false) clear_frontend_caches left in_edge_indices, in_edge_vars, input_labels whatever the flags; now (fx = true) ic resets them *)
Theorem C13_cfc_resets_only : forall fx g tc ic,
  proj (fst (step_with fx g (CFC tc ic))) =
  {| p_opc := if ic then [] else op_cache g; p_nodec := if ic then [] else node_cache g;
     p_labels := if ic then [] else node_labels g;
     p_iei := if fx && ic then [] else in_edge_indices g; p_iev := if fx && ic then [] else in_edge_vars g;
     p_inl := if fx && ic then [] else input_labels g; p_py := sys_py (mods g);
     p_tmut := if tc then None else p_tmut (proj g) |}.
Proof. exact cfc_resets_only. Qed.
Print Assumptions C13_cfc_resets_only.

Theorem C13_compile_clear_resets : forall fx g m vec inpl, sys_py (mods g) = [] ->
  (forall c, snd (step_with fx g (Compile m vec true inpl)) <> OErr c) ->
  caches_clean (fst (step_with fx g (Compile m vec true inpl))) = true.
Proof. exact compile_clear_resets. Qed.
Print Assumptions C13_compile_clear_resets.

(* ---------------------------------------------------------------- frame *)
Theorem C13_compile_frame : forall fx g m vec clr inpl,
  let g' := fst (step_with fx g (Compile m vec clr inpl)) in
  template_cache g' = template_cache g /\ handles g' = (handles g ++ [nobj g])%list /\ nobj g' = S (nobj g) /\
  ext_mods (mods g') = ext_mods (mods g).
Proof. exact compile_frame. Qed.
Print Assumptions C13_compile_frame.

Theorem C13_clear_steps_only_empty : forall fx g o, (exists h, o = MClear h) \/ (exists h, o = UClear h) \/ (exists tc ic, o = CFC tc ic) ->
  let g' := fst (step_with fx g o) in
  same_or_nil (op_cache g') (op_cache g) /\ same_or_nil (node_cache g') (node_cache g) /\
  same_or_nil (node_labels g') (node_labels g) /\ same_or_nil (in_edge_indices g') (in_edge_indices g) /\
  same_or_nil (in_edge_vars g') (in_edge_vars g) /\ same_or_nil (input_labels g') (input_labels g) /\
  (template_cache g' = template_cache g \/ template_cache g' = None) /\ module_cache g' = module_cache g /\
  ext_mods (mods g') = ext_mods (mods g).
Proof. exact clear_steps_only_empty. Qed.
Print Assumptions C13_clear_steps_only_empty.

(* no API call ever removes or replaces an entry of the table of imported extension modules (D29 is not cured by clearing) *)
Theorem C13_ext_mods_persist : forall fx g o f s,
  lookup String.eqb f (ext_mods (mods g)) = Some s -> lookup String.eqb f (ext_mods (mods (fst (step_with fx g o)))) = Some s.
Proof. exact ext_mods_persist. Qed.
Print Assumptions C13_ext_mods_persist.

(* ---------------------------------------------------------------- the module cache keyed by the full source is harmless *)
Theorem C13_module_cache_harmless : forall fx h s, mc_fetch (module_cache (run_hist_with fx h G0)) s = s.
Proof. intros fx h s. exact (mc_fetch_ok _ s (reachable_mc_ok fx h)). Qed.
Print Assumptions C13_module_cache_harmless.

(* ---------------------------------------------------------------- refutations of the full statement: one per cache that leaks *)
(* M2 (same operator name as M0, default k=3) after an uncleared non-vectorized M0 (k=2).  HISTORICAL NAME: before D90 (operator
   cache keyed by NAME) this witness showed M2 compiled with k=2.  Since D90 (fixed_op_cache_key = true) the k values and dy agree on
   both sides (k=3, dy=-3/4) and ONLY the argument names differ (A_num1/...: the node_labels leak of the uncleared compilation) - see
   C13_same_name_after_uncleared_only_labels below.  The value leak of the name-keyed cache is recorded, for the old switch value, in
   C13_refuted_op_cache_by_name_before_fix. *)
Theorem C13_refuted_op_cache_by_name : exists h m vec, obs_of (run_hist h G0) m vec <> obs_of G0 m vec.
Proof. exists [Compile M0 false false false], M2, false. apply obs_neq. vm_compute. reflexivity. Qed.
Print Assumptions C13_refuted_op_cache_by_name.

(* what that witness shows today: same k values, same dy, other names *)
Definition only_names_differ (a b : obs) : bool :=
  match a, b with
  | OOk n k s d, OOk n' k' s' d' => list_eqb (list_eqb Qc_eqb) k k' && list_eqb Qc_eqb d d' && negb (list_eqb String.eqb n n')
  | _, _ => false
  end.
Theorem C13_same_name_after_uncleared_only_labels :
  fixed_op_cache_key = true ->
  only_names_differ (obs_of (run_hist [Compile M0 false false false] G0) M2 false) (obs_of G0 M2 false) = true.
Proof. intros _. vm_compute. reflexivity. Qed.
Print Assumptions C13_same_name_after_uncleared_only_labels.

(* node_cache: a vectorized M4 (2 nodes) after an uncleared vectorized M0 has 3 units *)
Theorem C13_refuted_node_cache_leak : exists h m,
  obs_of (run_hist h G0) m true <> obs_of G0 m true /\
  (exists a b c d a' b' c' d', obs_of (run_hist h G0) m true = OOk a b c d /\ obs_of G0 m true = OOk a' b' c' d' /\
     List.length d = 3%nat /\ List.length d' = 2%nat).
Proof.
  exists [Compile M0 true false false], M4. split; [apply obs_neq; vm_compute; reflexivity|].
  vm_compute. repeat eexists.
Qed.
Print Assumptions C13_refuted_node_cache_leak.

(* node_labels: no shared operator name; the second circuit's node A is called A_num1 *)
Theorem C13_refuted_label_leak : exists h m a b c d,
  obs_of (run_hist h G0) m false = OOk a b c d /\ hd "" a = "A_num1/op/k" /\ obs_of (run_hist h G0) m false <> obs_of G0 m false.
Proof.
  exists [Compile M3 false false false], M0. vm_compute. do 4 eexists. split; [reflexivity|]. split; [reflexivity|].
  apply obs_neq. vm_compute. reflexivity.
Qed.
Print Assumptions C13_refuted_label_leak.

(* NOTE, before D78: clear_frontend_caches() alone left in_edge_indices (in-edge operator called in_edge_1); the same history is clean now *)
Theorem C13_refuted_cfc_leaves_in_edge_indices_before_fix : exists h m, caches_clean (run_hist_with false h G0) = false /\
  obs_of (run_hist_with false h G0) m false <> obs_of G0 m false /\ frontend_clean (run_hist_with true h G0) = true.
Proof.
  exists [Compile M4 false false false; CFC true true], M4. split; [vm_compute; reflexivity|].
  split; [apply obs_neq; vm_compute; reflexivity|vm_compute; reflexivity].
Qed.
Print Assumptions C13_refuted_cfc_leaves_in_edge_indices_before_fix.

(* NOTE, before D78: pyrates.clear(circuit) on a circuit that holds no IR (here: compiled with clear=True) was only clear_frontend_caches() *)
Theorem C13_refuted_uclear_without_ir_before_fix : exists h m,
  obs_of (run_hist_with false h G0) m false <> obs_of G0 m false /\ frontend_clean (run_hist_with true h G0) = true.
Proof.
  exists [Compile M4 true true false; Compile M4 false false false; UClear 0], M5.
  split; [apply obs_neq; vm_compute; reflexivity|vm_compute; reflexivity].
Qed.
Print Assumptions C13_refuted_uclear_without_ir_before_fix.

(* D29 (before the repair D96; stated with the explicit switch value, so it holds whatever fixed_D29 is): after a cleared Fortran
   compilation of M0 under the file name m every cache a compilation reads is clean, yet a Fortran compilation of M1 under the same
   file name gets M0's compiled routine; with the repair the same sequence gives M1 its own routine *)
Theorem C13_refuted_fortran_module_reuse_before_fix :
  let g := fst (fstep_k false G0 M0 "m" true) in
  clean g = true /\ fortran_clean g = false /\
  obs_of_fortran_k false g M1 "m" <> obs_of_fortran_k false G0 M1 "m" /\
  obs_eqb (obs_of_fortran_k false g M1 "m") (obs_of_fortran_k false G0 M0 "m") = true.
Proof. cbv zeta. repeat split; try (vm_compute; reflexivity). apply obs_neq. vm_compute. reflexivity. Qed.
Print Assumptions C13_refuted_fortran_module_reuse_before_fix.

Theorem C13_fortran_module_reuse_fixed :
  let g := fst (fstep_k true G0 M0 "m" true) in
  fortran_clean g = false /\ obs_eqb (obs_of_fortran_k true g M1 "m") (obs_of_fortran_k true G0 M1 "m") = true.
Proof. vm_compute. split; reflexivity. Qed.
Print Assumptions C13_fortran_module_reuse_fixed.

(* D19 (before D96): a Fortran compilation after an uncleared default-backend one under the same file name raises ImportError;
   with the repair it compiles *)
Theorem C13_refuted_py_then_fortran_err_before_fix : exists h m file,
  obs_of_fortran_k false (run_hist h G0) m file = OErr "ImportError" /\ is_err (obs_of_fortran_k true (run_hist h G0) m file) = false.
Proof. exists [Compile M0 false false false], M1, "m". vm_compute. split; reflexivity. Qed.
Print Assumptions C13_refuted_py_then_fortran_err_before_fix.

(* D28: from_yaml(p).update_var(...) mutates the cached template; circuit.clear()/clear=True do not cure it.
   RECORD ONLY: this conditional is vacuous while fixed_yaml_copy = true (its hypothesis is false, the proof takes the `discriminate`
   branch and the witness is not type-checked); the checked statements are the two theorems below, over an explicit switch argument. *)
Theorem C13_refuted_template_cache_mutation : fixed_yaml_copy = false ->
  exists h, CachesClean h = true /\ obs_of_yaml (run_hist h G0) <> obs_of_yaml G0.
Proof.
  intros H.
  first [ cbv in H; discriminate H
        | exists [YUpd (mkq 5 1); YLoad true]; split; [vm_compute; reflexivity|]; apply obs_neq; vm_compute; reflexivity ].
Qed.
Print Assumptions C13_refuted_template_cache_mutation.

(* D28 over an EXPLICIT switch argument (both proofs are computed, whatever the switches are).
   yupd_state_k yc v g = the state after from_yaml(p).update_var({A/op/k: v}) in state g; yload_obs_k yc g = the observable of
   from_yaml(p).get_run_func(...) in state g; with the current switch they are what step computes (C13_yaml_k_is_step). *)
Definition yupd_state_k (yc : bool) (v : Qc) (g : G) : G :=
  let '(g1, e) := from_yaml_k yc g in set_template (Some {| tc_obj := tc_obj e; tc_kA := if yc then None else Some v |}) g1.
Definition yload_obs_k (yc : bool) (g : G) : obs :=
  let '(g1, e) := from_yaml_k yc g in snd (compile_obj (push_handle (tc_obj e) g1) (tc_obj e) (ymodel (tc_kA e)) false false).

Theorem C13_yaml_k_is_step : forall fx g v,
  fst (step_with fx g (YUpd v)) = yupd_state_k fixed_yaml_copy v g /\ obs_of_yaml g = yload_obs_k fixed_yaml_copy g.
Proof.
  intros. unfold yupd_state_k, yload_obs_k, obs_of_yaml. cbn [step_with]. unfold from_yaml, mutated.
  destruct (from_yaml_k fixed_yaml_copy g). split; reflexivity.
Qed.
Print Assumptions C13_yaml_k_is_step.

(* BEFORE D91 (yc = false): every cache a compilation reads is clean after the update_var, yet a later from_yaml(p) compiles the
   mutated circuit (k_A = 5 instead of 2) *)
Theorem C13_refuted_template_cache_mutation_before_fix :
  let g := yupd_state_k false (mkq 5 1) G0 in
  caches_clean g = true /\ yload_obs_k false g <> yload_obs_k false G0.
Proof. cbv zeta. split; [vm_compute; reflexivity|]. apply obs_neq. vm_compute. reflexivity. Qed.
Print Assumptions C13_refuted_template_cache_mutation_before_fix.

(* SINCE D91 (yc = true): the same sequence compiles the circuit as it is on disk *)
Theorem C13_template_cache_mutation_fixed :
  obs_eqb (yload_obs_k true (yupd_state_k true (mkq 5 1) G0)) (yload_obs_k true G0) = true.
Proof. vm_compute. reflexivity. Qed.
Print Assumptions C13_template_cache_mutation_fixed.

(* the same on from_yaml itself, for either value of the switch: before the repair a cache that holds a mutated circuit hands it
   out; since D91 (fixes/fix_D91.diff) NO state of the cache makes from_yaml hand out a mutated circuit *)
Theorem C13_from_yaml_before_fix : exists g, tc_kA (snd (from_yaml_k false g)) <> None.
Proof. exists (set_template (Some {| tc_obj := 0%nat; tc_kA := Some (mkq 5 1) |}) G0). cbn. discriminate. Qed.
Print Assumptions C13_from_yaml_before_fix.

Theorem C13_from_yaml_fixed : forall g, tc_kA (snd (from_yaml_k true g)) = None.
Proof. intros g. unfold from_yaml_k. destruct (template_cache g); reflexivity. Qed.
Print Assumptions C13_from_yaml_fixed.

(* D26/D9, stated on the IR nodes that phase 1 builds (either value of the switch fixed_op_cache_key):
   BEFORE the repair (name-keyed cache) two different operator templates named `op` in ONE circuit (M7): the second node gets the
   first one's equation; and a second circuit's operator `op` (M1: equation E2) gets the equation E1 a previous circuit left *)
Theorem C13_refuted_op_cache_by_name_before_fix :
  map n_eq (phase1_k false [] M7) = [E1; E1] /\ map m_eq (m_nodes M7) = [E1; E2] /\
  map n_eq (phase1_k false [("op", (E1, mkq 2 1))] M1) = [E1] /\ map m_eq (m_nodes M1) = [E2].
Proof. vm_compute. repeat split; reflexivity. Qed.
Print Assumptions C13_refuted_op_cache_by_name_before_fix.

(* SINCE D90 (fixes/fix_D90.diff), with the structural key: for ALL models and ALL cache contents every IR node carries its own
   operator's equation and its own default (or node-level) value *)
Theorem C13_op_cache_key_fixed : forall opc m, map (fun c => (n_eq c, n_units c)) (phase1_k true opc m) = map own_def (m_nodes m).
Proof. exact op_cache_key_fixed. Qed.
Print Assumptions C13_op_cache_key_fixed.

(* a vectorized compilation that inherits a node from an uncleared NON-vectorized one raises KeyError *)
Theorem C13_refuted_crash : exists h m, obs_of (run_hist h G0) m true = OErr "KeyError".
Proof. exists [Compile M4 false false false], M0. vm_compute. reflexivity. Qed.
Print Assumptions C13_refuted_crash.

(* input_labels (compilations with extrinsic inputs): written by CompileIn, reset by circuit.clear() and by
   clear_frontend_caches(clear_ir_cache=True) (since D78), NOT by clear_frontend_caches(clear_ir_cache=False) *)
Example C13_input_labels :
  input_labels (run_hist_with true [CompileIn M0 false false false] G0) <> [] /\
  frontend_clean (run_hist_with true [CompileIn M0 false false false; CFC false true] G0) = true /\
  input_labels (run_hist_with true [CompileIn M0 false false false; CFC true false] G0) <> [] /\
  input_labels (run_hist_with false [CompileIn M0 false false false; CFC true true] G0) <> [] /\
  frontend_clean (run_hist_with true [CompileIn M0 false false false; CompileIn M3 true false true; MClear 1] G0) = true.
Proof. vm_compute. repeat split; try reflexivity; discriminate. Qed.
Print Assumptions C13_input_labels.

Theorem C13_refuted : ~ C13_full_statement.
Proof.
  (* rests on a difference of VALUES that exists in the code as it is: the node_cache leak (state dimension 3 instead of 2) *)
  intros [H _]. destruct C13_refuted_node_cache_leak as (h & m & K & _). apply K. apply H.
Qed.
Print Assumptions C13_refuted.

(* ---------------------------------------------------------------- non-vacuity *)
(* a history with uncleared compilations, a crash, an update_var on the cached template, followed by the clears that repair
   it, satisfies the guard; a disciplined history satisfies the syntactic condition *)
Example C13_nonvacuous :
  Compatible [Compile M0 false false false; Compile M4 true false true; YUpd (mkq 5 1); Run M5 false false false;
              MClear 2; CFC true false] = true /\
  CachesClean [Compile M4 false false false; CFC true true] = false /\
  (disciplined false [Compile M5 true true false; YLoad true; Run M1 false true true; Jac M4 true true false; FCompile M2 "m" true; MClear 0] = true /\
   no_compile_error [Compile M5 true true false; YLoad true; Run M1 false true true; Jac M4 true true false; FCompile M2 "m" true; MClear 0] G0 = true) /\
  obs_eqb (obs_of G0 M4 false)
          (OOk ["A/op/k"; "A/op/r"; "B/op/k"; "B/in_edge_0/weight"] [[mkq 2 1]; [mkq 3 1]]
               [("A/op/x", 0%nat, 1%nat); ("B/op/x", 1%nat, 2%nat)] [mkq (-1) 2; mkq (-1) 1]) = true.
Proof. vm_compute. repeat split; reflexivity. Qed.
Print Assumptions C13_nonvacuous.
