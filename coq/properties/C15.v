(* C15 — YAML, Python and inherited definitions of a model are equivalent; equation edits change exactly the
   whole-identifier occurrences.  Statements only; every proof is `exact <lemma of ReplaceProofs / YamlProofs>`. *)
From Coq Require Import List Ascii String Bool Arith ZArith.
From PV Require Import Replace ReplaceProofs Yaml YamlProofs.
From PV Require PyLib ReplaceEquiv.
Notation la := PyLib.la.
Notation sla := PyLib.sla.
From PVG Require Gen_replace.
Import ListNotations.

(* ===================== (a) equation edits ===================== *)

(* For EVERY equation string, every delimiter predicate, every non-empty term free of delimiters (an identifier)
   and every replacement: the find-driven loop of parser.replace (accumulator eq_new, the cut string, the
   remembered previous character; as repaired by fix D11) terminates and returns the word-wise substitution:
   the equation is split into delimiter characters and maximal delimiter-free runs (`words`), and exactly the
   words that ARE the term are replaced.  A part of a longer identifier is never a word. *)
Theorem C15_replace_full : forall isd term rep, term <> [] -> nodelim isd term = true ->
  forall eq, replace isd term rep eq = Some (List.concat (map (fun w => if str_eqb w term then rep else w) (words isd eq))).
Proof. exact replace_full. Qed.
Print Assumptions C15_replace_full.

(* E2: the same statement about the Gallina text that harness/py2v.py regenerates from the CURRENT source of
   pyrates.backend.parser.replace on every run (coq/gen/Gen_replace.v; Python strings, find/slicing with Python's rules,
   the while loop on fuel).  ReplaceEquiv.gen_replace_equiv (owner: C18/auto builder) shows that text equal to the hand
   model on every input; transported along it, the word-wise specification is a theorem about what the code says now:
   for all Python strings eq, term, rep with term a non-empty identifier, replace(eq, term, rep) returns the equation
   with exactly the words that are the term substituted. *)
Theorem C15_replace_full_generated : forall eq term rep : string, la term <> [] -> nodelim is_delim (la term) = true ->
  Gen_replace.replace eq term rep false false = Some (sla (replace_words is_delim (la term) (la rep) (la eq))).
Proof.
  intros eq term rep Hne Hnd.
  rewrite <- (string_of_list_ascii_of_string eq), <- (string_of_list_ascii_of_string term), <- (string_of_list_ascii_of_string rep) at 1.
  change string_of_list_ascii with sla. change list_ascii_of_string with la.
  rewrite ReplaceEquiv.gen_replace_equiv. fold (replace is_delim (la term) (la rep) (la eq)). now rewrite (replace_full is_delim (la term) (la rep) Hne Hnd).
Qed.
Print Assumptions C15_replace_full_generated.

(* the intermediate refinement steps: accumulator form = suffix form = one left-to-right scan *)
Theorem C15_loop_is_scan : forall isd term rep, term <> [] -> nodelim isd term = true ->
  forall fuel prev s, List.length s < fuel -> loop isd term rep fuel prev s = Some (scan isd term rep (pd_of isd prev) 0 s).
Proof. exact loop_is_scan. Qed.
Print Assumptions C15_loop_is_scan.

Theorem C15_accumulator_is_suffix : forall isd term rep, term <> [] -> nodelim isd term = true ->
  forall fuel acc prev seen s, loopA isd term rep false false fuel acc prev seen s = option_map (app acc) (loop isd term rep fuel prev s).
Proof. exact loopA_loop. Qed.
Print Assumptions C15_accumulator_is_suffix.

(* what `words` is: a partition of the string into single delimiters and non-empty delimiter-free runs *)
Theorem C15_words_partition : forall isd s, List.concat (words isd s) = s /\ Forall (word_shape isd) (words isd s).
Proof. intros isd s. split; [apply words_concat|apply words_shape]. Qed.
Print Assumptions C15_words_partition.

(* an equation in which the term is not a word is returned unchanged (rr, r_in, m_in2 are untouched by r / in) *)
Theorem C15_other_identifiers_untouched : forall isd term rep s, ~ In term (words isd s) -> replace_words isd term rep s = s.
Proof. exact replace_words_untouched. Qed.
Print Assumptions C15_other_identifiers_untouched.

(* rhs_only / lhs_only (as repaired by fix D52: seen_eq is carried across the cuts).  For EVERY equation string, every
   non-empty delimiter-free term, every replacement and every flag setting, the loop returns the SIDED word-wise
   substitution: the equation is split into words; a word that is the term is replaced iff
     rhs_only: it lies to the right of the first "=" of the ORIGINAL string,   lhs_only: it lies to its left,
     both flags or none: always.
   Before D52 this was false ('=' was searched only in the piece since the previous occurrence:
   replace('a = r + r','r','X',rhs_only=True) = 'a = X + r'); the old witnesses are regression cases in corpus/C15. *)
Theorem C15_flags_full : forall isd term rep, term <> [] -> nodelim isd term = true -> isd "="%char = true ->
  forall rhs lhs eq, replace_flags isd term rep rhs lhs eq = Some (replace_words_sided isd term rep rhs lhs eq).
Proof. exact replace_flags_full. Qed.
Print Assumptions C15_flags_full.

(* the same about the text regenerated from the current source (E2), with the code's own delimiter set *)
Theorem C15_flags_full_generated : forall (eq term rep : string) (rhs lhs : bool), la term <> [] -> nodelim is_delim (la term) = true ->
  Gen_replace.replace eq term rep rhs lhs = Some (sla (replace_words_sided is_delim (la term) (la rep) rhs lhs (la eq))).
Proof.
  intros eq term rep rhs lhs Hne Hnd.
  rewrite <- (string_of_list_ascii_of_string eq), <- (string_of_list_ascii_of_string term), <- (string_of_list_ascii_of_string rep) at 1.
  change string_of_list_ascii with sla. change list_ascii_of_string with la.
  rewrite ReplaceEquiv.gen_replace_equiv. now rewrite (replace_flags_full is_delim (la term) (la rep) Hne Hnd eq_refl).
Qed.
Print Assumptions C15_flags_full_generated.

Theorem C15_both_flags_is_none : forall isd term rep eq, replace_flags isd term rep true true eq = replace isd term rep eq.
Proof. exact replace_both_flags. Qed.
Print Assumptions C15_both_flags_is_none.

(* The READER's notion of identifier: `x' = -x/tau` is the differential equation of x, so an identifier also ends at the
   derivative mark ' (is_delim_spec).  Since fix D100 the code's set allowed_follow_ops contains ' (switch
   Replace.fixed_prime = true); before it, replace("x' = -x/tau", "x", "z") kept the primed left-hand side.  The statement
   holds for either value of the switch: on equations without the mark — or with the repaired set, i.e. now on EVERY
   equation — the loop returns the sided word-wise substitution for the reader's identifiers. *)
Theorem C15_replace_reader : forall term rep, term <> [] -> nodelim is_delim_spec term = true ->
  forall rhs lhs eq, (fixed_prime = true \/ prime_free eq = true) ->
  replace_flags is_delim term rep rhs lhs eq = Some (replace_words_sided is_delim_spec term rep rhs lhs eq).
Proof. exact (replace_flags_reader fixed_prime). Qed.
Print Assumptions C15_replace_reader.
(* headline on the current tree: no guard left *)
Theorem C15_replace_reader_now : forall term rep, term <> [] -> nodelim is_delim_spec term = true ->
  forall rhs lhs eq, replace_flags is_delim term rep rhs lhs eq = Some (replace_words_sided is_delim_spec term rep rhs lhs eq).
Proof. intros term rep Hne Hnd rhs lhs eq. apply (replace_flags_reader fixed_prime term rep Hne Hnd). left. reflexivity. Qed.
Print Assumptions C15_replace_reader_now.
(* before fix D100 the guard was needed (regression case corpus/C15/primed_lhs.json; reverting D100 is reported) *)
Theorem C15_primed_lhs_before_fix : exists eq, prime_free eq = false /\
  replace (is_delim_gen false) (L "x"%string) (L "z"%string) eq <> Some (replace_words is_delim_spec (L "x"%string) (L "z"%string) eq).
Proof. exact replace_prime_before_fix. Qed.
Print Assumptions C15_primed_lhs_before_fix.

(* _update_equation(replace, remove, append, prepend): the sequential composition of word-wise substitutions *)
Theorem C15_update_equation_full : forall isd e eq, edit_ok isd e = true ->
  update_equation isd e eq = Some (update_equation_spec isd e eq).
Proof. exact update_equation_full. Qed.
Print Assumptions C15_update_equation_full.

(* ===================== (c) inheritance: update_template of an operator ===================== *)

(* a derived template equals its base except on the overridden keys (the last entry of a key wins), restricted to
   the variables whose name occurs (as a substring — this is what the code tests) in some equation of the result *)
Theorem C15_inheritance_variables : forall V isd beqs bvars u vupd eqs vars k,
  update_op V isd beqs bvars u vupd = Some (eqs, vars) ->
  lookup V k vars = if used eqs k then (match lookup V k (rev vupd) with Some v => Some v | None => lookup V k bvars end) else None.
Proof. exact update_op_vars. Qed.
Print Assumptions C15_inheritance_variables.

Theorem C15_inheritance_equations : forall V isd beqs bvars e add vupd, edit_ok isd e = true ->
  option_map fst (update_op V isd beqs bvars (EqEdit e add) vupd) = Some (map (update_equation_spec isd e) beqs ++ add).
Proof. exact update_op_equations_edit. Qed.
Print Assumptions C15_inheritance_equations.

(* identical arguments give identical derived templates: k derivations from one base with the SAME edit dictionary object.
   Before fix D99 update_template popped `add` out of the caller's dictionary (switch Replace.fixed_D99, now true; regression
   case corpus/C15/D99_edit_dict_reused.json).  For either value of the switch, under the guard "repaired — i.e. now always —
   or the dictionary has no `add`, or is used once" *)
Theorem C15_edit_dict_reuse : forall V isd k beqs bvars u vupd, (fixed_D99 = true \/ reuse_guard k u = true) ->
  derive_reusing V isd k beqs bvars u vupd = derive_spec V isd k beqs bvars u vupd.
Proof. intros V isd. exact (derive_reusing_ok V isd fixed_D99). Qed.
Print Assumptions C15_edit_dict_reuse.
Theorem C15_edit_dict_reuse_now : forall V isd k beqs bvars u vupd,
  derive_reusing V isd k beqs bvars u vupd = derive_spec V isd k beqs bvars u vupd.
Proof. intros. apply (derive_reusing_ok V isd fixed_D99). left. reflexivity. Qed.
Print Assumptions C15_edit_dict_reuse_now.
Theorem C15_edit_dict_before_fix : exists beqs u,
  derive_reusing_gen str is_delim false 2 beqs [] u [] <> derive_spec str is_delim 2 beqs [] u [].
Proof. exact derive_before_fix. Qed.
Print Assumptions C15_edit_dict_before_fix.

(* ===================== (b) to_yaml / from_yaml ===================== *)

(* Full statement: for every circuit, dumping and loading again does not change the denotation. *)
Definition C15_load_dump_full_statement : Prop := forall c, dicts_wf c = true -> load_dump_statement c.

(* It holds for every circuit (any number of sub-circuits, nodes, operators, edges, edge templates; hierarchy
   depth 0 and 1) inside the guard WFy, which since fix D67 is just no_rename: all templates of one name are written as
   one and the same dict (Yaml.v: WFy := no_rename; before D67/D53 it also demanded unique dict keys and overrides on
   constants only).  NOTE the finding C15-D10c-rename is attributed with the WEAKER guard no_critical_rename (only a renamed
   operator or edge template matters); circuits with no_rename = false and no_critical_rename = true (only node / circuit
   templates renamed) are outside this theorem and covered by two computed witnesses (C15_between_guards) and by the
   correspondence runs only. *)
Theorem C15_load_dump_partial : forall c, WFy c = true -> option_map denote (roundtrip c) = Some (denote c).
Proof. exact load_dump. Qed.
Print Assumptions C15_load_dump_partial.

(* the mechanism behind it: under no_rename the written store contains every template under its own name *)
Theorem C15_dump_pure : forall c, no_rename c = true -> exists st, dump c = (c_name c, st) /\ holds st (circ_entries c).
Proof. exact dump_pure. Qed.
Print Assumptions C15_dump_pure.

(* the guard is needed (computed witness: two different operator templates of one name; the same circuit fails on the
   real code, corpus/C15/D10c_two_operators_one_name.json) *)
Theorem C15_load_dump_refuted_rename : exists c, dicts_wf c = true /\ no_rename c = false /\ no_critical_rename c = false /\ ~ load_dump_statement c.
Proof. exact load_dump_refuted_rename. Qed.
Print Assumptions C15_load_dump_refuted_rename.
Theorem C15_between_guards :
  (no_rename w_rename = false /\ no_critical_rename w_rename = true /\ roundtrip_ok w_rename = true) /\
  (no_rename w_three = false /\ no_critical_rename w_three = true /\ roundtrip_ok w_three = true).
Proof. exact load_dump_between_guards. Qed.
Print Assumptions C15_between_guards.
Theorem C15_shared_operator_variants_roundtrip :
  roundtrip_ok w_rename = true /\ roundtrip_ok w_three = true.
Proof. exact load_dump_shared_operator_variants. Qed.
Print Assumptions C15_shared_operator_variants_roundtrip.

(* DEFINITIONAL / generic: a fact about mapM for any loader f; it does not mention `resolve`.  Note that mdenote, the Spec of
   the YAML frontend, is defined THROUGH the model loader mload_circ (Spec and Impl coincide there); what ties it to the code
   is the mfile stream: from_yaml's result against mdenote and against the same model built with the Python classes.
   Template sets spread over several files (the functions mload_circ, mload_flat, mload_node, mload_op of Yaml.v): the template loaded for a node / sub-circuit key depends on the
   file of the referencing template and on ITS OWN reference only — a bare name is looked up in the referencing file whatever
   the neighbouring references point to (seed C15-m5 breaks exactly this) *)
Theorem C15_references_pointwise : forall A (f : ref -> option A) l l', mload_keyed f l = Some l' ->
  Forall2 (fun kr kx => fst kr = fst kx /\ f (snd kr) = Some (snd kx)) l l'.
Proof. exact @mload_keyed_pointwise. Qed.
Print Assumptions C15_references_pointwise.

(* DEFINITIONAL (reflexivity on a two-constructor definition; no mechanism is modelled — the refusal itself is tied to the
   code by the `pop` stream and the D116 revert test only).  Population / Connectivity circuits: there is no YAML representation.  Since fix D116 to_yaml refuses them, so the round
   trip never yields a silently different circuit; before the fix the population was written as one plain node *)
Theorem C15_populations_refused : pop_spec_ok (dump_populations fixed_populations_refused) = true.
Proof. reflexivity. Qed.
Print Assumptions C15_populations_refused.
Theorem C15_populations_before_fix : pop_spec_ok (dump_populations false) = false.
Proof. reflexivity. Qed.
Print Assumptions C15_populations_before_fix.

(* non-vacuity: a two-level circuit with a shared operator, the same override on every node, an edge template with
   an override and a top-level edge satisfies WFy, round-trips, and has 4 nodes; the replace theorem's hypotheses
   hold for the identifier r_in and the real delimiter set, on an equation containing r, rr, r_in and m_in2 *)
Example C15_nonvacuous :
  (WFy w_ok = true /\ roundtrip_ok w_ok = true /\ List.length (fst (denote w_ok)) = 4) /\
  (L "r_in" <> [] /\ nodelim is_delim (L "r_in"%string) = true /\
   replace is_delim (L "r"%string) (L "X"%string) (L "d/dt * r = rr*r_in + m_in2 - r"%string) = Some (L "d/dt * X = rr*r_in + m_in2 - X"%string)).
Proof. split; [exact load_dump_nonvacuous|]. repeat split; try discriminate; vm_compute; reflexivity. Qed.
Print Assumptions C15_nonvacuous.
