(* C15 — YAML, Python and inherited definitions of a model are equivalent; equation edits change exactly the
   whole-identifier occurrences.  Statements only; every proof is `exact <lemma>`. *)
From Coq Require Import List Ascii String Bool Arith ZArith.
From PV Require Import Replace ReplaceProofs Yaml YamlProofs.
Import ListNotations.

Theorem C15_replace_full : forall isd term rep, term <> [] -> nodelim isd term = true ->
  forall eq, replace isd term rep eq = Some (replace_words isd term rep eq).
Proof. exact replace_full. Qed.
Print Assumptions C15_replace_full.
