(* C08 — extrinsic inputs are applied at the right time to the right unit.
   Statements only; every proof is `exact <lemma of InputsProofs>`.
   Model: Inputs.v (`run_inputs`, `vf_adaptive` = _add_input + create_input_node + _add_input_node composed with the
   solver loops of Solver.v), Interp.v (numpy interp / linspace).  Spec: `spec_value`/`spec_u`/`spec_run_inputs`. *)
From Coq Require Import List ZArith QArith Qcanon Bool Arith.
From PV Require Import History Solver SolverProofs Interp Inputs InputsProofs InputsConv.
Import ListNotations.
Local Open Scope nat_scope.

(* Headline (since fix D89 removed the loud class D30 no guard about the hierarchy is needed): for every network of
   integrators with weighted edges, both fixed-step solvers, any declared default of the input variable and every list of
   inputs in a form the property speaks about (1-D, (N,1), or (N,n) with n = #targets under vectorization; arrays at
   least as long as the number of steps; target lists without repetition), run() returns the trajectory driven by
   spec_u (arrays with at least two time samples: see C08_refuted_single_sample), for any number of steps, any sampling step and any cutoff (the arrays are read with the step counter k, the
   stored rows are C03's).  rows_fit / frame_ok are C03's conditions on (T, dt, dts). *)
(* SCOPE (independent review, DESIGN.md section 12): target lists are PRE-RESOLVED lists of unit numbers -- wildcard and
   hierarchy selection is outside this model; the `depth` argument is not used by run_inputs_core and there is no backend
   parameter: the hierarchy (depth 0-3) and the backends' own loops (default, torch, jax) are decided by the
   correspondence stream of harness/c08.py, not by this theorem. *)
Theorem C08_full : forall s vectorize depth T dt dts cutoff udef W inputs x0,
  let d := match dts with Some d => d | None => dt end in
  multi_sample inputs = true ->
  forallb (input_ok vectorize (rnd (T / dt))) inputs = true -> rows_fit T dt d = true -> frame_ok T d = true ->
  run_inputs s vectorize depth T dt dts cutoff udef W inputs x0 = Rows (spec_run_inputs s T dt dts cutoff udef W inputs x0).
Proof. exact run_inputs_full. Qed.
Print Assumptions C08_full.

(* DEFINITIONAL (closed by reflexivity: the model ignores `depth`); kept as a record of that modelling decision, it
   says nothing about PyRates' hierarchy handling *)
Theorem C08_depth_irrelevant : forall s vectorize depth T dt dts cutoff udef W inputs x0,
  run_inputs s vectorize depth T dt dts cutoff udef W inputs x0 = run_inputs s vectorize 0 T dt dts cutoff udef W inputs x0.
Proof. exact run_inputs_depth_irrelevant. Qed.
Print Assumptions C08_depth_irrelevant.

(* its pointwise core: every accepted input, every unit, every step below the number of steps *)
Theorem C08_delivered_spec : forall vectorize steps inp i k, input_ok vectorize steps inp = true -> k < steps ->
  delivered (fun a s => sample_fixed a k s) inp i = Some (spec_value inp i k).
Proof. exact delivered_spec. Qed.
Print Assumptions C08_delivered_spec.

Theorem C08_forcing_spec : forall vectorize steps inputs i k, forallb (input_ok vectorize steps) inputs = true -> k < steps ->
  forcing (fun a s => sample_fixed a k s) inputs i = Some (spec_u inputs i k).
Proof. exact forcing_spec. Qed.
Print Assumptions C08_forcing_spec.

(* -------- shape rule: (N,1) behaves like (N,) -------- *)
Theorem C08_shape_rule : forall l, l <> [] -> normalise (A2 (map (fun v => [v]) l)) = A1 l.
Proof. exact shape_rule. Qed.
Print Assumptions C08_shape_rule.

Theorem C08_shape_rule_delivered : forall sample l tg i, l <> [] ->
  delivered sample (A2 (map (fun v => [v]) l), tg) i = delivered sample (A1 l, tg) i.
Proof. exact delivered_shape. Qed.
Print Assumptions C08_shape_rule_delivered.

(* -------- wiring rule -------- *)
Theorem C08_wiring_columns : forall a tg, ncols a = length tg -> 1 < ncols a ->
  wiring a tg = combine tg (map Col (seq 0 (length tg))).
Proof. exact wiring_columns. Qed.
Print Assumptions C08_wiring_columns.

Theorem C08_wiring_broadcast : forall a tg, ncols a <> length tg \/ ncols a <= 1 ->
  wiring a tg = map (fun t => (t, Whole)) tg.
Proof. exact wiring_broadcast. Qed.
Print Assumptions C08_wiring_broadcast.

(* -------- right unit, right sample: what one input delivers to unit i in step k -------- *)
(* 1-D: inp[k] to every addressed unit, nothing to the others *)
Theorem C08_delivered_1d : forall l tg i k, NoDupb tg = true -> k < length l ->
  delivered (fun a s => sample_fixed a k s) (A1 l, tg) i = Some (spec_value (A1 l, tg) i k).
Proof. exact delivered_1d. Qed.
Print Assumptions C08_delivered_1d.

Theorem C08_delivered_column : forall l tg i k, l <> [] -> NoDupb tg = true -> k < length l ->
  delivered (fun a s => sample_fixed a k s) (A2 (map (fun v => [v]) l), tg) i = Some (spec_value (A1 l, tg) i k).
Proof. exact delivered_column. Qed.
Print Assumptions C08_delivered_column.

(* (N,n) to n > 1 targets: the p-th target (get_nodes order) gets inp[k][p] *)
Theorem C08_delivered_2d : forall r tg i k, length (hd [] r) = length tg -> 1 < length tg -> NoDupb tg = true -> k < length r ->
  delivered (fun a s => sample_fixed a k s) (A2 r, tg) i = Some (spec_value (A2 r, tg) i k).
Proof. exact delivered_2d. Qed.
Print Assumptions C08_delivered_2d.

(* several inputs on one variable add (edges are added in net_rhs/spec_rhs by the same dot product) *)
Theorem C08_inputs_add : forall sample inp inputs i,
  forcing sample (inp :: inputs) i = oadd (delivered sample inp i) (forcing sample inputs i).
Proof. exact forcing_cons. Qed.
Print Assumptions C08_inputs_add.

(* default rule: the declared default of the input variable is used by exactly the units without any source.
   DEFINITIONAL: `base` is shared by Impl (net_rhs) and Spec (spec_rhs), these two statements unfold it; the default rule
   is tied to the code by the correspondence stream (non-zero defaults, C08-m4), not proved of a separate mechanism *)
Theorem C08_default_uncovered : forall udef W inputs i, covered W inputs i = false -> base udef W inputs i = udef.
Proof. exact base_uncovered. Qed.
Print Assumptions C08_default_uncovered.
Theorem C08_default_replaced : forall udef W inp inputs i, In inp inputs -> In i (snd inp) -> base udef W inputs i = 0%Qc.
Proof. intros udef W inp inputs i H1 H2. apply base_covered. exact (covered_by_input W inp inputs i H1 H2). Qed.
Print Assumptions C08_default_replaced.

(* -------- right time -------- *)
Theorem C08_input_at_step_euler : forall udef W inputs dt k x,
  fst (euler_step (net_rhs udef W inputs) dt tt k x) = vadd x (vscale dt (fst (net_rhs udef W inputs tt k x))).
Proof. exact input_at_step_euler. Qed.
Print Assumptions C08_input_at_step_euler.

(* both Heun stages read sample k *)
Theorem C08_input_at_step_heun : forall udef W inputs dt k x,
  fst (heun_step (net_rhs udef W inputs) dt tt k x) =
  let r1 := fst (net_rhs udef W inputs tt k x) in
  vadd x (vscale (dt / Q2Qc 2)%Qc (vadd r1 (fst (net_rhs udef W inputs tt k (vadd x (vscale dt r1)))))).
Proof. exact input_at_step_heun. Qed.
Print Assumptions C08_input_at_step_heun.

(* step number j of the loop passes j (+ t0) as time argument: C03_step_time; composition with x' = u *)
Theorem C08_euler_integrator : forall u dt x0 k,
  fst (traj (euler_step (integrator u) dt) 0 0 [x0] tt k) = [(x0 + dt * usum u k)%Qc].
Proof. exact euler_integrator. Qed.
Print Assumptions C08_euler_integrator.

Theorem C08_heun_integrator : forall u dt x0 k,
  fst (traj (heun_step (integrator u) dt) 0 0 [x0] tt k) = [(x0 + dt * usum u k)%Qc].
Proof. exact heun_integrator. Qed.
Print Assumptions C08_heun_integrator.

(* -------- adaptive: numpy interp on linspace(0, T, N) -------- *)
Theorem C08_linspace_nth : forall a b n k, 2 <= n -> k < n ->
  nth k (linspace a b n) 0%Qc = (a + nq k * ((b - a) / nq (n - 1)))%Qc.
Proof. exact linspace_nth. Qed.
Print Assumptions C08_linspace_nth.

Theorem C08_interp_clamp_left : forall x xp fp x0 y0 rest, combine xp fp = (x0, y0) :: rest -> (x <= x0)%Qc -> interp_np x xp fp = y0.
Proof. exact interp_np_below. Qed.
Print Assumptions C08_interp_clamp_left.

Theorem C08_interp_clamp_right : forall x xp fp, length xp = length fp -> xp <> [] -> increasing xp -> (last xp 0 <= x)%Qc ->
  interp_np x xp fp = last fp 0%Qc.
Proof. exact interp_np_right. Qed.
Print Assumptions C08_interp_clamp_right.

Theorem C08_interp_between : forall x xp fp i, length xp = length fp -> increasing xp -> S i < length xp ->
  (nth i xp 0 <= x)%Qc -> (x < nth (S i) xp 0)%Qc -> (nth 0 xp 0 < x)%Qc ->
  interp_np x xp fp = lin (nth i xp 0%Qc) (nth i fp 0%Qc) (nth (S i) xp 0%Qc) (nth (S i) fp 0%Qc) x.
Proof. exact interp_np_between. Qed.
Print Assumptions C08_interp_between.

Theorem C08_interp_at_sample : forall xa ya xb yb, lin xa ya xb yb xa = ya.
Proof. exact lin_at_left. Qed.
Print Assumptions C08_interp_at_sample.

(* -------- the single-sample class -------- *)
(* One step, one sample (inside the contract): IndexError.  The compiled (1,) constant is squeezed to 0-d; (1,n) arrays
   fail likewise (IndexError / ValueError) except that with vectorization and n >= 10 target units the n columns are
   silently read as n time samples (Inputs.squeeze_single). *)
Theorem C08_refuted_single_sample :
  run_inputs Euler true 0 (mkq 1 4) (mkq 1 4) None (mkq 0 1) (mkq 0 1) [[mkq 0 1]] [(A1 [mkq 3 1], [0])] [mkq 1 2] = ErrIndex /\
  multi_sample [(A1 [mkq 3 1], [0])] = false /\
  inputs_guard true (mkq 1 4) (mkq 1 4) [(A1 [mkq 3 1], [0])] = true /\
  outcome_eqb (Rows (spec_run_inputs Euler (mkq 1 4) (mkq 1 4) None (mkq 0 1) (mkq 0 1) [[mkq 0 1]] [(A1 [mkq 3 1], [0])] [mkq 1 2]))
              (Rows [[mkq 0 1; mkq 1 2]]) = true.
Proof. exact refuted_single_sample. Qed.
Print Assumptions C08_refuted_single_sample.

(* -------- regression of fix D89 (was C08_refuted_depth2: AttributeError at hierarchy depth >= 2) -------- *)
(* a computed value of the model (which ignores the depth); the statement about depth 2 and 3 is made by the corpus cases
   corpus/C08/D89_depth2_fixed.json and D89_depth3_two_inputs.json on the real code *)
Theorem C08_depth2_after_D89 :
  outcome_eqb (run_inputs Euler true 2 (mkq 1 1) (mkq 1 4) None (mkq 0 1) (mkq 0 1) [[mkq 0 1]] [(A1 [mkq 1 1; mkq 2 1; mkq 4 1; mkq 8 1], [0])] [mkq 1 2])
              (Rows [[mkq 0 1; mkq 1 2]; [mkq 1 4; mkq 3 4]; [mkq 1 2; mkq 5 4]; [mkq 3 4; mkq 9 4]]) = true.
Proof. exact depth2_after_D89. Qed.
Print Assumptions C08_depth2_after_D89.

(* the adaptive path has two entry points with two conventions for the duration the N samples cover: get_run_func places them
   on linspace(0, N*step_size, N) (`vf_adaptive`), run() on linspace(0, simulation_time, N) (`vf_adaptive_run`, tied by the
   stubbed-integrator stream since seed C08-m8).  They are the same vector field whenever every (normalised) input array has
   N * step_size = simulation_time - one sample per step (InputsConv.v) *)
Theorem C08_adaptive_conventions_agree : forall dt T udef W inputs t x,
  (forall inp, In inp inputs -> (nq (alen (normalise (fst inp))) * dt)%Qc = T) ->
  vf_adaptive dt udef W inputs t x = vf_adaptive_run T udef W inputs t x.
Proof. exact adaptive_conventions_agree. Qed.
Print Assumptions C08_adaptive_conventions_agree.

(* non-vacuity: two units, a (4,2) array to both (columns), a 1-D array to unit 1 on top, an edge 0 -> 1; all guards hold
   and model and specification agree on the whole trajectory *)
Example C08_nonvacuous :
  let inputs := [(A2 [[mkq 1 1; mkq 10 1]; [mkq 2 1; mkq 20 1]; [mkq 4 1; mkq 40 1]; [mkq 8 1; mkq 80 1]], [0; 1]);
                 (A1 [mkq 1 1; mkq (-1) 1; mkq 3 1; mkq 5 1], [1])] in
  multi_sample inputs = true /\ inputs_guard true (mkq 1 1) (mkq 1 4) inputs = true /\
  outcome_eqb (run_inputs Heun true 3 (mkq 1 1) (mkq 1 4) None (mkq 0 1) (mkq 0 1) [[mkq 0 1; mkq 0 1]; [mkq 2 1; mkq 0 1]] inputs [mkq 1 2; mkq 1 1])
              (Rows (spec_run_inputs Heun (mkq 1 1) (mkq 1 4) None (mkq 0 1) (mkq 0 1) [[mkq 0 1; mkq 0 1]; [mkq 2 1; mkq 0 1]] inputs [mkq 1 2; mkq 1 1])) = true /\
  row_eqb (nth 1 (spec_run_inputs Heun (mkq 1 1) (mkq 1 4) None (mkq 0 1) (mkq 0 1) [[mkq 0 1; mkq 0 1]; [mkq 2 1; mkq 0 1]] inputs [mkq 1 2; mkq 1 1]) [])
          [mkq 1 4; mkq 3 4; mkq 65 16] = true.
Proof. repeat split; vm_compute; reflexivity. Qed.
Print Assumptions C08_nonvacuous.
