From Coq Require Import List ZArith QArith Qcanon Bool Arith.
From PV Require Import Vectorize VectorizeProofs.
Theorem C04_stub : True. Proof. exact placeholder_true. Qed.
Print Assumptions C04_stub.
