(* C04 — vectorization does not change the model (vectorize=True == vectorize=False == unit-level edge sum).
   Statements only; every proof is `exact <lemma of VectorizeProofs>`.  Model: theories/Vectorize.v.

   FULL STATEMENT — no guard beyond `wf` (all repairs D46, D57, D58, D59, D85, D86 are in /repo).  NOTE what `wf` excludes:
   `wf_cls` demands `poly_no_r g`, i.e. an algebraic source variable that depends on its own input — legal PyRates, and
   silently wrong when it projects into its own structural class (open finding D23) — is NOT a circuit of this model.
   MODEL FAMILY: scalar-weight edges without delays and without edge templates, one state variable per operator,
   polynomial right-hand sides; delays / edge templates named by the property text are not modelled here (C09/C11/C16).
     C04_full             forall c st, wf c = true -> length st = length (cnodes c) ->
                            impl true c st = Some (spec c st) /\ impl false c st = Some (spec c st)
     C04_impl_is_spec     forall vec c st, wf c = true -> impl vec c st = Some (spec c st)
   for any number of classes, units and edges, any order of nodes and edges, parallel edges, self-connections, weightless
   edges, several source variables per class pair, any defaults, constant right-hand sides, single-unit fan-out: the
   modelled vectorized and non-vectorized compilations both compute the vector field of the edge list, and never raise.
   Ingredients proved on the way: index bookkeeping of cache_func, alignment of the grouped edge lists (with its
   precondition, D46), both realisations of an edge projection equal to the edge sum, the branch condition, the combination
   of several inputs and the default rule (C04_partial), the scalar collapse, C04_sound (for any switch setting).
   Records of the mechanism before the repairs: `_before_D57`, `_before_D59` notes, C04_err_constant_rhs and
   C04_err_scalar_fanout (impl_loud = the model with the switches off raises where the old code raised; the repaired
   model agrees with the edge list on the same inputs), C04_full_refuted_before_D86.
   MULTI-OPERATOR NODE TYPES (a class = a list of operators with their own state, parameter, input, optional algebraic
   output, intra-node feeders; structural key = the list of operator structures, names and values not in it, multiplicity
   in it; cache_func's matching + rename-once step of D58): C04_multiop_full — mimpl vec c st = mspec c st for every
   well-formed multi-operator circuit, both modes; ingredients C04_rename_once_positional (the matching of operators of a
   merged node is the identity on positions when the structure lists are equal), C04_member_has_index (converse of the
   index map), and the SAME edge pipeline theorem (core_input) over flattened variables.
   Outside the model's type (still a finding, raw witness): D23, an algebraic source variable that depends on its own
   input. *)
From Coq Require Import List ZArith QArith Qcanon Bool Arith.
From PV Require Import Vectorize VectorizeProofs.
Import ListNotations.
Open Scope Qc_scope.

(* ---- cache_func / extend / append_values: index map ---- *)
Theorem C04_index_map_injective : forall ks vn rs n1 n2, cache_all [] ks 0 = (vn, rs) ->
  (n1 < length ks)%nat -> (n2 < length ks)%nat -> idx_of rs n1 = idx_of rs n2 -> n1 = n2.
Proof. exact index_map_injective. Qed.
Print Assumptions C04_index_map_injective.

Theorem C04_member_at_index : forall ks vn rs n, cache_all [] ks 0 = (vn, rs) -> (n < length ks)%nat ->
  (snd (idx_of rs n) < length (members vn (fst (idx_of rs n))))%nat /\
  nth (snd (idx_of rs n)) (members vn (fst (idx_of rs n))) 0%nat = n.
Proof. exact member_at_index. Qed.
Print Assumptions C04_member_at_index.

Theorem C04_ranges_unit : forall ks vn rs n, cache_all [] ks 0 = (vn, rs) -> (n < length ks)%nat ->
  snd (snd (nth n rs rng_default)) = S (fst (snd (nth n rs rng_default))).
Proof. exact ranges_unit. Qed.
Print Assumptions C04_ranges_unit.

(* ---- _group_edges: the three lists stay aligned; k-th entries = k-th edge of the group ---- *)
(* The alignment needs every edge to carry every grouped key: `group_edges_raw` is the fold as it was before fix D46
   (an edge without a 'weight' entry extends the index lists only); it keeps the lists aligned when every edge has a
   weight entry, and not otherwise.  The repaired code (`group_edges`, used by Impl) is that fold after
   edge_dict.setdefault('weight', 1.), which establishes the hypothesis. *)
Theorem C04_grouped_lists_aligned : forall ix es, (forall e, In e es -> ewo e <> None) ->
  Forall aligned (group_edges_raw ix es).
Proof. exact group_raw_aligned. Qed.
Print Assumptions C04_grouped_lists_aligned.

Theorem C04_setdefault_establishes_it : forall ix es, group_edges ix es = group_edges_raw ix (map set_default es).
Proof. exact group_edges_is_raw_after_setdefault. Qed.
Print Assumptions C04_setdefault_establishes_it.

Theorem C04_grouped_lists_aligned_repaired : forall ix es, Forall aligned (group_edges ix es).
Proof. exact group_edges_aligned. Qed.
Print Assumptions C04_grouped_lists_aligned_repaired.

Theorem C04_alignment_needs_weights : exists ix es, ~ Forall aligned (group_edges_raw ix es).
Proof. exact group_raw_unaligned_witness. Qed.
Print Assumptions C04_alignment_needs_weights.

Theorem C04_grouped_lists_content : forall ix es key,
  content (group_edges ix es) key = map (etriple ix) (filter (fun e => gkey_eqb (ekey ix e) key) es).
Proof. exact group_edges_content. Qed.
Print Assumptions C04_grouped_lists_content.

(* ---- _generate_edge_equation: both branches equal the edge sum ---- *)
Theorem C04_dot_is_edge_sum : forall tr sval u,
  lookup (contrib_dot tr sval) u = if mem u (targets tr) then Some (tsum tr sval u) else None.
Proof. exact dot_is_edge_sum. Qed.
Print Assumptions C04_dot_is_edge_sum.

Theorem C04_indexed_is_edge_sum : forall tr sval u, NoDup (targets tr) ->
  lookup (contrib_idx tr sval) u = if mem u (targets tr) then Some (tsum tr sval u) else None.
Proof. exact idx_is_edge_sum. Qed.
Print Assumptions C04_indexed_is_edge_sum.

Theorem C04_indexed_branch_condition : forall tsize ssize ti, dot_edge tsize ssize ti = false -> NoDup ti.
Proof. exact indexed_branch_condition. Qed.
Print Assumptions C04_indexed_branch_condition.

Theorem C04_branch_choice_preserves : forall f32 tsize ssize m sval a u, aligned_m m ->
  contrib f32 tsize ssize m sval = Some a ->
  lookup a u = if mem u (mt m) then Some (tsum (mtriples m) sval u) else None.
Proof. exact contrib_is_edge_sum. Qed.
Print Assumptions C04_branch_choice_preserves.

Theorem C04_indexed_with_duplicates_refuted : exists tr sval u,
  lookup (contrib_idx tr sval) u <> Some (tsum tr sval u) /\ lookup (contrib_dot tr sval) u = Some (tsum tr sval u).
Proof. exact idx_with_duplicates_refuted. Qed.
Print Assumptions C04_indexed_with_duplicates_refuted.

(* ---- several source vector nodes + default: the input of one target unit (composition of the above; no guard since D57) ---- *)
Theorem C04_partial : forall f32 tsize ssize sval ml cs rdef u, Forall aligned_m ml ->
  all_some (map (fun m => contrib f32 tsize (ssize m) m (sval m)) ml) = Some cs ->
  input_of cs rdef u = if existsb (hits u) ml then msum ml sval u else rdef.
Proof. exact input_is_edge_sum. Qed.
Print Assumptions C04_partial.

(* notes on the mechanism before fix D57 (D14): all buffers zero-initialised *)
Theorem C04_partial_before_D57 : forall f32 tsize ssize sval ml cs rdef u, Forall aligned_m ml ->
  all_some (map (fun m => contrib f32 tsize (ssize m) m (sval m)) ml) = Some cs ->
  default_survives_at ml rdef u = true ->
  input_of_before_D57 cs rdef u = if existsb (hits u) ml then msum ml sval u else rdef.
Proof. exact input_partial_before_D57. Qed.
Print Assumptions C04_partial_before_D57.

Theorem C04_unconnected_unit_gets_zero_before_D57 : forall f32 tsize ssize sval ml cs rdef u, Forall aligned_m ml ->
  all_some (map (fun m => contrib f32 tsize (ssize m) m (sval m)) ml) = Some cs ->
  (2 <= length ml)%nat -> existsb (hits u) ml = false -> input_of_before_D57 cs rdef u = 0.
Proof. exact unconnected_unit_gets_zero_before_D57. Qed.
Print Assumptions C04_unconnected_unit_gets_zero_before_D57.

(* ---- _finalize_var_def ---- *)
Theorem C04_scalar_collapse : forall l i, (i < length l)%nat -> bget (finalize l) i = nth i l 0.
Proof. exact finalize_preserves. Qed.
Print Assumptions C04_scalar_collapse.

Theorem C04_collapse_unequal_refuted : exists l i, (i < length l)%nat /\ bget (CScalar (hd 0 l)) i <> nth i l 0.
Proof. exact collapse_unequal_refuted. Qed.
Print Assumptions C04_collapse_unequal_refuted.

(* ---- the full statement is false of the faithful model ---- *)
Definition C04_full_statement : Prop := full_statement.
Definition C04_guarded_statement : Prop := guarded_statement.
Definition C04_no_err_statement : Prop := no_err_statement.        (* now a corollary of C04_full (Impl never raises) *)

(* end-to-end: whenever the modelled compilation does not raise, it computes the vector field of the edge list *)
Theorem C04_sound : forall vec c st r, wf c = true -> impl vec c st = Some r -> r = spec c st.
Proof. exact impl_sound. Qed.
Print Assumptions C04_sound.

Theorem C04_vec_equals_nonvec : forall c st r1 r2, wf c = true ->
  impl true c st = Some r1 -> impl false c st = Some r2 -> r1 = r2.
Proof. exact vec_equals_nonvec. Qed.
Print Assumptions C04_vec_equals_nonvec.

Theorem C04_full_up_to_err : forall vec c st, wf c = true -> impl vec c st = None \/ impl vec c st = Some (spec c st).
Proof. exact full_up_to_err. Qed.
Print Assumptions C04_full_up_to_err.

Theorem C04_guarded_from_no_err : C04_no_err_statement -> C04_guarded_statement.
Proof. exact guarded_from_no_err. Qed.
Print Assumptions C04_guarded_from_no_err.

(* VACUOUS as compiled (fixed_D21 := true makes the hypothesis false); kept as a record.  The real before-fix statements
   are C04_full_refuted_before_D86_explicit / _D85_explicit below, over impl_gen's explicit switches. *)
Theorem C04_full_refuted_before_D86 : fixed_D21 = false -> ~ C04_full_statement.
Proof. exact full_statement_refuted. Qed.
Print Assumptions C04_full_refuted_before_D86.

Theorem C04_refuted_default_before_D57 :
  wf w_d14 = true /\ no_constant_rhs w_d14 = true /\ single_source_var w_d14 = true /\ no_scalar_fanout w_d14 = true /\
  default_survives w_d14 = false /\
  impl_before_D57 false w_d14 st_d14 = Some (spec w_d14 st_d14) /\
  impl_before_D57 true w_d14 st_d14 <> Some (spec w_d14 st_d14) /\
  nth 2 (spec w_d14 st_d14) 0 = q 4 /\ impl_before_D57 true w_d14 st_d14 = Some [q 0; q (-5); q (-3); mkq (-1) 2; q 2] /\
  guard w_d14 = true /\ impl true w_d14 st_d14 = Some (spec w_d14 st_d14).
Proof. exact refuted_default_before_D57. Qed.
Print Assumptions C04_refuted_default_before_D57.

Theorem C04_refuted_source_var_before_D59 :
  wf w_d03 = true /\ no_constant_rhs w_d03 = true /\ no_scalar_fanout w_d03 = true /\
  single_source_var w_d03 = false /\
  impl_before_D59 false w_d03 st_d03 = Some (spec w_d03 st_d03) /\ impl_before_D59 true w_d03 st_d03 <> Some (spec w_d03 st_d03) /\
  guard w_d03 = true /\ impl true w_d03 st_d03 = Some (spec w_d03 st_d03).
Proof. exact refuted_source_var_before_D59. Qed.
Print Assumptions C04_refuted_source_var_before_D59.

Theorem C04_err_constant_rhs :
  wf w_d21 = true /\ no_constant_rhs w_d21 = false /\ impl_loud true w_d21 [q 1; q 2] = None /\
  impl_loud false w_d21 [q 1; q 2] = Some (spec w_d21 [q 1; q 2]) /\
  impl_gen input_of true false true true w_d21 [q 1; q 2] = Some (spec w_d21 [q 1; q 2]).
Proof. exact err_constant_rhs. Qed.
Print Assumptions C04_err_constant_rhs.

Theorem C04_err_scalar_fanout :
  wf w_d32 = true /\ no_scalar_fanout w_d32 = false /\ impl_loud true w_d32 st_d32 = None /\
  impl_loud false w_d32 st_d32 = Some (spec w_d32 st_d32) /\
  impl_gen input_of true true false true w_d32 st_d32 = Some (spec w_d32 st_d32).
Proof. exact err_scalar_fanout. Qed.
Print Assumptions C04_err_scalar_fanout.

(* for any setting of the switches: soundness; with both on: never raises, hence total correctness *)
Theorem C04_sound_any_switch : forall f32 f21 vec c st r, wf c = true ->
  impl_gen input_of true f32 f21 vec c st = Some r -> r = spec c st.
Proof. exact impl_gen_sound. Qed.
Print Assumptions C04_sound_any_switch.

Theorem C04_repaired_never_raises : forall inp bv vec c st, impl_gen inp bv true true vec c st <> None.
Proof. exact repaired_never_raises. Qed.
Print Assumptions C04_repaired_never_raises.

Theorem C04_full_of_repaired_model : forall vec c st, wf c = true ->
  impl_gen input_of true true true vec c st = Some (spec c st).
Proof. exact full_of_repaired_model. Qed.
Print Assumptions C04_full_of_repaired_model.

Theorem C04_full : C04_full_statement.
Proof. exact full_statement_holds. Qed.
Print Assumptions C04_full.

Theorem C04_impl_is_spec : forall vec c st, wf c = true -> impl vec c st = Some (spec c st).
Proof. exact impl_is_spec. Qed.
Print Assumptions C04_impl_is_spec.

Theorem C04_full_when_repaired : fixed_D21 = true -> fixed_D32 = true -> C04_full_statement.
Proof. exact full_when_repaired. Qed.
Print Assumptions C04_full_when_repaired.

(* non-vacuity: inside every guard, merged units, fan-in from two classes, parallel edges, self-connection, algebraic source,
   two edges without a weight entry (default weight 1), one of them after a weighted edge of the same group *)
Example C04_nonvacuous :
  wf w_ok = true /\ guard w_ok = true /\
  impl true w_ok st_ok = Some (spec w_ok st_ok) /\ impl false w_ok st_ok = Some (spec w_ok st_ok) /\
  spec w_ok st_ok = [mkq (-1) 4; q (-2); q 3; mkq 49 4; q 1].
Proof. exact nonvacuous. Qed.
Print Assumptions C04_nonvacuous.

(* ---- multi-operator node types ---- *)
Theorem C04_rename_once_positional : forall l, match_ops l l [] = map Some (seq 0 (length l)).
Proof. exact match_ops_identity. Qed.
Print Assumptions C04_rename_once_positional.

Theorem C04_member_has_index : forall ks vn rs j i', cache_all [] ks 0 = (vn, rs) -> (i' < length (members vn j))%nat ->
  (nth i' (members vn j) 0 < length ks)%nat /\ idx_of rs (nth i' (members vn j) 0%nat) = (j, i').
Proof. exact member_has_index. Qed.
Print Assumptions C04_member_has_index.

Theorem C04_multiop_full : forall vec c st, mwf c = true -> mimpl vec c st = mspec c st.
Proof. exact mimpl_is_mspec. Qed.
Print Assumptions C04_multiop_full.

Theorem C04_multiop_vec_equals_nonvec : forall c st, mwf c = true -> mimpl true c st = mimpl false c st.
Proof. exact mimpl_vec_equals_nonvec. Qed.
Print Assumptions C04_multiop_vec_equals_nonvec.

Example C04_multiop_nonvacuous :
  mwf mw_ok = true /\ mkeys true mw_ok = [0; 0; 2; 0]%nat /\
  qlist_eqb (mimpl true mw_ok mst_ok) (mspec mw_ok mst_ok) = true /\
  qlist_eqb (mimpl false mw_ok mst_ok) (mspec mw_ok mst_ok) = true /\
  qlist_eqb (mspec mw_ok mst_ok) [q (-1); q 10; q 6; q 20; q (-5); q 48; mkq 63 2; q 48; q (-9); q 260; q 198] = true.
Proof. exact multiop_nonvacuous. Qed.
Print Assumptions C04_multiop_nonvacuous.

(* declarations are part of the structural key *)
Theorem C04_declaration_in_key : forall a b, odecl a <> odecl b -> opr_eqb a b = false.
Proof. exact decl_in_key. Qed.
Print Assumptions C04_declaration_in_key.

Example C04_declaration_variants_not_merged :
  mwf mw_decl = true /\ mkeys true mw_decl = [0; 1; 0]%nat /\ canon mw_decl 1 = 1%nat.
Proof. exact decl_variants_not_merged. Qed.
Print Assumptions C04_declaration_variants_not_merged.

(* E2: the index-string helper pyrates.ir.circuit._get_indexed_var_str (list branch) is regenerated from the source on every run
   (coq/gen/Gen_get_indexed_var_str.v, harness/py2v.py).  It returns the variable unchanged exactly when the index list is the
   identity [0 .. var_length-1] (element-wise test); exactly then gathering at the index list is the identity on vectors of
   that length, so the shortcut does not change the value that the indexed branch of the model reads.  An end-point test
   instead of the element-wise one changes the generated text and breaks IndexedEquiv. *)
From Coq Require Import String.
From PV Require Import PyLib IndexedEquiv.
From PVG Require Import Gen_get_indexed_var_str.
Theorem C04_indexed_identity_generated : forall d var idx n reduce s,
  get_indexed_var_str d var idx n reduce s = indexed_hand d var idx n reduce s /\
  (identity_idx idx n = true <-> Z.of_nat (List.length idx) = n /\ idx = map Z.of_nat (seq 0 (List.length idx))) /\
  (forall (A : Type) (l : list A) (dflt : A), Z.of_nat (List.length l) = n -> identity_idx idx n = true -> gather l dflt idx = l) /\
  ((0 <= n)%Z -> Forall (fun i => (0 <= i)%Z) idx -> Z.of_nat (List.length idx) = n -> identity_idx idx n = false ->
   gather (map Z.of_nat (seq 0 (Z.to_nat n))) (-1)%Z idx <> map Z.of_nat (seq 0 (Z.to_nat n))).
Proof. exact indexed_identity_generated. Qed.
Print Assumptions C04_indexed_identity_generated.

(* ---- before-fix records over the explicit switches of impl_gen (real statements, whatever the constants are) ---- *)
Definition C04_full_statement_gen (f32 f21 : bool) : Prop := full_statement_gen f32 f21.

Theorem C04_full_refuted_before_D86_explicit : ~ C04_full_statement_gen true false.
Proof. exact full_refuted_before_D86. Qed.
Print Assumptions C04_full_refuted_before_D86_explicit.

Theorem C04_full_refuted_before_D85_explicit : ~ C04_full_statement_gen false true.
Proof. exact full_refuted_before_D85. Qed.
Print Assumptions C04_full_refuted_before_D85_explicit.

Theorem C04_full_gen_when_both_on : C04_full_statement_gen true true.
Proof. exact full_gen_when_both_on. Qed.
Print Assumptions C04_full_gen_when_both_on.

(* ---- "the simulated trajectory is identical": explicit Euler with Impl's vector field = with Spec's, any number of steps
   (fixed-step Euler on the frontend state only; the solver loop of run(), other solvers and sampling are C03) ---- *)
Theorem C04_euler_trajectory : forall vec c h n st, wf c = true -> euler_impl vec c h st n = Some (euler_spec c h st n).
Proof. exact euler_impl_is_spec. Qed.
Print Assumptions C04_euler_trajectory.
