(* C16 — a circuit built from PopulationTemplate(n) and Connectivity objects equals the explicit node-and-edge network.
   Statements only; every proof is `exact <lemma of PopulationProofs>`.  Vectors and matrices are lists over Qc of ANY
   length / shape (non-square included); `edge_sum (expand_mat mw W) term i` is the input that target unit i receives
   in the explicit network with one scalar edge (i, j, W[i][j]) per entry with |W[i][j]| > mw (mw = 0: per non-zero entry). *)
From Coq Require Import List ZArith QArith Qcanon Qcabs Bool Arith.
From PV Require Import Population PopulationProofs.
Import ListNotations.
Open Scope Qc_scope.

(* case 0a (matvec): ORIENTATION — row = target, column = source; no shape hypothesis at all *)
Theorem C16_matvec_orientation : forall W s i,
  nth i (matvec W s) 0 = sumf (fun j => nth j (nth i W []) 0 * nth j s 0) (seq 0 (length (nth i W []))).
Proof. exact matvec_row_target. Qed.
Print Assumptions C16_matvec_orientation.

Theorem C16_matvec_is_edge_sum : forall W s i,
  nth i (matvec W s) 0 = edge_sum (expand_mat 0 W) (fun e => nth (e_src e) s 0) i.
Proof. exact matvec_is_edge_sum. Qed.
Print Assumptions C16_matvec_is_edge_sum.

(* with the min_weight threshold of add_edges_from_matrix: equal when every entry is 0 or above the threshold *)
Theorem C16_matvec_threshold_partial : forall mw W s i, forallb (forallb (entry_ok mw)) W = true ->
  nth i (matvec W s) 0 = edge_sum (expand_mat mw W) (fun e => nth (e_src e) s 0) i.
Proof. exact matvec_is_edge_sum_mw. Qed.
Print Assumptions C16_matvec_threshold_partial.

(* the transposed reading differs on a non-square (2 x 3) matrix *)
Theorem C16_transposed_refuted : exists W s i,
  rect 2 3 W = true /\ nth i (matvec_T W s) 0 <> edge_sum (expand_mat 0 W) (fun e => nth (e_src e) s 0) i.
Proof. exact transposed_refuted. Qed.
Print Assumptions C16_transposed_refuted.

(* the squeezes of case 0a (one source unit: w_1d * s; one target unit: 1-D dot, fix D25) do not change values *)
Theorem C16_case0a_squeeze : forall W s, forallb (fun r => (length r =? ncols W)%nat) W = true -> case0a W s = matvec W s.
Proof. exact case0a_matvec. Qed.
Print Assumptions C16_case0a_squeeze.

(* case 0g (scalar weight): every target receives w * vsum(source).  DEFINITIONAL: this statement is `nth i (repeat x n) = x` — it only records
   that the scalar target variable is broadcast; the content is the next theorem (= the all-to-all edge list) *)
Theorem C16_scalar_is_w_vsum : forall w s nt i, (i < nt)%nat -> nth i (repeat (w * vsum s) nt) 0 = w * vsum s.
Proof. exact scalar_is_w_vsum. Qed.
Print Assumptions C16_scalar_is_w_vsum.

Theorem C16_scalar_is_edge_sum : forall w s nt i, (i < nt)%nat ->
  w * vsum s = edge_sum (expand_mat 0 (full nt (length s) w)) (fun e => nth (e_src e) s 0) i.
Proof. exact scalar_is_edge_sum. Qed.
Print Assumptions C16_scalar_is_edge_sum.

(* cases 0b / 0c (coupling edge templates): evaluated per (target, source) pair *)
Theorem C16_wsum_broadcast_identity : forall f W s t i,
  (i < length W)%nat -> length t = length W -> length (nth i W []) = length s ->
  nth i (wsum W (map2m f (broadcast_pre s (length W)) (broadcast_post t (length s)))) 0 =
  sumf (fun j => nth j (nth i W []) 0 * f (nth j s 0) (nth i t 0)) (seq 0 (length s)).
Proof. exact wsum_broadcast_identity. Qed.
Print Assumptions C16_wsum_broadcast_identity.

Theorem C16_coupling_is_edge_sum : forall f W s t i,
  (i < length W)%nat -> length t = length W -> length (nth i W []) = length s ->
  nth i (wsum W (map2m f (broadcast_pre s (length W)) (broadcast_post t (length s)))) 0 =
  edge_sum (expand_mat 0 W) (fun e => f (nth (e_src e) s 0) (nth (e_tgt e) t 0)) i.
Proof. exact wsum_broadcast_is_edge_sum. Qed.
Print Assumptions C16_coupling_is_edge_sum.

Theorem C16_dynamic_coupling_output : forall W V i, (i < length W)%nat -> (i < length V)%nat ->
  nth i (wsum W V) 0 = edge_sum (expand_mat 0 W) (fun e => nth (e_src e) (nth (e_tgt e) V []) 0) i.
Proof. exact wsum_states_is_edge_sum. Qed.
Print Assumptions C16_dynamic_coupling_output.

Theorem C16_dynamic_coupling_state : forall g s t V nt i j,
  (i < nt)%nat -> (i < length t)%nat -> (i < length V)%nat -> (j < length s)%nat -> (j < length (nth i V []))%nat ->
  nth j (nth i (map3m g (broadcast_pre s nt) (broadcast_post t (length s)) V) []) 0 =
  g (nth j s 0) (nth i t 0) (nth j (nth i V []) 0).
Proof. exact dyn_state_per_pair. Qed.
Print Assumptions C16_dynamic_coupling_state.

(* PopulationTemplate.apply: parameter element i lands on unit i *)
Theorem C16_params_distribution : forall n pv i, (i < n)%nat ->
  nth i (distribute n pv) 0 = match pv with PScal v => v | PVec l => nth i l 0 end.
Proof. exact params_distribution. Qed.
Print Assumptions C16_params_distribution.

Theorem C16_params_per_unit : forall P i, (i < psize P)%nat -> map (fun v => nth i v 0) (pop_pars P) = exp_pars P i.
Proof. exact pop_pars_unit. Qed.
Print Assumptions C16_params_per_unit.

(* several Connectivity objects onto one target add, and so do their edge lists *)
Theorem C16_connections_add : forall n l i, (i < n)%nat -> Forall (fun v => length v = n) l ->
  nth i (vsumv n l) 0 = fold_right Qcplus 0 (map (fun v => nth i v 0) l).
Proof. exact connections_add. Qed.
Print Assumptions C16_connections_add.

Theorem C16_edge_lists_add : forall a b term i, edge_sum (a ++ b) term i = edge_sum a term i + edge_sum b term i.
Proof. exact edge_lists_add. Qed.
Print Assumptions C16_edge_lists_add.

(* ---------------------------------------------------------------------------------------------------------------
   One Connectivity inside a network of ANY number of populations of ANY sizes, at ANY state/history (delays
   included): under the per-connection guard the vector that the generated in-edge equation computes is, unit by
   unit, the sum over the expanded scalar edge list. *)
Theorem C16_partial : forall N hist c V i,
  wf_conn N c = true -> conn_guard N c = true -> shapes_ok N hist c V -> (i < size_of N (ctgt c))%nat ->
  nth i (pop_contrib N hist c V) 0 = edge_sum (expand_conn 0 N c) (exp_term N hist c V) i.
Proof. exact pop_contrib_is_edge_sum. Qed.
Print Assumptions C16_partial.

(* All Connectivity objects onto one target variable together: the input that unit i of population p receives in the
   population circuit (sum of the vectors of all connections onto that variable, `t = t_in0 + t_in1 + ...`) is the sum
   over ALL scalar edges of the explicit network into that unit — any number of populations, connections, any state
   and history; `conn_ok` = well-formed + per-connection guard + state shapes, for every connection of the network. *)
Theorem C16_input_partial : forall N hist p tv i,
  Forall (conn_ok N hist) (combine (conns N) (snd (cur hist) ++ repeat [] (length (conns N)))) ->
  (i < size_of N p)%nat ->
  nth i (pop_input N hist p tv) 0 = exp_input 0 N hist p tv i.
Proof. exact pop_input_is_exp_input. Qed.
Print Assumptions C16_input_partial.

(* HEADLINE — what `run` returns.  For ANY unit dynamics U, any number of populations / units / connections, any step
   size and ANY number of rows, the Euler trajectory of the population circuit is the Euler trajectory of the explicit
   network (one scalar edge per non-zero matrix entry, parameter i on unit i, per-edge discrete delays, per-edge
   gamma-kernel cascades, one state per (target, source) pair of a dynamic coupling template), provided the decidable
   guard holds: per-connection guards, none of the loud classes (both vacuous once every repair is in: C16_full).  Proof: shape invariants of the unit states and of the edge states (pair matrices, cascade
   stages) along the run + C16_input_partial and the per-pair state equations at every step. *)
Theorem C16_run_partial : forall U N units dt rows,
  wf_net N = true -> wf_units N units = true -> traj_guard N = true ->
  pop_run U N units dt rows = Some (exp_run 0 U N units dt rows).
Proof. exact pop_run_is_exp_run. Qed.
Print Assumptions C16_run_partial.

Example C16_run_nonvacuous : wf_net N_example = true /\ wf_units N_example units_example = true /\ traj_guard N_example = true.
Proof. repeat split; vm_compute; reflexivity. Qed.
Print Assumptions C16_run_nonvacuous.

(* ... and on a network with a dynamic coupling template and a gamma-kernel delayed connection (order 4) *)
Example C16_run_nonvacuous_dyn :
  wf_net N_example_dyn = true /\ wf_units N_example_dyn units_example = true /\ traj_guard N_example_dyn = true /\
  chain_order (mkq 1 1, mkq 1 2) = 4%nat /\
  list_eqb pstate_eqb (nth 3 (exp_run 0 unit_poly N_example_dyn units_example (mkq 1 4) 4) []) units_example = false.
Proof. exact nonvacuous_dyn. Qed.
Print Assumptions C16_run_nonvacuous_dyn.

(* The full-strength statement: EVERY well-formed population circuit runs like its explicit network.  It was false of the
   faithful model while the classes F1-F3, F5-F7 were unrepaired (the `_before_fix` lemmas below keep the witnesses,
   each under the hypothesis that its switch in Population.v is off); with every repair in (D54-D56, D60, D92, D93 —
   `all_fixed` computes to true) and the weight tolerance modelled on both sides it is a THEOREM, for any unit dynamics:
   no guard is left on Impl = Spec (scope: see the comment above C16_full).  (F9 is a difference between Connectivity and the explicit circuit's delayed TEMPLATE edges, not
   between Impl and this Spec, which delays the source of every edge: see known_findings.d/C16.json.) *)
Definition C16_full_statement : Prop := forall N units dt rows, wf_net N = true -> wf_units N units = true ->
  pop_run unit_poly N units dt rows = Some (exp_run 0 unit_poly N units dt rows).

Theorem C16_full_any_unit : forall U N units dt rows, all_fixed = true ->
  wf_net N = true -> wf_units N units = true -> pop_run U N units dt rows = Some (exp_run 0 U N units dt rows).
Proof. exact pop_run_full. Qed.
Print Assumptions C16_full_any_unit.

(* SCOPE of C16_full.  It is a statement about the model: Impl (`pop_run`) = Spec (`exp_run`), no guard.  What it does NOT contain:
   (a) delays: the delayed / gamma-delayed source of an edge is the SAME term on both sides (`src_vec`, `chain_deriv`; the per-edge
       cascades of the explicit network are identified with one cascade per source unit by the comment in Population.v), so the
       delay part of the equality is definitional; the place where the real explicit circuit differs (a delayed template edge delays the
       template output: finding F9, predicate g_delay_post) is applied by the harness to the comparison of the two real circuits, not here;
   (b) the weight tolerance on matrix entries: the real explicit circuit does not apply a matrix entry within weight_tol = 1e-8 of 1, the
       Spec (and matvec) keep it; on the tie domain of the next theorem the two coincide, outside they differ by <= 1e-8 * |source|. *)
Theorem C16_elision_identity_on_tie_domain : forall W : mat,
  forallb (forallb (fun w => negb (near_one w) || Qceqb w 1)) W = true -> map (map elide) W = W.
Proof. exact elide_identity_on_tie_domain. Qed.
Print Assumptions C16_elision_identity_on_tie_domain.

Theorem C16_full : C16_full_statement.
Proof. intros N units dt rows Hwf Hu. apply pop_run_full; [vm_compute; reflexivity|exact Hwf|exact Hu]. Qed.
Print Assumptions C16_full.

(* CONDITIONAL RECORD: vacuous while the switch is true (the proof then closes by `discriminate`, the witness is not computed); it is
   re-checked only when the switch is set back to false; what guards the repaired class today is the revert test
   (harness/try_seed.sh fixes/fix_D<nn>.diff C16 --reverse) and the regression cases corpus/C16/R6..R14 *)
Theorem C16_scalar_coupling_before_fix : fixed_F3 = false ->
  wf_net N_scalar_coupling = true /\ g_scalar_plain N_scalar_coupling = false /\
  pop_run unit_poly N_scalar_coupling units22 (mkq 1 4) 2 <> Some (exp_run 0 unit_poly N_scalar_coupling units22 (mkq 1 4) 2).
Proof. exact scalar_coupling_before_fix. Qed.
Print Assumptions C16_scalar_coupling_before_fix.

(* the weight tolerance of the code (a scalar weight within weight_tol = 1e-8 of 1 is not applied) is part of the model on
   BOTH sides: the explicit scalar edges make the same elision, so this is no difference between the two circuits *)
Theorem C16_near_one_elided_on_both_sides :
  wf_net N_near_one = true /\ near_one (mkq 1073741825 1073741824) = true /\
  pop_run unit_poly N_near_one units22 (mkq 1 4) 2 = Some (exp_run 0 unit_poly N_near_one units22 (mkq 1 4) 2).
Proof. exact near_one_elided_on_both_sides. Qed.
Print Assumptions C16_near_one_elided_on_both_sides.

(* CONDITIONAL RECORD: vacuous while the switch is true (the proof then closes by `discriminate`, the witness is not computed); it is
   re-checked only when the switch is set back to false; what guards the repaired class today is the revert test
   (harness/try_seed.sh fixes/fix_D<nn>.diff C16 --reverse) and the regression cases corpus/C16/R6..R14 *)
Theorem C16_post_name_before_fix : fixed_F2 = false ->
  wf_net N_post_name = true /\ g_post_name N_post_name = false /\
  pop_run unit_poly N_post_name units22 (mkq 1 4) 2 <> Some (exp_run 0 unit_poly N_post_name units22 (mkq 1 4) 2).
Proof. exact post_name_before_fix. Qed.
Print Assumptions C16_post_name_before_fix.

(* `_before_fix`: the classes F1 / F2 / F3 / F6 as the code was before the repairs D55 / D56 / D60; each carries the hypothesis
   that the corresponding switch of Population.v is off (the switches are global definitions, not arguments of pop_run). *)
(* CONDITIONAL RECORD: vacuous while the switch is true (the proof then closes by `discriminate`, the witness is not computed); it is
   re-checked only when the switch is set back to false; what guards the repaired class today is the revert test
   (harness/try_seed.sh fixes/fix_D<nn>.diff C16 --reverse) and the regression cases corpus/C16/R6..R14 *)
Theorem C16_dup_sources_before_fix : fixed_F1 = false ->
  wf_net N_dup_sources = true /\ g_distinct_sources N_dup_sources = false /\ pop_run unit_poly N_dup_sources units22 (mkq 1 4) 2 = None.
Proof. exact dup_sources_before_fix. Qed.
Print Assumptions C16_dup_sources_before_fix.

(* CONDITIONAL RECORD: vacuous while the switch is true (the proof then closes by `discriminate`, the witness is not computed); it is
   re-checked only when the switch is set back to false; what guards the repaired class today is the revert test
   (harness/try_seed.sh fixes/fix_D<nn>.diff C16 --reverse) and the regression cases corpus/C16/R6..R14 *)
Theorem C16_alias_before_fix : fixed_F6 = false ->
  wf_net N_alias = true /\ g_no_alias N_alias = false /\ pop_run unit_poly N_alias units22 (mkq 1 4) 2 = None.
Proof. exact alias_before_fix. Qed.
Print Assumptions C16_alias_before_fix.

(* the loud shape classes (repaired by D92, D93): a coupling template on a one-row / one-column matrix, a delayed
   1 x 1 matrix — the population circuit raises while the switch is off *)
(* CONDITIONAL RECORD: vacuous while the switch is true (the proof then closes by `discriminate`, the witness is not computed); it is
   re-checked only when the switch is set back to false; what guards the repaired class today is the revert test
   (harness/try_seed.sh fixes/fix_D<nn>.diff C16 --reverse) and the regression cases corpus/C16/R6..R14 *)
Theorem C16_coupling_shape_before_fix : fixed_F5 = false ->
  wf_net N_coupling_shape = true /\ g_coupling_shape N_coupling_shape = false /\
  pop_run unit_poly N_coupling_shape [st1 [mkq 1 2; mkq 1 1] [0; 0]; st1 (mkq 1 1 :: nil) (0 :: nil)] (mkq 1 4) 2 = None.
Proof. exact coupling_shape_before_fix. Qed.
Print Assumptions C16_coupling_shape_before_fix.

(* CONDITIONAL RECORD: vacuous while the switch is true (the proof then closes by `discriminate`, the witness is not computed); it is
   re-checked only when the switch is set back to false; what guards the repaired class today is the revert test
   (harness/try_seed.sh fixes/fix_D<nn>.diff C16 --reverse) and the regression cases corpus/C16/R6..R14 *)
Theorem C16_delay_1x1_before_fix : fixed_F7 = false ->
  wf_net N_delay_1x1 = true /\ g_delay_shape N_delay_1x1 = false /\
  pop_run unit_poly N_delay_1x1 [st1 (mkq 1 2 :: nil) (0 :: nil); st1 (mkq 1 1 :: nil) (0 :: nil)] (mkq 1 4) 2 = None.
Proof. exact delay_1x1_before_fix. Qed.
Print Assumptions C16_delay_1x1_before_fix.


(* non-vacuity: a guard-satisfying network (3 -> 2 non-square signed matrix, a scalar weight onto the same target
   variable, a coupled 3 x 2 matrix, per-unit parameters): well-formed, inside every guard, Impl = Spec on a
   3-row Euler trajectory, and the state moves *)
Example C16_nonvacuous :
  wf_net N_example = true /\ wf_units N_example units_example = true /\ guards 0 N_example = true /\
  pop_run unit_poly N_example units_example (mkq 1 4) 3 = Some (exp_run 0 unit_poly N_example units_example (mkq 1 4) 3) /\
  list_eqb pstate_eqb (nth 1 (exp_run 0 unit_poly N_example units_example (mkq 1 4) 3) []) units_example = false.
Proof. exact nonvacuous. Qed.
Print Assumptions C16_nonvacuous.
