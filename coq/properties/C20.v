(* C20 — unsupported requests fail loudly instead of returning numbers.
   Statements only; every proof is `exact <lemma of GuardsProofs>`.  Model: theories/Guards.v
   (`impl` = what the code does with a request, `WellFormed` = the request is supported / the model is well-formed). *)
From Coq Require Import List String Bool Arith Permutation.
From PV Require Import Guards GuardsProofs.
Import ListNotations.
Open Scope string_scope.
Open Scope list_scope.

(* ---- the property over everything that is probed: a request that returns quietly was well-formed ---- *)
(* Full statement (F1-F6 repaired: D48, D49, D76, D79, D109, D113): *)
Definition C20_full : Prop := C20_full_statement.   (* a Definition: the statement; the theorem is C20_full_holds below *)
(* = forall p, WFprobe p -> impl p = Ok -> WellFormed p *)

Theorem C20_partial : forall p, WFprobe p -> guard p = true -> impl p = Ok -> WellFormed p.
Proof. exact impl_ok_wellformed. Qed.
Print Assumptions C20_partial.

(* the same, read the other way: not well-formed => exception (a warning suffices for an input / parameter update) *)
Theorem C20_malformed_is_loud : forall p, WFprobe p -> guard p = true -> ~ WellFormed p -> loud_enough p (impl p).
Proof. exact malformed_is_loud. Qed.
Print Assumptions C20_malformed_is_loud.

(* HEADLINE (F1-F6 repaired by D48, D49, D76, D79, D109, D113: all four model switches of Guards.v are true): the full
   statement, no guard: every request that returns quietly was supported / well-formed *)
Theorem C20_full_holds : C20_full_statement.
Proof. exact (GuardsProofs.C20_full_when_fixed eq_refl eq_refl eq_refl eq_refl). Qed.
Print Assumptions C20_full_holds.
Theorem C20_full_malformed_is_loud : forall p, WFprobe p -> ~ WellFormed p -> loud_enough p (impl p).
Proof. exact (GuardsProofs.malformed_is_loud_when_fixed eq_refl eq_refl eq_refl eq_refl). Qed.
Print Assumptions C20_full_malformed_is_loud.
(* the general forms, valid whatever the switches say, and the refutations of the code as it was before each repair *)
Theorem C20_full_holds_modulo_F6 : forall p, WFprobe p -> guard_solver_checked_at_entry p = true -> impl p = Ok -> WellFormed p.
Proof. exact (GuardsProofs.C20_full_modulo_F6_when_others_fixed eq_refl eq_refl eq_refl). Qed.
Print Assumptions C20_full_holds_modulo_F6.
Theorem C20_full_when_fixed : fixed_F3 = true -> fixed_F4 = true -> fixed_F5 = true -> fixed_F6 = true -> C20_full_statement.
Proof. exact GuardsProofs.C20_full_when_fixed. Qed.
Print Assumptions C20_full_when_fixed.
Theorem C20_full_malformed_is_loud_when_fixed : fixed_F3 = true -> fixed_F4 = true -> fixed_F5 = true -> fixed_F6 = true ->
  forall p, WFprobe p -> ~ WellFormed p -> loud_enough p (impl p).
Proof. exact GuardsProofs.malformed_is_loud_when_fixed. Qed.
Print Assumptions C20_full_malformed_is_loud_when_fixed.
Theorem C20_refuted_solver_in_get_run_func_before_fix : fixed_F6 = false ->
  ~ C20_full_statement /\ guard_solver_checked_at_entry F6_probe = false.
Proof. exact GuardsProofs.C20_refuted_solver_in_get_run_func. Qed.
Print Assumptions C20_refuted_solver_in_get_run_func_before_fix.
Theorem C20_solver_in_get_run_func_repaired : forall c, accepts_gen true c = Ok <-> Supported c.
Proof. exact solver_in_get_run_func_repaired. Qed.
Print Assumptions C20_solver_in_get_run_func_repaired.
(* before D109 (fixed_F5 = false) the statement was also refuted by an undocumented backend name (F5) *)
Theorem C20_refuted_backend_name_before_fix : fixed_F5 = false -> ~ C20_full_statement /\ guard_backend_documented F5_probe = false.
Proof. exact GuardsProofs.C20_refuted_backend_name. Qed.
Print Assumptions C20_refuted_backend_name_before_fix.
Theorem C20_backend_name_repaired : forall v, documented_backend v = None -> backend_result true v = Err EPyRates.
Proof. exact backend_name_repaired. Qed.
Print Assumptions C20_backend_name_repaired.

(* option values as strings: validation and dispatch are the same relation (==), for EVERY string and None *)
Theorem C20_validated_solver_string_runs_what_it_names : forall b v, validate_solver_str b v = true ->
  requested_method v = Some (solve_dispatch_str b v) /\ method_implemented b (solve_dispatch_str b v) = true.
Proof. exact validated_dispatch_str. Qed.
Print Assumptions C20_validated_solver_string_runs_what_it_names.
Theorem C20_validated_solver_string_adaptivity : forall b v, validate_solver_str b v = true ->
  is_integration_adaptive_str v = match solve_dispatch_str b v with MEuler | MHeun => false | _ => true end.
Proof. exact validated_adaptive_str. Qed.
Print Assumptions C20_validated_solver_string_adaptivity.
Theorem C20_unvalidated_solver_string : forall b v, validate_solver_str b v = false ->
  match requested_method v with Some m => method_implemented b m = false | None => True end.
Proof. exact unvalidated_not_requested. Qed.
Print Assumptions C20_unvalidated_solver_string.
Theorem C20_solver_string_vs_matrix : forall b s,
  validate_solver_str b (Some s) = existsb (solver_eqb (solver_of_string s)) (SUPPORTED_SOLVERS b).
Proof. exact validate_solver_str_enum. Qed.
Print Assumptions C20_solver_string_vs_matrix.

(* the repaired findings, kept for the record *)
Theorem C20_refuted_short_node_value : fixed_F4 = false -> ~ C20_full_statement /\ guard_node_value_not_circuit F4_probe = false.
Proof. exact GuardsProofs.C20_refuted_short_node_value. Qed.
Print Assumptions C20_refuted_short_node_value.
Theorem C20_short_key_is_loud : forall k depth hnet p, too_short depth p = true ->
  hier_result_gen true k depth hnet p = match k with HEdge => Err EOther | HOutput => Err EPyRates | _ => Warn end.
Proof. exact short_key_is_loud. Qed.
Print Assumptions C20_short_key_is_loud.
Theorem C20_short_node_value_repaired : forall depth hnet p, too_short depth p = true ->
  names_circuit hnet (node_part p) = true -> hier_result_gen true HNodeValue depth hnet p = Warn.
Proof. exact short_node_value_repaired. Qed.
Print Assumptions C20_short_node_value_repaired.
(* before D76 (fixed_F3 = false) the statement was also refuted by `_verify_path` (F3) *)
Theorem C20_refuted_verify_path_before_D76 : fixed_F3 = false -> ~ C20_full_statement /\ guard_path_not_attr F3_probe = false.
Proof. exact GuardsProofs.C20_refuted_verify_path. Qed.
Print Assumptions C20_refuted_verify_path_before_D76.

(* The four statements above with a hypothesis `fixed_Fk = false` are CONDITIONAL RECORDS: all switches are true now, so
   they hold vacuously (their proofs rewrite with the hypothesis and evaluate the witness, but the statements say nothing).
   The same facts with the switch given explicitly — true whatever Guards.v says: *)
Theorem C20_verify_path_before_D76 : verify_path_gen false ["label"] F3_net F3_path = Ok /\ presentb F3_net F3_path = false /\
  verify_path_gen true ["label"] F3_net F3_path = Err EPyRates.
Proof. exact verify_path_before_D76. Qed.
Print Assumptions C20_verify_path_before_D76.
Theorem C20_short_node_value_before_D79 :
  hier_result_gen false HNodeValue 1 F4_hnet0 ["c1"; "o1"; "g"] = Ok /\
  wellformedb (PHier HNodeValue 1 F4_hnet0 ["c1"; "o1"; "g"]) = false /\
  hier_result_gen true HNodeValue 1 F4_hnet0 ["c1"; "o1"; "g"] = Warn.
Proof. exact short_node_value_before_D79. Qed.
Print Assumptions C20_short_node_value_before_D79.
Theorem C20_backend_name_before_D109 :
  backend_result false (Some "JAX") = Ok /\ documented_backend (Some "JAX") = None /\ backend_result true (Some "JAX") = Err EPyRates.
Proof. exact backend_name_before_D109. Qed.
Print Assumptions C20_backend_name_before_D109.
Theorem C20_solver_in_get_run_func_before_D113 :
  let c := mkc BDefault SOther true DNone false true EFunc in
  outcome_gen false c = Ok /\ accepts_gen false c = Ok /\ supportedb c = false /\ outcome_gen true c = Err EPyRates.
Proof. exact solver_in_get_run_func_before_D113. Qed.
Print Assumptions C20_solver_in_get_run_func_before_D113.

(* the decidable test used by the correspondence run is the specification *)
Theorem C20_test_is_spec : forall p r, WFprobe p -> (meets_spec p r = true <-> (WellFormed p \/ loud_enough p r)).
Proof. exact meets_spec_iff. Qed.
Print Assumptions C20_test_is_spec.

(* ---- finite part: the whole matrix backend x solver x vectorize x delay kind x sparse x inplace x entry point
        (4*5*2*4*2*2*3 = 1920 configurations; exhaustive vm_compute sweep, the bound is the domain) ---- *)
Theorem C20_matrix_is_whole_domain : (forall c, In c all_configs) /\ List.length all_configs = 1920.
Proof. exact (conj all_configs_complete all_configs_count). Qed.
Print Assumptions C20_matrix_is_whole_domain.

Theorem C20_accepts_iff_supported : forall c, g6 fixed_F6 c = true -> (accepts c = Ok <-> Supported c).
Proof. exact accepts_iff_supported. Qed.
Print Assumptions C20_accepts_iff_supported.
Theorem C20_supported_is_accepted : forall c, Supported c -> accepts c = Ok.
Proof. exact supported_is_accepted. Qed.
Print Assumptions C20_supported_is_accepted.

Theorem C20_numbers_only_if_supported : forall c, g6 fixed_F6 c = true -> outcome c = Ok -> Supported c.
Proof. exact outcome_ok_supported. Qed.
Print Assumptions C20_numbers_only_if_supported.

Theorem C20_guard_error_surfaces : forall c e, accepts c = Err e -> crash_gen c = false -> outcome c = Err e.
Proof. exact guard_error_surfaces. Qed.
Print Assumptions C20_guard_error_surfaces.

Theorem C20_validated_solver_never_falls_through : forall c, accepts c = Ok -> en c = ERun ->
  named_method (so c) = Some (solve_dispatch (be c) (so c)).
Proof. exact validated_solver_dispatch. Qed.
Print Assumptions C20_validated_solver_never_falls_through.

(* ---- unbounded parts ---- *)
(* check_vname, for EVERY string *)
Theorem C20_check_vname : forall v, check_vname v = Err EPyRates <-> Reserved v.
Proof. exact check_vname_rejects_iff. Qed.
Print Assumptions C20_check_vname.
Theorem C20_check_vname_ok : forall v, check_vname v = Ok <-> ~ Reserved v.
Proof. exact check_vname_ok_iff. Qed.
Print Assumptions C20_check_vname_ok.
Theorem C20_substring_test : forall p s, containsb p s = true <-> exists pre suf, s = (pre ++ p ++ suf)%string.
Proof. exact containsb_spec. Qed.
Print Assumptions C20_substring_test.

(* declarations of an operator: any number, any order *)
Theorem C20_two_outputs : forall vars, 2 <= count_outputs vars -> scan_vars vars false = Err EPyRates.
Proof. exact two_outputs_rejected. Qed.
Print Assumptions C20_two_outputs.
Theorem C20_reserved_declaration : forall vars n t, In (n, t) vars -> Reserved n -> scan_vars vars false = Err EPyRates.
Proof. exact reserved_declaration_rejected. Qed.
Print Assumptions C20_reserved_declaration.
(* NOTE (review): the next statement is BOOLEAN REFLECTION — the model function is `if <decidable presence test> then Ok else
   Warn/Err`, and the theorem says that the test decides the specification predicate.  The mechanism behind the test in the
   code (get_nodes walking the template, the parser raising KeyError for an unknown symbol, NodeTemplate.apply popping
   groups) is NOT modelled; that the code behaves like the test is tied by the correspondence run only. *)
Theorem C20_undeclared_variable : forall d u x, In x u -> ~ In x d -> check_equation d u = Err EOther.
Proof. exact undeclared_variable_rejected. Qed.
Print Assumptions C20_undeclared_variable.
(* NOTE (review): the next statement is BOOLEAN REFLECTION — the model function is `if <decidable presence test> then Ok else
   Warn/Err`, and the theorem says that the test decides the specification predicate.  The mechanism behind the test in the
   code (get_nodes walking the template, the parser raising KeyError for an unknown symbol, NodeTemplate.apply popping
   groups) is NOT modelled; that the code behaves like the test is tied by the correspondence run only. *)
Theorem C20_leftover_value : forall ns us o v, In (o, v) us -> ~ In o ns -> node_apply ns us = Err EPyRates.
Proof. exact leftover_value_rejected. Qed.
Print Assumptions C20_leftover_value.

(* _verify_path, any network, any path *)
Theorem C20_verify_path_partial : forall attrs net p, WFnet net ->
  fixed_F3 || forallb (fun k => negb (mem k attrs)) p = true ->
  (verify_path attrs net p = Ok <-> Present net p).
Proof. exact verify_path_partial. Qed.
Print Assumptions C20_verify_path_partial.
Theorem C20_verify_path_refuted : ~ verify_path_full_statement.
Proof. exact verify_path_refuted. Qed.
Print Assumptions C20_verify_path_refuted.
Theorem C20_verify_path_repaired_full : forall attrs net p, WFnet net ->
  (verify_path_gen true attrs net p = Ok <-> Present net p).
Proof. exact verify_path_repaired_full. Qed.
Print Assumptions C20_verify_path_repaired_full.

(* hierarchical circuits: a path of depth + 3 components, any depth *)
Theorem C20_hierarchical : forall k depth hnet p, WFnet (subnet hnet (firstn depth p)) ->
  guard_node_value_not_circuit (PHier k depth hnet p) = true ->
  hier_result k depth hnet p = Ok -> WellFormed (PHier k depth hnet p).
Proof. exact hier_ok_wellformed. Qed.
Print Assumptions C20_hierarchical.

(* NOTE (review): the next statement is BOOLEAN REFLECTION — the model function is `if <decidable presence test> then Ok else
   Warn/Err`, and the theorem says that the test decides the specification predicate.  The mechanism behind the test in the
   code (get_nodes walking the template, the parser raising KeyError for an unknown symbol, NodeTemplate.apply popping
   groups) is NOT modelled; that the code behaves like the test is tied by the correspondence run only. *)
Theorem C20_edge_endpoint : forall net p, WFnet net -> (edge_endpoint net p = Ok <-> Path3 net p).
Proof. exact edge_endpoint_ok_iff. Qed.
Print Assumptions C20_edge_endpoint.
(* NOTE (review): the next statement is BOOLEAN REFLECTION — the model function is `if <decidable presence test> then Ok else
   Warn/Err`, and the theorem says that the test decides the specification predicate.  The mechanism behind the test in the
   code (get_nodes walking the template, the parser raising KeyError for an unknown symbol, NodeTemplate.apply popping
   groups) is NOT modelled; that the code behaves like the test is tied by the correspondence run only. *)
Theorem C20_input_missing_warns : forall net p, WFnet net -> ~ Path3 net p -> add_input net p = Warn.
Proof. exact add_input_missing_warns. Qed.
Print Assumptions C20_input_missing_warns.
(* NOTE (review): the next statement is BOOLEAN REFLECTION — the model function is `if <decidable presence test> then Ok else
   Warn/Err`, and the theorem says that the test decides the specification predicate.  The mechanism behind the test in the
   code (get_nodes walking the template, the parser raising KeyError for an unknown symbol, NodeTemplate.apply popping
   groups) is NOT modelled; that the code behaves like the test is tied by the correspondence run only. *)
Theorem C20_update_missing_warns : forall net p, WFnet net -> ~ Path3 net p -> update_var net p = Warn.
Proof. exact update_var_missing_warns. Qed.
Print Assumptions C20_update_missing_warns.
Theorem C20_input_before_D13_silent : exists net p, WFnet net /\ ~ Path3 net p /\ add_input_before_D13 net p = Ok.
Proof. exact add_input_before_D13_silent. Qed.
Print Assumptions C20_input_before_D13_silent.

(* outputs (fix D48), node-level values (fix D49; `all` broadcasts included): no guard needed any more *)
(* NOTE (review): the next statement is BOOLEAN REFLECTION — the model function is `if <decidable presence test> then Ok else
   Warn/Err`, and the theorem says that the test decides the specification predicate.  The mechanism behind the test in the
   code (get_nodes walking the template, the parser raising KeyError for an unknown symbol, NodeTemplate.apply popping
   groups) is NOT modelled; that the code behaves like the test is tied by the correspondence run only. *)
Theorem C20_outputs : forall net outs, WFnet net -> (resolve_outputs net outs = Ok <-> forall o, In o outs -> Path3 net o).
Proof. exact resolve_outputs_ok_iff. Qed.
Print Assumptions C20_outputs.
Theorem C20_missing_output_raises : forall net outs o, WFnet net -> In o outs -> ~ Path3 net o ->
  resolve_outputs net outs = Err EPyRates.
Proof. exact missing_output_raises. Qed.
Print Assumptions C20_missing_output_raises.
Theorem C20_outputs_before_D48_silent : exists net outs o, WFnet net /\ In o outs /\ ~ Path3 net o /\
  resolve_outputs_before_D48 net outs = Ok.
Proof. exact outputs_before_D48_silent. Qed.
Print Assumptions C20_outputs_before_D48_silent.
Theorem C20_node_value : forall net p, node_value net p = Ok -> NodeValueTarget net p.
Proof. exact node_value_ok_target. Qed.
Print Assumptions C20_node_value.
Theorem C20_node_value_missing_operator : forall (net : network) n o v (ops : list opd), String.eqb n "all" = false ->
  lookup n net = Some ops -> lookup o ops = None -> node_value net [n; o; v] = Err EPyRates.
Proof. exact node_value_missing_operator. Qed.
Print Assumptions C20_node_value_missing_operator.
Theorem C20_node_value_broadcast_missing_operator : forall (net : network) m ops rest o v,
  net = (m, ops) :: rest -> lookup o ops = None -> node_value net ["all"; o; v] = Err EPyRates.
Proof. exact node_value_broadcast_missing_operator. Qed.
Print Assumptions C20_node_value_broadcast_missing_operator.
Theorem C20_node_value_unknown_node_warns : forall (net : network) n o v, String.eqb n "all" = false ->
  lookup n net = None -> node_value net [n; o; v] = Warn /\ node_value_before_D49 net [n; o; v] = Ok.
Proof. exact node_value_unknown_node_warns. Qed.
Print Assumptions C20_node_value_unknown_node_warns.

(* the flag `_uses_edge_delay_buffer` over the projections in processing order: sticky (the code) = order-independent for
   every sequence; assigned per call (the seeded changes C20-m1/m3/m5) = decided by the last projection *)
Theorem C20_delay_flag_order_independent : forall ks ks', Permutation ks ks' -> flag_sticky ks = flag_sticky ks'.
Proof. exact flag_sticky_order_independent. Qed.
Print Assumptions C20_delay_flag_order_independent.
Theorem C20_delay_flag_assigned_order_dependent :
  flag_assigned (mixed_kinds true) = false /\ flag_assigned (mixed_kinds false) = true /\ Permutation (mixed_kinds true) (mixed_kinds false).
Proof. exact flag_assigned_order_dependent. Qed.
Print Assumptions C20_delay_flag_assigned_order_dependent.
(* the model of the mixed-delay probe rows therefore does not depend on the order (the `first_plain` argument is ignored:
   both statements are by reflexivity and record a modelling decision; that the CODE does not depend on it is what the
   correspondence run checks by running both orders) *)
Theorem C20_mixed_order_independent : forall b s v e, mixed_outcome b s v true e = mixed_outcome b s v false e.
Proof. exact mixed_order_independent. Qed.
Print Assumptions C20_mixed_order_independent.
Theorem C20_mixed_population_order_independent : forall b s v e, pop_outcome b s v true e = pop_outcome b s v false e.
Proof. exact pop_order_independent. Qed.
Print Assumptions C20_mixed_population_order_independent.
(* a model that mixes a plain-delay edge with a delay+spread edge is treated like a discrete delay (an instance of
   C20_numbers_only_if_supported at a DDiscrete row) *)
Theorem C20_mixed_delays : forall b s v fp e, g6 fixed_F6 (mixed_config b s v e) = true ->
  mixed_outcome b s v fp e = Ok -> Supported (mixed_config b s v e).
Proof. exact mixed_ok_supported. Qed.
Print Assumptions C20_mixed_delays.

(* ... and so is the same mixture of matrix connections of a population (Connectivity API) *)
Theorem C20_mixed_population_delays : forall b s v fp e, g6 fixed_F6 (pop_config b s v e) = true ->
  pop_outcome b s v fp e = Ok -> Supported (pop_config b s v e).
Proof. exact pop_ok_supported. Qed.
Print Assumptions C20_mixed_population_delays.

(* operator graph of a node: any number of operators *)
Theorem C20_cycle_rejected : forall ops S, CyclicSet (map oname ops) (op_edges ops) S -> check_op_graph ops = Err EPyRates.
Proof. exact cyclic_op_graph_rejected. Qed.
Print Assumptions C20_cycle_rejected.
Theorem C20_mutual_feed_rejected : forall ops p q, In p ops -> In q ops ->
  In (ooutput p) (oinputs q) -> In (ooutput q) (oinputs p) -> check_op_graph ops = Err EPyRates.
Proof. exact mutual_feed_rejected. Qed.
Print Assumptions C20_mutual_feed_rejected.
Theorem C20_no_order_iff_cyclic : forall nodes edges, toposort nodes edges = None <-> exists S, CyclicSet nodes edges S.
Proof. exact toposort_none_iff. Qed.
Print Assumptions C20_no_order_iff_cyclic.
(* the direction the code relies on: in the order found, every operator comes after its predecessors *)
Theorem C20_order_respects_dependencies : forall nodes edges l, toposort nodes edges = Some l ->
  forall pre v post, l = pre ++ v :: post -> forall u, In (u, v) edges -> In u nodes -> In u pre.
Proof. exact toposort_respects_dependencies. Qed.
Print Assumptions C20_order_respects_dependencies.

(* edge templates: exactly one output operator *)
Theorem C20_edge_template_two_outputs : forall ops, 2 <= count_sinks ops -> check_edge_template ops = Err EPyRates.
Proof. exact edge_template_two_outputs_rejected. Qed.
Print Assumptions C20_edge_template_two_outputs.
Theorem C20_edge_template_ok : forall ops, check_edge_template ops = Ok -> count_sinks ops = 1.
Proof. exact edge_template_sinks. Qed.
Print Assumptions C20_edge_template_ok.

(* non-vacuity: supported configurations exist and return; an unsupported one of each guard is refused with the
   class of the guard; a three-operator chain is ordered, the same chain closed to a ring is refused *)
Example C20_nonvacuous :
  outcome (mkc BJax SDiffrax true DSpread false true ERun) = Ok /\
  Supported (mkc BJax SDiffrax true DSpread false true ERun) /\
  outcome (mkc BTorch SHeun true DNone false true ERun) = Err EPyRates /\
  outcome (mkc BFortran SEuler true DNone false true EFunc) = Err EPyRates /\
  outcome (mkc BJax SEuler true DDiscrete false true EFunc) = Err ENotImpl /\
  outcome (mkc BJax SScipy true DDiscrete false true EFunc) = Ok /\
  outcome (mkc BJax SScipy true DNone true true EJac) = Err ENotImpl /\
  mixed_outcome BJax SEuler false true ERun = Err ENotImpl /\ mixed_outcome BJax SEuler false false ERun = Err ENotImpl /\
  mixed_outcome BDefault SEuler false true ERun = Ok /\
  pop_outcome BJax SHeun true true ERun = Err ENotImpl /\ pop_outcome BJax SHeun true false EFunc = Err ENotImpl /\
  pop_outcome BJax SDiffrax true true ERun = Ok /\
  node_value F1_net ["all"; "ob"; "r"] = Err EPyRates /\ node_value F1_net ["all"; "oa"; "r"] = Ok /\
  option_result (OSolver BDefault) (Some "Euler") = Err EPyRates /\ option_result (OSolver BJax) (Some "diffrax") = Ok /\
  option_result OPrecision (Some "Float64") = Err EOther /\ option_result OMethod (Some "rk45") = Err EOther /\
  check_vname "q_buffer_1" = Err EPyRates /\ check_vname "buffer" = Ok /\
  toposort ["c"; "b"; "a"] [("a", "b"); ("b", "c")] = Some ["a"; "b"; "c"] /\
  toposort ["c"; "b"; "a"] [("a", "b"); ("b", "c"); ("c", "a")] = None.
Proof.
  repeat split; try (vm_compute; reflexivity); try (apply supportedb_iff; vm_compute; reflexivity).
Qed.
Print Assumptions C20_nonvacuous.

(* E2: the string-level solver contract of the default backend is regenerated from the source on every run
   (coq/gen/Gen_validate_solver.v = BaseBackend._validate_solver with SUPPORTED_SOLVERS read from the class attribute,
   coq/gen/Gen_solve_dispatch.v = the if-chain of BaseBackend._solve; harness/py2v.py).  For every string: the generated
   functions equal the hand model (validate_solver_str / solve_dispatch_str for BDefault), every accepted string runs the
   integrator that carries its name (no accepted string falls through to the last branch under another name), and a
   refused string runs nothing. *)
From PV Require Import PyLib SolverEquiv.
From PVG Require Import Gen_validate_solver Gen_solve_dispatch.
Theorem C20_solver_strings_generated : forall s has_dde,
  (validate_solver s = if validate_solver_str BDefault (Some s) then Some tt else None) /\
  (solve_dispatch s has_dde =
     if validate_solver_str BDefault (Some s) then Some (called_name (solve_dispatch_str BDefault (Some s)) has_dde) else None) /\
  (validate_solver s = Some tt ->
     exists m, solve_dispatch s has_dde = Some m /\
               (m = ("_solve_" ++ s)%string \/ (s = "scipy"%string /\ has_dde = true /\ m = "_solve_scipy_dde"%string))) /\
  (validate_solver s = None -> solve_dispatch s has_dde = None).
Proof. exact solver_strings_generated. Qed.
Print Assumptions C20_solver_strings_generated.
