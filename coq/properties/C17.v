(* C17 — a parameter sweep equals running each parameter set on its own.
   Statements only; every proof is `exact <lemma of GridProofs>`. *)
From Coq Require Import List ZArith QArith Qcanon Bool Arith Permutation.
From PV Require Import Grid GridProofs.
Import ListNotations.
Open Scope nat_scope.

(* linearize_grid, permute = True: the rows (numpy meshgrid order, first two axes swapped) are a permutation of the
   full Cartesian product: every combination exactly once, any number of parameters and of values *)
Theorem C17_permuted_grid : forall (vs : list (list Qc)), exists rows,
  linearize (Q2Qc 0) vs true = Some rows /\ Permutation rows (prod_rm vs).
Proof. exact (linearize_permute (Q2Qc 0)). Qed.
Print Assumptions C17_permuted_grid.

(* permute = False: row r = (v_1[r], ..., v_m[r]); unequal lengths are refused (ValueError) *)
Theorem C17_zipped_grid : forall (vs : list (list Qc)), same_len vs = true ->
  linearize (Q2Qc 0) vs false = Some (zip_rows (Q2Qc 0) vs) /\ length (zip_rows (Q2Qc 0) vs) = length (hd [] vs) /\
  forall r, r < length (hd [] vs) -> nth r (zip_rows (Q2Qc 0) vs) [] = map (fun v => nth r v (Q2Qc 0)) vs.
Proof. exact (linearize_zip (Q2Qc 0)). Qed.
Print Assumptions C17_zipped_grid.
Theorem C17_unequal_refused : forall (vs : list (list Qc)), same_len vs = false -> linearize (Q2Qc 0) vs false = None.
Proof. exact (linearize_refuses (Q2Qc 0)). Qed.
Print Assumptions C17_unequal_refused.

(* no edges between sub-circuits: at every step j the derivative of every variable of sub-circuit b only depends on sub-circuit b's
   state and parameters (X is the whole state, arbitrary in the other blocks) *)
Theorem C17_disjoint_union : forall Cs j X b i, b < length Cs ->
  nderiv (assemble Cs) j X b i = deriv (nth b Cs dC) j (nth b X []) i.
Proof. exact disjoint_union. Qed.
Print Assumptions C17_disjoint_union.

Theorem C17_union_trajectory : forall dt Cs n X j0 j b, length X = length Cs -> b < length Cs ->
  nth b (nth j (ntraj dt (assemble Cs) X j0 n) []) [] = nth j (traj dt (nth b Cs dC) (nth b X []) j0 n) [].
Proof. exact union_trajectory. Qed.
Print Assumptions C17_union_trajectory.

(* Full statement: for every circuit (with or without extrinsic input series, which grid_search broadcasts to every
   copy), parameter map, grid (zipped or permuted), step size and number of steps, the state of sub-circuit r at step j of
   the sweep is the state at step j of the circuit adapted with row r alone. *)
Definition C17_full_statement (fx : bool) : Prop := forall C pmap vals permute dt n rows tr,
  grid_impl_gen fx C pmap vals permute dt n = Some (rows, tr) ->
  linearize (Q2Qc 0) vals permute = Some rows /\
  forall r j, r < length rows -> nth r (nth j tr []) [] = nth j (nth r (grid_spec C pmap rows dt n) []) [].

(* It holds of the code as it is (repair D155 landed: adapt_circuit passes the index of a parallel edge through update_var):
   no guard, every circuit, map, grid, step size, number of steps *)
Theorem C17_full : C17_full_statement fix_idx.
Proof. exact grid_impl_spec_repaired. Qed.
Print Assumptions C17_full.
Theorem C17_full_after_repair : C17_full_statement true.
Proof. exact grid_impl_spec_repaired. Qed.
Print Assumptions C17_full_after_repair.

(* Before repair D155 (kept for the revert test): adapt_circuit looked an edge target (source, target, idx) up with idx but
   handed only (source, target, values) to update_var, which wrote parallel edge 0 — sweeping the second of two parallel
   edges swept the first (regression case corpus/C17/C17-edge-idx-ignored.json) *)
Theorem C17_idx_ignored_before_fix :
  idx_guard par_circ [[TW 1]] = false /\
  edges (adapt_gen false par_circ [[TW 1]] [qz 5]) = [(0, 1, qz 5); (0, 1, qz 2)] /\
  edges (adapt par_circ [[TW 1]] [qz 5]) = [(0, 1, qz 1); (0, 1, qz 5)] /\
  (match grid_impl_gen false par_circ [[TW 1]] [[qz 5]] false (qz 1) 2 with Some (_, tr) => nth 1 (nth 0 (nth 1 tr []) []) (qz 0) | None => qz 0 end) = qz 7 /\
  nth 1 (nth 1 (nth 0 (grid_spec par_circ [[TW 1]] [[qz 5]] (qz 1) 2) []) []) (qz 0) = qz 6.
Proof. exact idx_ignored_refuted. Qed.
Print Assumptions C17_idx_ignored_before_fix.
(* ... and was right only under the guard "every swept edge is parallel edge 0 of its (source, target) pair" *)
Theorem C17_partial_before_fix : forall C pmap vals permute dt n rows tr, idx_guard C pmap = true ->
  grid_impl_gen false C pmap vals permute dt n = Some (rows, tr) ->
  linearize (Q2Qc 0) vals permute = Some rows /\
  forall r j, r < length rows -> nth r (nth j tr []) [] = nth j (nth r (grid_spec C pmap rows dt n) []) [].
Proof. exact grid_impl_spec_partial. Qed.
Print Assumptions C17_partial_before_fix.
Theorem C17_adapt_under_guard : forall C pmap row, idx_guard C pmap = true -> adapt_gen false C pmap row = adapt C pmap row.
Proof. exact adapt_under_guard. Qed.
Print Assumptions C17_adapt_under_guard.

(* adapt_circuit: a written value reaches its target and leaves the other entries alone *)
Theorem C17_write_hits : forall C i v, i < length (ks C) -> nth i (ks (write C (TK i, v))) (Q2Qc 0) = v.
Proof. exact write_hits_k. Qed.
Print Assumptions C17_write_hits.
Theorem C17_write_frame : forall C tv i, fst tv <> TK i -> nth i (ks (write C tv)) (Q2Qc 0) = nth i (ks C) (Q2Qc 0).
Proof. exact write_frame_k. Qed.
Print Assumptions C17_write_frame.

(* non-vacuity: a 2 x 3 permuted grid over a node parameter and an edge weight of a two-node circuit *)
Example C17_nonvacuous :
  let q := fun z : nat => Q2Qc (inject_Z (Z.of_nat z)) in
  let C := {| ks := [q 1; q 2]; cs := [q 1; q 0]; x0 := [q 0; q 1]; edges := [(0, 1, q 1)]; uin := [[q 1; q 2; q 3]; []] |} in
  match grid_impl_gen false C [[TK 0]; [TW 0]] [[q 1; q 2]; [q 3; q 4; q 5]] true (Q2Qc (1 # 8)) 3 with
  | Some (rows, tr) => rows = [[q 1; q 3]; [q 2; q 3]; [q 1; q 4]; [q 2; q 4]; [q 1; q 5]; [q 2; q 5]] /\ length tr = 3
  | None => False
  end.
Proof. vm_compute. split; reflexivity. Qed.
Print Assumptions C17_nonvacuous.
