(* C11 — distributed delays are unit-gain gamma kernels with the stated mean.
   Statements only; every proof is `exact <lemma of GammaProofs>` or a computed (vm_compute) witness. *)
From Coq Require Import List ZArith QArith Qcanon Bool Arith Permutation.
From PV Require Import Ring RingProofs Gamma GammaProofs.
Import ListNotations.
Open Scope Qc_scope.

(* unit steady-state gain: under a constant input u, every equilibrium of the chain z_k' = a (z_{k-1} - z_k) has all
   stages (hence the output) equal to u; and that state is an equilibrium *)
Theorem C11_unit_gain : forall a u z, a <> 0 -> Forall (fun d => d = 0) (chain_rhs a u z) -> chain_out u z = u.
Proof. exact unit_gain. Qed.
Print Assumptions C11_unit_gain.
Theorem C11_equilibrium_unique : forall a u z, a <> 0 -> Forall (fun d => d = 0) (chain_rhs a u z) -> Forall (fun x => x = u) z.
Proof. exact equilibrium_is_u. Qed.
Print Assumptions C11_equilibrium_unique.
Theorem C11_equilibrium_exists : forall a u n, Forall (fun d => d = 0) (chain_rhs a u (repeat u n)).
Proof. exact equilibrium_exists. Qed.
Print Assumptions C11_equilibrium_exists.

(* mean delay: z_k(t) = t - k/a solves the chain driven by the ramp u(t) = t; the n-th stage lags by n/a = d *)
Theorem C11_ramp_lag : forall a t k, a <> 0 -> a * ((t - k / a) - (t - (k + 1) / a)) = 1.
Proof. exact ramp_lag. Qed.
Print Assumptions C11_ramp_lag.
Theorem C11_mean_delay : forall (n : nat) d, d <> 0 -> of_nat n <> 0 -> of_nat n / (of_nat n / d) = d.
Proof. exact lag_is_d. Qed.
Print Assumptions C11_mean_delay.

(* grouping by (order, round(rate,12)) is a partition of the slots: every slot index occurs in exactly one chain
   (multiset equality), and a chain's members all carry the chain's key *)
Theorem C11_chains_partition : forall keys, Permutation (concat (map snd (chains keys))) (seq 0 (length keys)).
Proof. exact chains_partition. Qed.
Print Assumptions C11_chains_partition.
Theorem C11_chain_members_have_its_key : forall keys ch j, In ch (chains keys) -> In j (snd ch) -> nth j keys O = fst ch.
Proof. exact chain_members_have_its_key. Qed.
Print Assumptions C11_chain_members_have_its_key.

(* order and rate of the specification: n = max(round_half_even((d/s)^2), dde_approx), a = n/d *)
Theorem C11_order_rate : forall c e d s, In e (gedges c) -> gd e = Some (d, Some s) ->
  In (Nat.max (Z.to_nat (round_half_even ((d / s) * (d / s)))) (gdde c),
      of_nat (Nat.max (Z.to_nat (round_half_even ((d / s) * (d / s)))) (gdde c)) / d) (spec_params c).
Proof. exact spec_order_rate. Qed.
Print Assumptions C11_order_rate.

(* full statement: the compiled system is the explicitly written augmented ODE system (every edge its own kernel) *)
Definition C11_full_statement : Prop := forall c n, gwf c = true -> gimpl_run c n = Ok (gspec_run c n).

(* what holds: under the guards the compiled (order, rate) of every edge are the specified ones — edges sharing a source but
   differing in (d, s) get their own kernels, whatever the grouping — and the Euler trajectories of all user variables coincide *)
Theorem C11_params : forall c, gwf c = true -> gguards c = true -> impl_params c = spec_params c.
Proof. exact params_agree. Qed.
Print Assumptions C11_params.
Theorem C11_partial : forall c n, gwf c = true -> gguards c = true -> gimpl_run c n = Ok (gspec_run c n).
Proof. exact gimpl_refines_spec. Qed.
Print Assumptions C11_partial.

(* Connectivity(weights, delays, spread): the cascade of _add_matrix_delay (order max(1, round((d/s)^2)), rate n/d), on the
   expansion of the population circuit into one edge per matrix entry, is the specified per-edge kernel system *)
Theorem C11_connectivity : forall c n, g_conn c = true -> gconn_run c n = gspec_run c n.
Proof. exact conn_refines_spec. Qed.
Print Assumptions C11_connectivity.

(* repaired in /repo (fixes D71, D70, D72, D45; model switches Gamma.fixed_dde_steps, Ring.fixed_D15 = true).  Before the repairs
   dde_approx without spread took the delay in STEPS (rate 2/4 instead of 2/(1/2) = 4 at dt = 1/8), dde_approx > 0 turned an
   edge WITHOUT delay on a buffered source into a kernel of mean one time unit, index-array write-backs were read one call late and
   a permuted full cover of the source vector swapped sources; the former witnesses are now inside the guards (regression cases in
   corpus/C11) *)
Definition dt8 := mkq 1 8.
Definition S1 := mkNode true 0 (mkq 1 1) (mkq 1 2).
Definition T0 := mkNode false 0 (mkq 0 1) (mkq 0 1).
Definition w_dde := mkGC dt8 false 2 [S1; T0] [mkG 0 1 (mkq 1 1) (Some (mkq 1 2, None))].
Definition w_kernel := mkGC dt8 false 2 [S1; T0; T0]
  [mkG 0 1 (mkq 1 1) (Some (mkq 2 1, Some (mkq 1 1))); mkG 0 2 (mkq 1 1) None].
Example C11_fixed_dde_and_kernel : gwf w_dde = true /\ gguards w_dde = true /\ gwf w_kernel = true /\ gguards w_kernel = true /\
  map fst (impl_params w_dde) = [2%nat] /\ forallb (fun p => Qceqb (snd p) (mkq 4 1)) (impl_params w_dde) = true /\
  gimpl_run w_dde 6 = Ok (gspec_run w_dde 6) /\ gimpl_run w_kernel 6 = Ok (gspec_run w_kernel 6).
Proof.
  repeat (split; [vm_compute; reflexivity|]). split; apply C11_partial; vm_compute; reflexivity.
Qed.
Print Assumptions C11_fixed_dde_and_kernel.
(* the kernel guard holds of every circuit now *)
Theorem C11_kernel_guard_trivial : forall c, g_no_undelayed_kernel c = true.
Proof. exact kernel_guard_trivial. Qed.
Print Assumptions C11_kernel_guard_trivial.

(* the scalar shared chain (vectorize=True, single-unit source, two slots in one chain: IndexError) is repaired in /repo (D95;
   model switch Gamma.fixed_scalar_chain = true); its witness is a regression case inside the guards *)
Definition w_shared := mkGC dt8 true 0 [S1; T0; T0]
  [mkG 0 1 (mkq 1 1) (Some (mkq 2 1, Some (mkq 1 1))); mkG 0 2 (mkq 1 1) (Some (mkq 2 1, Some (mkq 1 1)))].
Example C11_fixed_scalar_shared_chain : gwf w_shared = true /\ gguards w_shared = true /\ gimpl_run w_shared 6 = Ok (gspec_run w_shared 6).
Proof. split; [vm_compute; reflexivity|]. split; [vm_compute; reflexivity|]. apply C11_partial; vm_compute; reflexivity. Qed.
Print Assumptions C11_fixed_scalar_shared_chain.

(* ---- the full statement, as strongly as it is true: for EVERY well-formed circuit whose delays are implemented at all (every
        delayed edge's source has a delay above the step size — shorter ones are deliberately neglected), in which
        round(rate, 12) merges no two different rates and the discrete delays of the spread-less edges are the specified
        round(d/dt) steps, the compiled system is the explicitly written per-edge system (a gamma chain behind an edge with
        a spread or under dde_approx, a discrete delay behind a plain-delay edge): any mixture of (d, s) pairs, plain delays,
        undelayed siblings, shared sources/targets, both vectorize settings. ---- *)
Theorem C11_full : forall c n, gwf c = true -> g_above_step c = true -> g_rates_exact c = true -> g_steps_exact c = true ->
  gimpl_run c n = Ok (gspec_run c n).
Proof. exact gfull_scope. Qed.
Print Assumptions C11_full.
(* ... and in the form whose hypotheses are all scope conditions of the property itself: delays above the step size, plain discrete
   delays of at least two steps (shorter ones are deliberately neglected), round(rate,12) injective on the rates present *)
Theorem C11_full_scope : forall c n, gwf c = true -> g_above_step c = true -> g_rates_exact c = true -> g_plain_ge2 c = true ->
  gimpl_run c n = Ok (gspec_run c n).
Proof. exact gfull_scope_only. Qed.
Print Assumptions C11_full_scope.
(* g_steps_exact holds inside the property's scope (the other hypothesis is trivially true since fix D114) *)
Theorem C11_steps_exact : forall c, g_no_plain_in_spread_group c = true -> g_plain_ge2 c = true -> g_steps_exact c = true.
Proof. exact steps_exact_of_guards. Qed.
Print Assumptions C11_steps_exact.
(* D114, repaired in /repo (model switch Gamma.fixed_mixed_kinds = true): a plain discrete delay on an edge whose (merged) source
   variable also has an edge with a spread used to be silently DROPPED (the spread-less slot got the kernel of order 0), vectorized
   already when another unit of the merged source vector had the spread edge, so vec and non-vec compilations differed.  The former
   witness (corpus/C11/reg_D114_mixed_kinds.json) is inside all hypotheses of C11_full in both vectorize settings. *)
Definition w_mixed := mkGC dt8 true 0 [S1; mkNode true 0 (mkq 2 1) (mkq 1 1); T0; T0]
  [mkG 0 2 (mkq 1 1) (Some (mkq 1 2, None)); mkG 1 3 (mkq 1 1) (Some (mkq 2 1, Some (mkq 1 1)))].
Example C11_fixed_mixed_kinds : gwf w_mixed = true /\ g_no_plain_in_spread_group w_mixed = true /\
  impl_steps w_mixed = [4; 0]%nat /\ spec_steps w_mixed = [4; 0]%nat /\
  gimpl_run w_mixed 8 = Ok (gspec_run w_mixed 8) /\
  gimpl_run (mkGC dt8 false 0 (gnodes w_mixed) (gedges w_mixed)) 8 = Ok (gspec_run (mkGC dt8 false 0 (gnodes w_mixed) (gedges w_mixed)) 8).
Proof.
  split; [vm_compute; reflexivity|]. split; [vm_compute; reflexivity|]. split; [vm_compute; reflexivity|].
  split; [vm_compute; reflexivity|]. split; apply C11_full; vm_compute; reflexivity.
Qed.
Print Assumptions C11_fixed_mixed_kinds.
(* the mixed-kinds guard holds of every circuit now *)
Theorem C11_mixed_guard_trivial : forall c, g_no_plain_in_spread_group c = true.
Proof. intros c. reflexivity. Qed.
Print Assumptions C11_mixed_guard_trivial.
(* the add_delay decision is taken per PARTITION (spread edges / spread-less edges) since D114: a kernel edge whose own partition stays at
   or below the step size is neglected (pass-through) even when a plain-delay sibling of the same source variable is far above it.  The
   scope guard g_above_step is stated per partition accordingly; this circuit (found by an independent review: the model used to decide on
   the whole group) is OUTSIDE the scope, and the mechanism model gives the pass-through the real code computes
   (corpus/C11/reg_partition_threshold.json) *)
Definition w_partition := mkGC dt8 false 0 [S1; T0; T0]
  [mkG 0 1 (mkq 1 1) (Some (mkq 1 2, None)); mkG 0 2 (mkq 1 1) (Some (mkq 1 16, Some (mkq 1 16)))].
Example C11_partition_threshold : gwf w_partition = true /\ g_above_step w_partition = false /\ g_plain_ge2 w_partition = true /\
  map fst (impl_params w_partition) = [0; 0]%nat /\ impl_steps w_partition = [4; 0]%nat /\
  map fst (spec_params w_partition) = [0; 1]%nat.
Proof. repeat split; vm_compute; reflexivity. Qed.
Print Assumptions C11_partition_threshold.

(* the unrestricted statement C11_full_statement fails only on that scope boundary: a delay below the step size is ignored *)
Definition w_short := mkGC dt8 false 0 [S1; T0] [mkG 0 1 (mkq 1 1) (Some (mkq 1 16, Some (mkq 1 16)))].
Theorem C11_full_refuted : ~ C11_full_statement.
Proof.
  intros H. assert (Hw : gwf w_short = true) by (vm_compute; reflexivity). specialize (H w_short 4%nat Hw).
  revert H. apply res_eqb_false_neq. vm_compute. reflexivity.
Qed.
Print Assumptions C11_full_refuted.

(* non-vacuity: two edges sharing a source with (d,s) = (2,1) -> n = 4, a = 2 and (2, 4/5) -> n = 6, a = 3, a third one
   (1, 1/2) -> n = 4, a = 4 from another unit of the same class, vectorized *)
Definition w_ok := mkGC dt8 true 0 [S1; mkNode true 0 (mkq 2 1) (mkq 1 1); T0; T0]
  [mkG 0 2 (mkq 1 1) (Some (mkq 2 1, Some (mkq 1 1))); mkG 0 3 (mkq 1 2) (Some (mkq 2 1, Some (mkq 4 5)));
   mkG 1 3 (mkq 1 1) (Some (mkq 1 1, Some (mkq 1 2)))].
Example C11_nonvacuous : gwf w_ok = true /\ gguards w_ok = true /\
  map fst (spec_params w_ok) = [4; 6; 4]%nat /\
  forallb (fun p => Qceqb (fst p) (snd p)) (combine (map snd (spec_params w_ok)) [mkq 2 1; mkq 3 1; mkq 4 1]) = true.
Proof. repeat split; vm_compute; reflexivity. Qed.
Print Assumptions C11_nonvacuous.
