(* C09 — discrete edge delays shift the source by round(delay/dt) steps.
   Statements only; every proof is `exact <lemma of RingProofs>` or a computed (vm_compute) witness. *)
From Coq Require Import List ZArith QArith Qcanon Bool Arith.
From PV Require Import Ring RingProofs.
Import ListNotations.

(* ---- the buffer machine: roll, write slot 0, read slot d.  A buffer of D+1 slots serves every d <= D:
        the value read at call c is the input of call c-d, zero before the first call ---- *)
Theorem C09_ring_delay : forall xs D d c, (d <= D)%nat ->
  read d (feed xs (S c) (repeat 0%Qc (S D))) = if (d <=? c)%nat then xs (c - d)%nat else 0%Qc.
Proof. exact ring_delay. Qed.
Print Assumptions C09_ring_delay.

(* ---- bookkeeping of _add_edge_buffer: with any number of edges on one source variable, slot p of edge i in the
        flattened `buffered` vector is the row of ITS source unit read at ITS delay ---- *)
Theorem C09_each_edge_keeps_its_delay : forall buf nodes dl i p,
  Forall2 (fun x y => length x = length y) nodes dl -> (p < length (nth i nodes []))%nat ->
  edge_reads buf nodes dl i p = nth (nth p (nth i dl []) 0%nat) (nth (nth p (nth i nodes []) 0%nat) buf []) 0%Qc.
Proof. exact each_edge_keeps_its_delay. Qed.
Print Assumptions C09_each_edge_keeps_its_delay.

(* ---- full statement (property text, delays that round to >= 2 steps): for EVERY circuit, vectorize setting and
        fixed-step solver the compiled mechanism produces the trajectories of the delayed recurrence ---- *)
Definition C09_full_statement : Prop :=
  forall c n, wf c = true -> g_delays_ge2 c = true -> impl_run c n = Ok (spec_run c n).

(* ---- under the guards (of which only Euler and the two-step scope still restrict anything: see C09_full_euler below) it is a theorem, for any number of nodes, edges per
        source/target, delays and steps, both vectorize settings ---- *)
Theorem C09_partial : forall c n, wf c = true -> guards c = true -> impl_run c n = Ok (spec_run c n).
Proof. exact impl_refines_spec. Qed.
Print Assumptions C09_partial.

(* the specification's `past`: state of d steps ago, zero before the simulation started *)
Theorem C09_past_meaning : forall c k d i,
  past (shist c k) d i = if (d <=? k)%nat then nth i (nth (k - d) (spec_run c (S k)) []) 0%Qc else 0%Qc.
Proof. exact past_meaning. Qed.
Print Assumptions C09_past_meaning.

(* composition with the Euler loop (one rhs call per step), per edge: at step k the edge reads the value its source
   had at step k - round_half_even(delay/dt), zero before; an edge without delay reads the current value *)
Theorem C09_euler_delivered : forall c k e, wf c = true -> guards c = true -> In e (cedges c) ->
  let st := istate c k in
  let d := sdelay (cdt c) e in
  eread c (roll_rows (snd st) (fst st)) (fst st) e =
    if (d <=? k)%nat then nth (esrc e) (nth (k - d) (spec_run c (S k)) []) 0%Qc else 0%Qc.
Proof. exact euler_delivered. Qed.
Print Assumptions C09_euler_delivered.

(* the (Ns, d+1) ring buffer of _add_matrix_delay (Connectivity with delays): at rhs call c the targets receive
   W . (src_j(c - d))_j, zero before the first call — any number of source units, any delay, any weight matrix.
   (Composition with Euler: the population circuit is, edge for edge, the circuit with one edge per matrix entry, to which
   C09_partial applies; the correspondence run compares Connectivity runs with that expansion.) *)
Theorem C09_matrix_delay : forall W X Ns d c, (forall c, length (X c) = Ns) ->
  mat_delivered W X Ns d c =
  matvec W (map (fun j => if (d <=? c)%nat then nth j (X (c - d)%nat) 0%Qc else 0%Qc) (seq 0 Ns)).
Proof. exact matrix_delay. Qed.
Print Assumptions C09_matrix_delay.

(* np.round, for every rational: a nearest integer, the even one on a tie *)
Theorem C09_round_nearest : forall q : Qc,
  let z := round_half_even q in
  (inject_Z z - (1 # 2) <= this q)%Q /\ (this q <= inject_Z z + (1 # 2))%Q /\
  ((this q - inject_Z (qfloor q) == 1 # 2)%Q -> Z.even z = true).
Proof. exact round_half_even_nearest. Qed.
Print Assumptions C09_round_nearest.

Theorem C09_round_integer : forall z, round_half_even (Q2Qc (inject_Z z)) = z.
Proof. exact round_half_even_int. Qed.
Print Assumptions C09_round_integer.

(* np.round semantics on the quarter grid used by the generator: 2.25 -> 2, 2.5 -> 2, 2.75 -> 3, 3.5 -> 4 (ties to even) *)
Example C09_round_examples :
  map round_half_even [mkq 9 4; mkq 5 2; mkq 11 4; mkq 7 2; mkq 1 2; mkq 3 2] = [2; 2; 3; 4; 0; 2]%Z /\
  map round_half_up [mkq 5 2; mkq 1 2] = [3; 1]%Z.
Proof. vm_compute. split; reflexivity. Qed.
Print Assumptions C09_round_examples.

(* ---- refutations of the full statement on the faithful model (each witness is replayed on the real code by the
        check: corpus/C09) ---- *)
Definition dt8 := mkq 1 8.
Definition S1 := mkNode true 0 (mkq 1 1) (mkq 3 4).      (* x' = 1, x(0) = 3/4 *)
Definition T0 := mkNode false 0 (mkq 0 1) (mkq 0 1).
Definition differs (c : circuit) (n : nat) : bool := negb (res_eqb (impl_run c n) (Ok (spec_run c n))).

(* D7: under Heun the buffer advances twice per step *)
Definition w_heun := mkC dt8 false true [S1; T0] [mkEdge 0 1 (mkq 1 1) (Delay (mkq 1 2))].
Theorem C09_refuted_heun : wf w_heun = true /\ g_delays_ge2 w_heun = true /\ g_euler w_heun = false /\
  impl_run w_heun 8 <> Ok (spec_run w_heun 8).
Proof. split; [|split; [|split]]; try (vm_compute; reflexivity). apply res_eqb_false_neq. vm_compute. reflexivity. Qed.
Print Assumptions C09_refuted_heun.

(* D15 / D24 / D34, repaired in /repo (fixes D70, D69; model switches Ring.fixed_D15, Ring.fixed_D34 = true).  Before the
   repairs an edge without delay on a buffered source variable counted as one step (vectorized: whenever ANY unit of the merged
   source vector had a delayed edge) and `delay: None` written out counted as one time unit; the former refutation witnesses are
   now inside the guards and meet the specification (regression cases in corpus/C09: the D15, D24 and D34 files). *)
Definition w_sibling := mkC dt8 false false [S1; T0; T0]
  [mkEdge 0 1 (mkq 2 1) (Delay (mkq 3 8)); mkEdge 0 2 (mkq 1 1) NoKey].
Definition w_sibling_vec := mkC dt8 true false [S1; S1; T0; T0]
  [mkEdge 0 2 (mkq 2 1) (Delay (mkq 3 8)); mkEdge 1 3 (mkq 1 1) NoKey].
Definition w_none := mkC dt8 false false [S1; T0] [mkEdge 0 1 (mkq 2 1) ExplNone].
Example C09_fixed_sibling : guards w_sibling = true /\ guards w_sibling_vec = true /\ guards w_none = true /\
  impl_run w_sibling 6 = Ok (spec_run w_sibling 6) /\ impl_run w_sibling_vec 6 = Ok (spec_run w_sibling_vec 6) /\
  impl_run w_none 11 = Ok (spec_run w_none 11).
Proof.
  split; [vm_compute; reflexivity|]. split; [vm_compute; reflexivity|]. split; [vm_compute; reflexivity|].
  split; [|split]; apply C09_partial; vm_compute; reflexivity.
Qed.
Print Assumptions C09_fixed_sibling.
(* with the repairs the sibling guard holds of EVERY circuit: it is no longer a restriction *)
Theorem C09_sibling_guard_trivial : forall c, g_no_undelayed_sibling c = true.
Proof. exact sibling_guard_trivial. Qed.
Print Assumptions C09_sibling_guard_trivial.

(* D18, repaired in /repo (D59/D68/D70 and finally D94; model switch Ring.fixed_D18c = true): parallel edges between one variable
   pair on a buffered source, vectorize=False, used to raise IndexError at the first call; the former witnesses are regression
   cases (corpus/C09, the three D18 files) inside the guards *)
Definition w_parallel := mkC dt8 false false [S1; T0]
  [mkEdge 0 1 (mkq 2 1) (Delay (mkq 3 8)); mkEdge 0 1 (mkq 1 1) NoKey].
Definition w_parallel2 := mkC dt8 false false [S1; T0]
  [mkEdge 0 1 (mkq 2 1) (Delay (mkq 3 8)); mkEdge 0 1 (mkq 1 1) (Delay (mkq 5 8))].
Definition w_parallel3 := mkC dt8 false false [S1; T0; T0]
  [mkEdge 0 1 (mkq 2 1) NoKey; mkEdge 0 1 (mkq 1 1) NoKey; mkEdge 0 2 (mkq 1 1) (Delay (mkq 3 8))].
Example C09_fixed_parallel : guards w_parallel = true /\ guards w_parallel2 = true /\ guards w_parallel3 = true /\
  impl_run w_parallel3 6 = Ok (spec_run w_parallel3 6).
Proof. repeat (split; [vm_compute; reflexivity|]). apply C09_partial; vm_compute; reflexivity. Qed.
Print Assumptions C09_fixed_parallel.

(* ---- the full statement up to D7: for EVERY well-formed circuit (any mixture of delayed and undelayed edges, several delays
        per source and per target, parallel edges, `delay: None`), both vectorize settings, under Euler, with delays that round
        to at least two steps, the compiled mechanism produces the trajectories of the delayed recurrence.  No other guard. ---- *)
Theorem C09_full_euler : forall c n, wf c = true -> g_euler c = true -> g_delays_ge2 c = true ->
  impl_run c n = Ok (spec_run c n).
Proof. exact full_up_to_heun. Qed.
Print Assumptions C09_full_euler.

(* D118, repaired in /repo (model switch Ring.fixed_one_step_per_edge = true): a delay of at most one step is neglected per edge.
   Before the fix (Ring.rsteps_before_fix) the one-step delay of an edge was realised as a one-step ring-buffer delay exactly when a sibling
   edge of the same (merged) source variable had >= 2 steps — what an edge did depended on its siblings.  Such delays are outside the
   property's scope (g_delays_ge2), so this is a note about the mechanism model, not a theorem about the property. *)
Definition w_one_step := mkC dt8 false false [S1; T0; T0]
  [mkEdge 0 1 (mkq 1 1) (Delay (mkq 1 8)); mkEdge 0 2 (mkq 1 1) (Delay (mkq 3 8))].
Example C09_one_step_before_fix :
  map (rsteps dt8) (cedges w_one_step) = [0; 3]%nat /\ map (rsteps_before_fix dt8) (cedges w_one_step) = [1; 3]%nat /\
  g_delays_ge2 w_one_step = false.
Proof. repeat split; vm_compute; reflexivity. Qed.
Print Assumptions C09_one_step_before_fix.

Theorem C09_full_refuted : ~ C09_full_statement.
Proof.
  intros H. destruct C09_refuted_heun as [Hw [Hg [_ Hne]]]. apply Hne. apply H; assumption.
Qed.
Print Assumptions C09_full_refuted.

(* ---- non-vacuity: a vectorized circuit with two sources of one class, three delays (2, 2 [2.5 rounds to even], 4 steps),
        two of them on the same source, two edges into one target; hypotheses hold, and the first target has received
        by step 6 exactly dt * 2 * (x0(0)+..+x0(3)) = 1/8 * 2 * (3/4 + 7/8 + 1 + 9/8) = 15/16 ---- *)
Definition w_ok := mkC dt8 true false [S1; mkNode true 0 (mkq 2 1) (mkq 1 2); T0; T0]
  [mkEdge 0 2 (mkq 2 1) (Delay (mkq 1 4)); mkEdge 0 3 (mkq 1 1) (Delay (mkq 5 16)); mkEdge 1 3 (mkq 1 2) (Delay (mkq 1 2))].
Example C09_nonvacuous : wf w_ok = true /\ guards w_ok = true /\
  (exists rows, impl_run w_ok 7 = Ok rows /\ Qceqb (nth 2 (nth 6 rows []) 0%Qc) (mkq 15 16) = true).
Proof. split; [|split]; try (vm_compute; reflexivity). eexists. split; [vm_compute; reflexivity|vm_compute; reflexivity]. Qed.
Print Assumptions C09_nonvacuous.
