(* C14 — read-only and copy-making operations leave a template unchanged.
   Statements only; every proof is `exact <lemma of MutationProofs>` or a computed witness. *)
From Coq Require Import List String ZArith QArith Qcanon Bool Arith.
From PV Require Import Heap Values ValuesProofs Mutation MutationProofs.
Import ListNotations.
Open Scope nat_scope.

(* Frame, one operation: after ANY listed operation (getters, to_yaml, deepcopy, update_template without in_place, OperatorTemplate.update_template,
   get_run_func / get_jacobian_func / run with in_place=False) called on the template r, EVERY template c (of any depth d')
   that had a denotation before — r itself, its sub-circuits, templates sharing nodes or operators with it — has the
   same denotation (equations, defaults, per-node values, connectivity). *)
Theorem C14_frame_each_operation : forall fixed d r s o d' c t,
  abs d' (fst s) c = Some t -> abs d' (fst (fst (mstep_gen fixed d r s o))) c = Some t.
Proof. exact frame_step. Qed.
Print Assumptions C14_frame_each_operation.

(* ... and after any finite sequence of them *)
Theorem C14_frame_any_sequence : forall fixed d r ops s d' c t,
  abs d' (fst s) c = Some t -> abs d' (fst (fst (mrun_gen fixed d r s ops))) c = Some t.
Proof. exact frame_sequence. Qed.
Print Assumptions C14_frame_any_sequence.

(* Full statement: every operation of every sequence returns what the unchanged denotation says: reads read the tree,
   every compile starts from the declared initial values, every run succeeds from the declared initial values. *)
Definition C14_full_statement (fixed : bool) : Prop := forall d r t ops h, abs d h r = Some t ->
  snd (mrun_gen fixed d r (h, book0) ops) = map (mstepS d t) ops.

(* `fixed` = false: the code as it is (mrun = mrun_gen false).  `fixed` = true: the mechanism of the proposed repair
   /verif/fixes/proposed_fix_C14_state_carry.diff (bookkeeping read from / written to the deep copy).  With the repair the
   full statement holds for every sequence; this theorem becomes THE claim once Mutation.fixed_state_carry is switched. *)
Theorem C14_full_when_fixed : C14_full_statement true.
Proof. exact outputs_refine_fixed. Qed.
Print Assumptions C14_full_when_fixed.

(* As the code is, it holds for sequences in which no call reads bookkeeping written onto `self` by an earlier call
   (no compile after a run, no run after a compile, all compiles with one vectorize setting). *)
Theorem C14_partial : forall d r t ops h, abs d h r = Some t -> no_state_carry ops = true ->
  snd (mrun d r (h, book0) ops) = map (mstepS d t) ops.
Proof. exact outputs_refine_guard. Qed.
Print Assumptions C14_partial.

(* corollary named in the property: run(in_place=False) any number of times, interleaved with any reads and copies,
   returns the same result every time *)
Theorem C14_repeated_runs_identical : forall d r t ops h, abs d h r = Some t -> only_runs_and_reads ops = true ->
  snd (mrun d r (h, book0) ops) = map (mstepS d t) ops.
Proof. exact repeated_runs_identical. Qed.
Print Assumptions C14_repeated_runs_identical.

Theorem C14_deepcopy_only_appends : forall d h m c h2 m2 c', copy_circ d h m c = Some (h2, m2, c') -> extends h h2.
Proof. exact copy_circ_extends. Qed.
Print Assumptions C14_deepcopy_only_appends.

(* witnesses: A and B share one NodeTemplate; C overrides k *)
Definition w_heap : heap :=
  [OOp "op" ["d/dt * x = k*r + g + u"%string]
       [("x"%string, Sc (mkq 1 4)); ("k"%string, Sc (mkq 1 2)); ("r"%string, Sc (mkq 2 1)); ("g"%string, Sc (mkq 1 1)); ("u"%string, Sc (mkq 0 1))];
   ONode [(0, [])]; ONode [(0, [("k"%string, Sc (mkq 3 1))])];
   OCirc [("A"%string, 1); ("B"%string, 1); ("C"%string, 2)] [("A/op/x"%string, "B/op/u"%string, [("weight"%string, Sc (mkq 2 1))])];
   OCirc [("c1"%string, 3)] []].

(* run(in_place=False) then get_run_func(in_place=False): the compile starts from the final state of the run (silent) *)
Theorem C14_state_carry_refuted : ~ C14_full_statement false.
Proof.
  intros H. destruct (abs 0 w_heap 3) as [t|] eqn:E; [|vm_compute in E; discriminate].
  specialize (H 0 3 t [MRun false; MCompile false false] w_heap E). vm_compute in H. discriminate.
Qed.
Print Assumptions C14_state_carry_refuted.

(* get_run_func(in_place=False) then run(in_place=False): TypeError (loud);
   get_run_func(vectorize=True) then get_run_func(vectorize=False): ValueError in np.reshape (loud) *)
Example C14_run_after_compile_witness :
  snd (mrun 0 3 (w_heap, book0) [MCompile false false; MRun false]) = [RCompile YDeclared; RRun false] /\
  snd (mrun 0 3 (w_heap, book0) [MCompile false true; MCompile false false]) = [RCompile YDeclared; RCompile YErr].
Proof. split; vm_compute; reflexivity. Qed.
Print Assumptions C14_run_after_compile_witness.

(* non-vacuity: a hierarchical template (root 4 -> c1 = circuit 3) with a shared NodeTemplate and a per-node override;
   getters, deepcopy, update_template, to_yaml and two runs: the guard holds, all templates keep their denotation,
   the store did grow (copies were made) *)
Definition nv_ops : list mop :=
  [MRead (QNodes ["all"%string; "all"%string]); MRead QEdges; MDeepcopy; MNewObject (OOp "op" ["d/dt * x = k + u"%string] []); MUpdateTemplate [("c1/C/op/x"%string, "c1/A/op/u"%string, [])];
   MToYaml; MRun false; MRead (QNodeTemplate ["c1"%string; "C"%string]); MRun true; MObserve].
Example C14_nonvacuous :
  no_state_carry nv_ops = true /\
  (exists t, abs 1 w_heap 4 = Some t /\ abs 1 (fst (fst (mrun 1 4 (w_heap, book0) nv_ops))) 4 = Some t) /\
  List.length w_heap < List.length (fst (fst (mrun 1 4 (w_heap, book0) nv_ops))).
Proof. split; [vm_compute; reflexivity|]. split; [eexists; split; vm_compute; reflexivity|apply Nat.ltb_lt; vm_compute; reflexivity]. Qed.
Print Assumptions C14_nonvacuous.
