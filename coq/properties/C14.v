(* C14 — read-only and copy-making operations leave a template unchanged.
   Statements only; every proof is `exact <lemma of MutationProofs>` or a computed witness.
   `mstep` / `mrun` = the code as it is: mstep_gen fixed_state_carry fixed_shared_edge_dicts fixed_D98 = mstep_gen true true true. *)
(* What is and what is not a theorem here (independent review, DESIGN.md section 12): the content of C14_full is (i) reads over
   the store = reads over the tree, (ii) copy_circ only appends, (iii) the two modelled write paths D98 (collect_mut) and D82
   (derive-and-edit) with their switches.  For the other operations non-mutation is built into the model (MToYaml and reads other
   than collect_edges are the identity on the store; compile / run keep the bookkeeping when `fixed`): that from_operator does
   not write into op.variables, that OperatorTemplate.update_template / loading a derived template leave the base alone and that
   in_place=False leaves the state bookkeeping alone is decided by the correspondence run only. *)
From Coq Require Import List String ZArith QArith Qcanon Bool Arith.
From PV Require Import Heap Values ValuesProofs Mutation MutationProofs.
Import ListNotations.
Open Scope nat_scope.

(* Frame, one operation: after ANY listed operation (getters, to_yaml, deepcopy, update_template without in_place,
   OperatorTemplate.update_template, loading a derived template, get_run_func / get_jacobian_func / run with in_place=False)
   called on the template r, EVERY template c (of any depth d') that had a denotation before — r itself, its sub-circuits,
   templates sharing nodes or operators with it — has the same denotation (equations, defaults, per-node values,
   connectivity).  (For the mechanism before fix D82, fe = false, the derive-and-edit operation has to be excluded.) *)
Theorem C14_frame_each_operation : forall fx fe f98 d r s o, op_ok fe f98 o = true ->
  forall d' c t, abs d' (fst s) c = Some t -> abs d' (fst (fst (mstep_gen fx fe f98 d r s o))) c = Some t.
Proof. exact frame_step. Qed.
Print Assumptions C14_frame_each_operation.

(* ... and after any finite sequence of them.  `op_ok fe f98 o` excludes derive-and-edit for the mechanism before fix D82
   (fe = false) and collect_edges / get_edges for the mechanism before fix D98 (f98 = false); it is `true` for fe = f98 = true. *)
Theorem C14_frame_any_sequence : forall fx fe f98 d r ops s, ops_ok fe f98 ops = true ->
  forall d' c t, abs d' (fst s) c = Some t -> abs d' (fst (fst (mrun_gen fx fe f98 d r s ops))) c = Some t.
Proof. exact frame_sequence. Qed.
Print Assumptions C14_frame_any_sequence.

(* Full statement: every operation of every sequence returns what the unchanged denotation says: reads read the tree,
   every compile starts from the declared initial values, every run succeeds from the declared initial values. *)
Definition C14_full_statement (fixed fixed_e f98 : bool) : Prop := forall d r t ops h, abs d h r = Some t ->
  snd (mrun_gen fixed fixed_e f98 d r (h, book0) ops) = map (mstepS d t) ops.

(* Headline, the code as it is (fixes D74, D82 and D98 in): the full statement for EVERY sequence of the listed operations,
   no hypothesis besides the existence of the denotation *)
Theorem C14_full : C14_full_statement fixed_state_carry fixed_shared_edge_dicts fixed_D98.
Proof. exact outputs_refine_now. Qed.
Print Assumptions C14_full.

(* the mechanisms before the fixes satisfied it for the sequences that `ops_ok` admits (no derive-and-edit before D82,
   no collect_edges / get_edges before D98) *)
Theorem C14_partial_before_fix : forall fe f98 d r t ops h, abs d h r = Some t -> ops_ok fe f98 ops = true ->
  snd (mrun_gen true fe f98 d r (h, book0) ops) = map (mstepS d t) ops.
Proof. exact outputs_refine_fixed. Qed.
Print Assumptions C14_partial_before_fix.

(* the same, stated for the explicit switch values *)
Theorem C14_full_when_fixed : C14_full_statement true true true.
Proof. exact outputs_refine_all. Qed.
Print Assumptions C14_full_when_fixed.

Theorem C14_deepcopy_only_appends : forall d h m c h2 m2 c', copy_circ d h m c = Some (h2, m2, c') -> extends h h2.
Proof. exact copy_circ_extends. Qed.
Print Assumptions C14_deepcopy_only_appends.

(* witnesses: A and B share one NodeTemplate; C overrides k *)
Definition w_heap : heap :=
  [OOp "op" ["d/dt * x = k*r + g + u"%string]
       [("x"%string, Sc (mkq 1 4)); ("k"%string, Sc (mkq 1 2)); ("r"%string, Sc (mkq 2 1)); ("g"%string, Sc (mkq 1 1)); ("u"%string, Sc (mkq 0 1))];
   ONode [(0, [])]; ONode [(0, [("k"%string, Sc (mkq 3 1))])];
   OCirc [("A"%string, 1); ("B"%string, 1); ("C"%string, 2)] [("A/op/x"%string, "B/op/u"%string, [("weight"%string, Sc (mkq 2 1))])];
   OCirc [("c1"%string, 3)] []].

(* regression of the former finding C14-shared-edge-dicts (repaired by D82): d = c.update_template(nodes={..}) (no edges, not
   in place); d.update_var(edge_vars=[(A->B, 64)]); get_edge on the BASE template c still returns weight 2.  Before the fix
   (fixed_e = false) it returned 64. *)
Definition sed_ops : list mop :=
  [MDeriveEdit "A/op/x" "B/op/u" [("weight"%string, Sc (mkq 64 1))]; MRead (QEdge "A/op/x" "B/op/u")].
Example C14_shared_edge_dicts_regression :
  snd (mrun 0 3 (w_heap, book0) sed_ops) = [RDone; REdge (Some [("weight"%string, Sc (mkq 2 1))])] /\
  snd (mrun_gen true false true 0 3 (w_heap, book0) sed_ops) = [RDone; REdge (Some [("weight"%string, Sc (mkq 64 1))])].
Proof. split; vm_compute; reflexivity. Qed.
Print Assumptions C14_shared_edge_dicts_regression.

(* regression of the former finding C14-state-carry (repaired by D74).  Now: run then get_run_func starts from the declared
   initial values, get_run_func then run succeeds, the vectorize setting may change.  Before the fix (fixed = false): the
   carried final state, TypeError, ValueError. *)
Example C14_state_carry_regression :
  snd (mrun 0 3 (w_heap, book0) [MRun false; MCompile false false; MRun false; MCompile false true; MCompile false false]) =
    [RRun true; RCompile YDeclared; RRun true; RCompile YDeclared; RCompile YDeclared] /\
  snd (mrun_gen false false true 0 3 (w_heap, book0) [MRun false; MCompile false false]) = [RRun true; RCompile YCarried] /\
  snd (mrun_gen false false true 0 3 (w_heap, book0) [MCompile false false; MRun false]) = [RCompile YDeclared; RRun false] /\
  snd (mrun_gen false false true 0 3 (w_heap, book0) [MCompile false true; MCompile false false]) = [RCompile YDeclared; RCompile YErr].
Proof. repeat split; vm_compute; reflexivity. Qed.
Print Assumptions C14_state_carry_regression.

(* non-vacuity: a hierarchical template (root 4 -> c1 = circuit 3) with a shared NodeTemplate and a per-node override;
   getters, deepcopy, a derived operator, update_template, derive-and-edit, to_yaml, a run, a compile and another run:
   all templates keep their denotation, the store did grow (copies were made) *)
Definition nv_ops : list mop :=
  [MRead (QNodes ["all"%string; "all"%string]); MRead QEdges; MDeepcopy; MNewObject (OOp "op" ["d/dt * x = k + u"%string] []);
   MUpdateTemplate [("c1/C/op/x"%string, "c1/A/op/u"%string, [])];
   MDeriveEdit "c1/A/op/x" "c1/B/op/u" []; MToYaml; MRun false; MRead (QNodeTemplate ["c1"%string; "C"%string]); MCompile false true; MRun true; MObserve].
Example C14_nonvacuous :
  (exists t, abs 1 w_heap 4 = Some t /\ abs 1 (fst (fst (mrun 1 4 (w_heap, book0) nv_ops))) 4 = Some t) /\
  List.length w_heap < List.length (fst (fst (mrun 1 4 (w_heap, book0) nv_ops))).
Proof. split; [eexists; split; vm_compute; reflexivity|apply Nat.ltb_lt; vm_compute; reflexivity]. Qed.
Print Assumptions C14_nonvacuous.

(* former finding D98 (repaired; kept as `_before_fix` statement and regression witness): a sub-circuit edge goes through an edge template whose extra input is the variable
   path C/op/x (a Ref attribute).  Every get_edges / collect_edges call on the parent prefixes that path in the
   sub-circuit's own dictionary: the second call returns c1/c1/C/op/x, and the template's denotation has changed. *)
Definition r_heap : heap :=
  [OOp "op" ["d/dt * x = k*r + g + u"%string]
       [("x"%string, Sc (mkq 1 4)); ("k"%string, Sc (mkq 1 2)); ("r"%string, Sc (mkq 2 1)); ("g"%string, Sc (mkq 1 1)); ("u"%string, Sc (mkq 0 1))];
   ONode [(0, [])];
   OCirc [("A"%string, 1); ("B"%string, 1); ("C"%string, 1)]
         [("A/op/x"%string, "B/op/u"%string, [("weight"%string, Sc (mkq 2 1)); ("et/eop/t_ref"%string, Ref "C/op/x")])];
   OCirc [("c1"%string, 2)] []].
Theorem C14_collect_edges_before_fix : ~ C14_full_statement true true false.
Proof.
  intros H. destruct (abs 1 r_heap 3) as [t|] eqn:E; [|vm_compute in E; discriminate].
  specialize (H 1 3 t [MRead QEdges; MRead QEdges] r_heap E). vm_compute in E. injection E as <-. vm_compute in H. discriminate.
Qed.
Print Assumptions C14_collect_edges_before_fix.
Example C14_collect_edges_witness :
  abs 0 (fst (fst (mrun_gen true true false 1 3 (r_heap, book0) [MRead QEdges]))) 2 <> abs 0 r_heap 2 /\
  abs 0 (fst (fst (mrun_gen true true true 1 3 (r_heap, book0) [MRead QEdges; MRead QEdges]))) 2 = abs 0 r_heap 2.
Proof. split; [vm_compute; discriminate|vm_compute; reflexivity]. Qed.
Print Assumptions C14_collect_edges_witness.

(* the class of seeded change C14-m7: a MIDDLE-level circuit (2) owns an edge with a path-valued attribute between the nodes of
   its leaf circuit (1); getters on the top level (3), on the middle level and again on the top level leave every template as
   it was, and the top-level getter returns the attribute with the full prefix m/l/C/op/x both times *)
Definition mid_heap : heap :=
  [OOp "op" ["d/dt * x = k*r + g + u"%string]
       [("x"%string, Sc (mkq 1 4)); ("k"%string, Sc (mkq 1 2)); ("r"%string, Sc (mkq 2 1)); ("g"%string, Sc (mkq 1 1)); ("u"%string, Sc (mkq 0 1))];
   ONode [(0, [])];
   OCirc [("A"%string, 1); ("B"%string, 1); ("C"%string, 1)] [];
   OCirc [("l"%string, 2)]
         [("l/A/op/x"%string, "l/B/op/u"%string, [("weight"%string, Sc (mkq 2 1)); ("et/eop/t_ref"%string, Ref "l/C/op/x")])];
   OCirc [("m"%string, 3)] []].
Definition mid_ops : list mop := [MRead QEdges; MSubEdges ["m"%string]; MRead QEdges].
Example C14_middle_level_edges :
  let res := mrun 2 4 (mid_heap, book0) mid_ops in
  abs 1 (fst (fst res)) 3 = abs 1 mid_heap 3 /\ abs 2 (fst (fst res)) 4 = abs 2 mid_heap 4 /\
  nth 0 (snd res) RDone = nth 2 (snd res) RDone /\
  nth 0 (snd res) RDone =
    REdges (Some [("m/l/A/op/x"%string, "m/l/B/op/u"%string, [("weight"%string, Sc (mkq 2 1)); ("et/eop/t_ref"%string, Ref "m/l/C/op/x")])]) /\
  (* the seeded mechanism (= the model before fix D98) rewrites the middle level's own dictionary *)
  abs 1 (fst (fst (mrun_gen true true false 2 4 (mid_heap, book0) [MRead QEdges]))) 3 <> abs 1 mid_heap 3.
Proof. repeat split; try (vm_compute; reflexivity). vm_compute. discriminate. Qed.
Print Assumptions C14_middle_level_edges.
