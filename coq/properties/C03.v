(* C03 — run() returns the Euler/Heun iterates: rows, cadence, first row, time axis, cutoff.
   Statements only; every proof is `exact <lemma of SolverProofs>`.
   Model: Solver.v.  `run_model` = BaseBackend.run/_solve_euler/_solve_heun + ComputeGraph.run + the DataFrame
   construction and `.loc[cutoff:, :]` of CircuitTemplate.run, around a *stateful* right-hand side f.
   `spec_run` = "row k is (k*dts, state after k*store_step true Euler/Heun steps), rows with time < cutoff dropped". *)
From Coq Require Import List ZArith QArith Qcanon Bool Arith.
From PV Require Import History Solver SolverProofs.
Import ListNotations.
Local Open Scope nat_scope.

(* The full-strength statement.  It is FALSE of the faithful model (one refutation below: the loud IndexError class
   D05b); what holds is C03_run_partial under the decidable guards rows_fit and frame_ok (frame_ok = at least one
   stored sample; the one-row/many-columns ValueError D35 is repaired by fix D62).  The Heun part is full-strength since
   fix D36: the model's heun_step is the Heun formula for every (stateful) right-hand side, no guard. *)
Definition C03_full_statement : Prop :=
  forall (C : Type) (f : C -> nat -> row -> row * C) s T dt dts cutoff cols y0 c0,
    run_model f s T dt dts cutoff cols y0 c0 = Rows (spec_run f s T dt dts cutoff cols y0 c0).

(* -------- core: the loop around any stateful step function -------- *)
(* stored rows = the states before the steps whose counter is a multiple of store_step, in order *)
Theorem C03_loop_rows : forall (Y C : Type) (step : C -> nat -> Y -> Y * C) ss t0 todo i y c rec,
  fst (fst (loop step ss t0 i todo y c rec)) = rec ++ map (fun j => fst (traj step t0 i y c (j - i))) (stored ss i todo).
Proof. exact loop_rows. Qed.
Print Assumptions C03_loop_rows.

(* these are the multiples of store_step below steps: ceil(steps/store_step) rows *)
Theorem C03_stored_cdiv : forall ss n, ss <> 0 -> stored ss 0 n = map (fun k => k * ss) (seq 0 (cdiv n ss)).
Proof. exact stored_cdiv. Qed.
Print Assumptions C03_stored_cdiv.

(* the pre-allocated record: writing past it is the IndexError, otherwise nothing changes *)
Theorem C03_bounded_loop : forall (Y C : Type) (step : C -> nat -> Y -> Y * C) ss cap t0 todo i y c rec,
  length rec <= cap ->
  loopE step ss cap t0 i todo y c rec =
  (let r := fst (fst (loop step ss t0 i todo y c rec)) in if length r <=? cap then Some r else None).
Proof. exact loopE_loop. Qed.
Print Assumptions C03_bounded_loop.

(* the time argument of the right-hand side in step number j is j + t0 (a step counter, not a time) *)
Theorem C03_step_time : forall (C : Type) (step : C -> nat -> row -> row * C) t0 y0 c0 j,
  traj step t0 0 y0 c0 (S j) = let '(y1, c1) := traj step t0 0 y0 c0 j in step c1 (j + t0) y1.
Proof. exact traj_step_time. Qed.
Print Assumptions C03_step_time.

(* -------- _solve_euler / _solve_heun -------- *)
Theorem C03_solve_partial : forall (C : Type) (f : C -> nat -> row -> row * C) s T dt dts y0 c0 t0,
  rows_fit T dt dts = true ->
  solve f s T dt dts y0 c0 t0 = Rows (spec_rows f s T dt dts y0 c0 t0).
Proof. exact solve_partial. Qed.
Print Assumptions C03_solve_partial.

Theorem C03_rows_number : forall (C : Type) (f : C -> nat -> row -> row * C) s T dt dts y0 c0 t0,
  length (spec_rows f s T dt dts y0 c0 t0) = rnd (T / dts).
Proof. exact spec_rows_length. Qed.
Print Assumptions C03_rows_number.

Theorem C03_row_k : forall (C : Type) (f : C -> nat -> row -> row * C) s T dt dts y0 c0 t0 k, k < rnd (T / dts) ->
  nth k (spec_rows f s T dt dts y0 c0 t0) [] = fst (traj (step_of f s dt) t0 0 y0 c0 (k * rnd (dts / dt))).
Proof. exact spec_rows_nth. Qed.
Print Assumptions C03_row_k.

Theorem C03_first_row : forall (C : Type) (f : C -> nat -> row -> row * C) s T dt dts y0 c0 t0, 1 <= rnd (T / dts) ->
  nth 0 (spec_rows f s T dt dts y0 c0 t0) [] = y0.
Proof. exact spec_rows_first. Qed.
Print Assumptions C03_first_row.

(* the loud class: more stores than allocated rows *)
Theorem C03_index_error : forall (C : Type) (f : C -> nat -> row -> row * C) s T dt dts y0 c0 t0,
  1 <= rnd (dts / dt) -> rnd (T / dts) < cdiv (rnd (T / dt)) (rnd (dts / dt)) ->
  solve f s T dt dts y0 c0 t0 = ErrIndex.
Proof. exact solve_index_error. Qed.
Print Assumptions C03_index_error.

(* -------- the step formulas -------- *)
Theorem C03_euler_step : forall (g : nat -> row -> row) dt t y,
  fst (euler_step (pure_rhs g) dt tt t y) = vadd y (vscale dt (g t y)).
Proof. exact euler_step_formula. Qed.
Print Assumptions C03_euler_step.

Theorem C03_heun_step : forall (g : nat -> row -> row) dt t y,
  fst (heun_step (pure_rhs g) dt tt t y) =
  vadd y (vscale (dt / Q2Qc 2)%Qc (vadd (g t y) (g t (vadd y (vscale dt (g t y)))))).
Proof. exact heun_step_formula. Qed.
Print Assumptions C03_heun_step.

(* what fix D36 changed: before, with generated code (the right-hand side returns its own buffer), the loop computed
   y + dt*f(t, y + dt*f(t, y)); witness x' = -x/2 + 1/4, x = 1, dt = 1/4 *)
Theorem C03_heun_before_D36_refuted :
  row_eqb (fst (heun_step (lin_f wit_rhs) (mkq 1 4) 0 0 [mkq 1 1])) [mkq 241 256] = true /\
  row_eqb (fst (heun_step_before_D36 (lin_f wit_rhs) (mkq 1 4) 0 0 [mkq 1 1])) [mkq 121 128] = true.
Proof. exact heun_before_D36_differs. Qed.
Print Assumptions C03_heun_before_D36_refuted.

(* -------- run(): values, time axis, cutoff -------- *)
Theorem C03_run_partial : forall (C : Type) (f : C -> nat -> row -> row * C) s T dt dts cutoff cols y0 c0,
  let d := match dts with Some d => d | None => dt end in
  rows_fit T dt d = true -> frame_ok T d = true ->
  run_model f s T dt dts cutoff cols y0 c0 = Rows (spec_run f s T dt dts cutoff cols y0 c0).
Proof. exact run_partial. Qed.
Print Assumptions C03_run_partial.

(* the specification spelled out: exactly the rows k < round(T/dts) with k*dts >= cutoff, stamped k*dts *)
Theorem C03_cutoff_and_time : forall (C : Type) (f : C -> nat -> row -> row * C) s T dt dts cutoff cols y0 c0 r,
  let d := match dts with Some d => d | None => dt end in
  In r (spec_run f s T dt dts cutoff cols y0 c0) <->
  exists k, k < rnd (T / d) /\ (cutoff <= NtoQc k * d)%Qc /\
            r = (NtoQc k * d)%Qc :: pick cols (fst (traj (step_of f s dt) 0 0 y0 c0 (k * rnd (d / dt)))).
Proof. exact spec_run_rows. Qed.
Print Assumptions C03_cutoff_and_time.

Theorem C03_no_cutoff_all_rows : forall (C : Type) (f : C -> nat -> row -> row * C) s T dt dts cutoff cols y0 c0,
  let d := match dts with Some d => d | None => dt end in
  (cutoff <= 0)%Qc -> (0 <= d)%Qc -> length (spec_run f s T dt dts cutoff cols y0 c0) = rnd (T / d).
Proof. exact spec_run_no_cutoff. Qed.
Print Assumptions C03_no_cutoff_all_rows.

Theorem C03_time_axis : forall n d k, k < n -> nth k (times n d) 0%Qc = (NtoQc k * d)%Qc.
Proof. exact times_nth. Qed.
Print Assumptions C03_time_axis.

(* the axis before fix D05 (linspace(0, T, n, endpoint=False)) agrees exactly when T = n*dts ... *)
Theorem C03_linspace_axis_when_multiple : forall n d T, n <> 0 -> (NtoQc n * d)%Qc = T -> times_linspace n T = times n d.
Proof. exact times_linspace_eq. Qed.
Print Assumptions C03_linspace_axis_when_multiple.
(* ... and not otherwise: T = 1, dt = 1/8, dts = 3/8 (rows fit) *)
Theorem C03_linspace_axis_refuted :
  map (fun q => Qeq_bool (this (fst q)) (this (snd q))) (combine (times_linspace 3 (mkq 1 1)) (times 3 (mkq 3 8))) = [true; false; false] /\
  rows_fit (mkq 1 1) (mkq 1 8) (mkq 3 8) = true.
Proof. exact linspace_axis_differs. Qed.
Print Assumptions C03_linspace_axis_refuted.

(* -------- the rounding used for steps, store_steps, store_step and the number of time points -------- *)
Theorem C03_round_nearest : forall q,
  (ZtoQc (round_half_even q) - half <= q /\ q <= ZtoQc (round_half_even q) + half)%Qc.
Proof. exact round_half_even_close. Qed.
Print Assumptions C03_round_nearest.

Theorem C03_round_unique : forall q z, (ZtoQc z - half < q)%Qc -> (q < ZtoQc z + half)%Qc -> round_half_even q = z.
Proof. exact round_half_even_nearest. Qed.
Print Assumptions C03_round_unique.

Theorem C03_round_tie_even : forall z, round_half_even (ZtoQc z + half)%Qc = if Z.even z then z else (z + 1)%Z.
Proof. exact round_half_even_tie. Qed.
Print Assumptions C03_round_tie_even.

(* dts = m*dt, m >= 1 (the property's quantifier): no allocated row stays unwritten, the outcome is the iterates or
   IndexError -- never `Short` *)
Theorem C03_rows_never_short : forall T dt dts, sampling_multiple dt dts = true -> (0 <= T)%Qc -> (0 < dt)%Qc ->
  rnd (T / dts) <= cdiv (rnd (T / dt)) (rnd (dts / dt)).
Proof. exact rows_never_short. Qed.
Print Assumptions C03_rows_never_short.

Theorem C03_rows_or_index_error : forall (C : Type) (f : C -> nat -> row -> row * C) s T dt dts y0 c0 t0,
  sampling_multiple dt dts = true -> (0 <= T)%Qc -> (0 < dt)%Qc ->
  (rows_fit T dt dts = true /\ solve f s T dt dts y0 c0 t0 = Rows (spec_rows f s T dt dts y0 c0 t0)) \/
  (rows_fit T dt dts = false /\ solve f s T dt dts y0 c0 t0 = ErrIndex).
Proof. exact @solve_rows_or_index_error. Qed.
Print Assumptions C03_rows_or_index_error.

(* -------- refutations of the full statement (each replayed on the real code: corpus/C03) -------- *)
Theorem C03_refuted_index_error :
  run_model (lin_f wit_rhs) Euler (mkq 5 8) (mkq 1 8) (Some (mkq 1 4)) (mkq 0 1) [0] [mkq 1 1] 0 = ErrIndex /\
  rows_fit (mkq 5 8) (mkq 1 8) (mkq 1 4) = false.
Proof. exact refuted_index_error. Qed.
Print Assumptions C03_refuted_index_error.

(* regression of fix D62 (was C03_refuted_single_row: ValueError for one stored sample and >= 2 columns) *)
Theorem C03_single_row_after_D62 :
  outcome_eqb (run_model (lin_f wit_rhs2) Euler (mkq 1 8) (mkq 1 8) None (mkq 0 1) [0; 1] [mkq 1 1; mkq 2 1] 0)
              (Rows [[mkq 0 1; mkq 1 1; mkq 2 1]]) = true /\
  rows_fit (mkq 1 8) (mkq 1 8) (mkq 1 8) = true /\ frame_ok (mkq 1 8) (mkq 1 8) = true.
Proof. exact single_row_after_D62. Qed.
Print Assumptions C03_single_row_after_D62.

(* non-vacuity: T = 1, dt = 1/8, dts = 3/8, cutoff = 3/8, Heun satisfies both guards; the frame has the two rows at
   3/8 and 3/4 *)
Example C03_nonvacuous :
  rows_fit (mkq 1 1) (mkq 1 8) (mkq 3 8) = true /\ frame_ok (mkq 1 1) (mkq 3 8) = true /\
  match run_model (lin_f wit_rhs) Heun (mkq 1 1) (mkq 1 8) (Some (mkq 3 8)) (mkq 3 8) [0] [mkq 1 1] 0 with
  | Rows l => row_eqb (map (hd 0%Qc) l) [mkq 3 8; mkq 3 4] = true | _ => False end.
Proof. repeat split; vm_compute; reflexivity. Qed.
Print Assumptions C03_nonvacuous.
