(* C12 — get_jacobian_func returns the derivative of get_run_func.
   Statements only; every proof is `exact <lemma of JacobianProofs>`.  K is any commutative ring (ring_theory hypothesis);
   `ev`/`evD` below are evaluation in K and in the dual numbers K[eps]/(eps^2). *)
From Coq Require Import List ZArith QArith Qcanon Bool Arith Ring.
From Coq Require Import Reals.
From Coquelicot Require Import Coquelicot.
From PV Require Import Jacobian JacobianProofs JacobianReal.
Import ListNotations.
Local Open Scope nat_scope.

(* D is the derivative: evaluating e over dual numbers at the point r with tangent direction x yields (value, value of D e x).
   For polynomial e (polyb e = true) no function rule enters: this is the formal derivative, with no assumption at all;
   for sigmoid/absv/exp/sin/cos/tanh the dual extension uses the rule PyRates/sympy apply (dfnI); that these
   rules are the derivatives of the real functions is C12_rules_are_derivatives / C12_D_correct_real below (K = R). *)
Theorem C12_D_is_derivative : forall (K : Type) (O : ops K),
  ring_theory (o0 O) (o1 O) (oadd O) (omul O) (osub O) (oopp O) eq ->
  forall (r : atom -> K) (x : atom) (e : expr K),
  eval (dual_ops O) (dinj O) (seed O r x) e = (eval O (fun c => c) r e, eval O (fun c => c) r (D O e x)).
Proof. exact D_dual. Qed.
Print Assumptions C12_D_is_derivative.

(* expansion of algebraic intermediates is evaluation of the intermediates one after the other (any carrier) *)
Theorem C12_expand_is_run : forall (K T : Type) (OT : ops T) (inj : K -> T) l (r : atom -> T) (e : expr K),
  eval OT inj r (expand l e) = eval OT inj (run_algs OT inj l r) e.
Proof. exact @expand_eval. Qed.
Print Assumptions C12_expand_is_run.

(* chain rule: differentiating after substitution = propagating (value, tangent) through the intermediates *)
Theorem C12_chain_rule : forall (K : Type) (O : ops K),
  ring_theory (o0 O) (o1 O) (oadd O) (omul O) (osub O) (oopp O) eq ->
  forall l (r : atom -> K) x (e : expr K),
  eval O (fun c => c) r (D O (expand l e) x) =
  snd (eval (dual_ops O) (dinj O) (run_algs (dual_ops O) (dinj O) l (seed O r x)) e).
Proof. exact D_expand_chain. Qed.
Print Assumptions C12_chain_rule.

Theorem C12_subst_rule : forall (K : Type) (O : ops K),
  ring_theory (o0 O) (o1 O) (oadd O) (omul O) (osub O) (oopp O) eq ->
  forall (r : atom -> K) x (e : expr K) m a,
  eval O (fun c => c) r (D O (subst e m a) x) =
  snd (eval (dual_ops O) (dinj O)
         (upd (seed O r x) (AV m) (eval O (fun c => c) r a, eval O (fun c => c) r (D O a x))) e).
Proof. exact D_subst_chain. Qed.
Print Assumptions C12_subst_rule.

(* placement: entry (i, j) of the assembled matrices, for any number of state variables (`skip`: entries the printer cannot
   emit; none in the current code, `resolved` says that none is skipped) *)
Theorem C12_placement_J0 : forall (K : Type) (O : ops K) skip st (fs : list (expr K)),
  resolved K skip fs -> length fs = length st ->
  mat O (length st) (j0_entries O skip st fs) =
  map (fun i => map (fun j => D O (nth i fs (Cst (o0 O))) (AV (nth j st 0))) (seq 0 (length st))) (seq 0 (length st)).
Proof. exact mat_j0. Qed.
Print Assumptions C12_placement_J0.

Theorem C12_placement_hist : forall (K : Type) (O : ops K) skip st (fs : list (expr K)) d,
  resolved K skip fs -> length fs = length st -> nodupb st = true ->
  mat O (length st) (hist_entries O true skip st fs d) =
  map (fun i => map (fun j => D O (nth i fs (Cst (o0 O))) (AP (nth j st 0) d)) (seq 0 (length st))) (seq 0 (length st)).
Proof. exact mat_hist. Qed.
Print Assumptions C12_placement_hist.

(* the guarded form (kept: it holds for both values of the switch): the matrices get_jacobian_func builds are the partial derivatives of the vector field
   get_run_func evaluates (J0: with respect to the state; one matrix per distinct delay: with respect to the delayed state) *)
Theorem C12_partial : forall (K : Type) (O : ops K),
  ring_theory (o0 O) (o1 O) (oadd O) (omul O) (osub O) (oopp O) eq ->
  forall (s : sys K) (r : atom -> K),
  wf s = true -> no_delayed_factor_in_j0 O s = true -> jac_impl O s r = jac_spec O s r.
Proof. exact jac_refines. Qed.
Print Assumptions C12_partial.

Theorem C12_partial_Qc : forall (s : sys Qc) (r : atom -> Qc),
  wf s = true -> no_delayed_factor_in_j0 QcO s = true -> jac_impl QcO s r = jac_spec QcO s r.
Proof. exact jac_refines_Qc. Qed.
Print Assumptions C12_partial_Qc.

(* the list of history matrices is complete: for a delay without a matrix all partial derivatives are 0 *)
Theorem C12_history_list_complete : forall (K : Type) (O : ops K),
  ring_theory (o0 O) (o1 O) (oadd O) (omul O) (osub O) (oopp O) eq ->
  forall (s : sys K) (r : atom -> K) d, ~ In d (delays (fexprs s)) ->
  spec_Jd O s r d = map (fun _ => map (fun _ => o0 O) (seq 0 (length (states s)))) (seq 0 (length (states s))).
Proof. exact spec_Jd_zero. Qed.
Print Assumptions C12_history_list_complete.

(* HEADLINE.  The property without any guard: for every well-formed model description (distinct state variables, one right-hand
   side per state variable, past() only of state variables), every environment: the matrices get_jacobian_func builds are the
   partial derivatives of the vector field get_run_func evaluates (J0 with respect to the state, one matrix per distinct delay
   symbol with respect to the delayed state), in the state ordering.  (C12_full_statement := forall s r, wf s = true ->
   jac_impl QcO s r = jac_spec QcO s r; the same over any commutative ring is C12_full_any_ring with pastJ0 = true.) *)
(* Scope: model descriptions over the expression language of Jacobian.v (+ - * neg ^n, identity, sigmoid, absv, sign, exp, sin,
   cos, tanh, maxi, mini; no division, no non-integer power, no sqrt/log).  jac_spec differentiates by dual numbers whose
   function extension uses the rule table dfnI - the table the Impl's dfn uses as well; C12_rules_are_derivatives validates it
   for the smooth functions at K = R, for absv/sign and max/min it is the stated convention. *)
Theorem C12_full : C12_full_statement.
Proof. exact full_statement. Qed.
Print Assumptions C12_full.

(* note, before fix D64 (defect D08b): instantaneous entries were printed without the table of past symbols; an entry that keeps
   a delayed factor named an undefined variable (NameError at call time) and the statement was false *)
Theorem C12_D08b_before_fix_refuted :
  ~ (forall (s : sys Qc) (r : atom -> Qc), wf s = true -> jac_impl_D08b_open QcO s r = jac_spec QcO s r).
Proof. exact D08b_open_refuted. Qed.
Print Assumptions C12_D08b_before_fix_refuted.

Theorem C12_full_any_ring : forall (K : Type) (O : ops K),
  ring_theory (o0 O) (o1 O) (oadd O) (omul O) (osub O) (oopp O) eq ->
  forall pastJ0 (s : sys K) (r : atom -> K), wf s = true -> pastJ0 = true \/ no_delayed_factor_in_j0 O s = true ->
  jac_impl_gen O true noskip pastJ0 s r = jac_spec O s r.
Proof. exact jac_refines_gen. Qed.
Print Assumptions C12_full_any_ring.

(* auto-07p DFDU / DFDP: entry (i, k) of the parameter Jacobian is D f_i p_k (parameters in argument order; any number of
   parameters and equations), and both blocks evaluate to the partial derivatives of the vector field of get_run_func *)
Theorem C12_DFDP_placement : forall (K : Type) (O : ops K) params (s : sys K),
  dfdp_mat O params s =
  map (fun i => map (fun k => D O (nth i (fexprs s) (Cst (o0 O))) (AV (nth k params 0))) (seq 0 (length params)))
      (seq 0 (length (fexprs s))).
Proof. exact dfdp_placement. Qed.
Print Assumptions C12_DFDP_placement.

Theorem C12_DFDP_refines : forall (K : Type) (O : ops K),
  ring_theory (o0 O) (o1 O) (oadd O) (omul O) (osub O) (oopp O) eq ->
  forall cols (s : sys K) (r : atom -> K), eval_mat O r (dfdp_mat O cols s) = spec_rect O s r cols.
Proof. exact dfdp_refines. Qed.
Print Assumptions C12_DFDP_refines.

Theorem C12_DFDU_refines : forall (K : Type) (O : ops K),
  ring_theory (o0 O) (o1 O) (oadd O) (omul O) (osub O) (oopp O) eq ->
  forall (s : sys K) (r : atom -> K), eval_mat O r (dfdu_mat O s) = spec_rect O s r (states s).
Proof. exact dfdu_refines. Qed.
Print Assumptions C12_DFDU_refines.

(* note, before fix D51: an entry whose derivative passes through absv was silently left 0 *)
Theorem C12_absv_preD51_refuted : exists s r, wf s = true /\ no_delayed_factor_in_j0 QcO s = true /\
  jac_impl_preD51 QcO s r <> jac_spec QcO s r.
Proof. exact preD51_refuted. Qed.
Print Assumptions C12_absv_preD51_refuted.

(* the code before fix D08 (history column = position inside the delay group) violated the property inside the guards *)
Theorem C12_jhist_column_preD08_refuted : exists s r, wf s = true /\
  no_delayed_factor_in_j0 QcO s = true /\ jac_impl_preD08 QcO s r <> jac_spec QcO s r.
Proof. exact preD08_refuted. Qed.
Print Assumptions C12_jhist_column_preD08_refuted.

(* maxi / mini (fix D112) are part of the function set of the model, hence of C12_full.  Their derivative rule is the factor
   [a > b] of the difference d = a - b (resp. b - a), with the TIE CONVENTION 1/2 at d = 0 (symmetric sub-gradient) - exactly what
   the generated code computes: 0.5*sign(d) + 0.5 with sign(0) = 0.  Away from ties this is the derivative of max/min. *)
Theorem C12_maxmin_step_values : forall d : Qc,
  ((0 < d)%Qc -> stepI QcO d = 1%Qc) /\ (d = 0%Qc -> stepI QcO d = mkq 1 2) /\ ((d < 0)%Qc -> stepI QcO d = 0%Qc).
Proof. exact step_values. Qed.
Print Assumptions C12_maxmin_step_values.

Theorem C12_maxmin_rule : forall u v : Qc,
  dfn2I QcO FMax true u v = stepI QcO (u - v)%Qc /\ dfn2I QcO FMax false u v = stepI QcO (v - u)%Qc /\
  dfn2I QcO FMin true u v = stepI QcO (v - u)%Qc /\ dfn2I QcO FMin false u v = stepI QcO (u - v)%Qc.
Proof. exact maxmin_rule_unfold. Qed.
Print Assumptions C12_maxmin_rule.

(* x' = -x + maxi(z, 1/8)*a, z' = x*z - mini(x, z) at (x, z, a) = (1/2, 1/4, 3/2) and at the tie x = z = 1/4 *)
Example C12_maxmin_example :
  wf w_max = true /\
  result_eqb (jac_impl QcO w_max (env [0; 1] [(0, mkq 1 2); (1, mkq 1 4); (2, mkq 3 2)] []))
             (Ok [[mkq (-1) 1; mkq 3 2]; [mkq 1 4; mkq (-1) 2]] []) = true /\
  result_eqb (jac_impl QcO w_max (env [0; 1] [(0, mkq 1 4); (1, mkq 1 4); (2, mkq 3 2)] []))
             (Ok [[mkq (-1) 1; mkq 3 2]; [mkq (-1) 4; mkq (-1) 4]] []) = true.
Proof. exact w_max_facts. Qed.
Print Assumptions C12_maxmin_example.

(* ---- K := R (real analysis; these three statements depend on the standard library's real-number axioms) ----
   every function rule D uses (identity -> 1, sigmoid -> s(1-s), exp -> exp, sin -> cos, cos -> -sin, tanh -> 1 - tanh^2) is the
   derivative of the function *)
Theorem C12_rules_are_derivatives : forall f v, smoothf f = true -> is_derive (R_fn f) v (dfnI RO f v).
Proof. exact fn_derive. Qed.
Print Assumptions C12_rules_are_derivatives.

(* D is the derivative: v |-> eval (r with x := v) e is differentiable at r x with derivative eval r (D e x), for every expression
   built from + - * neg ^n, sigmoid, exp, sin, cos, tanh (absv/sign and maxi/mini excluded: not differentiable at 0 / at a tie) *)
Theorem C12_D_correct_real : forall (r : atom -> R) x (e : expr R), smooth e = true ->
  is_derive (fun v => eval RO (fun c => c) (upd r x v) e) (r x) (eval RO (fun c => c) r (D RO e x)).
Proof. exact D_correct. Qed.
Print Assumptions C12_D_correct_real.

Theorem C12_D_correct_real_expanded : forall l (r : atom -> R) x (e : expr R), smooth (expand l e) = true ->
  is_derive (fun v => eval RO (fun c => c) (run_algs RO (fun c => c) l (upd r x v)) e) (r x)
            (eval RO (fun c => c) r (D RO (expand l e) x)).
Proof. exact D_correct_expanded. Qed.
Print Assumptions C12_D_correct_real_expanded.

(* non-vacuity: a two-node model with three state variables, two intermediates (one of them an edge input with a delayed
   edge), a parameter delay on the second state variable satisfies all hypotheses; its matrices have non-diagonal entries *)
Example C12_nonvacuous :
  wf w_ok = true /\ no_delayed_factor_in_j0 QcO w_ok = true /\
  jac_impl QcO w_ok w_ok_env =
    Ok [[mkq (-3) 16; mkq 13 8; mkq 0 1]; [mkq 1 1; mkq 0 1; mkq 0 1]; [mkq 0 1; mkq 2 1; mkq (-3) 1]]
       [(4, [[mkq 0 1; mkq 0 1; mkq 0 1]; [mkq 0 1; mkq (-3) 2; mkq 0 1]; [mkq 0 1; mkq 0 1; mkq 0 1]]);
        (1000, [[mkq 0 1; mkq 0 1; mkq 0 1]; [mkq 0 1; mkq 0 1; mkq 0 1]; [mkq 1 2; mkq 0 1; mkq 0 1]])].
Proof. exact w_ok_facts. Qed.
Print Assumptions C12_nonvacuous.
