From Coq Require Import List ZArith QArith Qcanon Bool Arith.
From PV Require Import Jacobian JacobianProofs.
Import ListNotations.
Theorem C12_placeholder : True. Proof. exact placeholder_true. Qed.
Print Assumptions C12_placeholder.
