From Coq Require Import List ZArith QArith Qcanon Bool Arith Ascii String.
From PV Require Import Lang LangProofs.
Import ListNotations.
Example C05_nonvacuous : eval_string [(s2l "r", mkq 3 2)] [] (s2l "-r^2 + 2**3") = Some (mkq 23 4).
Proof. vm_compute. reflexivity. Qed.
Print Assumptions C05_nonvacuous.
