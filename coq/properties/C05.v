(* C05 — the equation language means what its arithmetic says, independent of how it is written.
   Statements only; every proof is `exact <lemma of LangProofs>`.
   Lang.parse + Lang.eval are the Spec (what a spelling means); Lang.classify and Lang.process_func_call are the
   models of the PyRates-authored string handling; sympy is tied by the correspondence run only. *)
From Coq Require Import List ZArith QArith Qcanon Bool Arith Ascii String Permutation.
From PV Require Import Lang LangProofs.
Import ListNotations.
Open Scope char_scope.
Open Scope list_scope.

(* What the theorems of this file are about: the equation language as a formal object (Lang.parse / Lang.print / Lang.eval are
   the Spec) and the models of the PyRates-authored string handling (Lang.classify, Lang.process_func_call).  They say that the
   Spec is well defined: printing is injective up to spelling, a value does not depend on the order of terms, the derivative
   notations are classified alike, the helper-call surgery removes exactly the call.  NO theorem here is about sympy or about
   "both evaluation paths give this value": that half of the property is decided by the correspondence run (E1) only. *)

(* ---- the full round-trip statement of the Spec's own parser and printer: every well-formed AST (numbers, identifiers, + - * / ^ **, unary minus, parentheses, function
   calls with any number of arguments, nested), every writing style (blanks, ^ vs **, redundant parentheses) ---- *)
Definition C05_full_statement : Prop :=
  forall (e : expr) (s : style), wf_expr e = true -> parse (print s e) = Some e.

Theorem C05_parse_print_full : C05_full_statement.
Proof. exact parse_print. Qed.
Print Assumptions C05_parse_print_full.

(* token level: any choice of redundant parentheses *)
Theorem C05_parse_print_tokens : forall (e : expr) (ps : pstyle), wf_expr e = true -> parse_toks (pr 0 ps e) = Some e.
Proof. exact parse_print_toks. Qed.
Print Assumptions C05_parse_print_tokens.

(* hence: two spellings of one AST (spacing, ^ vs **, redundant parentheses) have the same value in every context *)
Theorem C05_spelling_independent : forall e s s' cx, wf_expr e = true ->
  eval_ctx cx (print s e) = eval_ctx cx (print s' e).
Proof. exact spelling_independent. Qed.
Print Assumptions C05_spelling_independent.

(* literals and unary plus that the printer never emits but the language accepts: read as their decimal value / dropped *)
Theorem C05_literal_forms :
  tokenize (s2l "2.5e-1") = Some [TNum ["0"] ["2"; "5"]] /\ tokenize (s2l ".5") = Some [TNum ["0"] ["5"]] /\
  tokenize (s2l "0.5E1") = Some [TNum ["5"] []] /\ tokenize (s2l "125e-3") = Some [TNum ["0"] ["1"; "2"; "5"]] /\
  tokenize (s2l "2e") = None /\ parse (s2l "+x - +2") = parse (s2l "x - 2").
Proof. exact literal_forms. Qed.
Print Assumptions C05_literal_forms.

(* tokenizer: blanks between tokens and the spelling of the power operator are irrelevant (all token kinds,
   calls and commas included) *)
Theorem C05_tokenize_render : forall sp pw ts, forallb lwf_tok ts = true -> tokenize (render sp pw 0 None ts) = Some ts.
Proof. exact tokenize_render. Qed.
Print Assumptions C05_tokenize_render.

Theorem C05_tokenize_respace : forall sp pw sp' pw' ts, forallb lwf_tok ts = true ->
  tokenize (render sp pw 0 None ts) = tokenize (render sp' pw' 0 None ts).
Proof. exact tokenize_respace. Qed.
Print Assumptions C05_tokenize_respace.

Theorem C05_pow_same_token : tokenize (s2l "^") = Some [TPow] /\ tokenize (s2l "**") = Some [TPow].
Proof. exact pow_same_token. Qed.
Print Assumptions C05_pow_same_token.

(* order of the terms of a sum / the factors of a product *)
Theorem C05_sum_perm : forall cx l l', Permutation l l' ->
  eval cx (sum_list l) = eval cx (sum_list l').
Proof. exact eval_sum_perm. Qed.
Print Assumptions C05_sum_perm.

Theorem C05_prod_perm : forall cx l l', Permutation l l' ->
  eval cx (prod_list l) = eval cx (prod_list l').
Proof. exact eval_prod_perm. Qed.
Print Assumptions C05_prod_perm.

(* the derivative notations: for every identifier x and every right-hand side without `=` *)
Theorem C05_lhs_forms : forall x r, wf_id x = true -> notin "=" r = true ->
  classify (s2l "d/dt * " ++ x ++ s2l " = " ++ r) = classify (x ++ s2l "' = " ++ r) /\
  classify (x ++ s2l "' = " ++ r) = CEqn {| e_lhs := x; e_key := x; e_de := true; e_rhs := r; e_asg := ["="] |}.
Proof. exact lhs_forms. Qed.
Print Assumptions C05_lhs_forms.

(* the third notation dx/dt = r (repair D154 is in the tree): it classifies like the other two, provided x does not end in `d` *)
Theorem C05_lhs_leibniz : forall x r, wf_id x = true -> lastc "d" x <> "d" -> notin "=" r = true ->
  classify ("d" :: x ++ s2l "/dt = " ++ r) = CEqn {| e_lhs := x; e_key := x; e_de := true; e_rhs := r; e_asg := ["="] |}.
Proof. exact lhs_leibniz. Qed.
Print Assumptions C05_lhs_leibniz.

(* ... `dd/dt` contains the text d/dt and is taken for the first notation: empty variable name (loud downstream) *)
Theorem C05_lhs_leibniz_refuted_dd :
  classify (s2l "dd/dt = r") = CEqn {| e_lhs := []; e_key := []; e_de := true; e_rhs := s2l "r"; e_asg := ["="] |}.
Proof. exact lhs_leibniz_refuted_dd. Qed.
Print Assumptions C05_lhs_leibniz_refuted_dd.

(* the other assignment forms as the code reads them (augmented assignment, no assignment, DE with `+=`); last conjunct:
   before D154 (model switch leib = false) the third notation raised TypeError on Python 3.12 *)
Theorem C05_classify_other_forms :
  classify (s2l "x += 2*r") = CEqn {| e_lhs := s2l "x"; e_key := s2l "x"; e_de := false; e_rhs := s2l "2*r"; e_asg := s2l "+=" |} /\
  classify (s2l "x -= 1") = CEqn {| e_lhs := s2l "x-"; e_key := s2l "x-"; e_de := false; e_rhs := s2l "1"; e_asg := ["="] |} /\
  classify (s2l "r + 1") = CEqn {| e_lhs := s2l "x"; e_key := s2l "x"; e_de := false; e_rhs := s2l "r + 1"; e_asg := ["="] |} /\
  classify (s2l "d/dt * x += r") = CValueError /\
  classify (s2l "dx/dt = r") = CEqn {| e_lhs := s2l "x"; e_key := s2l "x"; e_de := true; e_rhs := s2l "r"; e_asg := ["="] |} /\
  classify_gen false (s2l "dx/dt = r") = CRaises.
Proof. exact classify_other_forms. Qed.
Print Assumptions C05_classify_other_forms.

(* code generation: the textual replacement of a helper call removes exactly the call when its argument text has no `)` *)
Theorem C05_surgery_atomic : forall pre f args post repl,
  find (f ++ ["("]) (pre ++ f ++ "(" :: args ++ ")" :: post) = Some (List.length pre) ->
  notin ")" f = true -> notin ")" args = true ->
  process_func_call (pre ++ f ++ "(" :: args ++ ")" :: post) f repl =
  Some (py_replace (f ++ "(" :: args ++ [")"]) repl (pre ++ f ++ "(" :: args ++ ")" :: post)).
Proof. exact surgery_atomic. Qed.
Print Assumptions C05_surgery_atomic.

(* the identity/no_op branch after repair D41 replaces the marker call by "(" arg ")": for an argument text without
   parentheses the result is the original text with the marker name deleted ... *)
Theorem C05_identity_surgery_text : forall pre arg post,
  find (s2l "identity" ++ ["("]) (pre ++ s2l "identity" ++ "(" :: arg ++ ")" :: post) = Some (List.length pre) ->
  notin ")" arg = true -> find (s2l "identity" ++ "(" :: arg ++ [")"]) post = None ->
  identity_surgery (pre ++ s2l "identity" ++ "(" :: arg ++ ")" :: post) arg = Some (pre ++ "(" :: arg ++ ")" :: post).
Proof. exact identity_surgery_text. Qed.
Print Assumptions C05_identity_surgery_text.

(* ... and that preserves the value: the same tokens X read as `f(X)` give Call f [a], read as `(X)` give a, and the
   marker call evaluates like its argument *)
Theorem C05_call_vs_paren : forall m X a r f, pE m X = Some (a, TRp :: r) ->
  pA (S (S m)) (TId f :: TLp :: X) = Some (Call f [a], r) /\ pA (S m) (TLp :: X) = Some (a, r).
Proof. exact call_vs_paren. Qed.
Print Assumptions C05_call_vs_paren.

Theorem C05_eval_identity : forall cx a, eval cx (Call (s2l "identity") [a]) = eval cx a /\
  eval cx (Call (s2l "no_op") [a]) = eval cx a.
Proof. exact eval_identity. Qed.
Print Assumptions C05_eval_identity.

(* the former refutation witness `2*no_op(r + rr)` (2*r + rr before D41) now keeps its value 7/2 *)
Theorem C05_surgery_repaired_precedence :
  let env := [(s2l "r", mkq 3 2); (s2l "rr", mkq 1 4)] in
  identity_surgery (s2l "2*identity(r + rr)") (s2l "r + rr") = Some (s2l "2*(r + rr)") /\
  oq_eqb (eval_string env [] (s2l "2*no_op(r + rr)")) (Some (mkq 7 2)) = true /\
  oq_eqb (eval_string env [] (s2l "2*(r + rr)")) (Some (mkq 7 2)) = true.
Proof. exact surgery_repaired_precedence. Qed.
Print Assumptions C05_surgery_repaired_precedence.

(* an argument that contains parentheses still breaks the surgery (first `)` is not the end of the call): loud
   (SyntaxError in the generated file; the call stream of harness/c05.py demands exactly that error class) *)
Theorem C05_surgery_refuted_unbalanced :
  balanced (s2l "identity(a*(b + k))") = true /\
  option_map balanced (process_func_call (s2l "identity(a*(b + k))") (s2l "identity") (s2l "a*(b + k)")) = Some false /\
  option_map balanced (identity_surgery (s2l "identity(a*(b + k))") (s2l "a*(b + k)")) = Some false.
Proof. exact surgery_refuted_unbalanced. Qed.
Print Assumptions C05_surgery_refuted_unbalanced.

(* non-vacuity: a non-trivial AST (depth 4, three identifiers, every operator) satisfies the guards; printed in a style
   with redundant parentheses, blanks and alternating ^ / ** it parses back to itself; its value is 41/32 *)
Example C05_nonvacuous :
  let e := Sub (Add (Neg (Pow (Call (s2l "no_op") [Var (s2l "r")]) (Num ["2"] []))) (Mul (Num ["0"] ["2"; "5"]) (Pow (Var (s2l "x_v1")) (Pow (Num ["2"] []) (Num ["2"] [])))))
               (Div (Mul (Add (Var (s2l "x_v1")) (Var (s2l "weight"))) (Var (s2l "r"))) (Num ["4"] [])) in
  let st := {| st_par := fun p => match p with [] => 1%nat | [_] => 0%nat | _ => 1%nat end;
               st_sp := fun i => Nat.modulo i 3; st_pw := fun i => Nat.even i |} in
  (wf_expr e = true) /\ parse (print st e) = Some e /\
  (48 <=? List.length (print st e) = true)%nat /\
  oq_eqb (eval (mkctx [(s2l "r", mkq 3 2); (s2l "x_v1", mkq 2 1); (s2l "weight", mkq (-3) 4)] [] [] 0) e)
         (Some (mkq 41 32)) = true.
Proof.
  split; [vm_compute; reflexivity|]. split; [vm_compute; reflexivity|].          (* the round trip is computed here, not taken from the theorem *)
  split; vm_compute; reflexivity.
Qed.
Print Assumptions C05_nonvacuous.
