(* C06 — a variable path addresses the same variable everywhere.
   Statements only; every proof is `exact <lemma of PathsProofs>`.
   Scope (independent review, DESIGN.md section 12): proved are path resolution (get_nodes = path_denotation) and the output
   stage of run() GIVEN a layout.  `inputs` and `update_var` are not modelled in Paths: C07 has its own hand model
   Values.get_nodes (heap of objects, fuel, no var filter, option instead of exception classes) and no equivalence lemma links
   it to Paths.get_nodes_gen — that both follow the same code is tied by their separate correspondence runs only. *)
From Coq Require Import List String Bool Arith Permutation.
From PV Require Import Paths PathsProofs.
Import ListNotations.
Open Scope string_scope.
Open Scope list_scope.

(* Full-strength statement: on EVERY well-formed circuit tree and EVERY pattern the recursion of get_nodes returns
   the denotation of the path.  It is false of the code as it is for one lenient reading only: a pattern longer than
   the address of a node ignores its rest (the classes D31 and "pattern ends at a sub-circuit" are repaired, D73, D87): *)
Definition C06_full_statement : Prop := full_statement.
Theorem C06_full_refuted : ~ C06_full_statement.
Proof. exact full_statement_refuted. Qed.
Print Assumptions C06_full_refuted.

(* ... and true under the decidable guard `resolvable` = the pattern is not too long (any depth, 'all' at any
   level, names that some or all branches lack, patterns that end at a circuit, any var_identifier): the result is the list of matching leaves, depth
   first in declaration order *)
Theorem C06_get_nodes_partial : forall t v pat, wfb t = true -> resolvable t pat = true ->
  get_nodes t v pat = Ok (path_denotation t v pat).
Proof. exact (get_nodes_correct asis). Qed.
Print Assumptions C06_get_nodes_partial.

Theorem C06_no_duplicates : forall t v pat, wfb t = true -> NoDup (path_denotation t v pat).
Proof. exact path_denotation_NoDup. Qed.
Print Assumptions C06_no_duplicates.

Theorem C06_get_nodes_no_duplicates : forall t v pat l, wfb t = true -> resolvable t pat = true ->
  get_nodes t v pat = Ok l -> NoDup l.
Proof. exact (get_nodes_NoDup asis). Qed.
Print Assumptions C06_get_nodes_no_duplicates.

(* what the denotation is: exactly the leaves whose address matches and that carry the variable *)
Theorem C06_denotation_sound : forall t v pat q, In q (path_denotation t v pat) ->
  exists nd, In (q, nd) (leaves t) /\ matches pat q = true /\ has_var v nd = true.
Proof. exact path_denotation_sound. Qed.
Print Assumptions C06_denotation_sound.
Theorem C06_denotation_complete : forall t v pat q nd, In (q, nd) (leaves t) -> matches pat q = true ->
  has_var v nd = true -> In q (path_denotation t v pat).
Proof. exact path_denotation_complete. Qed.
Print Assumptions C06_denotation_complete.

(* declaration order (children reordered at any level) changes the column order only *)
Theorem C06_order_invariant : forall t t' v pat, tperm t t' ->
  Permutation (path_denotation t v pat) (path_denotation t' v pat).
Proof. exact denotation_order_invariant. Qed.
Print Assumptions C06_order_invariant.

(* before repair D73 (kept for the revert test): a missing named level raised KeyError *)
Theorem C06_keyerror_before_fix : forall ch v p r rest, String.eqb p all = false -> ~ In p (map fst ch) ->
  get_nodes_gen nofix (Circ ch) v (p :: r :: rest) = Err KeyError.
Proof. exact (fun ch v p r rest => get_nodes_keyerror nofix ch v p r rest eq_refl). Qed.
Print Assumptions C06_keyerror_before_fix.
Theorem C06_D31_before_fix : wfb two_branches = true /\
  get_nodes_gen nofix two_branches (Some ox) ["all"; "c1"; "n0"] = Err KeyError /\
  get_nodes two_branches (Some ox) ["all"; "c1"; "n0"] = Ok [["a"; "c1"; "n0"]] /\
  path_denotation two_branches (Some ox) ["all"; "c1"; "n0"] = [["a"; "c1"; "n0"]] /\
  names_resolve two_branches ["all"; "c1"; "n0"] = false /\ resolvable two_branches ["all"; "c1"; "n0"] = true.
Proof. exact D31_before_fix. Qed.
Print Assumptions C06_D31_before_fix.
(* the lenient readings that remain outside the guard *)
Theorem C06_refuted_too_long : wfb flat3 = true /\
  get_nodes flat3 (Some ox) ["B"; "zzz"] = Ok [["B"]] /\ path_denotation flat3 (Some ox) ["B"; "zzz"] = [] /\
  not_too_long flat3 ["B"; "zzz"] = false.
Proof. exact refuted_too_long. Qed.
Print Assumptions C06_refuted_too_long.
Theorem C06_too_short_before_fix :
  get_nodes_gen nofix two_branches None ["a"] = Ok [["a"]] /\ get_nodes_gen nofix two_branches (Some ox) ["a"] = Err IndexError /\
  get_nodes two_branches None ["a"] = Ok [] /\ get_nodes two_branches (Some ox) ["a"] = Ok [] /\
  path_denotation two_branches None ["a"] = [] /\ not_too_short two_branches ["a"] = false /\ resolvable two_branches ["a"] = true.
Proof. exact too_short_before_fix. Qed.
Print Assumptions C06_too_short_before_fix.

(* output stage: dict form resolves every key to the denotation of its path *)
Theorem C06_positions_dict : forall t reqs, wfb t = true -> reqs_resolvable t reqs = true -> all_found t reqs = true ->
  positions_dict t reqs = Ok (flat_map (entries_of t) reqs).
Proof. exact (positions_dict_spec asis). Qed.
Print Assumptions C06_positions_dict.
(* ... and refuses a key whose path denotes nothing (fix D48) *)
Theorem C06_missing_output_refused : forall t key pat o x rest, wfb t = true -> resolvable t pat = true ->
  path_denotation t (Some (o, x)) pat = [] -> positions_dict t ((key, (pat, (o, x))) :: rest) = Err PyRatesException.
Proof. exact (positions_dict_missing asis). Qed.
Print Assumptions C06_missing_output_refused.
Theorem C06_multi_label : forall (key : string) n o x,
  key :: firstn (List.length (var_key n o x) - 2) (var_key n o x) ++ [last2 (var_key n o x)] = key :: n ++ [opvar o x].
Proof. exact multi_label. Qed.
Print Assumptions C06_multi_label.
(* on a fresh template a variable is read from the vector of its representative at its own unit indices ... *)
Theorem C06_source_fresh : forall L v vec idxs, tsvi L = [] -> source_of L v = Ok (vec, idxs) ->
  passoc v (vidx L) = Some idxs /\ passoc (relabel L v) (f2b L) = Some vec /\ exists sl, assoc vec (svi L) = Some sl.
Proof. exact source_of_fresh. Qed.
Print Assumptions C06_source_fresh.
(* ... and slicing the vector out of the state row and indexing it reads state slot pos(var, unit) *)
Theorem C06_column_is_slot : forall (d : nat) L (row : list nat) v vec idxs j i k, source_of L v = Ok (vec, idxs) ->
  nth_error idxs j = Some i -> pos L v j = Some k -> column_value d L row (vec, i) = nth_error row k.
Proof. exact (@column_value_slot nat). Qed.
Print Assumptions C06_column_is_slot.

(* WHAT run() RETURNS.  For every circuit tree, layout, and set of requests — dict form with single-variable keys,
   wildcard keys, several keys, or list form; scalar nodes and populations (U = units per population node) — under the
   stated decidable guards the DataFrame has exactly the columns of the specification (one per unit of every denoted
   variable, request order, declaration order, unit order; label = key | key, node levels, op/var | path; a population
   adds the unit number), and the column labelled l is read from the backend source (vector, index) of the unit that
   l names.  With C06_column_is_slot that source is state slot pos(variable, unit). *)
Theorem C06_run_returns : forall t L U f reqs, f <> ListFormOld ->
  wfb t = true -> reqs_resolvable t reqs = true -> all_found t reqs = true -> reqs <> [] ->
  covers L U (requested t f reqs) = true ->
  run_columns t L f reqs = Ok (map (col_of L) (spec_columns t U f reqs)).
Proof. exact run_columns_spec_asis. Qed.
Print Assumptions C06_run_returns.
(* the same theorem for the code before repairs D73 / D77 / D87 / D88 needed the guards names_resolve, no_overlap,
   not_too_short and no_pop_in_wildcard *)
Theorem C06_run_returns_before_fix : forall t L U f reqs, f <> ListFormOld ->
  wfb t = true -> reqs_resolvable_gen nofix t reqs = true -> all_found t reqs = true -> reqs <> [] ->
  (f = DictForm -> no_overlap t reqs = true /\ no_pop_in_wildcard t U reqs = true) ->
  covers L U (requested t f reqs) = true ->
  run_columns_gen nofix t L f reqs = Ok (map (col_of L) (spec_columns t U f reqs)).
Proof. exact run_columns_spec_before. Qed.
Print Assumptions C06_run_returns_before_fix.
(* NOT a result of its own (independent review): this is the contrapositive of its own hypothesis — IF the index map
   `pos` is injective THEN two different requested units have different slots.  Injectivity of the real layout is C04's
   business; no theorem here or there connects Vectorize.compile to a Paths.layout: the layout, and with it the "right"
   slot `pos` (built from the Impl's relabel / vidx / f2b / svi), is a hypothesis of the whole output stage, tied to the
   code only by the correspondence run (the layout is read from a real compilation). *)
Theorem C06_distinct_units_distinct_slots : forall L,
  (forall v j v' j' k, pos L v j = Some k -> pos L v' j' = Some k -> v = v' /\ j = j') ->
  forall v j v' j' k k', pos L v j = Some k -> pos L v' j' = Some k' -> (v, j) <> (v', j') -> k <> k'.
Proof. exact distinct_units_distinct_slots. Qed.
Print Assumptions C06_distinct_units_distinct_slots.
(* populations: one column per unit, in unit order, label (key, i); also next to a plain key and in the list form *)
Theorem C06_population_columns :
  run_columns pop_tree L_pop DictForm [("p", (["P"], ox)); ("a", (["B"], ox))] =
    Ok [(["p"; "0"], ("x_v1", 0)); (["p"; "1"], ("x_v1", 1)); (["p"; "2"], ("x_v1", 2)); (["a"], ("x", 1))] /\
  spec_columns pop_tree U_pop DictForm [("p", (["P"], ox)); ("a", (["B"], ox))] =
    [(["p"; "0"], (["P"; "op"; "x"], 0)); (["p"; "1"], (["P"; "op"; "x"], 1)); (["p"; "2"], (["P"; "op"; "x"], 2));
     (["a"], (["B"; "op"; "x"], 0))] /\
  pos L_pop ["P"; "op"; "x"] 2 = Some 4 /\
  run_columns pop_tree L_pop ListForm [("", (["all"], ox))] =
    Ok [(["A/op/x"], ("x", 0)); (["B/op/x"], ("x", 1)); (["P/op/x"; "0"], ("x_v1", 0)); (["P/op/x"; "1"], ("x_v1", 1));
        (["P/op/x"; "2"], ("x_v1", 2))].
Proof. exact population_columns. Qed.
Print Assumptions C06_population_columns.
Theorem C06_population_in_wildcard_before_fix :
  run_columns_gen nofix pop_tree L_pop DictForm [("w", (["all"], ox))] = Err ValueError /\
  List.length (spec_columns pop_tree U_pop DictForm [("w", (["all"], ox))]) = 5 /\
  no_pop_in_wildcard pop_tree U_pop [("w", (["all"], ox))] = false /\
  run_columns pop_tree L_pop DictForm [("w", (["all"], ox))] =
    Ok [(["w"; "A"; "op/x"], ("x", 0)); (["w"; "B"; "op/x"], ("x", 1)); (["w"; "P"; "op/x"; "0"], ("x_v1", 0));
        (["w"; "P"; "op/x"; "1"], ("x_v1", 1)); (["w"; "P"; "op/x"; "2"], ("x_v1", 2))].
Proof. exact population_in_wildcard_before_fix. Qed.
Print Assumptions C06_population_in_wildcard_before_fix.
Example C06_run_returns_nonvacuous :
  let reqs := [("p", (["P"], ox)); ("a", (["B"], ox))] in
  wfb pop_tree = true /\ reqs_resolvable pop_tree reqs = true /\ all_found pop_tree reqs = true /\
  covers L_pop U_pop (requested pop_tree DictForm reqs) = true.
Proof. exact run_returns_nonvacuous. Qed.
Print Assumptions C06_run_returns_nonvacuous.

(* refutations of the output stage (witnesses replayed on the real code: corpus/C06) *)
Theorem C06_list_form_old_refuted :
  run_columns flat3 L3 ListFormOld [("", (["B"], ox))] = Ok [(["A/op/x"], ("x", 0))] /\
  run_columns flat3 L3 ListForm [("", (["B"], ox))] = Ok [(["B/op/x"], ("x", 1))] /\
  spec_columns flat3 [] ListForm [("", (["B"], ox))] = [(["B/op/x"], (["B"; "op"; "x"], 0))] /\
  pos L3 ["B"; "op"; "x"] 0 = Some 1.
Proof. exact list_old_refuted. Qed.
Print Assumptions C06_list_form_old_refuted.
(* D43 (repaired by a fix: commit): a plain key next to a wildcard key keeps its label *)
Theorem C06_plain_key_regression :
  map fst (match run_columns flat3 L3 DictForm [("ab", (["B"], ox)); ("a", (["all"], ox))] with Ok l => l | Err _ => [] end) =
  map fst (spec_columns flat3 [] DictForm [("ab", (["B"], ox)); ("a", (["all"], ox))]) /\
  run_columns flat3 L3 DictForm [("ab", (["B"], ox)); ("a", (["all"], ox))] =
    Ok [(["ab"], ("x", 1)); (["a"; "A"; "op/x"], ("x", 0)); (["a"; "B"; "op/x"], ("x", 1)); (["a"; "C"; "op/x"], ("x", 2))].
Proof. exact plain_key_regression. Qed.
Print Assumptions C06_plain_key_regression.
Theorem C06_overlap_before_fix :
  run_columns_gen nofix flat3 L3 DictForm [("a", (["all"], ox)); ("b", (["all"], ox))] = Err KeyError /\
  List.length (spec_columns flat3 [] DictForm [("a", (["all"], ox)); ("b", (["all"], ox))]) = 6 /\
  no_overlap flat3 [("a", (["all"], ox)); ("b", (["all"], ox))] = false /\
  map fst (match run_columns flat3 L3 DictForm [("a", (["all"], ox)); ("b", (["all"], ox))] with Ok l => l | Err _ => [] end) =
  map fst (spec_columns flat3 [] DictForm [("a", (["all"], ox)); ("b", (["all"], ox))]).
Proof. exact overlap_before_fix. Qed.
Print Assumptions C06_overlap_before_fix.
(* _get_var_idx with a non-empty template map (before repair D74 get_run_func(in_place=False) left one behind) *)
Theorem C06_stale_indices_before_fix :
  source_of (L_stale true) ["N1"; "op"; "x"] = Ok ("x", [4]) /\ source_of (L_stale false) ["N1"; "op"; "x"] = Ok ("x", [1]) /\
  source_of (L_stale false) ["N4"; "op"; "x"] = Ok ("x", [4]).
Proof. exact stale_indices_refuted. Qed.
Print Assumptions C06_stale_indices_before_fix.

Example C06_nonvacuous : wfb nv_tree = true /\ resolvable nv_tree ["all"; "A"] = true /\
  get_nodes nv_tree (Some ox) ["all"; "A"] = Ok [["c1"; "A"]; ["c2"; "A"]] /\
  get_nodes nv_tree (Some ox) ["all"] = Ok [["c1"; "A"]; ["c2"; "B"]; ["c2"; "A"]].
Proof. exact nonvacuous. Qed.
Print Assumptions C06_nonvacuous.

(* NOT a result of its own (independent review): congruence of the helper `edge_deriv`.  The hypothesis assumes
   `read_slot L row s = val s` for every path of every edge, i.e. exactly "the path reads the variable it names"; the lemma
   only transports that through the coupling formula.  That the real compilation resolves source, target and path-mapped
   extra source of an edge through the same maps as an output is established by the third correspondence stream (edge),
   not by a theorem. *)
Theorem C06_edge_paths_same_variable : forall (V : Type) (vadd vmul : V -> V -> V) (vzero : V) L row (val : path -> V) es tv,
  (forall e, In e es -> let '(s, t, w, r) := e in read_slot V vzero L row s = val s /\ read_slot V vzero L row r = val r) ->
  edge_deriv_impl V vadd vmul vzero L row es tv = edge_deriv_spec V vadd vmul vzero val es tv.
Proof. exact edge_paths_same_variable. Qed.
Print Assumptions C06_edge_paths_same_variable.
