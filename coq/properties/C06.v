(* C06 — a variable path addresses the same variable everywhere.
   Statements only; every proof is `exact <lemma of PathsProofs>`. *)
From Coq Require Import List String Bool Arith Permutation.
From PV Require Import Paths PathsProofs.
Import ListNotations.
Open Scope string_scope.
Open Scope list_scope.

(* Full-strength statement: on EVERY well-formed circuit tree and EVERY pattern the recursion of get_nodes returns
   the denotation of the path.  It is false of the code as it is (D31 and two lenient readings): *)
Definition C06_full_statement : Prop := full_statement.
Theorem C06_full_refuted : ~ C06_full_statement.
Proof. exact full_statement_refuted. Qed.
Print Assumptions C06_full_refuted.

(* ... and true under the decidable guard `resolvable` (any depth, 'all' at any level, any var_identifier):
   the result is the list of matching leaves, depth first in declaration order *)
Theorem C06_get_nodes_partial : forall t v pat, wfb t = true -> resolvable t pat = true ->
  get_nodes t v pat = Ok (path_denotation t v pat).
Proof. exact get_nodes_correct. Qed.
Print Assumptions C06_get_nodes_partial.

Theorem C06_no_duplicates : forall t v pat, wfb t = true -> NoDup (path_denotation t v pat).
Proof. exact path_denotation_NoDup. Qed.
Print Assumptions C06_no_duplicates.

Theorem C06_get_nodes_no_duplicates : forall t v pat l, wfb t = true -> resolvable t pat = true ->
  get_nodes t v pat = Ok l -> NoDup l.
Proof. exact get_nodes_NoDup. Qed.
Print Assumptions C06_get_nodes_no_duplicates.

(* what the denotation is: exactly the leaves whose address matches and that carry the variable *)
Theorem C06_denotation_sound : forall t v pat q, In q (path_denotation t v pat) ->
  exists nd, In (q, nd) (leaves t) /\ matches pat q = true /\ has_var v nd = true.
Proof. exact path_denotation_sound. Qed.
Print Assumptions C06_denotation_sound.
Theorem C06_denotation_complete : forall t v pat q nd, In (q, nd) (leaves t) -> matches pat q = true ->
  has_var v nd = true -> In q (path_denotation t v pat).
Proof. exact path_denotation_complete. Qed.
Print Assumptions C06_denotation_complete.

(* declaration order (children reordered at any level) changes the column order only *)
Theorem C06_order_invariant : forall t t' v pat, tperm t t' ->
  Permutation (path_denotation t v pat) (path_denotation t' v pat).
Proof. exact denotation_order_invariant. Qed.
Print Assumptions C06_order_invariant.

(* the exceptions outside the guard *)
Theorem C06_get_nodes_keyerror : forall ch v p r rest, String.eqb p all = false -> ~ In p (map fst ch) ->
  get_nodes (Circ ch) v (p :: r :: rest) = Err KeyError.
Proof. exact get_nodes_keyerror. Qed.
Print Assumptions C06_get_nodes_keyerror.
Theorem C06_refuted_D31 : wfb two_branches = true /\
  get_nodes two_branches (Some ox) ["all"; "c1"; "n0"] = Err KeyError /\
  path_denotation two_branches (Some ox) ["all"; "c1"; "n0"] = [["a"; "c1"; "n0"]] /\
  names_resolve two_branches ["all"; "c1"; "n0"] = false.
Proof. exact refuted_D31. Qed.
Print Assumptions C06_refuted_D31.
Theorem C06_refuted_too_long : wfb flat3 = true /\
  get_nodes flat3 (Some ox) ["B"; "zzz"] = Ok [["B"]] /\ path_denotation flat3 (Some ox) ["B"; "zzz"] = [] /\
  not_too_long flat3 ["B"; "zzz"] = false.
Proof. exact refuted_too_long. Qed.
Print Assumptions C06_refuted_too_long.
Theorem C06_refuted_too_short :
  get_nodes two_branches None ["a"] = Ok [["a"]] /\ get_nodes two_branches (Some ox) ["a"] = Err IndexError /\
  path_denotation two_branches None ["a"] = [] /\ not_too_short two_branches ["a"] = false.
Proof. exact refuted_too_short. Qed.
Print Assumptions C06_refuted_too_short.

(* output stage: dict form resolves every key to the denotation of its path *)
Theorem C06_positions_dict : forall t reqs, wfb t = true -> reqs_resolvable t reqs = true -> all_found t reqs = true ->
  positions_dict t reqs = Ok (flat_map (entries_of t) reqs).
Proof. exact positions_dict_spec. Qed.
Print Assumptions C06_positions_dict.
(* ... and refuses a key whose path denotes nothing (fix D48) *)
Theorem C06_missing_output_refused : forall t key pat o x rest, wfb t = true -> resolvable t pat = true ->
  path_denotation t (Some (o, x)) pat = [] -> positions_dict t ((key, (pat, (o, x))) :: rest) = Err PyRatesException.
Proof. exact positions_dict_missing. Qed.
Print Assumptions C06_missing_output_refused.
Theorem C06_multi_label : forall (key : string) n o x,
  key :: firstn (List.length (var_key n o x) - 2) (var_key n o x) ++ [last2 (var_key n o x)] = key :: n ++ [opvar o x].
Proof. exact multi_label. Qed.
Print Assumptions C06_multi_label.
(* on a fresh template a variable is read from the vector of its representative at its own unit index ... *)
Theorem C06_source_fresh : forall L v vec i, tsvi L = [] -> source_of L v = Ok (vec, i) ->
  passoc v (vidx L) = Some i /\ passoc (relabel L v) (f2b L) = Some vec /\ exists sl, assoc vec (svi L) = Some sl.
Proof. exact source_of_fresh. Qed.
Print Assumptions C06_source_fresh.
(* ... and slicing the vector out of the state row and indexing it reads state slot pos(var) *)
Theorem C06_column_is_slot : forall (d : nat) L (row : list nat) v src k, source_of L v = Ok src -> pos L v = Some k ->
  column_value d L row src = nth_error row k.
Proof. exact (@column_value_slot nat). Qed.
Print Assumptions C06_column_is_slot.

(* refutations of the output stage (witnesses replayed on the real code: corpus/C06) *)
Theorem C06_list_form_old_refuted :
  run_columns flat3 L3 ListFormOld [("", (["B"], ox))] = Ok [(["A/op/x"], ("x", 0))] /\
  run_columns flat3 L3 ListForm [("", (["B"], ox))] = Ok [(["B/op/x"], ("x", 1))] /\
  spec_columns flat3 ListForm [("", (["B"], ox))] = [(["B/op/x"], ["B"; "op"; "x"])] /\
  pos L3 ["B"; "op"; "x"] = Some 1.
Proof. exact list_old_refuted. Qed.
Print Assumptions C06_list_form_old_refuted.
(* D43 (repaired by a fix: commit): a plain key next to a wildcard key keeps its label *)
Theorem C06_plain_key_regression :
  map fst (match run_columns flat3 L3 DictForm [("ab", (["B"], ox)); ("a", (["all"], ox))] with Ok l => l | Err _ => [] end) =
  map fst (spec_columns flat3 DictForm [("ab", (["B"], ox)); ("a", (["all"], ox))]) /\
  run_columns flat3 L3 DictForm [("ab", (["B"], ox)); ("a", (["all"], ox))] =
    Ok [(["ab"], ("x", 1)); (["a"; "A"; "op/x"], ("x", 0)); (["a"; "B"; "op/x"], ("x", 1)); (["a"; "C"; "op/x"], ("x", 2))].
Proof. exact plain_key_regression. Qed.
Print Assumptions C06_plain_key_regression.
Theorem C06_overlap_refuted :
  run_columns flat3 L3 DictForm [("a", (["all"], ox)); ("b", (["all"], ox))] = Err KeyError /\
  List.length (spec_columns flat3 DictForm [("a", (["all"], ox)); ("b", (["all"], ox))]) = 6 /\
  no_overlap flat3 [("a", (["all"], ox)); ("b", (["all"], ox))] = false.
Proof. exact overlap_refuted. Qed.
Print Assumptions C06_overlap_refuted.
Theorem C06_stale_indices_refuted :
  source_of (L_stale true) ["N1"; "op"; "x"] = Ok ("x", 4) /\ source_of (L_stale false) ["N1"; "op"; "x"] = Ok ("x", 1) /\
  source_of (L_stale false) ["N4"; "op"; "x"] = Ok ("x", 4).
Proof. exact stale_indices_refuted. Qed.
Print Assumptions C06_stale_indices_refuted.

Example C06_nonvacuous : wfb nv_tree = true /\ resolvable nv_tree ["all"; "A"] = true /\
  get_nodes nv_tree (Some ox) ["all"; "A"] = Ok [["c1"; "A"]; ["c2"; "A"]] /\
  get_nodes nv_tree (Some ox) ["all"] = Ok [["c1"; "A"]; ["c2"; "B"]; ["c2"; "A"]].
Proof. exact nonvacuous. Qed.
Print Assumptions C06_nonvacuous.
