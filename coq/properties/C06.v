From Coq Require Import List String Bool Arith.
From PV Require Import Paths PathsProofs.
Import ListNotations.
Example C06_stub : wfb (Circ []) = true.
Proof. vm_compute. reflexivity. Qed.
Print Assumptions C06_stub.
