"""Shared machinery of the checks: Coq build + hygiene gate, property-file compilation with Print Assumptions
capture, evaluation of model terms inside Coq (cases.v + vm_compute), PyRates worker pool, evidence and
known-findings handling.  See DESIGN.md section 2.3."""
import json, os, re, shutil, subprocess, sys, tempfile, time, hashlib, random
from fractions import Fraction

VERIF = os.path.dirname(os.path.dirname(os.path.abspath(__file__)))
REPO = os.environ.get("VERIF_REPO", "/repo")
COQ = os.path.join(VERIF, "coq")
PY = "/venv/bin/python"
GUARD_ENV = "PYRATES_VERIF"

AXIOM_WHITELIST = {
    # standard-library axioms (named in DESIGN.md section 3); nothing is declared by this development
    "ClassicalDedekindReals.sig_not_dec", "ClassicalDedekindReals.sig_forall_dec",
    "FunctionalExtensionality.functional_extensionality_dep", "Classical_Prop.classic",
}
HYGIENE_RE = re.compile(
    r"\b(Admitted|admit|Axiom|Axioms|Parameter|Parameters|Conjecture|Conjectures|Hypothesis|Hypotheses|Variable|Variables)\b"
    r"|Unset\s+Guard|bypass_check|type-in-type|impredicative-set|Admit\s+Obligations|native_compute")


class Ctx:
    def __init__(self, pid, tier, seed, replay=None):
        self.pid, self.tier, self.seed, self.replay = pid, tier, seed, replay
        self.t0 = time.time()
        self.rng = random.Random(seed * 1000003 + int(pid[1:]))
        self.scratch = tempfile.mkdtemp(prefix=f"verif_{pid}_")
        self.notes = []
        self.violations = []        # (replay_path, suffix)
        self.known_lines = []
        self.proof = None           # filled by proof_gate

    def cleanup(self):
        shutil.rmtree(self.scratch, ignore_errors=True)

    def note(self, s):
        self.notes.append(s)
        print(f"[{self.pid}] {s}", flush=True)


# ------------------------------------------------------------------------------------------------
# Coq side
# ------------------------------------------------------------------------------------------------
def strip_comments(text):
    out, depth, i = [], 0, 0
    while i < len(text):
        if text.startswith("(*", i):
            depth += 1; i += 2
        elif text.startswith("*)", i) and depth:
            depth -= 1; i += 2
        else:
            if not depth:
                out.append(text[i])
            i += 1
    return "".join(out)


def hygiene(files):
    """No Admitted/admit/Axiom/Parameter/..., no top-level Variable/Hypothesis (inside Section is allowed)."""
    bad = []
    for f in files:
        txt = strip_comments(open(f).read())
        depth = 0
        for ln, line in enumerate(txt.split("\n"), 1):
            s = line.strip()
            if re.match(r"^(Section|Module)\b", s) and not re.match(r"^Module\s+\S+\s*:=", s):
                if s.startswith("Section"):
                    depth += 1
            if re.match(r"^End\b", s) and depth:
                depth -= 1
                continue
            for m in HYGIENE_RE.finditer(line):
                w = m.group(0)
                if w.split()[0] in ("Variable", "Variables", "Hypothesis", "Hypotheses") and depth > 0:
                    continue
                bad.append(f"{os.path.relpath(f, VERIF)}:{ln}: {w}")
    return bad


def build_coq():
    """Regenerate gen/, build theories with make -k.  Returns (ok_files, failed_files, log)."""
    gen = os.path.join(VERIF, "harness", "py2v.py")
    gen_log = ""
    if os.path.exists(gen):
        p = subprocess.run([PY, gen], capture_output=True, text=True, env=py_env())
        gen_log = p.stdout + p.stderr
    p = subprocess.run([os.path.join(COQ, "build.sh"), "-k"], capture_output=True, text=True)
    log = gen_log + p.stdout + p.stderr
    files = [os.path.join(COQ, d, f) for d in ("theories", "gen") if os.path.isdir(os.path.join(COQ, d))
             for f in sorted(os.listdir(os.path.join(COQ, d))) if f.endswith(".v")]
    ok, failed = [], []
    for f in files:
        vo = f[:-2] + ".vo"
        if os.path.exists(vo) and os.path.getmtime(vo) >= os.path.getmtime(f):
            ok.append(f)
        else:
            failed.append(f)
    return ok, failed, log


def coqc(path, extra=(), timeout=600):
    cmd = ["coqc", "-Q", os.path.join(COQ, "theories"), "PV", "-Q", os.path.join(COQ, "gen"), "PVG", *extra, path]
    try:
        p = subprocess.run(cmd, capture_output=True, text=True, timeout=timeout, cwd=os.path.dirname(path))
        return p.returncode, p.stdout, p.stderr
    except subprocess.TimeoutExpired:
        return 124, "", "coqc timeout"


def compile_property(pid):
    """Compile properties/<pid>.v; returns dict(ok, theorems=[...], assumptions={thm: [axioms]}, log)."""
    src = os.path.join(COQ, "properties", f"{pid}.v")
    rc, out, err = coqc(src)
    log = out + err
    open(src[:-2] + ".log", "w").write(log)
    txt = strip_comments(open(src).read())
    theorems = re.findall(r"^\s*(?:Theorem|Lemma|Example|Corollary)\s+(\w+)", txt, re.M)
    printed = re.findall(r"Print Assumptions\s+(\w+)", txt)
    # every block is either "Closed under the global context" or "Axioms:" followed by lines
    blocks = re.split(r"(?=Closed under the global context|Axioms:)", out)
    blocks = [b for b in blocks if b.startswith("Closed") or b.startswith("Axioms:")]
    assumptions = {}
    for name, b in zip(printed, blocks):
        if b.startswith("Closed"):
            assumptions[name] = []
        else:
            assumptions[name] = re.findall(r"^([A-Za-z_][\w.']*)\s*:", b[len("Axioms:"):], re.M)
    return dict(ok=(rc == 0), theorems=theorems, printed=printed, assumptions=assumptions, log=log,
                complete=(len(blocks) == len(printed)))


def proof_gate(ctx, needs):
    """Build, hygiene, compile the property file.  `needs` = theory/gen base names the property rests on.
    Returns dict(obligations, discharged, broken=[names], axioms, log)."""
    ok, failed, log = build_coq()
    failed_names = [os.path.basename(f)[:-2] for f in failed]
    all_v = ok + failed + [os.path.join(COQ, "properties", f) for f in os.listdir(os.path.join(COQ, "properties")) if f.endswith(".v")]
    bad = hygiene(all_v)
    prop = compile_property(ctx.pid)
    broken = [n for n in needs if n in failed_names]
    obligations = list(prop["theorems"])
    discharged = obligations if (prop["ok"] and not broken) else []
    axioms = sorted({a for l in prop["assumptions"].values() for a in l})
    foreign = [a for a in axioms if a not in AXIOM_WHITELIST]
    res = dict(obligations=obligations, discharged=discharged, broken=broken, axioms=axioms, foreign_axioms=foreign,
               hygiene=bad, prop_ok=prop["ok"], prop_log=prop["log"], build_log=log, failed=failed_names,
               printed=prop["printed"], assumptions=prop["assumptions"], complete=prop["complete"])
    ctx.proof = res
    ctx.note(f"coq: {len(ok)} files built, failed={failed_names}, property file ok={prop['ok']}, "
             f"theorems={len(obligations)}, axioms={axioms}, hygiene={'clean' if not bad else bad}")
    return res


def proof_problem(res):
    """None when every proof obligation of the property is discharged; else a description."""
    if res["hygiene"]:
        return "hygiene gate: " + "; ".join(res["hygiene"][:5])
    if res["broken"]:
        return "theory files no longer compile: " + ", ".join(res["broken"])
    if not res["prop_ok"]:
        m = re.search(r'File "[^"]*", line (\d+).*?\n(.*)', res["prop_log"], re.S)
        return "property file no longer compiles: " + (res["prop_log"][-600:] if not m else f"line {m.group(1)}: {m.group(2)[:400]}")
    if res["foreign_axioms"]:
        return "axioms outside the whitelist: " + ", ".join(res["foreign_axioms"])
    if not res["complete"] or set(res["printed"]) != set(res["assumptions"]):
        return "Print Assumptions output incomplete"
    if not res["obligations"]:
        return "no theorems"
    return None


def coq_eval(ctx, name, header, body, timeout=900):
    """Write <scratch>/<name>.v = header + body, compile, return stdout (Eval outputs)."""
    path = os.path.join(ctx.scratch, name + ".v")
    open(path, "w").write(header + "\n" + body + "\n")
    rc, out, err = coqc(path, timeout=timeout)
    if rc != 0:
        raise RuntimeError(f"coqc failed on generated {name}.v:\n{(out + err)[-3000:]}")
    return out


def parse_nat_list(out):
    """Parse the `= [a; b; ...] : list nat` that Eval vm_compute prints."""
    m = re.search(r"=\s*\[(.*?)\]\s*:\s*list nat", out, re.S)
    if m is None:
        m2 = re.search(r"=\s*(nil|\[\s*\])", out)
        if m2:
            return []
        raise RuntimeError("cannot parse Coq output: " + out[:500])
    body = m.group(1).strip()
    if not body:
        return []
    return [int(x.replace("%nat", "").strip()) for x in body.split(";")]


def parse_nat_lists(out):
    return [parse_nat_list(b) for b in re.split(r"(?=\s=\s)", out) if "list nat" in b]


# ---- Python value -> Gallina term ---------------------------------------------------------------
def cq(x):
    f = Fraction(x)
    return f"(mkq ({f.numerator}) {f.denominator})"

def cz(x):
    return f"({int(x)})%Z"

def cnat(x):
    return f"{int(x)}%nat"

def cbool(b):
    return "true" if b else "false"

def clist(items):
    return "[" + "; ".join(items) + "]"

def cstr(s):
    assert all(32 <= ord(c) < 127 and c != '"' for c in s), s
    return f'"{s}"%string'

def copt(x, f):
    return "None" if x is None else f"(Some {f(x)})"


# ------------------------------------------------------------------------------------------------
# PyRates side: worker pool
# ------------------------------------------------------------------------------------------------
def py_env():
    env = dict(os.environ)
    env["PYTHONPATH"] = REPO + os.pathsep + os.path.join(VERIF, "harness")
    env["PYTHONHASHSEED"] = "0"
    env["PATH"] = "/venv/bin" + os.pathsep + env.get("PATH", "")
    env[GUARD_ENV] = "1"
    env["OMP_NUM_THREADS"] = "1"; env["MKL_NUM_THREADS"] = "1"; env["OPENBLAS_NUM_THREADS"] = "1"
    env["JAX_PLATFORMS"] = "cpu"
    env.pop("PYTHONSTARTUP", None)
    return env


def run_impl(ctx, module, func, cases, nworkers=None, per_case_timeout=60):
    """Run harness.<module>.<func>(case) on the real code for every case, in worker subprocesses with their own
    scratch directories.  Returns a list of results (JSON values); a worker failure yields {"err": ...}."""
    if not cases:
        return []
    nworkers = nworkers or min(int(os.environ.get("VERIF_JOBS", "14")), max(1, len(cases)))
    chunks = [[] for _ in range(nworkers)]
    for i, c in enumerate(cases):
        chunks[i % nworkers].append((i, c))
    procs = []
    for w, chunk in enumerate(chunks):
        if not chunk:
            continue
        wd = os.path.join(ctx.scratch, f"w{w}_{len(os.listdir(ctx.scratch))}")
        os.makedirs(wd)
        inp = os.path.join(wd, "in.json"); outp = os.path.join(wd, "out.jsonl")
        json.dump(chunk, open(inp, "w"))
        p = subprocess.Popen([PY, os.path.join(VERIF, "harness", "worker.py"), module, func, inp, outp, str(per_case_timeout)],
                             cwd=wd, env=py_env(), stdout=subprocess.DEVNULL, stderr=open(os.path.join(wd, "stderr"), "w"))
        procs.append((p, chunk, outp, wd))
    results = [None] * len(cases)
    deadline = time.time() + per_case_timeout * (max(len(c) for c in chunks) + 2) + 120
    for p, chunk, outp, wd in procs:
        try:
            p.wait(timeout=max(1, deadline - time.time()))
        except subprocess.TimeoutExpired:
            p.kill()
        if os.path.exists(outp):
            for line in open(outp):
                try:
                    i, r = json.loads(line)
                    results[i] = r
                except Exception:
                    pass
        for i, _ in chunk:
            if results[i] is None:
                tail = ""
                try:
                    tail = open(os.path.join(wd, "stderr")).read()[-300:]
                except Exception:
                    pass
                results[i] = {"err": "worker-died", "detail": tail}
    return results


# ------------------------------------------------------------------------------------------------
# known findings, replays, evidence
# ------------------------------------------------------------------------------------------------
def known_findings(pid):
    path = os.path.join(VERIF, "known_findings.json")
    if not os.path.exists(path):
        return []
    return [e for e in json.load(open(path))["entries"] if e["property"] == pid and e["status"] == "finding"]


def write_replay(ctx, kind, payload):
    d = os.path.join(VERIF, "replays")
    os.makedirs(d, exist_ok=True)
    body = dict(property=ctx.pid, kind=kind, seed=ctx.seed, tier=ctx.tier,
                rerun=f"./check {ctx.pid} --replay <this file>", **payload)
    h = hashlib.sha1(json.dumps(body, sort_keys=True, default=str).encode()).hexdigest()[:10]
    path = os.path.join(d, f"{ctx.pid}-{kind}-{h}.json")
    json.dump(body, open(path, "w"), indent=1, default=str)
    return path


def violation(ctx, replay_path, no_input=False):
    ctx.violations.append(replay_path)
    print(f"VIOLATION property={ctx.pid} replay={replay_path}" + (" no-failing-input-found" if no_input else ""), flush=True)


def known(ctx, text):
    ctx.known_lines.append(text)
    print(f"KNOWN-FINDING: property={ctx.pid} {text}", flush=True)


TRUSTED_BASE_COMMON = [
    "Coq 8.16.1 kernel (coqc; vm_compute used for computed witnesses and the correspondence evaluation; no native_compute)",
    "correspondence harness (/verif/harness): case generators, Python->Gallina term printer, canonicalisation, comparison glue",
    "the hand-written Gallina model is tied to /repo only by the differential run of this check (E1)",
]


def write_evidence(ctx, *, evaluations, distinct_nontrivial, rule, samples, trusted_base, assumptions, extra=None):
    pr = ctx.proof or dict(obligations=[], discharged=[], axioms=[])
    cov = dict(obligations=len(pr["obligations"]), discharged=len(pr["discharged"]),
               checker_cmd=f"cd /verif/coq && ./build.sh -k && coqc -Q theories PV -Q gen PVG properties/{ctx.pid}.v "
                           f"(Print Assumptions under every theorem; log in coq/properties/{ctx.pid}.log)",
               trusted_base=TRUSTED_BASE_COMMON + list(trusted_base) +
                            ["axioms reported by Print Assumptions: " + (", ".join(pr["axioms"]) if pr["axioms"] else "none (closed under the global context)")],
               theorems=pr["obligations"], broken=pr.get("broken", []),
               evaluations=int(evaluations), distinct_nontrivial=int(distinct_nontrivial), rule=rule,
               samples=samples[:6], known_findings_reported=ctx.known_lines, notes=ctx.notes[-40:])
    if extra:
        cov.update(extra)
    ev = dict(property_id=ctx.pid, tier=ctx.tier, seed=ctx.seed, level="proof", coverage=cov,
              assumptions=list(assumptions), wall_s=round(time.time() - ctx.t0, 2), violations=len(ctx.violations))
    os.makedirs(os.path.join(VERIF, "evidence"), exist_ok=True)
    json.dump(ev, open(os.path.join(VERIF, "evidence", f"{ctx.pid}.json"), "w"), indent=1, default=str)


def canon(x):
    return json.dumps(x, sort_keys=True, default=str)
