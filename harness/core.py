"""Shared machinery of the checks: Coq build + hygiene gate, property-file compilation with Print Assumptions
capture, evaluation of model terms inside Coq (cases.v + vm_compute), PyRates worker pool, evidence and
known-findings handling.  See DESIGN.md section 2.3."""
import json, os, re, shutil, subprocess, sys, tempfile, time, hashlib, random
from fractions import Fraction

VERIF = os.path.dirname(os.path.dirname(os.path.abspath(__file__)))
REPO = os.environ.get("VERIF_REPO", "/repo")
COQ = os.path.join(VERIF, "coq")
PY = "/venv/bin/python"
GUARD_ENV = "PYRATES_VERIF"

AXIOM_WHITELIST = {
    # standard-library axioms (named in DESIGN.md section 3); nothing is declared by this development
    "ClassicalDedekindReals.sig_not_dec", "ClassicalDedekindReals.sig_forall_dec",
    "FunctionalExtensionality.functional_extensionality_dep", "Classical_Prop.classic",
}
HYGIENE_RE = re.compile(
    r"\b(Admitted|admit|Axiom|Axioms|Parameter|Parameters|Conjecture|Conjectures|Hypothesis|Hypotheses|Variable|Variables)\b"
    r"|Unset\s+Guard|bypass_check|type-in-type|impredicative-set|Admit\s+Obligations|native_compute")


class Ctx:
    def __init__(self, pid, tier, seed, replay=None):
        self.pid, self.tier, self.seed, self.replay = pid, tier, seed, replay
        self.t0 = time.time()
        self.rng = random.Random(seed * 1000003 + int(pid[1:]))
        self.scratch = tempfile.mkdtemp(prefix=f"verif_{pid}_")
        # temporary files of the implementation runs (numpy.f2py/meson leaves one build directory per Fortran compilation in
        # $TMPDIR) go below the scratch directory, which cleanup() removes: a run leaves nothing behind under /tmp
        os.makedirs(os.path.join(self.scratch, "tmp"), exist_ok=True)
        os.environ["TMPDIR"] = os.path.join(self.scratch, "tmp")
        self.notes = []
        self.violations = []        # (replay_path, suffix)
        self.known_lines = []
        self.proof = None           # filled by proof_gate

    def cleanup(self):
        shutil.rmtree(self.scratch, ignore_errors=True)

    def note(self, s):
        self.notes.append(s)
        print(f"[{self.pid}] {s}", flush=True)


# ------------------------------------------------------------------------------------------------
# Coq side
# ------------------------------------------------------------------------------------------------
def strip_comments(text):
    out, depth, i = [], 0, 0
    while i < len(text):
        if text.startswith("(*", i):
            depth += 1; i += 2
        elif text.startswith("*)", i) and depth:
            depth -= 1; i += 2
        else:
            if not depth:
                out.append(text[i])
            i += 1
    return "".join(out)


def hygiene(files):
    """No Admitted/admit/Axiom/Parameter/..., no top-level Variable/Hypothesis (inside Section is allowed)."""
    bad = []
    for f in files:
        txt = strip_comments(open(f).read())
        depth = 0
        for ln, line in enumerate(txt.split("\n"), 1):
            s = line.strip()
            if re.match(r"^(Section|Module)\b", s) and not re.match(r"^Module\s+\S+\s*:=", s):
                if s.startswith("Section"):
                    depth += 1
            if re.match(r"^End\b", s) and depth:
                depth -= 1
                continue
            for m in HYGIENE_RE.finditer(line):
                w = m.group(0)
                if w.split()[0] in ("Variable", "Variables", "Hypothesis", "Hypotheses") and depth > 0:
                    continue
                bad.append(f"{os.path.relpath(f, VERIF)}:{ln}: {w}")
    return bad


def theory_path(name):
    for d in ("theories", "gen"):
        f = os.path.join(COQ, d, name + ".v")
        if os.path.exists(f):
            return f
    return os.path.join(COQ, "theories", name + ".v")


def dep_closure(names):
    """Transitive closure of `From PV/PVG Require Import/Export ...` starting from the given base names."""
    seen, todo = [], list(names)
    while todo:
        n = todo.pop()
        if n in seen:
            continue
        seen.append(n)
        f = theory_path(n)
        if not os.path.exists(f):
            continue
        txt = strip_comments(open(f).read())
        for m in re.finditer(r"From\s+(?:PV|PVG)\s+Require\s+(?:Import|Export)\s+([^.]*)\.", txt):
            todo += m.group(1).split()
        for m in re.finditer(r"Require\s+(?:Import|Export)\s+((?:PVG?\.\w+\s*)+)\.", txt):
            todo += [x.split(".")[1] for x in m.group(1).split()]
    return seen


def build_coq(needs=None):
    """Regenerate gen/, build the needed theories (or everything) with make -k.  Returns (ok_files, failed_files, log)."""
    gen = os.path.join(VERIF, "harness", "py2v.py")
    gen_log = ""
    if os.path.exists(gen):
        p = subprocess.run([PY, gen], capture_output=True, text=True, env=py_env())
        gen_log = p.stdout + p.stderr
    if needs is None:
        files = [os.path.join(COQ, d, f) for d in ("theories", "gen") if os.path.isdir(os.path.join(COQ, d))
                 for f in sorted(os.listdir(os.path.join(COQ, d))) if f.endswith(".v")]
        targets = []
    else:
        files = [theory_path(n) for n in dep_closure(needs)]
        targets = [os.path.relpath(f, COQ)[:-2] + ".vo" for f in files if os.path.exists(f)]
    p = subprocess.run([os.path.join(COQ, "build.sh"), "-k", *targets], capture_output=True, text=True)
    log = gen_log + p.stdout + p.stderr
    # a file counts as built only if its .vo is at least as new as its source AND as the .vo of everything it imports
    # (make -k leaves the stale .vo of a file whose dependency changed and that no longer compiles), and make did not
    # report an error for it
    errored = set(re.findall(r"\*\*\* \[[^\]]*?((?:theories|gen)/\w+)\.vo\] Error", log))
    ok, failed = [], []
    status = {}
    def direct_deps(f):
        txt = strip_comments(open(f).read())
        names = []
        for m in re.finditer(r"From\s+(?:PV|PVG)\s+Require\s+(?:Import|Export)\s+([^.]*)\.", txt):
            names += m.group(1).split()
        for m in re.finditer(r"Require\s+(?:Import|Export)\s+((?:PVG?\.\w+\s*)+)\.", txt):
            names += [x.split(".")[1] for x in m.group(1).split()]
        return [theory_path(n) for n in names]
    def good(f, depth=0):
        if f in status:
            return status[f]
        status[f] = False                      # cycle guard
        vo = f[:-2] + ".vo"
        r = os.path.exists(f) and os.path.exists(vo) and os.path.getmtime(vo) >= os.path.getmtime(f)
        r = r and os.path.relpath(f, COQ)[:-2] not in errored
        if r:
            for d in direct_deps(f):
                if not os.path.exists(d):
                    continue
                if not good(d, depth + 1) or os.path.getmtime(d[:-2] + ".vo") > os.path.getmtime(vo) + 1e-6:
                    r = False
                    break
        status[f] = r
        return r
    for f in files:
        (ok if good(f) else failed).append(f)
    return ok, failed, log


def coqc(path, extra=(), timeout=600):
    cmd = ["coqc", "-Q", os.path.join(COQ, "theories"), "PV", "-Q", os.path.join(COQ, "gen"), "PVG", *extra, path]
    try:
        p = subprocess.run(cmd, capture_output=True, text=True, timeout=timeout, cwd=os.path.dirname(path))
        return p.returncode, p.stdout, p.stderr
    except subprocess.TimeoutExpired:
        return 124, "", "coqc timeout"


def compile_property(pid):
    """Compile properties/<pid>.v; returns dict(ok, theorems=[...], assumptions={thm: [axioms]}, log)."""
    src = os.path.join(COQ, "properties", f"{pid}.v")
    rc, out, err = coqc(src)
    log = out + err
    open(src[:-2] + ".log", "w").write(log)
    txt = strip_comments(open(src).read())
    theorems = re.findall(r"^\s*(?:Theorem|Lemma|Example|Corollary)\s+(\w+)", txt, re.M)
    printed = re.findall(r"Print Assumptions\s+(\w+)", txt)
    # every block is either "Closed under the global context" or "Axioms:" followed by lines
    blocks = re.split(r"(?=Closed under the global context|Axioms:)", out)
    blocks = [b for b in blocks if b.startswith("Closed") or b.startswith("Axioms:")]
    assumptions = {}
    for name, b in zip(printed, blocks):
        if b.startswith("Closed"):
            assumptions[name] = []
        else:
            assumptions[name] = re.findall(r"^([A-Za-z_][\w.']*)\s*:", b[len("Axioms:"):], re.M)
    return dict(ok=(rc == 0), theorems=theorems, printed=printed, assumptions=assumptions, log=log,
                complete=(len(blocks) == len(printed)))


def proof_gate(ctx, needs):
    """Build, hygiene, compile the property file.  `needs` = theory/gen base names the property rests on.
    Returns dict(obligations, discharged, broken=[names], axioms, log)."""
    psrc = os.path.join(COQ, "properties", f"{ctx.pid}.v")
    if os.path.exists(psrc):
        ptxt = strip_comments(open(psrc).read())
        for m in re.finditer(r"From\s+(?:PV|PVG)\s+Require\s+(?:Import|Export)\s+([^.]*)\.", ptxt):
            needs = list(needs) + [x for x in m.group(1).split() if x not in needs]
    ok, failed, log = build_coq(needs)
    failed_names = [os.path.basename(f)[:-2] for f in failed]
    all_v = [f for f in ok + failed if os.path.exists(f)] + [os.path.join(COQ, "properties", f"{ctx.pid}.v")]
    bad = hygiene(all_v)
    prop = compile_property(ctx.pid)
    broken = list(failed_names)
    obligations = list(prop["theorems"])
    discharged = obligations if (prop["ok"] and not broken) else []
    axioms = sorted({a for l in prop["assumptions"].values() for a in l})
    foreign = [a for a in axioms if a not in AXIOM_WHITELIST]
    res = dict(obligations=obligations, discharged=discharged, broken=broken, axioms=axioms, foreign_axioms=foreign,
               hygiene=bad, prop_ok=prop["ok"], prop_log=prop["log"], build_log=log, failed=failed_names,
               printed=prop["printed"], assumptions=prop["assumptions"], complete=prop["complete"])
    ctx.proof = res
    if ctx.tier == "thorough" and not failed:
        ck_ok, ck = coqchk(ctx, needs)
        res["coqchk"] = ck
        if not ck_ok:
            res["broken"] = res["broken"] + ["coqchk"]
    ctx.note(f"coq: {len(ok)} files built, failed={failed_names}, property file ok={prop['ok']}, "
             f"theorems={len(obligations)}, axioms={axioms}, hygiene={'clean' if not bad else bad}")
    return res


def coqchk(ctx, needs):
    """Thorough tier: re-check the compiled theory files of the property (and everything they depend on) with the
    independent checker and return the axiom summary it prints."""
    mods = []
    for n in dep_closure(needs):
        f = theory_path(n)
        if os.path.exists(f[:-2] + ".vo"):
            mods.append(("PV." if os.sep + "theories" + os.sep in f else "PVG.") + n)
    try:
        p = subprocess.run(["coqchk", "-silent", "-o", "-Q", os.path.join(COQ, "theories"), "PV", "-Q", os.path.join(COQ, "gen"), "PVG", *mods],
                           capture_output=True, text=True, timeout=3000, cwd=COQ)
        out = p.stdout + p.stderr
        i = out.find("CONTEXT SUMMARY")
        summary = out[i:] if i >= 0 else out[-1500:]
        ok = p.returncode == 0
    except subprocess.TimeoutExpired:
        ok, summary = False, "coqchk timeout"
    ctx.note(f"coqchk -o on {len(mods)} modules: rc_ok={ok}; " + " ".join(summary.split())[:400])
    return ok, summary


def proof_problem(res):
    """None when every proof obligation of the property is discharged; else a description."""
    if res["hygiene"]:
        return "hygiene gate: " + "; ".join(res["hygiene"][:5])
    if res["broken"]:
        return "theory files no longer compile: " + ", ".join(res["broken"])
    if not res["prop_ok"]:
        m = re.search(r'File "[^"]*", line (\d+).*?\n(.*)', res["prop_log"], re.S)
        return "property file no longer compiles: " + (res["prop_log"][-600:] if not m else f"line {m.group(1)}: {m.group(2)[:400]}")
    if res["foreign_axioms"]:
        return "axioms outside the whitelist: " + ", ".join(res["foreign_axioms"])
    if not res["complete"] or set(res["printed"]) != set(res["assumptions"]):
        return "Print Assumptions output incomplete"
    if not res["obligations"]:
        return "no theorems"
    return None


def coq_eval(ctx, name, header, body, timeout=900):
    """Write <scratch>/<name>.v = header + body, compile, return stdout (Eval outputs)."""
    path = os.path.join(ctx.scratch, name + ".v")
    open(path, "w").write(header + "\n" + body + "\n")
    rc, out, err = coqc(path, timeout=timeout)
    if rc != 0:
        raise RuntimeError(f"coqc failed on generated {name}.v:\n{(out + err)[-3000:]}")
    return out


def parse_nat_list(out):
    """Parse the `= [a; b; ...] : list nat` that Eval vm_compute prints."""
    m = re.search(r"=\s*\[(.*?)\]\s*:\s*list nat", out, re.S)
    if m is None:
        m2 = re.search(r"=\s*(nil|\[\s*\])", out)
        if m2:
            return []
        raise RuntimeError("cannot parse Coq output: " + out[:500])
    body = m.group(1).strip()
    if not body:
        return []
    return [int(x.replace("%nat", "").strip()) for x in body.split(";")]


def parse_nat_lists(out):
    return [parse_nat_list(b) for b in re.split(r"(?=\s=\s)", out) if "list nat" in b]


# ---- Python value -> Gallina term ---------------------------------------------------------------
def cq(x):
    f = Fraction(x)
    return f"(mkq ({f.numerator}) {f.denominator})"

def cz(x):
    return f"({int(x)})%Z"

def cnat(x):
    return f"{int(x)}%nat"

def cbool(b):
    return "true" if b else "false"

def clist(items):
    return "[" + "; ".join(items) + "]"

def cstr(s):
    assert all(32 <= ord(c) < 127 and c != '"' for c in s), s
    return f'"{s}"%string'

def copt(x, f):
    return "None" if x is None else f"(Some {f(x)})"


# ------------------------------------------------------------------------------------------------
# PyRates side: worker pool
# ------------------------------------------------------------------------------------------------
def py_env():
    env = dict(os.environ)
    env["PYTHONPATH"] = REPO + os.pathsep + os.path.join(VERIF, "harness")
    env["PYTHONHASHSEED"] = "0"
    env["PATH"] = "/venv/bin" + os.pathsep + env.get("PATH", "")
    env[GUARD_ENV] = "1"
    env["OMP_NUM_THREADS"] = "1"; env["MKL_NUM_THREADS"] = "1"; env["OPENBLAS_NUM_THREADS"] = "1"
    env["JAX_PLATFORMS"] = "cpu"
    env.pop("PYTHONSTARTUP", None)
    cov = os.environ.get("VERIF_COVERAGE")
    if cov:  # diagnostic only (harness/anchor_coverage.py): which lines of the code the implementation runs execute
        os.makedirs(cov, exist_ok=True)
        rc = os.path.join(cov, "coveragerc")
        if not os.path.exists(rc):
            with open(rc, "w") as f:
                f.write(f"[run]\nparallel = True\ndata_file = {cov}/.coverage\nsource = {REPO}/pyrates\nsigterm = True\n")
        env["COVERAGE_PROCESS_START"] = rc
        env["PYTHONPATH"] = os.path.join(VERIF, "harness", "covhook") + os.pathsep + env["PYTHONPATH"]
    return env


def run_impl(ctx, module, func, cases, nworkers=None, per_case_timeout=60, _retry=True):
    """Run harness.<module>.<func>(case) on the real code for every case, in worker subprocesses with their own
    scratch directories.  Returns a list of results (JSON values); a worker failure yields {"err": ...}.
    Cases lost to the infrastructure (per-case timeout on a loaded machine, a worker that died) are re-run once, a few at a
    time with a fourfold time limit, before they are reported."""
    if not cases:
        return []
    if _retry:
        res = run_impl(ctx, module, func, cases, nworkers, per_case_timeout, _retry=False)
        lost = [i for i, r in enumerate(res) if isinstance(r, dict) and r.get("err") in ("timeout", "worker-died")]
        if lost and len(lost) <= max(20, len(cases) // 3):
            again = run_impl(ctx, module, func, [cases[i] for i in lost], min(4, len(lost)), per_case_timeout * 4, _retry=False)
            for i, r in zip(lost, again):
                res[i] = r
            ctx.note(f"{len(lost)} cases lost to timeouts/worker deaths were re-run with a longer limit")
        return res
    nworkers = nworkers or min(int(os.environ.get("VERIF_JOBS", "14")), max(1, len(cases)))
    chunks = [[] for _ in range(nworkers)]
    for i, c in enumerate(cases):
        chunks[i % nworkers].append((i, c))
    procs = []
    for w, chunk in enumerate(chunks):
        if not chunk:
            continue
        wd = os.path.join(ctx.scratch, f"w{w}_{len(os.listdir(ctx.scratch))}")
        os.makedirs(wd)
        inp = os.path.join(wd, "in.json"); outp = os.path.join(wd, "out.jsonl")
        json.dump(chunk, open(inp, "w"))
        p = subprocess.Popen([PY, os.path.join(VERIF, "harness", "worker.py"), module, func, inp, outp, str(per_case_timeout)],
                             cwd=wd, env=py_env(), stdout=subprocess.DEVNULL, stderr=open(os.path.join(wd, "stderr"), "w"))
        procs.append((p, chunk, outp, wd))
    results = [None] * len(cases)
    deadline = time.time() + per_case_timeout * (max(len(c) for c in chunks) + 2) + 120
    for p, chunk, outp, wd in procs:
        try:
            p.wait(timeout=max(1, deadline - time.time()))
        except subprocess.TimeoutExpired:
            p.kill()
        if os.path.exists(outp):
            for line in open(outp):
                try:
                    i, r = json.loads(line)
                    results[i] = r
                except Exception:
                    pass
        for i, _ in chunk:
            if results[i] is None:
                tail = ""
                try:
                    tail = open(os.path.join(wd, "stderr")).read()[-300:]
                except Exception:
                    pass
                results[i] = {"err": "worker-died", "detail": tail}
    return results


# ------------------------------------------------------------------------------------------------
# known findings, replays, evidence
# ------------------------------------------------------------------------------------------------
def known_findings(pid):
    """Entries with status=finding for this property, from known_findings.json and known_findings.d/<pid>.json
    (per-property part files written by the property's builder; merged into the main file by the coordinator)."""
    entries = []
    path = os.path.join(VERIF, "known_findings.json")
    if os.path.exists(path):
        entries += json.load(open(path))["entries"]
    part = os.path.join(VERIF, "known_findings.d", f"{pid}.json")
    if os.path.exists(part):
        have = {(e.get("property"), e.get("id")) for e in entries}
        entries += [e for e in json.load(open(part)) if (e.get("property"), e.get("id")) not in have]
    return [e for e in entries if e["property"] == pid and e["status"] == "finding"]


def write_replay(ctx, kind, payload):
    d = os.path.join(VERIF, "replays")
    os.makedirs(d, exist_ok=True)
    body = dict(property=ctx.pid, kind=kind, seed=ctx.seed, tier=ctx.tier,
                rerun=f"./check {ctx.pid} --replay <this file>", **payload)
    h = hashlib.sha1(json.dumps(body, sort_keys=True, default=str).encode()).hexdigest()[:10]
    path = os.path.join(d, f"{ctx.pid}-{kind}-{h}.json")
    json.dump(body, open(path, "w"), indent=1, default=str)
    return path


def violation(ctx, replay_path, no_input=False):
    ctx.violations.append(replay_path)
    print(f"VIOLATION property={ctx.pid} replay={replay_path}" + (" no-failing-input-found" if no_input else ""), flush=True)


def known(ctx, text):
    ctx.known_lines.append(text)
    print(f"KNOWN-FINDING: property={ctx.pid} {text}", flush=True)


TRUSTED_BASE_COMMON = [
    "Coq 8.16.1 kernel (coqc; vm_compute used for computed witnesses and the correspondence evaluation; no native_compute)",
    "correspondence harness (/verif/harness): case generators, Python->Gallina term printer, canonicalisation, comparison glue",
    "the hand-written Gallina model is tied to /repo only by the differential run of this check (E1)",
]


def write_evidence(ctx, *, evaluations, distinct_nontrivial, rule, samples, trusted_base, assumptions, extra=None):
    pr = ctx.proof or dict(obligations=[], discharged=[], axioms=[])
    cov = dict(obligations=len(pr["obligations"]), discharged=len(pr["discharged"]),
               checker_cmd=f"cd /verif/coq && ./build.sh -k && coqc -Q theories PV -Q gen PVG properties/{ctx.pid}.v "
                           f"(Print Assumptions under every theorem; log in coq/properties/{ctx.pid}.log)",
               trusted_base=TRUSTED_BASE_COMMON + list(trusted_base) +
                            ["axioms reported by Print Assumptions: " + (", ".join(pr["axioms"]) if pr["axioms"] else "none (closed under the global context)")],
               theorems=pr["obligations"], broken=pr.get("broken", []),
               evaluations=int(evaluations), distinct_nontrivial=int(distinct_nontrivial), rule=rule,
               samples=samples[:6], known_findings_reported=ctx.known_lines, notes=ctx.notes[-40:])
    if pr.get("coqchk"):
        cov["coqchk_summary"] = pr["coqchk"][:1500]
    if extra:
        cov.update(extra)
    ev = dict(property_id=ctx.pid, tier=ctx.tier, seed=ctx.seed, level="proof", coverage=cov,
              assumptions=list(assumptions), wall_s=round(time.time() - ctx.t0, 2), violations=len(ctx.violations))
    os.makedirs(os.path.join(VERIF, "evidence"), exist_ok=True)
    json.dump(ev, open(os.path.join(VERIF, "evidence", f"{ctx.pid}.json"), "w"), indent=1, default=str)


def conclude(ctx, *, cases, impl_out, bad_spec, bad_impl, crashed, problem, guard_viol=None, show=None, shrink=None,
             spec_name="Spec", impl_name="Impl", witness_check=None):
    """Common verdict logic (DESIGN.md 2.3).
    bad_spec / bad_impl : indices where the real code differs from the Spec / from the mechanism model Impl
    crashed            : indices where the real-code run failed in a way the model does not predict (harness error / crash)
    guard_viol         : {index: [names of formal guards the case violates]}; a case outside the guard of a *listed* known finding
                         is attributed to that finding
    show(case, out)    : extra diagnostic dict for the replay file;  shrink(case) -> smaller failing case
    witness_check(f)   : re-runs the committed witness of known finding f on the real code, True if it still fails."""
    guard_viol = guard_viol or {}
    findings = known_findings(ctx.pid)
    listed = {f.get("guard") for f in findings}
    attributed, fresh = {}, []
    for i in sorted(set(bad_spec) | set(crashed)):
        gv = [g for g in guard_viol.get(i, []) if g in listed]
        if gv:
            attributed.setdefault(gv[0], []).append(i)
        else:
            fresh.append(i)
    reported = False
    for i in fresh[:3]:
        case = cases[i]
        if shrink and i in bad_spec:
            try:
                case = shrink(case)
            except Exception as e:
                ctx.note(f"shrinking failed: {e}")
        payload = dict(case=case, implementation_output=impl_out[i] if case is cases[i] else "(re-run on the shrunk case: see diagnostic)",
                       what=f"the real code disagrees with {spec_name} on this input", guards_violated=guard_viol.get(i, []))
        if show:
            try:
                payload["diagnostic"] = show(case)
            except Exception as e:
                payload["diagnostic"] = f"(diagnostic failed: {e})"
        violation(ctx, write_replay(ctx, "counterexample", payload)); reported = True
    drift = [i for i in bad_impl if i not in bad_spec and i not in crashed]
    drift_in = [i for i in drift if not guard_viol.get(i)]
    if drift_in and not reported:
        i = drift_in[0]
        payload = dict(broken=f"correspondence: real code = {impl_name} (mechanism model); the code still meets {spec_name} on everything explored",
                       case=cases[i], implementation_output=impl_out[i], cases_affected=len(drift_in))
        if show:
            try:
                payload["diagnostic"] = show(cases[i])
            except Exception as e:
                payload["diagnostic"] = f"(diagnostic failed: {e})"
        violation(ctx, write_replay(ctx, "correspondence", payload), no_input=True); reported = True
    if drift and not drift_in:
        ctx.note(f"{len(drift)} cases outside the guards agree with {spec_name} but not with {impl_name}: the code is better than the model there (no alarm)")
    if problem and not reported:
        violation(ctx, write_replay(ctx, "proof", dict(broken=problem, searched_cases=len(cases))), no_input=True); reported = True
    for f in findings:
        still = True
        if witness_check:
            try:
                still = witness_check(f)
            except Exception as e:
                ctx.note(f"witness of {f['id']} could not be replayed: {e}")
        n_attr = len(attributed.get(f.get("guard"), []))
        if still:
            known(ctx, f"{f['id']}: {f['text']} (witness still fails; {n_attr} generated cases of this class attributed)")
        else:
            ctx.note(f"known finding {f['id']} no longer reproduces on its committed witness")
    return dict(attributed={k: len(v) for k, v in attributed.items()}, fresh=len(fresh), drift=len(drift))


def load_corpus(pid):
    cdir = os.path.join(VERIF, "corpus", pid)
    if not os.path.isdir(cdir):
        return []
    return [json.load(open(os.path.join(cdir, f))) for f in sorted(os.listdir(cdir)) if f.endswith(".json")]


def canon(x):
    return json.dumps(x, sort_keys=True, default=str)
