"""Helpers used inside worker processes (real PyRates side)."""
import os, sys, gc, glob, warnings
from fractions import Fraction
import numpy as np

warnings.filterwarnings("ignore")


def frac(x):
    """Exact rational of a float (or numpy scalar); serialised as 'p/q'."""
    f = Fraction(float(x))
    return f"{f.numerator}/{f.denominator}"


def fracs(a):
    a = np.asarray(a, dtype=np.float64)
    return [frac(v) for v in a.reshape(-1)]


def F(s):
    """parse 'p/q' or int or float-string into Fraction"""
    if isinstance(s, (int, float)):
        return Fraction(s)
    return Fraction(s)


def f2float(s):
    return float(Fraction(s))


def reset_pyrates():
    """Bring every process-global cache of PyRates back to its import-time state (used between independent cases;
    C13 is the property that is *about* these caches and does not use this)."""
    from pyrates.frontend import template as _t
    from pyrates.frontend.template import circuit as _fc
    from pyrates.frontend.template.operator import OperatorTemplate
    from pyrates.ir import node as _n, circuit as _c
    from pyrates.backend import parser as _p
    from pyrates.backend.base import base_backend as _bb
    _t.template_cache.clear()
    OperatorTemplate.cache.clear()
    _n.node_cache.clear(); _n.op_cache.clear(); _n.node_labels.clear()
    _c.in_edge_indices.clear(); _c.in_edge_vars.clear()
    _fc.input_labels.clear()
    _bb._compiled_module_cache.clear()
    for m in list(sys.modules):
        mod = sys.modules[m]
        f = getattr(mod, "__file__", None)
        if f and os.path.dirname(os.path.abspath(f)) == os.getcwd():
            del sys.modules[m]
    for pat in ("*.py", "*.f90", "*.so", "*.pyf", "c.*", "*.mod", "*.o"):
        for f in glob.glob(pat):
            try:
                os.remove(f)
            except OSError:
                pass
    import shutil
    for d in glob.glob("*_build") + glob.glob("__pycache__") + glob.glob("bbdir*"):
        shutil.rmtree(d, ignore_errors=True)
    gc.collect()


def errclass(e):
    return {"err": "raised", "type": type(e).__name__, "msg": str(e)[:200]}
